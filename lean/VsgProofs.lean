import VsgProofs.Lemmas.Engine
import VsgProofs.Lemmas.Extras
import VsgProofs.Properties.C01
import VsgProofs.Properties.C02
import VsgProofs.Properties.C03
import VsgProofs.Properties.C07
import VsgProofs.Lemmas.Lex
import VsgProofs.Properties.C04
