/-
  Case mappings used by the case family (`str.lower()` / `str.upper()`).

  * `asciiLowerC / asciiUpperC`: the ASCII letters only — what CPython does for a `str` whose
    characters are all < 128 (`unicode_lower` → `ascii_upper_or_lower`).
  * `pyLowerS / pyUpperS`: CPython 3.12 `str.lower()` / `str.upper()` from the generated tables
    (`Gen.lowerPairs`, `Gen.lowerMultiMap`, `Gen.upperPairs`, `Gen.upperMultiMap`).  NOT modelled:
    the context rule for capital sigma (`"ΑΣ".lower() == "ας"`): the driver answers `unmodelled`
    for strings that contain U+03A3.
-/
import VsgModel.Tok
import VsgModel.Base.Case
import VsgModel.Generated.CharTables
import Std.Data.HashMap
namespace Vsgm.Base.Case
open Vsgm

def asciiLowerC (c : Char) : Char :=
  if 65 ≤ c.toNat ∧ c.toNat ≤ 90 then Char.ofNat (c.toNat + 32) else c

def asciiUpperC (c : Char) : Char :=
  if 97 ≤ c.toNat ∧ c.toNat ≤ 122 then Char.ofNat (c.toNat - 32) else c

def asciiLowerS (v : Str) : Str := v.map asciiLowerC
def asciiUpperS (v : Str) : Str := v.map asciiUpperC

def isAsciiC (c : Char) : Bool := c.toNat < 128
def isAsciiS (v : Str) : Bool := v.all isAsciiC

/-! ### CPython tables (executable; the theorems use them on ASCII strings only) -/

def lowerPairMap : Std.HashMap Nat Nat := Std.HashMap.ofList Gen.lowerPairs
def upperPairMap : Std.HashMap Nat Nat := Std.HashMap.ofList Gen.upperPairs
def lowerMultiHM : Std.HashMap Nat (List Nat) := Std.HashMap.ofList Gen.lowerMultiMap
def upperMultiHM : Std.HashMap Nat (List Nat) := Std.HashMap.ofList Gen.upperMultiMap

/-- `c.lower()` of one character outside any context -/
def uniLowerC (c : Char) : Str :=
  match lowerMultiHM.get? c.toNat with
  | some l => l.map Char.ofNat
  | none => [Char.ofNat (lowerPairMap.getD c.toNat c.toNat)]

/-- `c.upper()` of one character ('ß' ↦ "SS") -/
def uniUpperC (c : Char) : Str :=
  match upperMultiHM.get? c.toNat with
  | some l => l.map Char.ofNat
  | none => [Char.ofNat (upperPairMap.getD c.toNat c.toNat)]

/-- `str.lower()`: ASCII fast path as in CPython, else character by character (no final-sigma rule) -/
def pyLowerS (v : Str) : Str := if isAsciiS v then asciiLowerS v else v.flatMap uniLowerC

/-- `str.upper()` -/
def pyUpperS (v : Str) : Str := if isAsciiS v then asciiUpperS v else v.flatMap uniUpperC

/-- the interpreter restricted to ASCII letters (what CPython does on ASCII strings); the regex
    engine stays a parameter.  The theorems are instantiated with this environment, and the driver
    (`caseu`) uses it whenever every string of a request is ASCII. -/
def asciiEnv (fm : String → Str → Bool) : Env :=
  { lowerS := asciiLowerS, upperS := asciiUpperS, fullmatch := fm }

/-- the CPython tables -/
def pyEnv (fm : String → Str → Bool) : Env :=
  { lowerS := pyLowerS, upperS := pyUpperS, fullmatch := fm }

/-- ASCII requests run the ASCII environment, all others the CPython tables -/
def envFor (strings : List Str) (fm : String → Str → Bool) : Env :=
  if strings.all isAsciiS then asciiEnv fm else pyEnv fm

/-- strings on which `pyLowerS` is not CPython's `lower()` (capital sigma is context dependent) -/
def hasCapitalSigma (v : Str) : Bool := v.any (fun c => c.toNat == 931)

end Vsgm.Base.Case
