/-
  Driver mode `ws` (whitespace family).  One request per line, fields separated by TAB:
    G <owner> <params> <action> <tokens>   →  G <layout guard 0/1> <line-break guard 0/1>
    A <number_of_spaces val> <tokens>      →  A clean | A spaces <val> | A err <PyErr>      (`_analyze` of one TOI)
    I <number_of_spaces val> <tokens>      →  I <shapeOk 0/1> <idemGuard 0/1>
  params / action / val in the wire format of KV.lean, tokens in the wire format of Wire.lean.
-/
import VsgModel.Base.Whitespace
import VsgModel.Wire
namespace Vsgm.Base
open Vsgm Vsgm.Wire

def b01 (b : Bool) : String := if b then "1" else "0"

def encVal : Val → String
  | .int i => s!"i{i}"
  | .none => "n"
  | .bool b => if b then "b1" else "b0"
  | .str s => "s" ++ encStr s
  | _ => "?"

def errName : PyErr → String
  | .indexError => "IndexError"
  | .typeError => "TypeError"
  | .keyError _ => "KeyError"
  | .attributeError => "AttributeError"
  | .valueError => "ValueError"
  | .unmodelled w => "unmodelled:" ++ w

partial def wsLoop (h : IO.FS.Stream) (out : IO.FS.Stream) : IO Unit := do
  let line ← h.getLine
  if line.isEmpty then return ()
  let line := if line.endsWith "\n" then (line.dropEnd 1).toString else line
  match line.splitOn "\t" with
  | ["G", owner, ps, ac, ts] =>
    let old := (decToks ts).map (·.tok)
    let p := Dec.kv ps
    let a := Dec.kv ac
    out.putStrLn s!"G {b01 (wsGuard (fun k => k.isLayout) owner p a old)} {b01 (wsGuard (fun k => k != .cr) owner p a old)}"
  | ["A", nv, ts] =>
    let l := (decToks ts).map (·.tok)
    match nosOf (some (Dec.val nv)) with
    | .error e => out.putStrLn ("A err " ++ errName e)
    | .ok nos =>
      match WsBetween.analyzeToi nos l with
      | .error e => out.putStrLn ("A err " ++ errName e)
      | .ok .clean => out.putStrLn "A clean"
      | .ok (.spaces v) => out.putStrLn ("A spaces " ++ encVal v)
  | ["I", nv, ts] =>
    let l := (decToks ts).map (·.tok)
    match nosOf (some (Dec.val nv)) with
    | .error e => out.putStrLn ("I err " ++ errName e)
    | .ok nos => out.putStrLn s!"I {b01 (WsBetween.shapeOk l)} {b01 (WsBetween.idemGuard nos l)}"
  | _ => out.putStrLn "error bad line"
  wsLoop h out

def wsMain (stdin stdout : IO.FS.Stream) : IO Unit := do
  wsLoop stdin stdout
  stdout.flush

end Vsgm.Base
