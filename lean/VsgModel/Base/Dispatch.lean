/-
  Layer B dispatch: `_fix_violation` owner (fully qualified class name) ↦ Lean model.
  `none` = this owner is not modelled (layer U).
-/
import VsgModel.Base.KV
import VsgModel.Base.Align
import VsgModel.Base.Case
import VsgModel.Base.LineStruct
import VsgModel.Base.Indent
import VsgModel.Base.BlankLine
import VsgModel.Base.Whitespace
import VsgModel.Generated.Classes
import VsgModel.Base.DispatchStruct
import VsgModel.Base.Multi
namespace Vsgm.Base
open Vsgm

def alignOwners : List String :=
  ["vsg.rules.align_tokens_in_region_between_tokens.align_tokens_in_region_between_tokens",
   "vsg.rules.align_tokens_in_region_between_tokens_unless_between_tokens.align_tokens_in_region_between_tokens_unless_between_tokens",
   "vsg.rules.align_tokens_in_region_between_tokens_skipping_lines_starting_with_tokens.align_tokens_in_region_between_tokens_skipping_lines_starting_with_tokens",
   "vsg.rules.align_tokens_in_region_between_tokens_when_between_tokens_unless_between_tokens.align_tokens_in_region_between_tokens_when_between_tokens_unless_between_tokens"]

/-- owners of `token_indent._fix_violation` (the `token_indent_*` variants inherit it unchanged and
    never own it in the rule table; they are listed for completeness) -/
def indentOwners : List String :=
  ["vsg.rules.token_indent.token_indent",
   "vsg.rules.token_indent_between_tokens.token_indent_between_tokens",
   "vsg.rules.token_indent_between_tokens_unless_between_tokens.token_indent_between_tokens_unless_between_tokens",
   "vsg.rules.token_indent_unless_between_tokens.token_indent_unless_between_tokens"]

def blankBelowOwners : List String :=
  ["vsg.rules.blank_line_below_line_ending_with_token.blank_line_below_line_ending_with_token"]

def blankAboveOwners : List String :=
  ["vsg.rules.previous_line.previous_line",
   "vsg.rules.blank_line_above_line_starting_with_token.blank_line_above_line_starting_with_token"]

def excessAboveOwners : List String :=
  ["vsg.rules.remove_excessive_blank_lines_above_line_starting_with_token.remove_excessive_blank_lines_above_line_starting_with_token"]

def excessBelowOwners : List String :=
  ["vsg.rules.remove_excessive_blank_lines_below_line_ending_with_token.remove_excessive_blank_lines_below_line_ending_with_token"]

def removeAboveOwners : List String :=
  ["vsg.rules.remove_blank_lines_above_line_starting_with_token.remove_blank_lines_above_line_starting_with_token"]

def ws200Owners : List String := ["vsg.rules.whitespace.rule_200.rule_200"]

def betweenPairsOwners : List String :=
  ["vsg.rules.blank_lines_between_token_pairs.blank_lines_between_token_pairs"]

/-- every owner of the vertical-spacing family -/
def blankLineOwners : List String :=
  blankBelowOwners ++ blankAboveOwners ++ excessAboveOwners ++ excessBelowOwners ++ removeAboveOwners ++
    ws200Owners ++ betweenPairsOwners

/-- `token_case._fix_violation` (243 rules inherit it) -/
def caseTokenOwners : List String :=
  ["vsg.rules.token_case.token_case"]

/-- `lTokens[dAction["index"]].set_value(dAction["value"])` -/
def caseFormalOwners : List String :=
  ["vsg.rules.token_case_formal_part_of_association_element_in_map_between_tokens.token_case_formal_part_of_association_element_in_map_between_tokens"]

/-- `lTokens[0].set_value(dAction["expected"])` -/
def caseConsistentOwners : List String :=
  ["vsg.rules.consistent_token_case.consistent_token_case"]

/-- `lTokens[0].set_value(dAction["value"])` -/
def caseInterfaceOwners : List String :=
  ["vsg.rules.consistent_interface_token_case.consistent_interface_token_case",
   "vsg.rules.consistent_subprogram_parameter_token_case.consistent_subprogram_parameter_token_case"]

/-- every `_fix_violation` of the case family -/
def caseOwners : List String :=
  caseTokenOwners ++ caseFormalOwners ++ caseConsistentOwners ++ caseInterfaceOwners

/-- the action dictionary `case_utils.create_case_violation` builds -/
def caseActionKV (a : Case.Action) : KV :=
  [("value", match a.value with | some e => Val.str e | none => Val.none), ("index", Val.int a.index)]

/-- the action dictionaries of the three `consistent_*` analyses -/
def consistentActionKV (key : String) (e : Str) : KV := [(key, Val.str e)]

/-- a string-or-None entry of an action dictionary -/
def needOptStr (kv : KV) (k : String) : Except PyErr (Option Str) :=
  match kv.get k with
  | some (.str s) => .ok (some s)
  | some .none => .ok none
  | some _ => .error (.unmodelled "value that is neither str nor None")
  | none => .error (.keyError k)

def needInt (kv : KV) (k : String) : Except PyErr Int :=
  match kv.int? k with
  | some i => .ok i
  | none => .error (.keyError k)

def needStr (kv : KV) (k : String) : Except PyErr Str :=
  match kv.str? k with
  | some s => .ok s
  | none => .error (.keyError k)

/-- the indent oracle of the harvested tokens: action key `_indents` = list of int / None, one per
    token of interest (a position outside the list reads as `None`) -/
def indentOracle (action : KV) : Nat → Option Int :=
  match action.get "_indents" with
  | some (.list vs) => fun i => match vs[i]? with | some (.int k) => some k | _ => none
  | _ => fun _ => none

/-- a plain-string action arrives under the key `_str`; any other action object is not equal to
    any string literal -/
def strAction (action : KV) : Str :=
  match action.get "_str" with
  | some (.str s) => s
  | _ => []

/-- the action object is a dict (a string arrives under `_str`, `None` under `_none`, anything else
    under `_other`: subscripting those with a string key raises TypeError) -/
def actionIsDict (action : KV) : Bool :=
  (action.get "_str").isNone && (action.get "_none").isNone && (action.get "_other").isNone

/-- `dAction["action"]` of the blank-line rules: TypeError if the action is not a dict, KeyError if the
    key is absent; a non-string value compares unequal to "Insert" and "Remove" (modelled by the empty
    string) -/
def dictAction (action : KV) : Except PyErr Str :=
  if !actionIsDict action then .error .typeError else
  match action.get "action" with
  | none => .error (.keyError "action")
  | some (.str s) => .ok s
  | some _ => .ok []

/-- `dAction[k]` used as a slice bound: an int, or `None` (a legal slice bound); anything else: TypeError -/
def actBound (action : KV) (k : String) : Except PyErr (Option Int) :=
  if !actionIsDict action then .error .typeError else
  match action.get k with
  | none => .error (.keyError k)
  | some (.int i) => .ok (some i)
  | some .none => .ok none
  | some _ => .error .typeError

/-- `2 * dAction[k]` used as a slice bound: `2 * None` is a TypeError -/
def actTwice (action : KV) (k : String) : Except PyErr Int := do
  match (← actBound action k) with
  | some i => pure i
  | none => throw .typeError

/-- class indices of the layout tokens the line-structure fixes create -/
def lineCls : LineStruct.Cls := { ws := Gen.wsCls, cr := Gen.crCls, blank := Gen.blankCls }

/-- the class facts of the pinned tree for the multi-line structure family (`Multi.lean`) -/
def multiEnv : Multi.MEnv :=
  { isa := Gen.isa, kindOf := Wire.kindOfCls, c := lineCls,
    afterCls := Gen.afterKeywordCls, todoCls := Gen.todoCls, risingCls := Gen.risingEdgeCls,
    fallingCls := Gen.fallingEdgeCls, openParenCls := Gen.openParenCls, closeParenCls := Gen.closeParenCls,
    ticCls := Gen.ticCls, eventCls := Gen.eventKeywordCls, andCls := Gen.andOperatorCls,
    equalCls := Gen.relationalEqualCls, charLitCls := Gen.characterLiteralCls }

/-- every owner served by an arm in front of the structure-family dispatcher -/
def earlierOwners : List String :=
  alignOwners ++ indentOwners ++ blankBelowOwners ++ blankAboveOwners ++ excessAboveOwners ++ excessBelowOwners ++
    removeAboveOwners ++ ws200Owners ++ betweenPairsOwners ++ wsOwners ++ caseTokenOwners ++ caseFormalOwners ++
    caseConsistentOwners ++ caseInterfaceOwners ++ LineStruct.allOwners ++ Multi.allOwners

/-- the model of `owner._fix_violation` applied to the tokens of interest -/
def fixByOwner (owner : String) (params action : KV) (old : List Tok) : Option (Except PyErr (List Tok)) :=
  if owner ∈ alignOwners then
    some (do
      let ti ← needInt action "token_index"
      let adj ← needInt action "adjust"
      Align.fixV Gen.wsCls ti adj old)
  else if owner ∈ indentOwners then
    some (do
      let size ← needInt params "indent_size"
      let style ← needStr params "indent_style"
      Indent.fixV Gen.wsCls style size (strAction action) (indentOracle action) old)
  else if owner ∈ blankBelowOwners then
    some (do
      let a ← dictAction action
      BlankLine.belowFixV Gen.crCls Gen.blankCls a old)
  else if owner ∈ blankAboveOwners then
    some (do
      let a ← dictAction action
      BlankLine.aboveFixV Gen.crCls Gen.blankCls a old)
  else if owner ∈ excessAboveOwners then
    some (do
      let i ← actBound action "index"
      BlankLine.excessAboveFixV i old)
  else if owner ∈ excessBelowOwners then
    some (do
      let r ← actTwice action "remove"
      BlankLine.excessBelowFixV r old)
  else if owner ∈ removeAboveOwners then
    some (do
      let i ← actBound action "remove_to_index"
      BlankLine.removeAboveFixV i old)
  else if owner ∈ ws200Owners then
    some (do
      let r ← actTwice action "remove"
      BlankLine.ws200FixV r old)
  else if owner ∈ betweenPairsOwners then
    some (BlankLine.betweenPairsFixV old)
  else if owner ∈ wsOwners then wsFixByOwner owner params action old
  else if owner ∈ caseTokenOwners then
    some (do
      let v ← needOptStr action "value"
      Case.TokenCase.fixV { value := v, index := 0 } old)
  else if owner ∈ caseFormalOwners then
    some (do
      let i ← needInt action "index"
      Case.FormalPart.fixV i (needOptStr action "value") old)
  else if owner ∈ caseConsistentOwners then
    some (Case.Consistent.fixV (needOptStr action "expected") old)
  else if owner ∈ caseInterfaceOwners then
    some (Case.Consistent.fixV (needOptStr action "value") old)
  else if owner ∈ LineStruct.allOwners then LineStruct.fixByOwner lineCls owner params action old
  else if owner ∈ Multi.allOwners then Multi.fixByOwner multiEnv owner params action old
  else fixStruct stdEnv owner params action old

end Vsgm.Base
