/-
  Layer B dispatch: `_fix_violation` owner (fully qualified class name) ↦ Lean model.
  `none` = this owner is not modelled (layer U).
-/
import VsgModel.Base.KV
import VsgModel.Base.Align
import VsgModel.Generated.Classes
namespace Vsgm.Base
open Vsgm

def alignOwners : List String :=
  ["vsg.rules.align_tokens_in_region_between_tokens.align_tokens_in_region_between_tokens",
   "vsg.rules.align_tokens_in_region_between_tokens_unless_between_tokens.align_tokens_in_region_between_tokens_unless_between_tokens",
   "vsg.rules.align_tokens_in_region_between_tokens_skipping_lines_starting_with_tokens.align_tokens_in_region_between_tokens_skipping_lines_starting_with_tokens",
   "vsg.rules.align_tokens_in_region_between_tokens_when_between_tokens_unless_between_tokens.align_tokens_in_region_between_tokens_when_between_tokens_unless_between_tokens"]

def needInt (kv : KV) (k : String) : Except PyErr Int :=
  match kv.int? k with
  | some i => .ok i
  | none => .error (.keyError k)

/-- the model of `owner._fix_violation` applied to the tokens of interest -/
def fixByOwner (owner : String) (_params action : KV) (old : List Tok) : Option (Except PyErr (List Tok)) :=
  if owner ∈ alignOwners then
    some (do
      let ti ← needInt action "token_index"
      let adj ← needInt action "adjust"
      Align.fixV Gen.wsCls ti adj old)
  else none

end Vsgm.Base
