/-
  Layer B, structure family: what the `_fix_violation` models of the token-adding / token-removing
  base classes share.
  * `Env`: the facts about token *classes* the Python code tests with `isinstance` / obtains by
    calling a constructor (`parser.whitespace(" ")`, `parser.open_parenthesis()` …).  The
    theorems quantify over every `Env`; the driver instantiates it from the generated class
    tree (`Generated/ClassTree.lean`).
  * Python slices with clamping, `rules_utils.get_last_index_of_token_in_list`,
    `utils.remove_consecutive_whitespace_tokens`, `utils.remove_carriage_returns_from_token_list`,
    `rules_utils.remove_optional_item`.
-/
import VsgModel.Base.KV
namespace Vsgm.Base
open Vsgm

/-- class facts used by the structure fixers -/
structure Env where
  /-- `isinstance(<token of class c>, <class p>)` -/
  isa : Nat → Nat → Bool
  /-- lexical kind of a freshly constructed token of class `c` -/
  kindOf : Nat → Kind
  wsCls : Nat
  crCls : Nat
  semicolonCls : Nat            -- parser.semicolon
  openParenCls : Nat            -- parser.open_parenthesis
  closeParenCls : Nat           -- parser.close_parenthesis
  ifaceSemicolonCls : Nat       -- token.interface_list.semicolon

namespace Env
variable (E : Env)
/-- `parser.whitespace(s)` -/
def ws (s : Str) : Tok := { cls := E.wsCls, kind := .ws, val := s }
/-- `parser.carriage_return()` (value "\n") -/
def cr : Tok := { cls := E.crCls, kind := .cr, val := ['\n'] }
/-- `cls(value)`: a token class instantiated with a value -/
def inst (cls : Nat) (v : Str) : Tok := { cls := cls, kind := E.kindOf cls, val := v }
/-- `isinstance(t, parser.whitespace)` -/
def isWs (t : Tok) : Bool := t.kind == .ws
end Env

def needBoolS (kv : KV) (k : String) : Except PyErr Bool :=
  match kv.get k with
  | some (.bool b) => .ok b
  | some _ => .error (.unmodelled ("non-bool " ++ k))
  | none => .error (.keyError k)

def needStrS (kv : KV) (k : String) : Except PyErr Str :=
  match kv.get k with
  | some (.str s) => .ok s
  | some _ => .error (.unmodelled ("non-str " ++ k))
  | none => .error (.keyError k)

def needIntS (kv : KV) (k : String) : Except PyErr Int :=
  match kv.get k with
  | some (.int i) => .ok i
  | some _ => .error (.typeError)
  | none => .error (.keyError k)

def needTok (kv : KV) (k : String) : Except PyErr Tok :=
  match kv.get k with
  | some (.tok t) => .ok t
  | some _ => .error (.unmodelled ("non-token " ++ k))
  | none => .error (.keyError k)

/-- a list-valued entry (a Python list of arbitrary items) -/
def needList (kv : KV) (k : String) : Except PyErr (List Val) :=
  match kv.get k with
  | some (.list l) => .ok l
  | some _ => .error (.unmodelled ("non-list " ++ k))
  | none => .error (.keyError k)

/-- the items of a Python list an `int` can be `==` to (`True == 1`, `False == 0`) -/
def intsOf : List Val → List Int
  | [] => []
  | .int i :: r => i :: intsOf r
  | .bool b :: r => (if b then 1 else 0) :: intsOf r
  | _ :: r => intsOf r

/-- a list all of whose items must be tokens (`list.extend(<list of tokens>)`) -/
def toksOf : List Val → Except PyErr (List Tok)
  | [] => .ok []
  | .tok t :: r => do let r' ← toksOf r; .ok (t :: r')
  | _ :: _ => .error (.unmodelled "non-token item")

/-- a list all of whose items must be ints -/
def intsStrict : List Val → Except PyErr (List Int)
  | [] => .ok []
  | .int i :: r => do let r' ← intsStrict r; .ok (i :: r')
  | _ :: _ => .error (.unmodelled "non-int item")

/-- Python slice bound: negative counts from the end, then clamped to `0 … n` -/
def clampIdx (n : Nat) (i : Int) : Nat :=
  if i < 0 then (i + n).toNat else min i.toNat n

/-- `l[:i]` -/
def pyTo {α : Type} (l : List α) (i : Int) : List α := l.take (clampIdx l.length i)
/-- `l[i:]` -/
def pyFrom {α : Type} (l : List α) (i : Int) : List α := l.drop (clampIdx l.length i)

/-- `rules_utils.get_last_index_of_token_in_list(cls, l)` with the class test abstracted -/
def lastIdxAux (p : Tok → Bool) : List Tok → Nat → Option Nat → Option Nat
  | [], _, acc => acc
  | t :: r, i, acc => lastIdxAux p r (i + 1) (if p t then some i else acc)

def lastIdx (p : Tok → Bool) (l : List Tok) : Option Nat := lastIdxAux p l 0 none

/-- `utils.remove_consecutive_whitespace_tokens`: a whitespace token is dropped when the token
    before it IN THE INPUT LIST is a whitespace token -/
def rcwAux : Tok → List Tok → List Tok
  | _, [] => []
  | prev, t :: r => (if t.kind == .ws && prev.kind == .ws then [] else [t]) ++ rcwAux t r

def rcw : List Tok → List Tok
  | [] => []
  | t :: r => t :: rcwAux t r

/-- `utils.remove_carriage_returns_from_token_list` -/
def dropCr (l : List Tok) : List Tok := l.filter (fun t => !(t.kind == .cr))

/-- `rules_utils.remove_optional_item(oViolation)`: the tokens of interest are the optional token
    and the token before it -/
def removeOptionalItem (l : List Tok) : Except PyErr (List Tok) := do
  let t0 ← pyGet l 0
  if t0.kind == .ws then .ok [] else .ok [t0]

/-- `rules_utils.insert_whitespace(lTokens, index)` -/
def insertWs (E : Env) (l : List Tok) (i : Int) : Except PyErr (List Tok) := insertToken l i (E.ws [' '])

end Vsgm.Base
