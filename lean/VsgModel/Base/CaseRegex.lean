/-
  Executable glue for the `caseu` correspondence: the five fixed patterns of case_utils.py as
  Brzozowski-derivative matchers (no proofs depend on this file: the theorems quantify over
  `Env.fullmatch`).

    camelCase         (?!.*[A-Z]{3})[a-z][a-zA-Z0-9]*
    relaxedCamelCase  (?:[a-z])+(?:[a-z0-9])*((?:[A-Z])+(?:[a-z0-9])+)*([A-Z])?
    PascalCase        (?!.*[A-Z]{3})[A-Z][a-zA-Z0-9]*
    RelaxedPascalCase ((?:[A-Z])+(?:[a-z0-9])+)+([A-Z]*)?
    Pascal_Snake_Case (?!.*[A-Z]{3})[A-Z][a-z0-9]*(?:_[A-Z0-9][a-z0-9]*)*
-/
import VsgModel.Tok
namespace Vsgm.Base.Case.Rx
open Vsgm

inductive Re where
  | empty
  | eps
  | cls (ranges : List (Nat × Nat))
  | seq (a b : Re)
  | alt (a b : Re)
  | star (a : Re)
  deriving DecidableEq, Repr

def Re.nullable : Re → Bool
  | .empty => false
  | .eps => true
  | .cls _ => false
  | .seq a b => a.nullable && b.nullable
  | .alt a b => a.nullable || b.nullable
  | .star _ => true

def mkSeq (a b : Re) : Re :=
  match a, b with
  | .empty, _ => .empty
  | _, .empty => .empty
  | .eps, b => b
  | a, .eps => a
  | a, b => .seq a b

def mkAlt (a b : Re) : Re :=
  match a, b with
  | .empty, b => b
  | a, .empty => a
  | a, b => if a == b then a else .alt a b

def Re.deriv (c : Char) : Re → Re
  | .empty => .empty
  | .eps => .empty
  | .cls rs => if rs.any (fun r => r.1 ≤ c.toNat && c.toNat ≤ r.2) then .eps else .empty
  | .seq a b =>
    let d := mkSeq (a.deriv c) b
    if a.nullable then mkAlt d (b.deriv c) else d
  | .alt a b => mkAlt (a.deriv c) (b.deriv c)
  | .star a => mkSeq (a.deriv c) (.star a)

def Re.fullmatch (r : Re) (s : Str) : Bool := (s.foldl (fun r c => r.deriv c) r).nullable

def plus (a : Re) : Re := .seq a (.star a)
def opt (a : Re) : Re := .alt a .eps

def lo : Re := .cls [(97, 122)]
def up : Re := .cls [(65, 90)]
def ld : Re := .cls [(97, 122), (48, 57)]
def ud : Re := .cls [(65, 90), (48, 57)]
def alnum : Re := .cls [(97, 122), (65, 90), (48, 57)]
def us : Re := .cls [(95, 95)]

def isUp (c : Char) : Bool := 65 ≤ c.toNat && c.toNat ≤ 90

/-- `(?!.*[A-Z]{3})` at position 0 of a string without line breaks -/
def noThreeUpper : Str → Bool
  | a :: b :: c :: r => !(isUp a && isUp b && isUp c) && noThreeUpper (b :: c :: r)
  | _ => true

def camelCase (s : Str) : Bool := noThreeUpper s && (Re.seq lo (.star alnum)).fullmatch s
def relaxedCamelCase (s : Str) : Bool :=
  (Re.seq (plus lo) (.seq (.star ld) (.seq (.star (.seq (plus up) (plus ld))) (opt up)))).fullmatch s
def pascalCase (s : Str) : Bool := noThreeUpper s && (Re.seq up (.star alnum)).fullmatch s
def relaxedPascalCase (s : Str) : Bool :=
  (Re.seq (plus (.seq (plus up) (plus ld))) (opt (.star up))).fullmatch s
def pascalSnakeCase (s : Str) : Bool :=
  noThreeUpper s && (Re.seq up (.seq (.star ld) (.star (.seq us (.seq ud (.star ld)))))).fullmatch s

/-- the fixed styles; `regex` (a user pattern) is answered from a table supplied on the wire -/
def builtin (regexMatches : List Str) (name : String) (w : Str) : Bool :=
  if name == "camelCase" then camelCase w
  else if name == "relaxedCamelCase" then relaxedCamelCase w
  else if name == "PascalCase" then pascalCase w
  else if name == "RelaxedPascalCase" then relaxedPascalCase w
  else if name == "Pascal_Snake_Case" then pascalSnakeCase w
  else regexMatches.contains w

end Vsgm.Base.Case.Rx
