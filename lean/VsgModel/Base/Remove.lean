/-
  B-fix, remove family.
    vsg/rules/remove_tokens_bounded_by_tokens_and_remove_trailing_whitespace.py:41-42   `set_tokens([])`
    vsg/rules/remove_tokens.py:40-44                                                    `pop(1)` + remove_consecutive_whitespace_tokens
    vsg/rules/remove_comments_from_end_of_lines_bounded_by_tokens.py:59-61              every violation of the rule: `set_tokens([])`
-/
import VsgModel.Base.StructCommon
namespace Vsgm.Base.Remove
open Vsgm Vsgm.Base

/-- `remove_tokens_bounded_by_tokens_and_remove_trailing_whitespace._fix_violation` -/
def fixBounded (_l : List Tok) : Except PyErr (List Tok) := .ok []

/-- `remove_tokens._fix_violation` -/
def fixRemoveTokens (l : List Tok) : Except PyErr (List Tok) := do
  let (_, l1) ← pyPop l 1
  .ok (rcw l1)

/-- `remove_comments_from_end_of_lines_bounded_by_tokens._fix_violation`: the loop sets the tokens
    of EVERY violation of the rule (this one included) to `[]`, on each call -/
def fixRemoveComments (_l : List Tok) : Except PyErr (List Tok) := .ok []

end Vsgm.Base.Remove
