/-
  B-fix, declaration splitters.
    vsg/rules/separate_multiple_signal_identifiers_into_individual_statements.py:71-89  (signal_015)
    vsg/rules/port/rule_026.py:79-96                                                     (port_026)
  `copy.deepcopy(token)` is the identity on the model's (value) tokens.
-/
import VsgModel.Base.StructCommon
namespace Vsgm.Base.Split
open Vsgm Vsgm.Base

/-- the inner loop of signal_015 for one identifier: tokens before `start`, the identifier in place
    of the token at `start`, tokens after `end` — the three `if`s are independent -/
def sigOne (start stop : Int) (ident : Tok) : List Tok → Nat → List Tok
  | [], _ => []
  | t :: r, i =>
    (if (i : Int) < start then [t] else []) ++ (if (i : Int) = start then [ident] else []) ++
      (if (i : Int) > stop then [t] else []) ++ sigOne start stop ident r (i + 1)

/-- `lFinalTokens` before the final `pop()` -/
def sigAll (E : Env) (start stop : Int) (l : List Tok) : List Tok → List Tok
  | [] => []
  | ident :: ids => dropCr (sigOne start stop ident l 0) ++ [E.cr] ++ sigAll E start stop l ids

/-- `separate_multiple_signal_identifiers_into_individual_statements._fix_violation` -/
def fixSignal (E : Env) (action : KV) (l : List Tok) : Except PyErr (List Tok) := do
  let idsV ← needList action "identifiers"
  let ids ← toksOf idsV
  match ids with
  | [] => .error .indexError          -- `lFinalTokens.pop()` on the empty list
  | _ :: _ => do
    -- `iToken < dAction["start"]` is evaluated for the first token of a non-empty list
    if l.isEmpty then .ok ((sigAll E 0 0 l ids).dropLast) else do
    let start ← needIntS action "start"
    let stop ← needIntS action "end"
    .ok ((sigAll E start stop l ids).dropLast)

/-- port_026: the tokens emitted for one identifier index -/
def portOne (E : Env) (split : Int) (last : Int) (l : List Tok) (i : Int) : Except PyErr (List Tok) := do
  let t ← pyGet l i
  .ok ([t] ++ pyFrom l split ++
    (if i != last then [E.inst E.ifaceSemicolonCls [';'], E.cr] else []))

def portAll (E : Env) (split : Int) (last : Int) (l : List Tok) : List Int → Except PyErr (List Tok)
  | [] => .ok []
  | i :: is => do
    let a ← portOne E split last l i
    let b ← portAll E split last l is
    .ok (a ++ b)

/-- `port.rule_026._fix_violation` -/
def fixPort (E : Env) (action : KV) (l : List Tok) : Except PyErr (List Tok) := do
  let idxV ← needList action "identifier_indexes"
  let idx ← intsStrict idxV
  match idx.getLast? with
  | none => .ok []
  | some last => do
    let split ← needIntS action "split_index"
    portAll E split last l idx

end Vsgm.Base.Split
