/-
  B-fix: the whitespace base classes (phase 2, ≈190 rules) and the individual whitespace rules.

  * `WsBetween`  vsg/rules/whitespace_between_tokens.py  `Rule._fix_violation` (171 rules inherit it, also
                 through whitespace_between_token_pairs, whitespace_after_token, whitespace_before_token* …)
                 + B-full: `_analyze` per token list of interest and the `number_of_spaces` forms
  * `NSpaces`    vsg/rules/n_spaces_before_and_after_tokens.py
  * `Bounded`    vsg/rules/spaces_before_and_after_tokens_when_bounded_by_tokens.py
  * `RemoveBefore` vsg/rules/remove_spaces_before_token_rule.py
  * `Ws001` `Ws002` `Ws005` `Ws008`  vsg/rules/whitespace/rule_00x.py
  * `Comment100` vsg/rules/comment/rule_100.py

  Everything is transcribed AS IS: `isinstance(x, parser.whitespace)` is `x.kind == .ws` (the class table has
  exactly one class of that kind), `x.set_value(s)` is `{ x with val := s }`, `parser.whitespace(s)` is a new
  token of class `wsCls`.  What Python can raise is an `Except PyErr`.
-/
import VsgModel.Base.KV
import VsgModel.Generated.Classes
namespace Vsgm.Base
open Vsgm

/-! ### Python value semantics used by this family -/

def lit (x : String) : Str := x.toList

/-- is the violation's action `None` (never set)?  wire: `__none__=b1` -/
def actionIsNone (a : KV) : Bool := match a.get "__none__" with | some (.bool true) => true | _ => false

/-- `dAction[k]` on the action of a violation -/
def actionGet (a : KV) (k : String) : Except PyErr Val :=
  if actionIsNone a then .error .typeError   -- 'NoneType' object is not subscriptable
  else match a.get k with
    | some v => .ok v
    | none => .error (.keyError k)

/-- `v[k]` for a string key `k` -/
def subscript (v : Val) (k : String) : Except PyErr Val :=
  match v with
  | .dict d => (match (d.find? (·.1 == k)).map (·.2) with
    | some x => .ok x
    | none => .error (.keyError k))
  | _ => .error .typeError

/-- `v == "<lit>"` -/
def eqStr (v : Val) (lit : String) : Bool := match v with | .str s => s == lit.toList | _ => false

/-- a Python int (bool is an int) -/
def asInt (v : Val) : Option Int :=
  match v with
  | .int i => some i
  | .bool b => some (if b then 1 else 0)
  | _ => none

/-- `" " * v` -/
def mulSpace (v : Val) : Except PyErr Str :=
  match asInt v with
  | some i => .ok (spaces i)
  | none => .error .typeError

/-- `rules_utils.insert_token(lTokens, index, oToken)` for an `index` that is any Python value:
    the code-tag copy reads `lTokens[index]` and falls back to `lTokens[0]` on TypeError / IndexError
    (IndexError when the list is empty); `index == "end"` appends; `list.insert` wants an int -/
def insertTokenV {α : Type} (l : List α) (idx : Val) (x : α) : Except PyErr (List α) :=
  match asInt idx with
  | some i => insertToken l i x
  | none =>
    if l.isEmpty then .error .indexError
    else if eqStr idx "end" then .ok (l ++ [x])
    else .error .typeError

def mkWs (wsCls : Nat) (v : Str) : Tok := { cls := wsCls, kind := .ws, val := v }

/-- `rules_utils.insert_whitespace(lTokens, index, num)` (sString defaults to " ") -/
def insertWhitespace (wsCls : Nat) (l : List Tok) (idx : Val) (num : Val) : Except PyErr (List Tok) := do
  let v ← mulSpace num
  insertTokenV l idx (mkWs wsCls v)

/-! ### `number_of_spaces` -/

/-- the configured `number_of_spaces`: an int (bool included) or a string -/
inductive NoS where
  | int (i : Int)
  | str (s : Str)
  deriving DecidableEq, Repr

def nosOf (v : Option Val) : Except PyErr NoS :=
  match v with
  | some (.int i) => .ok (.int i)
  | some (.bool b) => .ok (.int (if b then 1 else 0))
  | some (.str s) => .ok (.str s)
  | _ => .error (.unmodelled "number_of_spaces is neither int nor str")

/-- ASCII code points CPython's `int()` strips (`Py_UNICODE_ISSPACE`): 9–13, 28–31, 32 -/
def isAsciiWs (c : Char) : Bool := (9 ≤ c.toNat && c.toNat ≤ 13) || (28 ≤ c.toNat && c.toNat ≤ 32)

def isDigit (c : Char) : Bool := '0' ≤ c && c ≤ '9'

/-- digits with single underscores between them: value, or none -/
def digitsVal : List Char → Bool → Nat → Option Nat
  | [], prevDigit, acc => if prevDigit then some acc else none
  | c :: r, prevDigit, acc =>
    if isDigit c then digitsVal r true (acc * 10 + (c.toNat - '0'.toNat))
    else if c == '_' && prevDigit && !r.isEmpty then
      (match r with
       | d :: _ => if isDigit d then digitsVal r false acc else none
       | [] => none)
    else none

def stripWs (s : Str) : Str := ((s.dropWhile isAsciiWs).reverse.dropWhile isAsciiWs).reverse

/-- Python `int(s)` for an ASCII string: surrounding whitespace, optional sign, decimal digits with single
    underscores.  Non-ASCII input is outside the model. -/
def pyInt (s : Str) : Except PyErr Int :=
  if s.any (fun c => c.toNat ≥ 128) then .error (.unmodelled "int() of a non-ASCII string") else
  let t := stripWs s
  match t with
  | '-' :: r => (match digitsVal r false 0 with | some n => .ok (-(n : Int)) | none => .error .valueError)
  | '+' :: r => (match digitsVal r false 0 with | some n => .ok (n : Int) | none => .error .valueError)
  | r => (match digitsVal r false 0 with | some n => .ok (n : Int) | none => .error .valueError)

def isGte (s : Str) : Bool := (lit ">=").isPrefixOf s
def isGt (s : Str) : Bool := (lit ">").isPrefixOf s
def isLte (s : Str) : Bool := (lit "<=").isPrefixOf s
def isLt (s : Str) : Bool := (lit "<").isPrefixOf s
def isPlus (s : Str) : Bool := (lit "+").isSuffixOf s

namespace WsBetween

/-- `_fix_violation` of vsg/rules/whitespace_between_tokens.py -/
def fixV (wsCls : Nat) (nos : NoS) (action : KV) (l : List Tok) : Except PyErr (List Tok) :=
  if nos == .int 0 then do
    -- lTokens = [lTokens[0], lTokens[2]]
    let a ← pyGet l 0
    let b ← pyGet l 2
    pure [a, b]
  else do
    let t1 ← pyGet l 1
    if t1.kind == .ws then
      let sp ← actionGet action "spaces"
      let v ← mulSpace sp
      pySet l 1 { t1 with val := v }
    else
      let sp ← actionGet action "spaces"
      insertWhitespace wsCls l (.int 1) sp

/-! #### B-full: `_analyze` of one token list of interest -/

/-- `whitespace_token_exists` + `extract_length_of_whitespace`: `none` = no whitespace token -/
def wsAt (l : List Tok) : Except PyErr (Option Nat) :=
  if l.length == 2 then .ok none
  else do
    let t ← pyGet l 1
    pure (if t.kind == .ws then some t.val.length else none)

/-- `extract_expected_number_of_spaces` (returns None when no form matches) -/
def expected (nos : NoS) : Except PyErr (Option Int) :=
  match nos with
  | .int i => .ok (some i)
  | .str s =>
    if isGte s then (pyInt (s.drop 2)).map some
    else if isGt s then (pyInt (s.drop 1)).map some
    else if isLte s then (pyInt (s.drop 2)).map some
    else if isLt s then (pyInt (s.drop 1)).map some
    else if isPlus s then (pyInt s.dropLast).map some
    else .ok none

/-- `analyze_whitespace_token` for a whitespace token of length `w`: the recorded `spaces`, if any -/
def analyzeWs (nos : NoS) (w : Nat) : Except PyErr (Option Int) :=
  match nos with
  | .int i => .ok (if (w : Int) != i then some i else none)
  | .str s =>
    if isGte s then do
      let k ← pyInt (s.drop 2)
      pure (if (w : Int) < k then some k else none)
    else if isGt s then do
      let k ← pyInt (s.drop 1)
      pure (if (w : Int) < k + 1 then some (k + 1) else none)
    else if isLte s then do
      let k ← pyInt (s.drop 2)
      pure (if (w : Int) > k then some k else none)
    else if isLt s then do
      let k ← pyInt (s.drop 1)
      pure (if (w : Int) > k - 1 then some (k - 1) else none)
    else if isPlus s then do
      let k ← pyInt s.dropLast
      pure (if (w : Int) < k then some k else none)
    else .ok none

/-- result of analysing one TOI -/
inductive Finding where
  | clean
  | spaces (v : Val)     -- the violation's action is `{"spaces": v}`; `v` is an int or None
  deriving Repr

/-- `analyze_no_whitespace_token` -/
def analyzeNoWs (nos : NoS) : Except PyErr Finding :=
  match nos with
  | .str s =>
    if isLte s && isLt s then .ok .clean
    else do   -- `self.number_of_spaces != 0` holds for every string
      let e ← expected nos
      pure (.spaces (match e with | some k => .int k | none => .none))
  | .int i =>
    if i != 0 then .ok (.spaces (.int i)) else .ok .clean

/-- the decision given the whitespace view of the TOI -/
def judge (nos : NoS) (w : Option Nat) : Except PyErr Finding :=
  match w with
  | some n => do
    let r ← analyzeWs nos n
    pure (match r with | some k => .spaces (.int k) | none => .clean)
  | none => analyzeNoWs nos

/-- `_analyze` body for one TOI (`create_solution` only formats a message: it reads `lTokens[2]` when
    the whitespace exists — the list then has ≥ 3 tokens — and `lTokens[1]` otherwise) -/
def analyzeToi (nos : NoS) (l : List Tok) : Except PyErr Finding := do
  let w ← wsAt l
  judge nos w

def Finding.action : Finding → Option KV
  | .clean => none
  | .spaces v => some [("spaces", v)]

/-! #### the same decision over the parsed form of `number_of_spaces`
  (`formOf` applies the tests in the order every Python function applies them: int, `>=`, `>`, `<=`, `<`, `+`;
  the integer is parsed lazily, exactly where Python calls `int()`; `judge = judgeF ∘ formOf` is proved in
  VsgProofs/Lemmas/BaseWsFull.lean) -/

inductive Form where
  | exact (n : Int)
  | gte (k : Except PyErr Int)
  | gt (k : Except PyErr Int)
  | lte (k : Except PyErr Int)
  | lt (k : Except PyErr Int)
  | plus (k : Except PyErr Int)
  | unknown

def formOf (nos : NoS) : Form :=
  match nos with
  | .int n => .exact n
  | .str s =>
    if isGte s then .gte (pyInt (s.drop 2))
    else if isGt s then .gt (pyInt (s.drop 1))
    else if isLte s then .lte (pyInt (s.drop 2))
    else if isLt s then .lt (pyInt (s.drop 1))
    else if isPlus s then .plus (pyInt s.dropLast)
    else .unknown

def analyzeWsF (f : Form) (w : Nat) : Except PyErr (Option Int) :=
  match f with
  | .exact n => .ok (if (w : Int) != n then some n else none)
  | .gte k => do let k ← k; pure (if (w : Int) < k then some k else none)
  | .gt k => do let k ← k; pure (if (w : Int) < k + 1 then some (k + 1) else none)
  | .lte k => do let k ← k; pure (if (w : Int) > k then some k else none)
  | .lt k => do let k ← k; pure (if (w : Int) > k - 1 then some (k - 1) else none)
  | .plus k => do let k ← k; pure (if (w : Int) < k then some k else none)
  | .unknown => .ok none

def analyzeNoWsF (f : Form) : Except PyErr Finding :=
  match f with
  | .exact n => if n != 0 then .ok (.spaces (.int n)) else .ok .clean
  | .lte _ => .ok .clean
  | .gte k => do let k ← k; pure (.spaces (.int k))
  | .gt k => do let k ← k; pure (.spaces (.int k))     -- sic: N, although `analyze_gt_spaces` wants N + 1
  | .lt k => do let k ← k; pure (.spaces (.int k))     -- sic: N, although `analyze_lt_spaces` wants N − 1
  | .plus k => do let k ← k; pure (.spaces (.int k))
  | .unknown => .ok (.spaces .none)

def judgeF (f : Form) (w : Option Nat) : Except PyErr Finding :=
  match w with
  | some n => do
    let r ← analyzeWsF f n
    pure (match r with | some k => .spaces (.int k) | none => .clean)
  | none => analyzeNoWsF f

/-- the TOI has a whitespace token in the eyes of `_analyze` -/
def hasWs (l : List Tok) : Bool := match wsAt l with | .ok (some _) => true | _ => false

/-- C10 guard: the configurations / TOIs for which one fix does NOT leave the analysis clean are excluded.
    * a negative width can never be reached (`" " * k` is empty for k ≤ 0);
    * `>N` and `<N` with NO whitespace between the pair: `extract_expected_number_of_spaces` hands out N,
      but `analyze_gt_spaces` wants ≥ N+1 and `analyze_lt_spaces` wants ≤ N−1 — the inserted whitespace is
      reported again (this is the oscillation of the known finding);
    * `<N` with N ≤ 0. -/
def idemGuardF (f : Form) (hasWs : Bool) : Bool :=
  match f with
  | .exact n => decide (0 ≤ n)
  | .gte _ => true
  | .gt k => hasWs || (match k with | .ok k => decide (k < 0) | .error _ => true)
  | .lte k => (match k with | .ok k => decide (0 ≤ k) | .error _ => true)
  | .lt k => hasWs && (match k with | .ok k => decide (1 ≤ k) | .error _ => true)
  | .plus _ => true
  | .unknown => true

def idemGuard (nos : NoS) (l : List Tok) : Bool := idemGuardF (formOf nos) (hasWs l)

/-- a two-token TOI is `[left, right]`: its second token is not whitespace (every extractor of the family
    delivers `[left, whitespace, right]` in that case) -/
def shapeOk (l : List Tok) : Bool :=
  !(l.length == 2 && (match l[1]? with | some t => t.kind == .ws | none => false))

end WsBetween

namespace NSpaces

/-- `if sKey == "left": …` for one key of the action dict -/
def stepLeft (wsCls : Nat) (iSpaces : Val) (l : List Tok) (kv : String × Val) : Except PyErr (List Tok) :=
  if kv.1 == "left" then do
    let a ← subscript kv.2 "action"
    if eqStr a "adjust" then
      let t ← pyGet l 0
      let v ← mulSpace iSpaces
      pySet l 0 { t with val := v }
    else insertWhitespace wsCls l (.int 1) (.int 1)
  else pure l

/-- `if sKey == "right": …` -/
def stepRight (wsCls : Nat) (iSpaces : Val) (l : List Tok) (kv : String × Val) : Except PyErr (List Tok) :=
  if kv.1 == "right" then do
    let a ← subscript kv.2 "action"
    if eqStr a "adjust" then
      let t ← pyGet l (-1)
      let v ← mulSpace iSpaces
      pySet l (-1) { t with val := v }
    else insertWhitespace wsCls l (.int ((l.length : Int) - 1)) (.int 1)
  else pure l

/-- one key of the action dict of n_spaces_before_and_after_tokens -/
def step (wsCls : Nat) (iSpaces : Val) (l : List Tok) (kv : String × Val) : Except PyErr (List Tok) := do
  let l1 ← stepLeft wsCls iSpaces l kv
  stepRight wsCls iSpaces l1 kv

def steps (wsCls : Nat) (iSpaces : Val) : List (String × Val) → List Tok → Except PyErr (List Tok)
  | [], l => .ok l
  | kv :: r, l => do
    let l' ← step wsCls iSpaces l kv
    steps wsCls iSpaces r l'

/-- `_fix_violation` of vsg/rules/n_spaces_before_and_after_tokens.py -/
def fixV (wsCls : Nat) (iSpaces : Val) (action : KV) (l : List Tok) : Except PyErr (List Tok) :=
  if actionIsNone action then .error .attributeError   -- None.keys()
  else steps wsCls iSpaces action l

end NSpaces

namespace Bounded

def fixLeft (wsCls : Nat) (before : Val) (action : KV) (l : List Tok) : Except PyErr (List Tok) :=
  match action.get "left" with
  | none => .ok l
  | some d => do
    let a ← subscript d "action"
    if eqStr a "adjust" then
      let t ← pyGet l 0
      let v ← mulSpace before
      pySet l 0 { t with val := v }
    else if eqStr a "remove" then
      let (_, r) ← pyPop l 0
      pure r
    else insertWhitespace wsCls l before (.int 1)   -- sic: the index is `spaces_before`, one space

def fixRight (wsCls : Nat) (after : Val) (action : KV) (l : List Tok) : Except PyErr (List Tok) :=
  match action.get "right" with
  | none => .ok l
  | some d => do
    let a ← subscript d "action"
    if eqStr a "adjust" then
      let t ← pyGet l (-1)
      let v ← mulSpace after
      pySet l (-1) { t with val := v }
    else
      match asInt after with   -- len(lTokens) - self.spaces_after
      | some k => insertWhitespace wsCls l (.int ((l.length : Int) - k)) (.int 1)
      | none => .error .typeError

/-- `_fix_violation` of vsg/rules/spaces_before_and_after_tokens_when_bounded_by_tokens.py -/
def fixV (wsCls : Nat) (before after : Val) (action : KV) (l : List Tok) : Except PyErr (List Tok) :=
  if actionIsNone action then .error .attributeError   -- None.keys()
  else do
    let l ← fixLeft wsCls before action l
    fixRight wsCls after action l

end Bounded

namespace RemoveBefore
/-- `oViolation.set_tokens(lTokens[1:])` -/
def fixV (l : List Tok) : Except PyErr (List Tok) := .ok (l.drop 1)
end RemoveBefore

namespace Ws001
/-- whitespace_001: keep the first and the last token; `insert_blank_line` puts a `parser.blank_line()` between -/
def fixV (blankCls : Nat) (action : KV) (l : List Tok) : Except PyErr (List Tok) := do
  let a ← actionGet action "action"
  let first ← pyGet l 0
  let last ← pyGet l (-1)
  if eqStr a "remove" then pure [first, last]
  else pure [first, { cls := blankCls, kind := .blank, val := [] }, last]
end Ws001

/-- `str.replace("\t", "  ")` -/
def untab (v : Str) : Str := v.flatMap (fun c => if c == '\t' then [' ', ' '] else [c])

namespace Ws002
/-- whitespace_002: pop the last token, append a NEW `parser.whitespace` / `parser.comment` holding its value
    with every tab replaced by two blanks -/
def fixV (wsCls commentCls : Nat) (action : KV) (l : List Tok) : Except PyErr (List Tok) := do
  let a ← actionGet action "action"
  let (t, r) ← pyPop l (-1)
  if eqStr a "remove_tab_from_comment" then pure (r ++ [{ cls := commentCls, kind := .comment, val := untab t.val }])
  else pure (r ++ [mkWs wsCls (untab t.val)])
end Ws002

namespace Ws005
/-- whitespace_005: `oToken = lTokens.pop(); lTokens.pop(); lTokens.append(oToken)` -/
def fixV (l : List Tok) : Except PyErr (List Tok) := do
  let (t, r) ← pyPop l (-1)
  let (_, r') ← pyPop r (-1)
  pure (r' ++ [t])
end Ws005

namespace Ws008
/-- whitespace_008: `lTokens.pop()` -/
def fixV (l : List Tok) : Except PyErr (List Tok) := do
  let (_, r) ← pyPop l (-1)
  pure r
end Ws008

/-- Python slice bound normalisation for `s[0:i]` / `s[i:]` on a sequence of length `n` -/
def sliceIdx (n : Nat) (i : Int) : Nat :=
  if i < 0 then (i + n).toNat else min i.toNat n

namespace Comment100
/-- comment_100: `sToken[0:idx] + " " + sToken[idx:]` written back into `lTokens[0]` -/
def fixV (action : KV) (l : List Tok) : Except PyErr (List Tok) := do
  let t ← pyGet l 0
  let iv ← actionGet action "index"
  match iv with
  | .none => pySet l 0 { t with val := t.val ++ [' '] ++ t.val }   -- s[0:None] + " " + s[None:]
  | _ =>
    match asInt iv with
    | some i =>
      let k := sliceIdx t.val.length i
      pySet l 0 { t with val := t.val.take k ++ [' '] ++ t.val.drop k }
    | none => .error .typeError
end Comment100

/-! ### guards: the old tokens a fix deletes or overwrites

  `P` is a predicate on token kinds (`isLayout` for the layout-only effect, `· ≠ cr` for the line structure).
  Each guard says: every old token the fix deletes, or whose value it overwrites, satisfies `P`.  These are
  exactly the cases the effect theorems exclude; the harness evaluates them on every real violation. -/

def optAll (P : Kind → Bool) (o : Option Tok) : Bool := match o with | some t => P t.kind | none => true

namespace WsBetween
/-- with `number_of_spaces == 0` the fix keeps `lTokens[0]` and `lTokens[2]` only -/
def touched (nos : NoS) (l : List Tok) : List Tok :=
  if nos == .int 0 then (l.drop 1).take 1 ++ l.drop 3 else []
def guard (P : Kind → Bool) (nos : NoS) (l : List Tok) : Bool := (touched nos l).all (fun t => P t.kind)
end WsBetween

/-- does the action ask for an `adjust` on this side? -/
def wantsAdjust (action : KV) (side : String) : Bool :=
  action.any fun kv => kv.1 == side && (match subscript kv.2 "action" with | .ok a => eqStr a "adjust" | .error _ => false)

namespace NSpaces
def guard (P : Kind → Bool) (action : KV) (l : List Tok) : Bool :=
  (!wantsAdjust action "left" || optAll P l.head?) && (!wantsAdjust action "right" || optAll P l.getLast?)
end NSpaces

namespace Bounded
def leftTouches (action : KV) : Bool :=
  match action.get "left" with
  | some d => (match subscript d "action" with | .ok a => eqStr a "adjust" || eqStr a "remove" | .error _ => false)
  | none => false
def rightTouches (action : KV) : Bool :=
  match action.get "right" with
  | some d => (match subscript d "action" with | .ok a => eqStr a "adjust" | .error _ => false)
  | none => false
def guard (P : Kind → Bool) (action : KV) (l : List Tok) : Bool :=
  (!leftTouches action || optAll P l.head?) && (!rightTouches action || optAll P l.getLast?)
end Bounded

namespace RemoveBefore
def guard (P : Kind → Bool) (l : List Tok) : Bool := optAll P l.head?
end RemoveBefore

namespace Ws001
/-- everything between the first and the last token goes; a one-token list would be DUPLICATED -/
def guard (P : Kind → Bool) (l : List Tok) : Bool := decide (2 ≤ l.length) && ((l.drop 1).dropLast).all (fun t => P t.kind)
end Ws001

namespace Ws002
/-- `remove_tab`: the popped token is replaced by a new whitespace token -/
def guard (P : Kind → Bool) (l : List Tok) : Bool := optAll P l.getLast?
/-- `remove_tab_from_comment`: the popped token is replaced by a new `parser.comment` -/
def commentGuard (commentCls : Nat) (l : List Tok) : Bool :=
  match l.getLast? with | some t => t.cls == commentCls && t.kind == .comment | none => true
def isCommentAction (action : KV) : Bool :=
  match action.get "action" with | some a => eqStr a "remove_tab_from_comment" | none => false
end Ws002

namespace Ws005
def guard (P : Kind → Bool) (l : List Tok) : Bool := optAll P l.dropLast.getLast?
end Ws005

namespace Ws008
def guard (P : Kind → Bool) (l : List Tok) : Bool := optAll P l.getLast?
end Ws008

namespace Comment100
/-- the token whose value gets the blank is a comment (or at least not code), and the index is an int
    (`s[0:None] + " " + s[None:]` would duplicate the text) -/
def guard (action : KV) (l : List Tok) : Bool :=
  (match action.get "index" with | some v => (asInt v).isSome | none => true) &&
  (match l.head? with | some t => t.isCommentLike || t.isLayout | none => true)
end Comment100

/-! ### dispatch: `_fix_violation` owner ↦ model -/

def wsBetweenOwner : String := "vsg.rules.whitespace_between_tokens.Rule"
def nSpacesOwner : String := "vsg.rules.n_spaces_before_and_after_tokens.n_spaces_before_and_after_tokens"
def boundedOwner : String := "vsg.rules.spaces_before_and_after_tokens_when_bounded_by_tokens.spaces_before_and_after_tokens_when_bounded_by_tokens"
def removeBeforeOwner : String := "vsg.rules.remove_spaces_before_token_rule.remove_spaces_before_token_rule"
def ws001Owner : String := "vsg.rules.whitespace.rule_001.rule_001"
def ws002Owner : String := "vsg.rules.whitespace.rule_002.rule_002"
def ws005Owner : String := "vsg.rules.whitespace.rule_005.rule_005"
def ws008Owner : String := "vsg.rules.whitespace.rule_008.rule_008"
def comment100Owner : String := "vsg.rules.comment.rule_100.rule_100"

/-- owners whose fix is layout-only in the strict sense -/
def wsLayoutOwners : List String :=
  [wsBetweenOwner, nSpacesOwner, boundedOwner, removeBeforeOwner, ws001Owner, ws005Owner, ws008Owner]

/-- owners that edit the blanks / tabs inside comment values -/
def wsCommentOwners : List String := [ws002Owner, comment100Owner]

def wsOwners : List String := wsLayoutOwners ++ wsCommentOwners

def paramVal (params : KV) (k : String) : Except PyErr Val :=
  match params.get k with
  | some v => .ok v
  | none => .error (.unmodelled ("rule attribute " ++ k ++ " missing"))

/-- the whitespace family's arm of `fixByOwner` -/
def wsFixByOwner (owner : String) (params action : KV) (old : List Tok) : Option (Except PyErr (List Tok)) :=
  if owner == wsBetweenOwner then
    some (do
      let nos ← nosOf (params.get "number_of_spaces")
      WsBetween.fixV Gen.wsCls nos action old)
  else if owner == nSpacesOwner then
    some (do
      let n ← paramVal params "iSpaces"
      NSpaces.fixV Gen.wsCls n action old)
  else if owner == boundedOwner then
    some (do
      let b ← paramVal params "spaces_before"
      let a ← paramVal params "spaces_after"
      Bounded.fixV Gen.wsCls b a action old)
  else if owner == removeBeforeOwner then some (RemoveBefore.fixV old)
  else if owner == ws001Owner then some (Ws001.fixV Gen.blankCls action old)
  else if owner == ws002Owner then some (Ws002.fixV Gen.wsCls Gen.commentCls action old)
  else if owner == ws005Owner then some (Ws005.fixV old)
  else if owner == ws008Owner then some (Ws008.fixV old)
  else if owner == comment100Owner then some (Comment100.fixV action old)
  else none

/-- the guard of the owner's effect theorems, evaluated on a concrete violation -/
def wsGuard (P : Kind → Bool) (owner : String) (params action : KV) (old : List Tok) : Bool :=
  if owner == wsBetweenOwner then
    (match nosOf (params.get "number_of_spaces") with
     | .ok nos => WsBetween.guard P nos old
     | .error _ => true)
  else if owner == nSpacesOwner then NSpaces.guard P action old
  else if owner == boundedOwner then Bounded.guard P action old
  else if owner == removeBeforeOwner then RemoveBefore.guard P old
  else if owner == ws001Owner then Ws001.guard P old
  else if owner == ws002Owner then
    (if Ws002.isCommentAction action then Ws002.commentGuard Gen.commentCls old else Ws002.guard P old)
  else if owner == ws005Owner then Ws005.guard P old
  else if owner == ws008Owner then Ws008.guard P old
  else if owner == comment100Owner then Comment100.guard action old
  else true

end Vsgm.Base
