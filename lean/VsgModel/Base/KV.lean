/-
  Layer B plumbing: rule parameters and violation actions arrive as key/value lists.
  wire:  key=<val>;key=<val>…      val = i<int> | s<codepoints> | t<cls>:<codepoints> | n (None)
                                        | l<val>,<val>,… (flat list) | b0 / b1
                                        | d<key>~<val>|<key>~<val>… (nested dict, one level; insertion order kept)
  a violation whose action is None (`get_action()` before any `set_action`) arrives as the single pair `__none__=b1`
-/
import VsgModel.Tok
import VsgModel.Wire
namespace Vsgm.Base
open Vsgm

inductive Val where
  | int (i : Int)
  | str (s : Str)
  | tok (t : Tok)
  | bool (b : Bool)
  | none
  | list (l : List Val)
  | dict (d : List (String × Val))
  deriving Repr, Inhabited

abbrev KV := List (String × Val)

def KV.get (kv : KV) (k : String) : Option Val := (kv.find? (·.1 == k)).map (·.2)
def KV.int? (kv : KV) (k : String) : Option Int := match kv.get k with | some (.int i) => some i | _ => Option.none
def KV.str? (kv : KV) (k : String) : Option Str := match kv.get k with | some (.str s) => some s | _ => Option.none
def KV.bool? (kv : KV) (k : String) : Option Bool := match kv.get k with | some (.bool b) => some b | _ => Option.none

/-- what Python can raise inside a `_fix_violation` -/
inductive PyErr where
  | indexError | typeError | keyError (k : String) | attributeError | valueError | unmodelled (what : String)
  deriving Repr, DecidableEq

/-- Python index normalisation: negative indices count from the end; `none` = IndexError -/
def pyIdx (n : Nat) (i : Int) : Option Nat :=
  let j : Int := if i < 0 then i + n else i
  if 0 ≤ j ∧ j < n then some j.toNat else Option.none

/-- Python list indexing `l[i]` -/
def pyGet {α : Type} (l : List α) (i : Int) : Except PyErr α :=
  match pyIdx l.length i with
  | some k => (match l[k]? with
    | some x => .ok x
    | Option.none => .error .indexError)
  | Option.none => .error .indexError

/-- Python `l[i] = x` -/
def pySet {α : Type} (l : List α) (i : Int) (x : α) : Except PyErr (List α) :=
  match pyIdx l.length i with
  | some k => .ok (l.set k x)
  | Option.none => .error .indexError

/-- Python `list.insert(i, x)`: clamps, negative counts from the end -/
def pyInsert {α : Type} (l : List α) (i : Int) (x : α) : List α :=
  let n : Int := l.length
  let j := if i < 0 then max 0 (i + n) else min i n
  l.take j.toNat ++ [x] ++ l.drop j.toNat

/-- `rules_utils.insert_token(lTokens, index, oToken)`: the code-tag copy looks at `lTokens[index]`
    and falls back to `lTokens[0]` (IndexError if the list is empty), then `list.insert` -/
def insertToken {α : Type} (l : List α) (i : Int) (x : α) : Except PyErr (List α) :=
  if l.isEmpty then .error .indexError else .ok (pyInsert l i x)

/-- Python `l.pop(i)` -/
def pyPop {α : Type} (l : List α) (i : Int) : Except PyErr (α × List α) :=
  match pyIdx l.length i with
  | some k => (match l[k]? with
    | some x => .ok (x, l.eraseIdx k)
    | Option.none => .error .indexError)
  | Option.none => .error .indexError

/-- `" " * k` (empty for k ≤ 0) -/
def spaces (k : Int) : Str := List.replicate k.toNat ' '

namespace Dec
open Vsgm.Wire

partial def val (s : String) : Val :=
  if s.isEmpty then .none else
  let tag := s.front
  let rest := (s.drop 1).toString
  match tag with
  | 'i' => .int rest.toInt!
  | 's' => .str (decStr rest)
  | 'b' => .bool (rest == "1")
  | 'n' => .none
  | 't' =>
    match rest.splitOn ":" with
    | [c, v] => .tok { cls := c.toNat!, kind := kindOfCls c.toNat!, val := decStr v }
    | _ => .none
  | 'l' => .list (if rest.isEmpty then [] else (rest.splitOn ",").map val)
  | 'd' => .dict (if rest.isEmpty then [] else (rest.splitOn "|").filterMap fun p =>
      match p.splitOn "~" with
      | [k, v] => some (k, val v)
      | _ => Option.none)
  | _ => .none

def kv (s : String) : KV :=
  if s.isEmpty then [] else
  (s.splitOn ";").filterMap fun p =>
    match p.splitOn "=" with
    | [k, v] => some (k, val v)
    | _ => Option.none

end Dec
end Vsgm.Base
