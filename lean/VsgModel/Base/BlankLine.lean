/-
  B-fix: the blank-line (vertical spacing) base classes, phase 3 (+ whitespace_200).

  * `blank_line_below_line_ending_with_token._fix_violation` (…:55-63)
        "Insert": insert_carriage_return(lTokens, 0); insert_blank_line(lTokens, 0)   → [blank, CR] ++ old
        "Remove": set_tokens([])
  * `previous_line._fix_violation` (…:80-88) = `blank_line_above_line_starting_with_token._fix_violation`
        "Insert": lTokens.append(carriage_return()); lTokens.append(blank_line())      → old ++ [CR, blank]
        "Remove": set_tokens([])
    (any other value of `dAction["action"]`, e.g. "Skip": set_tokens is not called; a missing key: KeyError)
  * `remove_excessive_blank_lines_above_line_starting_with_token`:  lTokens[0 : dAction["index"]]
  * `remove_excessive_blank_lines_below_line_ending_with_token`:    lTokens[0 : 2 * dAction["remove"]]
  * `remove_blank_lines_above_line_starting_with_token`:            lTokens[dAction["remove_to_index"] :]
  * `whitespace.rule_200`:                                          lTokens[2 * dAction["remove"] :]
  * `blank_lines_between_token_pairs`:                              set_tokens([])
  Python slice semantics (negative bounds count from the end, everything is clamped) in `pyClamp`.
-/
import VsgModel.Base.KV
namespace Vsgm.Base.BlankLine
open Vsgm Vsgm.Base

/-- `parser.carriage_return()` and `parser.blank_line()` as the rules create them -/
def crTok (crCls : Nat) : Tok := { cls := crCls, kind := .cr, val := ['\n'] }
def blankTok (blCls : Nat) : Tok := { cls := blCls, kind := .blank, val := [] }

def sInsert : Str := "Insert".toList
def sRemove : Str := "Remove".toList

/-- a slice bound of a list of length `n`: `i < 0 ↦ max 0 (i + n)`, then `min · n` -/
def pyClamp (n : Nat) (i : Int) : Nat := if i < 0 then (i + n).toNat else min i.toNat n

/-- `l[a:]` -/
def sliceFrom {α : Type} (l : List α) (a : Int) : List α := l.drop (pyClamp l.length a)
/-- `l[0:b]` -/
def sliceTo {α : Type} (l : List α) (b : Int) : List α := l.take (pyClamp l.length b)

/-- blank_line_below_line_ending_with_token -/
def belowFixV (crCls blCls : Nat) (act : Str) (l : List Tok) : Except PyErr (List Tok) :=
  if act == sInsert then do
    let l1 ← insertToken l 0 (crTok crCls)
    insertToken l1 0 (blankTok blCls)
  else if act == sRemove then pure []
  else pure l

/-- previous_line / blank_line_above_line_starting_with_token -/
def aboveFixV (crCls blCls : Nat) (act : Str) (l : List Tok) : Except PyErr (List Tok) :=
  if act == sInsert then pure (l ++ [crTok crCls] ++ [blankTok blCls])
  else if act == sRemove then pure []
  else pure l

/-- remove_excessive_blank_lines_above_line_starting_with_token -/
def excessAboveFixV (index : Option Int) (l : List Tok) : Except PyErr (List Tok) :=
  match index with
  | some i => pure (sliceTo l i)
  | none => pure l                       -- `lTokens[0:None]`

/-- remove_excessive_blank_lines_below_line_ending_with_token -/
def excessBelowFixV (remove : Int) (l : List Tok) : Except PyErr (List Tok) := pure (sliceTo l (2 * remove))

/-- remove_blank_lines_above_line_starting_with_token -/
def removeAboveFixV (removeToIndex : Option Int) (l : List Tok) : Except PyErr (List Tok) :=
  match removeToIndex with
  | some i => pure (sliceFrom l i)
  | none => pure l                       -- `lTokens[None:]`

/-- whitespace_200 -/
def ws200FixV (remove : Int) (l : List Tok) : Except PyErr (List Tok) := pure (sliceFrom l (2 * remove))

/-- blank_lines_between_token_pairs -/
def betweenPairsFixV (_l : List Tok) : Except PyErr (List Tok) := pure []

end Vsgm.Base.BlankLine
