/-
  B-full model of the CASE family (phase 6, 259 rules).

  vsg/rules/case_utils.py                      — `checkForCaseViolation` and everything it calls
  vsg/rules/token_case.py                      — `TokenCase.analyzeToi`, `TokenCase.fixV`   (243 rules)
  vsg/rules/token_case_formal_part_of_association_element_in_map_between_tokens.py
                                               — `FormalPart.analyzeToi`, `FormalPart.fixV` (2 rules)
  vsg/rules/consistent_token_case.py           — `Consistent.fixV`, value choice `Consistent.expectedFirst`
  vsg/rules/consistent_interface_token_case.py, consistent_subprogram_parameter_token_case.py
                                               — `Consistent.fixV`, value choice `Consistent.expectedMap`

  The interpreter's `str.lower` / `str.upper` and the regex engine are parameters (`Env`).
  Oddities kept as they are:
  * (repaired in /repo, WP5c) `check_for_exception` used to overwrite `iIndex` with the position of the
    word in `case_exceptions`: the action's "index" was that position, not the token position; the
    list position has a variable of its own now;
  * (repaired in /repo, WP5b) `check_for_prefix_and_suffix_exceptions` used to detect the suffix on the
    whole name but look it up in what is left after removing the prefix: `get_matched_suffix`
    returned None when prefix and suffix overlap and `len(None)` raised TypeError; the suffix is
    detected on the remainder now;
  * `extract_suffix` / `remove_suffix` slice with `len(s) - len(suffix)`, which Python reads from
    the END of the string when it is negative;
  * `check_for_upper_or_lower_case` records the value None; `token_case._fix_violation` then does
    nothing, the formal-part `_fix_violation` calls `set_value(None)`.
-/
import VsgModel.Base.KV
namespace Vsgm.Base.Case
open Vsgm Vsgm.Base

/-- `self.case` -/
inductive Style where
  | lower | upper | upperOrLower
  | pattern (name : String)   -- camelCase, relaxedCamelCase, PascalCase, RelaxedPascalCase, Pascal_Snake_Case, regex
  | unknown (name : String)   -- `dCase[self.case]` raises KeyError
  deriving Repr, DecidableEq

def patternStyles : List String :=
  ["camelCase", "relaxedCamelCase", "PascalCase", "RelaxedPascalCase", "Pascal_Snake_Case", "regex"]

def Style.ofString (s : String) : Style :=
  if s == "lower" then .lower else if s == "upper" then .upper
  else if s == "upper_or_lower" then .upperOrLower
  else if s ∈ patternStyles then .pattern s else .unknown s

/-- the attributes of a case rule the analysis reads -/
structure Params where
  name : Str               -- `self.name`: "bit_string_literal" switches the literal skip off
  style : Style            -- `self.case`
  prefixes : List Str      -- `self.prefix_exceptions`
  suffixes : List Str      -- `self.suffix_exceptions`
  exceptions : List Str    -- `self.case_exceptions`
  deriving Repr

/-- `dAction` of `create_case_violation` -/
structure Action where
  value : Option Str       -- None for `upper_or_lower`
  index : Int
  deriving Repr, DecidableEq

/-- what the analysis takes from the interpreter: `str.lower`, `str.upper`, and
    `<compiled pattern of style name>.fullmatch(word) is not None` -/
structure Env where
  lowerS : Str → Str
  upperS : Str → Str
  fullmatch : String → Str → Bool

def bitStringLiteral : Str := "bit_string_literal".toList

/-! ### Python string slices -/

/-- `s[i:]`, `i` possibly negative -/
def pySliceFrom (s : Str) (i : Int) : Str :=
  let n : Int := s.length
  let j : Int := if i < 0 then max 0 (i + n) else i
  s.drop j.toNat

/-- `s[0:i]`, `i` possibly negative -/
def pySliceTo (s : Str) (i : Int) : Str :=
  let n : Int := s.length
  let j : Int := if i < 0 then max 0 (i + n) else i
  s.take j.toNat

/-! ### case_utils.py -/

variable (E : Env)

/-- `does_not_contain_any_alpha_characters` (after commit da18b98 and the extended-identifier repair):
    `startswith(('"', "'", "\\"))` — string literals, character literals and extended identifiers
    (`\Clk_In\`, case-sensitive) are no business of a case rule -/
def doesNotContainAnyAlpha (v : Str) : Bool :=
  match v with
  | '"' :: _ => true
  | '\'' :: _ => true
  | '\\' :: _ => true
  | _ => false

def prefixDetected (s : Str) (ps : List Str) : Bool :=
  ps.any (fun p => (E.lowerS p).isPrefixOf (E.lowerS s))

/-- `get_matched_prefix`: the first configured prefix that matches; Python falls off the loop with None -/
def getMatchedPrefix (s : Str) (ps : List Str) : Option Str :=
  ps.find? (fun p => (E.lowerS p).isPrefixOf (E.lowerS s))

def extractPrefix (s p : Str) : Str := s.take p.length
def removePrefix (s p : Str) : Str := s.drop p.length

def suffixDetected (s : Str) (ss : List Str) : Bool :=
  ss.any (fun x => (E.lowerS x).isSuffixOf (E.lowerS s))

def getMatchedSuffix (s : Str) (ss : List Str) : Option Str :=
  ss.find? (fun x => (E.lowerS x).isSuffixOf (E.lowerS s))

def extractSuffix (s x : Str) : Str := pySliceFrom s ((s.length : Int) - x.length)
def removeSuffix (s x : Str) : Str := pySliceTo s ((s.length : Int) - x.length)

/-- the type of the `check_for_*_case` functions: actual value, prefix, word, suffix, index -/
abbrev Checker := Str → Str → Str → Str → Int → Option Action

def checkLower : Checker := fun actual pre word suf idx =>
  let e := pre ++ E.lowerS word ++ suf
  if actual == e then none else some { value := some e, index := idx }

def checkUpper : Checker := fun actual pre word suf idx =>
  let e := pre ++ E.upperS word ++ suf
  if actual == e then none else some { value := some e, index := idx }

def checkUpperOrLower : Checker := fun actual pre word suf idx =>
  let eu := pre ++ E.upperS word ++ suf
  let el := pre ++ E.lowerS word ++ suf
  if actual != eu && actual != el then some { value := none, index := idx } else none

/-- camelCase, PascalCase, …, regex: expected = prefix + word + suffix, violation iff no full match -/
def checkPattern (name : String) : Checker := fun _actual pre word suf idx =>
  if E.fullmatch name word then none else some { value := some (pre ++ word ++ suf), index := idx }

/-- `dCase[self.case]["check"]` -/
def lookupCheck : Style → Except PyErr Checker
  | .lower => .ok (checkLower E)
  | .upper => .ok (checkUpper E)
  | .upperOrLower => .ok (checkUpperOrLower E)
  | .pattern n => .ok (checkPattern E n)
  | .unknown n => .error (.keyError n)

/-- `check_for_case` -/
def checkForCase (v : Str) (idx : Int) (f : Checker) : Except PyErr (Option Action) :=
  .ok (f v [] v [] idx)

/-- `check_for_prefix_exception` -/
def checkForPrefixException (p : Params) (v : Str) (idx : Int) (f : Checker) : Except PyErr (Option Action) :=
  if prefixDetected E v p.prefixes then
    match getMatchedPrefix E v p.prefixes with
    | none => .error .typeError
    | some dp =>
      let ap := extractPrefix v dp
      let c := removePrefix v ap
      .ok (f v dp c [] idx)
  else .ok (f v [] v [] idx)

/-- `check_for_suffix_exception` -/
def checkForSuffixException (p : Params) (v : Str) (idx : Int) (f : Checker) : Except PyErr (Option Action) :=
  if suffixDetected E v p.suffixes then
    match getMatchedSuffix E v p.suffixes with
    | none => .error .typeError
    | some ds =>
      let as := extractSuffix v ds
      let c := removeSuffix v as
      .ok (f v [] c ds idx)
  else .ok (f v [] v [] idx)

/-- `check_for_prefix_and_suffix_exceptions` (repaired: the prefix is split off first, the suffix is
    DETECTED on what is left of the name — the string it is then looked up in and taken from; the
    former `.error .typeError` of an overlapping prefix and suffix is gone) -/
def checkForPrefixAndSuffixExceptions (p : Params) (v : Str) (idx : Int) (f : Checker) :
    Except PyErr (Option Action) :=
  let pre : Except PyErr (Str × Str) :=
    if prefixDetected E v p.prefixes then
      match getMatchedPrefix E v p.prefixes with
      | none => .error .typeError
      | some dp => .ok (dp, removePrefix v (extractPrefix v dp))
    else .ok ([], v)
  match pre with
  | .error e => .error e
  | .ok (dp, c) =>
    if suffixDetected E c p.suffixes then
      match getMatchedSuffix E c p.suffixes with
      | none => .error .typeError
      | some ds => .ok (f v dp (removeSuffix c (extractSuffix c ds)) ds idx)
    else .ok (f v dp c [] idx)

/-- `check_for_exception`: `self.case_exceptions_lower` is `lowercase_list(self.case_exceptions)`
    (recomputed by `_get_tokens_of_interest` before every analysis); `list.index` raises ValueError.
    The action records the index of the token it was handed (repaired: the position found in the
    list used to REPLACE it). -/
def checkForException (p : Params) (v : Str) (idx : Int) : Except PyErr (Option Action) :=
  match (p.exceptions.map E.lowerS).findIdx? (· == E.lowerS v) with
  | none => .error .valueError
  | some i =>
    match p.exceptions[i]? with
    | none => .error .indexError
    | some e => .ok (if v != e then some { value := some e, index := idx } else none)

/-- `dChecker[check_prefix][check_suffix]` -/
def dChecker (checkPrefix checkSuffix : Bool) (p : Params) (v : Str) (idx : Int) (f : Checker) :
    Except PyErr (Option Action) :=
  match checkPrefix, checkSuffix with
  | false, false => checkForCase v idx f
  | false, true => checkForSuffixException E p v idx f
  | true, false => checkForPrefixException E p v idx f
  | true, true => checkForPrefixAndSuffixExceptions E p v idx f

/-- `check_for_case_violation` given the value of token `iIndex` (`check_whole` is never read) -/
def checkForCaseViolation (p : Params) (checkPrefix checkSuffix : Bool) (v : Str) (idx : Int) :
    Except PyErr (Option Action) :=
  if p.name != bitStringLiteral && doesNotContainAnyAlpha v then .ok none
  else if p.exceptions.contains v then checkForException E p v idx
  else do
    let f ← lookupCheck E p.style
    dChecker E checkPrefix checkSuffix p v idx f

/-- `is_exception_enabled` -/
def isExceptionEnabled (l : List Str) : Bool := !l.isEmpty

/-! ### token_case.py -/
namespace TokenCase

/-- the body of the loop of `_analyze` for one token of interest (`iIndex = 0`) -/
def analyzeToi (p : Params) (l : List Tok) : Except PyErr (Option Action) := do
  let t ← pyGet l 0
  checkForCaseViolation E p (isExceptionEnabled p.prefixes) (isExceptionEnabled p.suffixes) t.val 0

/-- `_fix_violation`: the recorded value goes into token 0 — unless it is None -/
def fixV (a : Action) (l : List Tok) : Except PyErr (List Tok) :=
  match a.value with
  | some e => do
    let t ← pyGet l 0
    pySet l 0 { t with val := e }
  | none => .ok l

end TokenCase

/-! ### token_case_formal_part_of_association_element_in_map_between_tokens.py -/
namespace FormalPart

/-- class indices the loop tests with `isinstance` -/
structure Classes where
  mapStart : Nat
  mapEnd : Nat
  formal : Nat      -- token.association_element.formal_part
  assign : Nat      -- token.association_element.assignment
  deriving Repr

/-- the loop of `_analyze` over the tokens of one region (line counting dropped: it only
    feeds the reported line number) -/
def scan (c : Classes) (p : Params) (cp cs : Bool) :
    List Tok → Nat → Bool → Bool → List Action → Except PyErr (List Action)
  | [], _, _, _, acc => .ok acc
  | t :: r, i, mapFound, formalFound, acc =>
    if t.cls == c.mapStart then scan c p cp cs r (i + 1) true formalFound acc
    else if t.cls == c.mapEnd then .ok acc
    else do
      let hit := t.cls == c.formal && !formalFound && mapFound
      let acc' ← (if hit then do
          let o ← checkForCaseViolation E p cp cs t.val (i : Int)
          pure (acc ++ o.toList)
        else pure acc)
      let ff := if hit then true else formalFound
      let ff := if t.cls == c.assign then false else ff
      scan c p cp cs r (i + 1) mapFound ff acc'

def analyzeToi (c : Classes) (p : Params) (l : List Tok) : Except PyErr (List Action) :=
  scan E c p (isExceptionEnabled p.prefixes) (isExceptionEnabled p.suffixes) l 0 false false []

/-- `_fix_violation`: `lTokens[dAction["index"]].set_value(dAction["value"])`.  Evaluation order:
    the subscript (IndexError) comes before the look-up of "value" (KeyError, passed in as `value`).
    A None value would be stored as the token's value (every later `len(get_value())` raises
    TypeError) — not representable in `Tok`, reported as `unmodelled`. -/
def fixV (index : Int) (value : Except PyErr (Option Str)) (l : List Tok) : Except PyErr (List Tok) := do
  let t ← pyGet l index
  let v ← value
  match v with
  | some e => pySet l index { t with val := e }
  | none => .error (.unmodelled "set_value(None)")

end FormalPart

/-! ### the three `consistent_*` base classes -/
namespace Consistent

/-- `_fix_violation`: `lTokens[0].set_value(dAction[key])` (subscript first, then the key) -/
def fixV (value : Except PyErr (Option Str)) (l : List Tok) : Except PyErr (List Tok) := do
  let t ← pyGet l 0
  let v ← value
  match v with
  | some e => pySet l 0 { t with val := e }
  | none => .error (.unmodelled "set_value(None)")

/-- `consistent_case_utils.create_tois`, inner loop: a name that starts with a quote or a backslash
    is skipped (`break` before the comparison — the extended-identifier repair); otherwise the first
    declared identifier that equals the name up to `lower()`; a token of interest is created iff it
    differs from the name -/
def expectedFirst (ids : List Str) (v : Str) : Option Str :=
  if doesNotContainAnyAlpha v then none else
  match ids.find? (fun i => E.lowerS i == E.lowerS v) with
  | some i => if i == v then none else some i
  | none => none

/-- `interface_case_mismatch` (a token that starts with a quote or a backslash is never a mismatch —
    the extended-identifier repair) + `dInterfaceMap[sToken.lower()]` (the dict keeps the LAST name
    of each lower-case spelling) -/
def expectedMap (ids : List Str) (v : Str) : Except PyErr (Option Str) :=
  if doesNotContainAnyAlpha v then .ok none
  else if (ids.map E.lowerS).contains (E.lowerS v) && !ids.contains v then
    match ids.reverse.find? (fun i => E.lowerS i == E.lowerS v) with
    | some i => .ok (some i)
    | none => .error (.keyError "dInterfaceMap")
  else .ok none

end Consistent

end Vsgm.Base.Case
