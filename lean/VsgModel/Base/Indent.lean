/-
  B-fix: `token_indent._fix_violation` (vsg/rules/token_indent.py:42-60), inherited unchanged by
  `token_indent_between_tokens`, `token_indent_between_tokens_unless_between_tokens`,
  `token_indent_unless_between_tokens` and the 102 indent rules.

      lTokens = oViolation.get_tokens()
      if   action == "remove_whitespace":  set_tokens([lTokens[1]])
      elif action == "adjust_whitespace":
          if   indent_style == "spaces":      lTokens[0].set_value(lTokens[1].get_indent() * indent_size * " ")
          elif indent_style == "smart_tabs":  lTokens[0].set_value(lTokens[1].get_indent() * "\t")
          set_tokens(lTokens)
      elif action == "add_whitespace":
          if indent_style == "spaces": insert_whitespace(lTokens, 0, lTokens[0].get_indent() * indent_size)
          else:                        insert_whitespace(lTokens, 0, lTokens[0].get_indent(), "\t")
          set_tokens(lTokens)

  The indent level of a token (`get_indent()`, set by `set_token_indent`) is token state outside
  `Tok`; it enters as an ORACLE `ind : Nat → Option Int` (`ind i` = `lTokens[i].get_indent()`,
  `none` = Python `None`), universally quantified in the theorems.  The action is a plain string
  (any other action object compares unequal to the three literals: nothing happens).
  `has_tab` / `has_tabs` flags set on the whitespace token are not observable in the token value.
-/
import VsgModel.Base.KV
namespace Vsgm.Base.Indent
open Vsgm Vsgm.Base

/-- Python `k * c` / `c * k` for a one-character string (empty for k ≤ 0) -/
def rep (c : Char) (k : Int) : Str := List.replicate k.toNat c

/-- `int * x` where the int may be `None`: TypeError -/
def needLevel (o : Option Int) : Except PyErr Int :=
  match o with
  | some i => .ok i
  | none => .error .typeError

def sRemove : Str := "remove_whitespace".toList
def sAdjust : Str := "adjust_whitespace".toList
def sAdd : Str := "add_whitespace".toList
def sSpaces : Str := "spaces".toList
def sSmartTabs : Str := "smart_tabs".toList

def fixV (wsCls : Nat) (style : Str) (size : Int) (action : Str) (ind : Nat → Option Int)
    (l : List Tok) : Except PyErr (List Tok) :=
  if action == sRemove then do
    let t1 ← pyGet l 1
    pure [t1]
  else if action == sAdjust then
    if style == sSpaces then do
      let t0 ← pyGet l 0
      let _ ← pyGet l 1
      let lvl ← needLevel (ind 1)
      pySet l 0 { t0 with val := rep ' ' (lvl * size) }
    else if style == sSmartTabs then do
      let t0 ← pyGet l 0
      let _ ← pyGet l 1
      let lvl ← needLevel (ind 1)
      pySet l 0 { t0 with val := rep '\t' lvl }
    else pure l
  else if action == sAdd then
    if style == sSpaces then do
      let _ ← pyGet l 0
      let lvl ← needLevel (ind 0)
      insertToken l 0 { cls := wsCls, kind := .ws, val := rep ' ' (lvl * size) }
    else do
      let _ ← pyGet l 0
      let lvl ← needLevel (ind 0)
      insertToken l 0 { cls := wsCls, kind := .ws, val := rep '\t' lvl }
  else pure l

end Vsgm.Base.Indent
