/-
  B-fix: the `_fix_violation` shared by every `align_tokens_in_region_between_tokens*` rule
  (vsg/rules/align_tokens_in_region_between_tokens.py:182-192 and the identical copies in the
  sibling base classes): resize the whitespace before `token_index` by `adjust`, or insert one.
  `rules_utils.insert_whitespace(lTokens, index, num)` inserts `parser.whitespace(" " * num)`.
-/
import VsgModel.Base.KV
namespace Vsgm.Base.Align
open Vsgm Vsgm.Base

/-- `wsCls` is the class index of parser.whitespace (from the generated class table) -/
def fixV (wsCls : Nat) (tokenIndex adjust : Int) (l : List Tok) : Except PyErr (List Tok) := do
  let prev ← pyGet l (tokenIndex - 1)
  if prev.kind == .ws then
    let len : Int := prev.val.length
    pySet l (tokenIndex - 1) { prev with val := spaces (len + adjust) }
  else
    insertToken l tokenIndex { cls := wsCls, kind := .ws, val := spaces adjust }

end Vsgm.Base.Align
