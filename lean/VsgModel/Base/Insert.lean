/-
  B-fix, insert family: the base classes documented to add (or, with `action: remove`, remove)
  an optional keyword / end name.
    vsg/rules/insert_token_next_to_token_if_it_does_not_exist_between_tokens_using_value_from_token.py:65-125
    vsg/rules/insert_token_right_of_token_if_it_does_not_exist_before_token.py:66-77
    vsg/rules/insert_token_right_of_possible_tokens_if_it_does_not_exist_before_token.py:86-100
    vsg/rules/insert_token_left_of_token_if_it_does_not_exist_between_tokens.py:71-79
    vsg/rules/insert_tokens_right_of_token_if_it_does_not_exist_before_token.py:72-92
    vsg/rules/generate/rule_011.py:65-78
  Transcribed as they are: Python index errors, `list.insert` clamping and negative indices
  included.  `rules_utils.insert_token` copies code tags (not part of the model's tokens).
-/
import VsgModel.Base.StructCommon
namespace Vsgm.Base.Insert
open Vsgm Vsgm.Base

/-- `add_optional_item(oViolation, self)` of the `…_using_value_from_token` classes.
    `value` = `oViolation.get_token_value()` (`none` ⇒ the function returns before `set_tokens`),
    `isAnchor t` = `isinstance(t, self.anchor_token)`, `ins v` = `self.insert_token(v)` -/
def addOptionalItem (E : Env) (isAnchor : Tok → Bool) (ins : Str → Tok) (right : Bool)
    (value : Option Str) (l : List Tok) : Except PyErr (List Tok) :=
  match value with
  | none => .ok l
  | some v =>
    match lastIdx isAnchor l with
    | none => .ok l
    | some i =>
      if right then do
        let l1 ← insertToken l ((i : Int) + 1) (ins v)
        insertWs E l1 ((i : Int) + 1)
      else do
        let l1 ← insertToken l (i : Int) (ins v)
        let prev ← pyGet l1 ((i : Int) - 1)
        if prev.kind == .ws then .ok l1 else insertWs E l1 (i : Int)

/-- `…_using_value_from_token._fix_violation` -/
def fixNextTo (E : Env) (remove : Bool) (isAnchor : Tok → Bool) (ins : Str → Tok) (right : Bool)
    (value : Option Str) (l : List Tok) : Except PyErr (List Tok) :=
  if remove then removeOptionalItem l else addOptionalItem E isAnchor ins right value l

/-- `insert_token_right_of_token_if_it_does_not_exist_before_token._fix_violation`
    (`tok` = `self.insert_token`, a token object) -/
def fixRightOf (E : Env) (remove : Bool) (tok : Tok) (l : List Tok) : Except PyErr (List Tok) :=
  if remove then removeOptionalItem l else do
    let t1 ← pyGet l 1
    let c ← (if t1.kind == .ws then do
        let t2 ← pyGet l 2
        pure (E.isa t2.cls E.semicolonCls)
      else pure false : Except PyErr Bool)
    if c then insertToken l 2 tok
    else do
      let l1 ← insertToken l 1 tok
      insertWs E l1 1

/-- `insert_token_right_of_possible_tokens_if_it_does_not_exist_before_token._fix_violation` -/
def fixRightOfPossible (E : Env) (remove : Bool) (tok : Tok) (action : KV) (l : List Tok) :
    Except PyErr (List Tok) :=
  if remove then removeOptionalItem l else do
    let t0 ← pyGet l 0
    let dflt : Except PyErr (List Tok) := do
      let l1 ← insertToken l 1 tok
      insertWs E l1 1
    if E.isa t0.cls E.closeParenCls then do
      let cr ← needBoolS action "carriage_return"
      if cr then insertToken l 1 tok
      else do
        let w ← needBoolS action "whitespace"
        if !w then do
          let l1 ← insertWs E l 1
          insertToken l1 1 tok
        else dflt
    else dflt

/-- `insert_token_left_of_token_if_it_does_not_exist_between_tokens._fix_violation` -/
def fixLeftOf (E : Env) (remove : Bool) (tok : Tok) (action : KV) (l : List Tok) :
    Except PyErr (List Tok) :=
  if remove then removeOptionalItem l else do
    let i ← needIntS action "index"
    let l1 ← insertToken l i tok
    insertWs E l1 (i + 1)

/-- `insert_tokens_right_of_token_if_it_does_not_exist_before_token._fix_violation`
    (`add` = `self.action == "add"`; `toks` = `self.insert_tokens`) -/
def fixTokensRightOf (E : Env) (add : Bool) (toks : List Tok) (action : KV) (l : List Tok) :
    Except PyErr (List Tok) :=
  if add then do
    let t0 ← pyGet l 0
    let t1 ← pyGet l 1
    let c ← (if t1.kind == .ws then do
        let t2 ← pyGet l 2
        pure (E.isa t2.cls E.semicolonCls)
      else pure false : Except PyErr Bool)
    if c then .ok ([t0, t1] ++ toks ++ pyFrom l 2)
    else .ok ([t0, E.ws [' ']] ++ toks ++ pyFrom l 1)
  else do
    let s ← needIntS action "iStartIndex"
    let e ← needIntS action "iEndIndex"
    .ok (rcw (pyTo l s ++ pyFrom l e))

/-- `generate.rule_011._fix_violation` -/
def fixGenerate011 (E : Env) (remove : Bool) (action : KV) (l : List Tok) : Except PyErr (List Tok) :=
  if remove then removeOptionalItem l else do
    let lab ← needTok action "label"
    .ok (l ++ [E.ws [' '], lab])

end Vsgm.Base.Insert
