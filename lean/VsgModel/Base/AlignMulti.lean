/-
  B-fix, the remaining alignment fixers: the first token of the tokens of interest is given a new
  value (action `adjust`) — WHATEVER that token is — or a whitespace token is inserted in front.
    vsg/rules/multiline_alignment_between_tokens.py:186-194                                   key "column"
    vsg/rules/multiline_array_alignment.py:71-79                                             key "whitespace"
    vsg/rules/align_consecutive_lines_after_line_starting_with_token_and_stopping_with_token.py:48-57  key "whitespace"
    vsg/rules/multiline_conditional_alignment.py:220-237                                     types when / else / indent
  `rules_utils.insert_new_whitespace(lTokens, 0, s)` = `insert_token(lTokens, 0, parser.whitespace(s))`.
-/
import VsgModel.Base.StructCommon
namespace Vsgm.Base.AlignMulti
open Vsgm Vsgm.Base

/-- `v == "<s>"` for an action entry -/
def valIs (v : Val) (s : String) : Bool :=
  match v with
  | .str x => x == s.toList
  | _ => false

/-- `if dAction["action"] == "adjust": lTokens[0].set_value(dAction[key]) else: insert_new_whitespace(lTokens, 0, dAction[key])` -/
def adjustOrInsert (E : Env) (key : String) (action : KV) (l : List Tok) : Except PyErr (List Tok) := do
  let a ← (match action.get "action" with
    | some v => pure v
    | none => .error (.keyError "action") : Except PyErr Val)
  if valIs a "adjust" then do
    let t0 ← pyGet l 0
    let s ← needStrS action key
    pySet l 0 { t0 with val := s }
  else do
    let s ← needStrS action key
    insertToken l 0 (E.ws s)

/-- multiline_alignment_between_tokens -/
def fixColumn (E : Env) (action : KV) (l : List Tok) : Except PyErr (List Tok) := adjustOrInsert E "column" action l

/-- multiline_array_alignment, align_consecutive_lines_after_line_starting_with_token_and_stopping_with_token -/
def fixWhitespace (E : Env) (action : KV) (l : List Tok) : Except PyErr (List Tok) := adjustOrInsert E "whitespace" action l

/-- multiline_conditional_alignment -/
def fixConditional (E : Env) (action : KV) (l : List Tok) : Except PyErr (List Tok) := do
  let ty ← (match action.get "type" with
    | some v => pure v
    | none => .error (.keyError "type") : Except PyErr Val)
  if valIs ty "when" || valIs ty "else" then do
    let t0 ← pyGet l 0
    let adj ← needIntS action "adjust"
    pySet l 0 { t0 with val := spaces ((t0.val.length : Int) + adj) }
  else if valIs ty "indent" then adjustOrInsert E "column" action l
  else .ok l

end Vsgm.Base.AlignMulti
