/-
  B-fix, `if_statement.rule_002` (vsg/rules/if_statement/rule_002.py:62-99): enclose the condition
  in parentheses, or (option `parenthesis: remove`) drop the tokens the analysis listed.
  Also the action builder of the analysis (`create_remove_action_dict`, :136-176), used to state
  what the fix does when it is given the action the analysis computes for the same tokens.
-/
import VsgModel.Base.StructCommon
namespace Vsgm.Base.Parens
open Vsgm Vsgm.Base

/-- `[t for i, t in enumerate(l) if i + delta not in rm]`, `i` counted from `i0` -/
def dropIdx (rm : List Int) (delta : Int) : List Tok → Nat → List Tok
  | [], _ => []
  | t :: r, i => (if ((i : Int) + delta) ∈ rm then [] else [t]) ++ dropIdx rm delta r (i + 1)

/-- `add_enclosing_parens` -/
def addParens (E : Env) (l : List Tok) : Except PyErr (List Tok) := do
  let l1 ← insertToken l 0 (E.inst E.openParenCls ['('])
  .ok (l1 ++ [E.inst E.closeParenCls [')']])

/-- `remove_enclosing_parens` with the four entries of the action -/
def removeParens (leftRemove rightRemove : List Int) (leftInsert rightInsert : List Tok) (l : List Tok) :
    List Tok :=
  let l1 := leftInsert ++ dropIdx leftRemove 0 l 0
  let delta : Int := (l.length : Int) - (l1.length : Int)
  dropIdx rightRemove delta l1 0 ++ rightInsert

/-- `rule_002._fix_violation` (`insert` = `self.parenthesis == "insert"`).  The remove branch reads
    `left_insert` first, `left_remove` only while looping over a non-empty token list, then
    `right_remove` (only if the intermediate list is non-empty) and `right_insert` -/
def fixV (E : Env) (insert : Bool) (action : KV) (l : List Tok) : Except PyErr (List Tok) :=
  if insert then addParens E l else do
    let li ← needList action "left_insert"
    let li' ← toksOf li
    let lr ← (if l.isEmpty then pure [] else needList action "left_remove" : Except PyErr (List Val))
    let l1 := li' ++ dropIdx (intsOf lr) 0 l 0
    let rr ← (if l1.isEmpty then pure [] else needList action "right_remove" : Except PyErr (List Val))
    let ri ← needList action "right_insert"
    let ri' ← toksOf ri
    .ok (removeParens (intsOf lr) (intsOf rr) li' ri' l)

/-! ### the action the analysis builds (`create_remove_action_dict`) -/

structure RemoveAction where
  leftRemove : List Int
  leftInsert : List Tok
  rightRemove : List Int
  rightInsert : List Tok
  deriving DecidableEq

/-- `analyze_open_paren_cases` -/
def openCases (E : Env) (l : List Tok) : Except PyErr (List Int × List Tok) := do
  let t0 ← pyGet l 0
  let isO (t : Tok) := E.isa t.cls E.openParenCls
  -- open_paren_space
  let c1 ← (if isO t0 then do let t1 ← pyGet l 1; pure (t1.kind == .ws) else pure false : Except PyErr Bool)
  if c1 then .ok ([0], []) else do
  -- space_open_paren_space
  let c2 ← (if t0.kind == .ws then do
      let t1 ← pyGet l 1
      if isO t1 then do let t2 ← pyGet l 2; pure (t2.kind == .ws) else pure false
    else pure false : Except PyErr Bool)
  if c2 then .ok ([0, 1], []) else do
  -- space_open_paren
  let c3 ← (if t0.kind == .ws then do let t1 ← pyGet l 1; pure (isO t1) else pure false : Except PyErr Bool)
  if c3 then .ok ([1], []) else .ok ([0], [E.ws [' ']])

/-- `analyze_close_paren_cases` -/
def closeCases (E : Env) (l : List Tok) : Except PyErr (List Int × List Tok) := do
  let n : Int := l.length
  let isC (t : Tok) := E.isa t.cls E.closeParenCls
  let tl ← pyGet l (-1)
  -- space_close_paren_space
  let c1 ← (if tl.kind == .ws then do
      let t2 ← pyGet l (-2)
      if isC t2 then do let t3 ← pyGet l (-3); pure (t3.kind == .ws) else pure false
    else pure false : Except PyErr Bool)
  if c1 then .ok ([n - 1, n - 2], []) else do
  -- space_close_paren
  let c2 ← (if isC tl then do let t2 ← pyGet l (-2); pure (t2.kind == .ws) else pure false : Except PyErr Bool)
  if c2 then .ok ([n - 1], []) else do
  -- close_paren_space
  let c3 ← (if tl.kind == .ws then do let t2 ← pyGet l (-2); pure (isC t2) else pure false : Except PyErr Bool)
  if c3 then .ok ([n - 2], []) else .ok ([n - 1], [E.ws [' ']])

/-- the action dictionary as the harvester hands it to the fixer -/
def RemoveAction.toKV (a : RemoveAction) : KV :=
  [("action", .str "remove".toList), ("left_remove", .list (a.leftRemove.map .int)),
   ("left_insert", .list (a.leftInsert.map .tok)), ("right_remove", .list (a.rightRemove.map .int)),
   ("right_insert", .list (a.rightInsert.map .tok))]

def removeAction (E : Env) (l : List Tok) : Except PyErr RemoveAction := do
  let (lr, li) ← openCases E l
  let (rr, ri) ← closeCases E l
  .ok { leftRemove := lr, leftInsert := li, rightRemove := rr, rightInsert := ri }

end Vsgm.Base.Parens
