/-
  B-fix: the multi-line STRUCTURE base classes and the single rules with a `_fix_violation` of
  their own (20 owners, 36 rules).  Every function is transcribed AS IS from /repo/vsg/rules:

    multiline_structure.py                       `dAction["type"](oViolation)`: six module-level fix functions
    fix.py (fix_violation)                       multiline_subprogram_specification_structure,
                                                 multiline_constraint_structure, multiline_procedure_call_structure
    multiline_simple_structure.py                `_fix_new_line_after_assign`
    comment/rule_011.py, conditional_waveforms/rule_001.py, concurrent/rule_008.py, process/rule_021.py,
    process/rule_026.py, process/rule_027.py, signal/rule_012.py, instantiation/rule_005.py, when/rule_001.py,
    align_consecutive_lines_starting_with_a_comment_above_line_starting_with_token.py,
    align_left_token_with_right_token_if_right_token_starts_a_line.py,
    after/rule_001.py, after/rule_002.py, after/rule_003.py, process/rule_029.py

  The helpers of vsg/rules/utils.py and vsg/vhdlFile/utils.py are the ones of `LineStruct.lean`
  (`removeCr`, `rcw`, `removeTrailingWs`, `insertWs`, `insertCr`, `pyCut` …).

  extra keys the harvester puts into the action KV:
    _semi = class index of `oViolation.semicolon` (set by multiline_structure._check_last_paren_new_line)
    a module-level function value (`dAction["type"]` of multiline_structure) arrives as the nested
    dict `{fn: <function name>}`
-/
import VsgModel.Base.KV
import VsgModel.Base.LineStruct
namespace Vsgm.Base.Multi
open Vsgm Vsgm.Base Vsgm.Base.LineStruct

/-- class facts: `isinstance`, kind of a freshly constructed token, class indices of the tokens the
    fixes construct.  The theorems quantify over every `MEnv`; the driver instantiates it from the
    generated class tables. -/
structure MEnv where
  isa : Nat → Nat → Bool
  kindOf : Nat → Kind
  c : Cls
  afterCls : Nat          -- token.waveform_element.after_keyword
  todoCls : Nat           -- parser.todo
  risingCls : Nat         -- token.ieee.std_logic_1164.function.rising_edge
  fallingCls : Nat        -- token.ieee.std_logic_1164.function.falling_edge
  openParenCls : Nat      -- parser.open_parenthesis
  closeParenCls : Nat     -- parser.close_parenthesis
  ticCls : Nat            -- parser.tic
  eventCls : Nat          -- token.predefined_attribute.event_keyword
  andCls : Nat            -- token.logical_operator.and_operator
  equalCls : Nat          -- token.relational_operator.equal
  charLitCls : Nat        -- parser.character_literal

/-- `cls(value)` -/
def MEnv.inst (E : MEnv) (cls : Nat) (v : Str) : Tok := { cls := cls, kind := E.kindOf cls, val := v }

/-- `isinstance(t, parser.blank_line)` -/
def isBlank (t : Tok) : Bool := t.kind == .blank

/-- `parser.whitespace(s)` -/
def mkWsStr (c : Cls) (s : Str) : Tok := { cls := c.ws, kind := .ws, val := s }

/-! ### reading the action / the rule parameters -/

/-- the action object is a dict (a str arrives under `_str`, None under `_none`, anything else under `_other`) -/
def isDict (a : KV) : Bool := (a.get "_str").isNone && (a.get "_none").isNone && (a.get "_other").isNone

/-- `dAction[k]`: TypeError when the action is not subscriptable by a string, KeyError when absent -/
def dget (a : KV) (k : String) : Except PyErr Val :=
  if !isDict a then .error .typeError else
  match a.get k with
  | some v => .ok v
  | none => .error (.keyError k)

/-- `value == "<s>"` (a non-string never equals a string literal) -/
def valIs (v : Val) (s : String) : Bool :=
  match v with
  | .str x => x == s.toList
  | _ => false

/-- a value used in integer arithmetic / as a list index (`True == 1`) -/
def asInt (v : Val) : Except PyErr Int :=
  match v with
  | .int i => .ok i
  | .bool b => .ok (if b then 1 else 0)
  | _ => .error .typeError

/-- a value used as a slice bound: an int or `None` -/
def asBound (v : Val) : Except PyErr (Option Int) :=
  match v with
  | .int i => .ok (some i)
  | .bool b => .ok (some (if b then 1 else 0))
  | .none => .ok none
  | _ => .error .typeError

/-- a value handed to a token constructor: only strings are modelled -/
def asStr (what : String) (v : Val) : Except PyErr Str :=
  match v with
  | .str s => .ok s
  | _ => .error (.unmodelled ("non-str " ++ what))

/-- `dAction[k]` used as an int -/
def dgetInt (a : KV) (k : String) : Except PyErr Int :=
  match dget a k with
  | .ok v => asInt v
  | .error e => .error e

/-- `dAction[k]` handed to a token constructor -/
def dgetStr (a : KV) (k : String) : Except PyErr Str :=
  match dget a k with
  | .ok v => asStr k v
  | .error e => .error e

/-- `self.<k>` -/
def pget (p : KV) (k : String) : Except PyErr Val :=
  match p.get k with
  | some v => .ok v
  | none => .error .attributeError

/-- `l[:b]` -/
def sliceTo (l : List Tok) (b : Option Int) : List Tok :=
  match b with
  | none => l
  | some i => l.take (pyCut l.length i)

/-- `l[b:]` -/
def sliceFrom (l : List Tok) (b : Option Int) : List Tok :=
  match b with
  | none => l
  | some i => l.drop (pyCut l.length i)

/-- `rules_utils.insert_blank_line(lTokens, index)` -/
def insertBlank (c : Cls) (l : List Tok) (i : Int) : Except PyErr (List Tok) := insertToken l i (mkBlank c)

/-- `rules_utils.append_token(lTokens, x)`: the code-tag copy reads `lTokens[-1]` -/
def appendTok (l : List Tok) (x : Tok) : Except PyErr (List Tok) :=
  if l.isEmpty then .error .indexError else .ok (l ++ [x])

/-- `rules_utils.insert_token(lTokens, "end", x)`: `lTokens["end"]` raises TypeError, the handler reads
    `lTokens[0]`, then `lTokens.insert(len(lTokens), x)` -/
def insertEnd (l : List Tok) (x : Tok) : Except PyErr (List Tok) :=
  if l.isEmpty then .error .indexError else .ok (l ++ [x])

/-! ### multiline_structure.py -/

/-- the six fix functions `dAction["type"]` can be -/
inductive MSFn where
  | firstParen | lastParen | openParen | closeParen | comma | assign
  deriving DecidableEq, Repr

def msFnNames : List (String × MSFn) :=
  [("_fix_first_paren_new_line", .firstParen), ("_fix_last_paren_new_line", .lastParen),
   ("_fix_open_paren_new_line", .openParen), ("_fix_close_paren_new_line", .closeParen),
   ("_fix_new_line_after_comma", .comma), ("_fix_assign_on_single_line", .assign)]

/-- `dAction["type"]` as a callable: a function of multiline_structure.py; any plain value is not
    callable (TypeError); another function is not modelled -/
def msFnOf (v : Val) : Except PyErr MSFn :=
  match v with
  | .dict [("fn", .str n)] =>
    match msFnNames.find? (fun p => p.1.toList == n) with
    | some p => .ok p.2
    | none => .error (.unmodelled "dAction[\"type\"] is a function outside multiline_structure.py")
  | _ => .error .typeError

/-- `[lTokens[0], lTokens[-1]]` -/
def firstLast (l : List Tok) : Except PyErr (List Tok) := do
  let a ← pyGet l 0
  let b ← pyGet l (-1)
  .ok [a, b]

/-- `[lTokens[0], whitespace(" "), lTokens[-1]]` -/
def firstWsLast (c : Cls) (l : List Tok) : Except PyErr (List Tok) := do
  let a ← pyGet l 0
  let b ← pyGet l (-1)
  .ok [a, mkWs c, b]

/-- `_fix_first_paren_new_line`, action "insert" (also multiline_simple_structure `_fix_new_line_after_assign`):
    whitespace in front unless there is one, then a line break in front -/
def breakBefore (c : Cls) (l : List Tok) : Except PyErr (List Tok) := do
  let t0 ← pyGet l 0
  let l1 ← if !isWs t0 then insertWs c l 0 else .ok l
  insertCr c l1 0

/-- `_fix_last_paren_new_line` / `_fix_close_paren_new_line`, action "insert": the tested token is
    `lTokens[0]`, the insert position is 1 -/
def breakAfterFirst (c : Cls) (l : List Tok) : Except PyErr (List Tok) := do
  let t0 ← pyGet l 0
  let l1 ← if !isWs t0 then insertWs c l 1 else .ok l
  insertCr c l1 1

/-- `_fix_last_paren_new_line`, action "insert_and_move_comment": everything behind the semicolon
    (the trailing comment) moves in front of the new line break.  `semi` = `oViolation.semicolon`
    (AttributeError when the violation has none); `get_index_of_token_in_list` returns None when no token
    is an instance: `None + 1` is a TypeError -/
def moveCommentCore (c : Cls) (isa : Nat → Nat → Bool) (semi : Option Nat) (l1 : List Tok) : Except PyErr (List Tok) :=
  match semi with
  | none => .error .attributeError
  | some sc =>
    match l1.findIdx? (fun t => isa t.cls sc) with
    | none => .error .typeError
    | some i =>
      match pyGet l1 0 with
      | .error e => .error e
      | .ok h => .ok ([h] ++ l1.drop (i + 1) ++ [mkCr c] ++ (l1.take (i + 1)).drop 1)

def moveComment (c : Cls) (isa : Nat → Nat → Bool) (semi : Option Nat) (l : List Tok) : Except PyErr (List Tok) := do
  let t0 ← pyGet l 0
  let l1 ← if !isWs t0 then insertWs c l 1 else .ok l
  moveCommentCore c isa semi l1

/-- `_fix_open_paren_new_line`, action "insert": `append_carriage_return`, `append_whitespace` -/
def breakAtEnd (c : Cls) (l : List Tok) : Except PyErr (List Tok) := do
  let l1 ← appendTok l (mkCr c)
  appendTok l1 (mkWs c)

/-- `_fix_new_line_after_comma`, action "insert" -/
def breakAfterComma (c : Cls) (l : List Tok) : Except PyErr (List Tok) := do
  let t1 ← pyGet l 1
  if isWs t1 then insertCr c l 1
  else do
    let l1 ← insertWs c l 1
    insertCr c l1 1

/-- `utils.remove_comments_from_token_list`: drops every `parser.comment` instance -/
def removeComments (l : List Tok) : List Tok := l.filter (fun t => !isCommentInst t)

/-- `_fix_assign_on_single_line`, action "remove" (multiline_structure.py:536-545): line breaks AND
    comments go -/
def joinAssign (l : List Tok) : List Tok := rcw (removeComments (removeCr l))

/-- the violation attribute `semicolon` (harvested as `_semi`) -/
def semiOf (action : KV) : Option Nat :=
  match action.get "_semi" with
  | some (.int i) => some i.toNat
  | _ => none

/-- `_comment_between_first_and_last` (multiline_structure.py, after commits c6e66e8 and 8e6c5bb):
    a `parser.comment` or `parser.preprocessor` instance in `lTokens[1:-1]` -/
def keepGuard (l : List Tok) : Bool :=
  ((l.drop 1).dropLast).any (fun t => isCommentInst t || t.kind == .preproc)

/-- one fix function of multiline_structure.py; an action string the function does not test for
    leaves the tokens alone (no `set_tokens`); the five "remove" branches return early (no
    `set_tokens` either) when a comment or preprocessor line sits between the first and the last token -/
def fixMSFn (c : Cls) (isa : Nat → Nat → Bool) (f : MSFn) (act : Val) (semi : Option Nat) (l : List Tok) :
    Except PyErr (List Tok) :=
  match f with
  | .firstParen =>
    if valIs act "insert" then breakBefore c l
    else if valIs act "remove" then (if keepGuard l then .ok l else firstWsLast c l)
    else .ok l
  | .lastParen =>
    if valIs act "insert" then breakAfterFirst c l
    else if valIs act "remove" then (if keepGuard l then .ok l else firstLast l)
    else if valIs act "insert_and_move_comment" then moveComment c isa semi l
    else .ok l
  | .openParen =>
    if valIs act "insert" then breakAtEnd c l
    else if valIs act "remove" then (if keepGuard l then .ok l else firstLast l)
    else .ok l
  | .closeParen =>
    if valIs act "insert" then breakAfterFirst c l
    else if valIs act "remove" then (if keepGuard l then .ok l else firstLast l)
    else .ok l
  | .comma =>
    if valIs act "insert" then breakAfterComma c l
    else if valIs act "remove" then (if keepGuard l then .ok l else firstWsLast c l)
    else .ok l
  | .assign =>
    if valIs act "remove" then .ok (joinAssign l) else .ok l

/-- multiline_structure.py:96-98 -/
def fixMS (c : Cls) (isa : Nat → Nat → Bool) (action : KV) (l : List Tok) : Except PyErr (List Tok) := do
  let ty ← dget action "type"
  let f ← msFnOf ty
  let act ← dget action "action"
  fixMSFn c isa f act (semiOf action) l

/-! ### multiline_simple_structure.py -/

def fixSimple (c : Cls) (action : KV) (l : List Tok) : Except PyErr (List Tok) := do
  let ty ← dget action "type"
  if valIs ty "new_line_after_assign" then do
    let act ← dget action "action"
    if valIs act "insert" then breakBefore c l
    else if valIs act "remove" then firstWsLast c l
    else .ok l
  else .ok l

/-! ### vsg/rules/fix.py -/

/-- `rules_utils.remove_leading_whitespace_tokens`: only a list of MORE than one token loses its
    leading whitespace -/
def removeLeadingWs (l : List Tok) : List Tok :=
  match l with
  | t :: u :: r => if isWs t then u :: r else l
  | _ => l

/-- `rules_utils.change_all_whitespace_to_single_character` -/
def wsToSingle (l : List Tok) : List Tok := l.map (fun t => if isWs t then { t with val := [' '] } else t)

/-- `fix.add_new_line` -/
def addNewLine (c : Cls) (l : List Tok) : Except PyErr (List Tok) := do
  let l1 ← insertWs c (removeLeadingWs l) 0
  let l2 ← insertCr c l1 0
  .ok (rcw l2)

/-- `fix.remove_new_line`; the result of the final `utils.fix_blank_lines(lNewTokens)` is thrown away -/
def removeNewLine (l : List Tok) : Except PyErr (List Tok) :=
  .ok (removeTrailingWs (wsToSingle (removeLeadingWs (rcw (removeCr l)))))

/-- `fix.add_new_line_and_remove_carraige_returns`; `utils.fix_blank_lines` result thrown away here too -/
def addNewLineRemoveCr (c : Cls) (l : List Tok) : Except PyErr (List Tok) := do
  let l1 ← insertWs c (removeLeadingWs (removeCr l)) 0
  let l2 ← insertCr c l1 0
  .ok (wsToSingle l2)

/-- `fix.fix_violation` -/
def fixNL (c : Cls) (action : KV) (l : List Tok) : Except PyErr (List Tok) := do
  let act ← dget action "action"
  if valIs act "add_new_line" then addNewLine c l
  else if valIs act "remove_new_line" then removeNewLine l
  else if valIs act "add_new_line_and_remove_carraige_returns" then addNewLineRemoveCr c l
  else .ok l

/-! ### the single rules -/

/-- comment/rule_011.py:49-55: the line is rotated, `lTokens[iToken:] + [carriage_return] + lTokens[:iToken]` -/
def fixComment011 (c : Cls) (action : KV) (l : List Tok) : Except PyErr (List Tok) := do
  let v ← dget action "iToken"
  let b ← asBound v
  .ok (sliceFrom l b ++ [mkCr c] ++ sliceTo l b)

/-- conditional_waveforms/rule_001.py: `lTokens.append(parser.carriage_return())` -/
def fixCondWave (c : Cls) (l : List Tok) : Except PyErr (List Tok) := .ok (l ++ [mkCr c])

/-- the alignment fix of concurrent_008 (`spaces adjust` inserted) and after_002 (one blank inserted):
    `dAction["adjust"]` is read only in the branch that uses it -/
def fixAlignComment (c : Cls) (insertAdjust : Bool) (action : KV) (l : List Tok) : Except PyErr (List Tok) := do
  let ti ← dgetInt action "token_index"
  let prev ← pyGet l (ti - 1)
  if isWs prev then do
    let adj ← dgetInt action "adjust"
    let len : Int := prev.val.length
    pySet l (ti - 1) { prev with val := spaces (len + adj) }
  else if insertAdjust then do
    let adj ← dgetInt action "adjust"
    insertToken l ti (mkWsStr c (spaces adj))
  else insertWs c l ti

/-- process/rule_021.py, style no_blank_line: the reversed list is copied; at a blank_line token the
    token copied last — the one that FOLLOWS the blank line — is popped (IndexError on an empty copy) -/
def dropBlankAndNext : List Tok → Except PyErr (List Tok)
  | [] => .ok []
  | t :: r =>
    match dropBlankAndNext r with
    | .error e => .error e
    | .ok acc =>
      if isBlank t then
        match acc with
        | [] => .error .indexError
        | _ :: a => .ok a
      else .ok (t :: acc)

/-- process/rule_021.py, style require_blank_line -/
def insertBlankBeforeLast (c : Cls) (l : List Tok) : Except PyErr (List Tok) := do
  let t ← pyGet l (-2)
  let i : Int := if isWs t then -3 else -2
  let l1 ← insertBlank c l i
  insertCr c l1 i

def fixProcess021 (c : Cls) (params : KV) (l : List Tok) : Except PyErr (List Tok) := do
  let st ← pget params "style"
  if valIs st "no_blank_line" then dropBlankAndNext l
  else if valIs st "require_blank_line" then insertBlankBeforeLast c l
  else .ok l

/-- process_026 / process_027, action "Insert".  A non-int index: `lTokens[index]` raises TypeError
    inside `insert_token`, the handler reads `lTokens[0]` (IndexError on an empty list), then
    `list.insert(index, …)` raises TypeError -/
def insertBlankAt (c : Cls) (action : KV) (l : List Tok) : Except PyErr (List Tok) := do
  let v ← dget action "index"
  match asInt v with
  | .error _ => if l.isEmpty then .error .indexError else .error .typeError
  | .ok i => do
    let l1 ← insertCr c l i
    insertBlank c l1 i

/-- process_026 / process_027, the removing branch: `lTokens[:iStart] + lTokens[iEnd:]` -/
def cutOut (action : KV) (l : List Tok) : Except PyErr (List Tok) := do
  let s ← dget action "start"
  let e ← dget action "end"
  let sb ← asBound s
  let eb ← asBound e
  .ok (sliceTo l sb ++ sliceFrom l eb)

/-- process/rule_026.py: anything but "Insert" removes -/
def fixProcess026 (c : Cls) (action : KV) (l : List Tok) : Except PyErr (List Tok) := do
  let a ← dget action "action"
  if valIs a "Insert" then insertBlankAt c action l else cutOut action l

/-- process/rule_027.py: `elif dAction["action"] == "Remove"` -/
def fixProcess027 (c : Cls) (action : KV) (l : List Tok) : Except PyErr (List Tok) := do
  let a ← dget action "action"
  if valIs a "Insert" then insertBlankAt c action l
  else if valIs a "Remove" then cutOut action l
  else .ok l

/-- signal/rule_012.py: two tokens — a whitespace is inserted between them; otherwise the value of
    `lTokens[1]` (WHATEVER token that is) becomes `len + adjust` blanks -/
def fixSignal012 (c : Cls) (action : KV) (l : List Tok) : Except PyErr (List Tok) :=
  if l.length == 2 then insertWs c l 1
  else do
    let t1 ← pyGet l 1
    let adj ← dgetInt action "adjust"
    let len : Int := t1.val.length
    pySet l 1 { t1 with val := spaces (len + adj) }

/-- instantiation/rule_005.py; the action is the string "add" / "remove" -/
def fixInst005 (c : Cls) (action : KV) (l : List Tok) : Except PyErr (List Tok) :=
  match action.get "_str" with
  | some (.str s) =>
    if s == "add".toList then do
      let tl ← pyGet l (-1)
      if isWs tl then insertCr c l (-1)
      else do
        let l1 ← insertEnd l (mkCr c)
        insertEnd l1 (mkWs c)
    else if s == "remove".toList then do
      let t0 ← pyGet l 0
      insertEnd [t0] (mkWs c)
    else .ok l
  | _ => .ok l

/-- when/rule_001.py: a trailing whitespace is dropped, the last token moves to the front, a blank in
    front of it -/
def fixWhen001 (c : Cls) (l : List Tok) : Except PyErr (List Tok) := do
  let tl ← pyGet l (-1)
  let l1 := if isWs tl then l.dropLast else l
  let (x, l2) ← pyPop l1 (-1)
  let l3 ← insertToken l2 0 x
  insertWs c l3 0

/-- `rules_utils.insert_new_whitespace(lTokens, len(lTokens) - 1, s)` / `lTokens[k].set_value(s)`:
    the two comment / keyword aligners; `k` = 0 (align_consecutive_lines_starting_with_a_comment…) or
    -2 (align_left_token_with_right_token…); the token at `k` is not looked at -/
def fixSetWs (c : Cls) (k : Int) (action : KV) (l : List Tok) : Except PyErr (List Tok) := do
  let a ← dget action "action"
  if valIs a "insert" then do
    let w ← dgetStr action "whitespace"
    insertToken l ((l.length : Int) - 1) (mkWsStr c w)
  else do
    let t ← pyGet l k
    let w ← dgetStr action "whitespace"
    pySet l k { t with val := w }

/-- `str(self.magnitude)` for an int or a str -/
def pyStr (v : Val) : Except PyErr Str :=
  match v with
  | .int i => .ok (toString i).toList
  | .str s => .ok s
  | _ => .error (.unmodelled "str() of a value that is neither int nor str")

/-- the six tokens after_001 puts in front of the semicolon: ` after <magnitude> <units>` -/
def afterClause (E : MEnv) (mag units : Str) : List Tok :=
  [mkWs E.c, E.inst E.afterCls "after".toList, mkWs E.c, E.inst E.todoCls mag, mkWs E.c, E.inst E.todoCls units]

/-- after/rule_001.py -/
def fixAfter001 (E : MEnv) (params : KV) (l : List Tok) : Except PyErr (List Tok) := do
  let mv ← pget params "magnitude"
  let m ← pyStr mv
  let uv ← pget params "units"
  let u ← asStr "units" uv
  .ok (afterClause E m u ++ l)

/-- after/rule_003.py: only the last token of the region (the semicolon) survives -/
def fixAfter003 (l : List Tok) : Except PyErr (List Tok) := do
  let x ← pyGet l (-1)
  .ok [x]

/-- `rising_edge(clk)` / `falling_edge(clk)` -/
def edgeCall (E : MEnv) (rising : Bool) (clock : Str) : List Tok :=
  [if rising then E.inst E.risingCls "rising_edge".toList else E.inst E.fallingCls "falling_edge".toList,
   E.inst E.openParenCls ['('], E.inst E.todoCls clock, E.inst E.closeParenCls [')']]

/-- `clk'event and clk = '1'` -/
def eventExpr (E : MEnv) (clock edge : Str) : List Tok :=
  [E.inst E.todoCls clock, E.inst E.ticCls ['\''], E.inst E.eventCls "event".toList, mkWs E.c,
   E.inst E.andCls "and".toList, mkWs E.c, E.inst E.todoCls clock, mkWs E.c, E.inst E.equalCls ['='], mkWs E.c,
   E.inst E.charLitCls edge]

/-- process/rule_029.py: the region is REPLACED by a list built from the action alone -/
def fixProcess029 (E : MEnv) (action : KV) (_l : List Tok) : Except PyErr (List Tok) := do
  let conv ← dget action "convert_to"
  if valIs conv "edge" then do
    let e ← dget action "edge"
    let clk ← dgetStr action "clock"
    .ok (edgeCall E (valIs e "rising_edge") clk)
  else do
    let clk ← dgetStr action "clock"
    let e ← dgetStr action "edge"
    .ok (eventExpr E clk e)

/-! ### owners and dispatch -/

inductive MOwner where
  | multiStruct | simple | subprogram | constraint | procCall
  | comment011 | condWave001 | concurrent008 | process021 | process026 | process027 | signal012
  | inst005 | when001 | alignCommentAbove | alignLeftRight | after001 | after002 | after003 | process029
  deriving DecidableEq, Repr

def MOwner.name : MOwner → String
  | .multiStruct => "vsg.rules.multiline_structure.multiline_structure"
  | .simple => "vsg.rules.multiline_simple_structure.multiline_simple_structure"
  | .subprogram => "vsg.rules.multiline_subprogram_specification_structure.multiline_subprogram_specification_structure"
  | .constraint => "vsg.rules.multiline_constraint_structure.multiline_constraint_structure"
  | .procCall => "vsg.rules.multiline_procedure_call_structure.multiline_procedure_call_structure"
  | .comment011 => "vsg.rules.comment.rule_011.rule_011"
  | .condWave001 => "vsg.rules.conditional_waveforms.rule_001.rule_001"
  | .concurrent008 => "vsg.rules.concurrent.rule_008.rule_008"
  | .process021 => "vsg.rules.process.rule_021.rule_021"
  | .process026 => "vsg.rules.process.rule_026.rule_026"
  | .process027 => "vsg.rules.process.rule_027.rule_027"
  | .signal012 => "vsg.rules.signal.rule_012.rule_012"
  | .inst005 => "vsg.rules.instantiation.rule_005.rule_005"
  | .when001 => "vsg.rules.when.rule_001.rule_001"
  | .alignCommentAbove => "vsg.rules.align_consecutive_lines_starting_with_a_comment_above_line_starting_with_token.align_consecutive_lines_starting_with_a_comment_above_line_starting_with_token"
  | .alignLeftRight => "vsg.rules.align_left_token_with_right_token_if_right_token_starts_a_line.align_left_token_with_right_token_if_right_token_starts_a_line"
  | .after001 => "vsg.rules.after.rule_001.rule_001"
  | .after002 => "vsg.rules.after.rule_002.rule_002"
  | .after003 => "vsg.rules.after.rule_003.rule_003"
  | .process029 => "vsg.rules.process.rule_029.rule_029"

def MOwner.all : List MOwner :=
  [.multiStruct, .simple, .subprogram, .constraint, .procCall, .comment011, .condWave001, .concurrent008,
   .process021, .process026, .process027, .signal012, .inst005, .when001, .alignCommentAbove, .alignLeftRight,
   .after001, .after002, .after003, .process029]

/-- every owner of this family (the dispatcher's membership test) -/
def allOwners : List String := MOwner.all.map MOwner.name

/-- fully qualified class name ↦ modelled owner -/
def mownerOf (owner : String) : Option MOwner := MOwner.all.find? (fun o => o.name == owner)

/-- owners that share `vsg/rules/fix.py` -/
def MOwner.usesFixPy : MOwner → Bool
  | .subprogram | .constraint | .procCall => true
  | _ => false

/-- the rules documented to add / remove / rewrite code -/
def MOwner.rewritesCode : MOwner → Bool
  | .after001 | .after003 | .process029 => true
  | _ => false

/-- the model of `<owner>._fix_violation` -/
def fixM (E : MEnv) (o : MOwner) (params action : KV) (old : List Tok) : Except PyErr (List Tok) :=
  match o with
  | .multiStruct => fixMS E.c E.isa action old
  | .simple => fixSimple E.c action old
  | .subprogram | .constraint | .procCall => fixNL E.c action old
  | .comment011 => fixComment011 E.c action old
  | .condWave001 => fixCondWave E.c old
  | .concurrent008 => fixAlignComment E.c true action old
  | .after002 => fixAlignComment E.c false action old
  | .process021 => fixProcess021 E.c params old
  | .process026 => fixProcess026 E.c action old
  | .process027 => fixProcess027 E.c action old
  | .signal012 => fixSignal012 E.c action old
  | .inst005 => fixInst005 E.c action old
  | .when001 => fixWhen001 E.c old
  | .alignCommentAbove => fixSetWs E.c 0 action old
  | .alignLeftRight => fixSetWs E.c (-2) action old
  | .after001 => fixAfter001 E params old
  | .after003 => fixAfter003 old
  | .process029 => fixProcess029 E action old

/-- this family's part of `fixByOwner` -/
def fixByOwner (E : MEnv) (owner : String) (params action : KV) (old : List Tok) :
    Option (Except PyErr (List Tok)) :=
  (mownerOf owner).map fun o => fixM E o params action old

end Vsgm.Base.Multi
