/-
  B-fix: the phase-1 LINE-STRUCTURE base classes (≈110 rules).  They move tokens between lines and
  insert / remove line breaks.  Every `_fix_violation` is transcribed AS IS from /repo/vsg/rules/*.py,
  the helpers from vsg/rules/utils.py and vsg/vhdlFile/utils.py (negative indices, slice clamping,
  `IndexError` of `lTokens[iToken + 1]`, the in-place `reverse()` of `remove_trailing_whitespace` …).

  extra keys the harvester puts into the action KV (they are not part of `oViolation.get_action()`):
    _tv  = oViolation.oTokens.sTokenValue   (`get_token_value()`, set by get_tokens_bounded_by)
    _ti  = oViolation.oTokens.token_index   (set by get_line_which_includes_tokens)
    _iw  = oViolation.insert_whitespace     (set by move_token.create_move_left_violation)
    _a   = the action itself when it is not a dict (move_token_right…: a bare int)
-/
import VsgModel.Base.KV
import VsgModel.Engine.Relations
namespace Vsgm.Base.LineStruct
open Vsgm Vsgm.Base

/-- class indices of the three layout tokens a fix can create -/
structure Cls where
  ws : Nat
  cr : Nat
  blank : Nat

/-- `parser.whitespace(" ")` -/
def mkWs (c : Cls) : Tok := { cls := c.ws, kind := .ws, val := [' '] }
/-- `parser.carriage_return()` (value "\n") -/
def mkCr (c : Cls) : Tok := { cls := c.cr, kind := .cr, val := ['\n'] }
/-- `parser.blank_line()` (value "") -/
def mkBlank (c : Cls) : Tok := { cls := c.blank, kind := .blank, val := [] }

/-- `isinstance(t, parser.whitespace)` -/
def isWs (t : Tok) : Bool := t.kind == .ws
/-- `isinstance(t, parser.carriage_return)` -/
def isCr (t : Tok) : Bool := t.kind == .cr
/-- `isinstance(t, parser.comment)`: parser.comment, token.pragma.* and the two delimiters of a
    delimited comment are subclasses of parser.comment -/
def isCommentInst (t : Tok) : Bool :=
  t.kind == .comment || t.kind == .pragma || t.kind == .dcBegin || t.kind == .dcEnd
/-- a `--` comment or pragma: what must stay at the end of its line -/
def isLC (t : Tok) : Bool := t.kind == .comment || t.kind == .pragma
/-- `vhdlFile.utils.token_is_whitespace`: whitespace, carriage return, blank line, preprocessor -/
def isWsLike (t : Tok) : Bool :=
  t.kind == .ws || t.kind == .cr || t.kind == .blank || t.kind == .preproc

/-! ### helpers of vsg/vhdlFile/utils.py -/

/-- `remove_carriage_returns_from_token_list` -/
def removeCr (l : List Tok) : List Tok := l.filter (fun t => !isCr t)

/-- `is_followed_by_preprocessor(iToken, lTokens)` (remove_carriage_return_after_token.py) on the tokens
    BEHIND position `iToken`: the first token that is not `parser.whitespace` is a preprocessor line -/
def nextIsPreproc : List Tok → Bool
  | [] => false
  | t :: r => if isWs t then nextIsPreproc r else t.kind == .preproc

/-- `remove_carriage_returns_before_first_comment` (remove_carriage_return_after_token.py, after the
    repairs 7d29fc3 and "keeps a preprocessor line on a line of its own"): carriage returns are
    dropped only up to the first `parser.comment` instance — a line break that follows a comment ends
    that comment and stays — and only up to the first line break that stands in front of a
    preprocessor line: that one stays, and so does everything behind it -/
def removeCrBeforeComment : List Tok → List Tok
  | [] => []
  | t :: r =>
    if isCommentInst t then t :: r
    else if isCr t then (if nextIsPreproc r then t :: r else removeCrBeforeComment r)
    else t :: removeCrBeforeComment r

/-- **a preprocessor line is a line of its own**: scanning a token list, `fresh` = nothing but
    whitespace since the last line break, `code` = something else stands on the line, `afterPp` = a
    preprocessor token stands on the line -/
inductive PpSt where
  | fresh | code | afterPp
  deriving Repr, DecidableEq

/-- a preprocessor token is admitted only on a fresh line, and nothing but whitespace may follow it
    before the next line break -/
def ppStep (s : PpSt) (t : Tok) : Option PpSt :=
  if isCr t then some .fresh
  else if isWs t then some s
  else if t.kind == .preproc then (if s == .fresh then some .afterPp else none)
  else (if s == .afterPp then none else some .code)

def ppGo : PpSt → List Tok → Bool
  | _, [] => true
  | s, t :: r =>
    match ppStep s t with
    | none => false
    | some s' => ppGo s' r

/-- every preprocessor token of the list stands alone on its line (leading / trailing whitespace aside) -/
def preprocOwnLine (l : List Tok) : Bool := ppGo .fresh l

/-- the first token is neither whitespace, a line break nor a preprocessor line (the regions of
    remove_carriage_return_after_token start with the keyword the rule is about) -/
def headSolid : List Tok → Bool
  | [] => false
  | t :: _ => !isCr t && !isWs t && !(t.kind == .preproc)

/-- `remove_consecutive_whitespace_tokens`: a whitespace token whose predecessor IN THE INPUT is
    whitespace is dropped -/
def rcwGo : Tok → List Tok → List Tok
  | _, [] => []
  | p, t :: r => if isWs t && isWs p then rcwGo t r else t :: rcwGo t r

def rcw : List Tok → List Tok
  | [] => []
  | t :: r => t :: rcwGo t r

/-- `remove_trailing_whitespace`: reverses in place, cuts the leading run of whitespace-like
    tokens, reverses back; when EVERY token is whitespace-like the for-else returns the list
    still reversed -/
def removeTrailingWs (l : List Tok) : List Tok :=
  let r := l.reverse
  let d := r.dropWhile isWsLike
  if d.isEmpty then r else d.reverse

/-- `remove_all_trailing_whitespace`: drops a whitespace token that stands before a carriage
    return; `lTokens[iToken + 1]` raises IndexError when the last token is whitespace -/
def removeAllTrailingWs : List Tok → Except PyErr (List Tok)
  | [] => .ok []
  | [t] => if isWs t then .error .indexError else .ok [t]
  | t :: u :: r =>
    match removeAllTrailingWs (u :: r) with
    | .error e => .error e
    | .ok rest => if isWs t && isCr u then .ok rest else .ok (t :: rest)

/-- what `fix_blank_lines` emits for the token at index `i`: `prev` = `lTokens[i - 1]` (Python:
    for `i = 0` that is the LAST token), `next` = `lTokens[i + 1]` (IndexError caught ⇒ none) -/
def fblAt (blank : Tok) (prev next : Option Tok) (t : Tok) : List Tok :=
  if isCr t && (next.map isCr == some true) then [t, blank]
  else if (prev.map isCr == some true) && isWs t && (next.map isCr == some true) then [blank]
  else [t]

def fblGo (blank : Tok) : Option Tok → List Tok → List Tok
  | _, [] => []
  | prev, t :: r => fblAt blank prev r.head? t ++ fblGo blank (some t) r

/-- `fix_blank_lines` -/
def fixBlankLines (blank : Tok) (l : List Tok) : List Tok := fblGo blank l.getLast? l

/-- Python `l[i:i] = xs` (same clamping as `list.insert`) -/
def pyInsertList {α : Type} (l : List α) (i : Int) (xs : List α) : List α :=
  let n : Int := l.length
  let j := if i < 0 then max 0 (i + n) else min i n
  l.take j.toNat ++ xs ++ l.drop j.toNat

/-- cut point of the Python slices `l[0:n]` / `l[n:]` -/
def pyCut (len : Nat) (n : Int) : Nat :=
  if n < 0 then (max 0 (n + len)).toNat else min n.toNat len

/-- **context form of "every comment still ends its line"**: replacing the region `old` by `new`
    keeps `commentEndsLine` whatever stands before and behind the region.  (The region-local
    `commentEndsLine new` is not enough: a comment that has become the LAST token of the region
    swallows the code that follows the region.) -/
def CelSafe (old new : List Tok) : Prop :=
  ∀ pre post : List Tok, commentEndsLine (pre ++ old ++ post) = true → commentEndsLine (pre ++ new ++ post) = true

/-! ### the `_fix_violation`s -/

/-- `rules_utils.insert_whitespace(lTokens, index)` -/
def insertWs (c : Cls) (l : List Tok) (i : Int) : Except PyErr (List Tok) := insertToken l i (mkWs c)
/-- `rules_utils.insert_carriage_return(lTokens, index)` -/
def insertCr (c : Cls) (l : List Tok) (i : Int) : Except PyErr (List Tok) := insertToken l i (mkCr c)

/-- move_token_next_to_another_token.py:53-63; `iIndex = oViolation.get_token_value()` -/
def fixMoveNext (c : Cls) (iIndex : Int) (l : List Tok) : Except PyErr (List Tok) := do
  let (x, l1) ← pyPop l iIndex
  let l2 ← insertToken l1 1 x
  let l3 ← insertWs c l2 1
  .ok (fixBlankLines (mkBlank c) (rcw l3))

/-- move_token_next_to_another_token_if_it_exists_between_tokens.py:58-65 (no
    remove_consecutive_whitespace_tokens here) -/
def fixMoveNextBetween (c : Cls) (moveIndex insertIndex : Int) (l : List Tok) : Except PyErr (List Tok) := do
  let (x, l1) ← pyPop l moveIndex
  let l2 ← insertToken l1 insertIndex x
  let l3 ← insertWs c l2 insertIndex
  .ok (fixBlankLines (mkBlank c) l3)

/-- move_token_left_to_next_non_whitespace_token.py:63-78 -/
def fixMoveLeft (c : Cls) (bInsertWhitespace bRemoveTrailingWhitespace : Bool) (l : List Tok) :
    Except PyErr (List Tok) := do
  let (x, l1) ← pyPop l (-1)
  let l2 ← insertToken l1 1 x
  let l3 ← if bInsertWhitespace then insertWs c l2 1 else .ok l2
  let l4 := rcw l3
  let l5 := if bRemoveTrailingWhitespace then removeTrailingWs l4 else l4
  .ok (fixBlankLines (mkBlank c) l5)

/-- move_token_right_to_next_non_whitespace_token.py:54-66; the action is a bare int -/
def fixMoveRight (c : Cls) (bInsertWhitespace : Bool) (iTokenIndex : Int) (l : List Tok) :
    Except PyErr (List Tok) := do
  let (x, l1) ← pyPop l iTokenIndex
  let l2 ← insertToken l1 (-1) x
  let l3 ← if bInsertWhitespace then insertWs c l2 (-1) else .ok l2
  let l4 ← removeAllTrailingWs (rcw l3)
  .ok (fixBlankLines (mkBlank c) l4)

/-- move_token_to_the_right_of_several_possible_tokens_if_it_exists_between_tokens.py:77-87 -/
def fixMoveRightOf (c : Cls) (bInsertWhitespace : Bool) (moveIndex insert : Int) (l : List Tok) :
    Except PyErr (List Tok) := do
  let (x, l1) ← pyPop l moveIndex
  let l2 ← insertToken l1 insert x
  let l3 ← if bInsertWhitespace then insertWs c l2 insert else .ok l2
  .ok (fixBlankLines (mkBlank c) (rcw l3))

/-- the prefix `move_token_sequences_left_of_token` moves and what it jumps over:
    `l = lead ++ moved ++ jumped ++ [last]` -/
def seqBody (l : List Tok) : List Tok :=
  match l with
  | t :: r => if isWs t then r else l
  | [] => []

def seqMoved (numTokens : Int) (l : List Tok) : List Tok :=
  (seqBody l).take (pyCut (seqBody l).length numTokens)

def seqJumped (numTokens : Int) (l : List Tok) : List Tok :=
  ((seqBody l).drop (pyCut (seqBody l).length numTokens)).dropLast

/-- move_token_sequences_left_of_token.py:69-83 (block_001) -/
def fixMoveSeq (c : Cls) (numTokens : Int) (l : List Tok) : Except PyErr (List Tok) := do
  let t0 ← pyGet l 0
  let bInsertBlankLine := isWs t0
  let body := seqBody l
  let cut := pyCut body.length numTokens
  let lMove := body.take cut
  let rest := body.drop cut
  let last ← pyGet rest (-1)
  let l1 := rcw (rest.dropLast ++ lMove ++ [mkWs c] ++ [last])
  if bInsertBlankLine then insertToken l1 0 (mkBlank c) else .ok l1

/-- insert_carriage_return_after_token_if_it_is_not_followed_by_a_comment*.py (three classes) -/
def fixInsertCrAfter (c : Cls) (l : List Tok) : Except PyErr (List Tok) := insertCr c l 1

/-- split_line_at_token*.py (three classes) and move_token.fix_new_line_violations -/
def fixSplitLine (c : Cls) (l : List Tok) : Except PyErr (List Tok) := do
  let t1 ← pyGet l 1
  if isWs t1 then insertCr c l (-2) else insertCr c l (-1)

/-- split_line_at_token_if_on_same_line_as_token_if_token_pair_are_not_on_the_same_line.py -/
def fixSplitAt (c : Cls) (insertIndex : Int) (l : List Tok) : Except PyErr (List Tok) := insertCr c l insertIndex

/-- remove_carriage_return_after_token.py `_fix_violation` (repaired tree) -/
def fixRemoveCrAfter (c : Cls) (bInsertSpace : Bool) (l : List Tok) : Except PyErr (List Tok) := do
  let l1 := rcw (removeCrBeforeComment l)
  if bInsertSpace then
    let t1 ← pyGet l1 1
    if !isWs t1 then insertWs c l1 1 else .ok l1
  else .ok l1

/-- remove_carriage_returns_between_token_pairs.py (a base class no rule of the pinned tree uses; it
    still removes EVERY carriage return, as remove_carriage_return_after_token did before the repair) -/
def fixRemoveCr (c : Cls) (bInsertSpace : Bool) (l : List Tok) : Except PyErr (List Tok) := do
  let l1 := rcw (removeCr l)
  if bInsertSpace then
    let t1 ← pyGet l1 1
    if !isWs t1 then insertWs c l1 1 else .ok l1
  else .ok l1

/-- remove_lines_starting_with_token_between_token_pairs.py: `oViolation.set_tokens([])` -/
def fixRemoveLines (_l : List Tok) : Except PyErr (List Tok) := .ok []

/-- move_token.fix_new_line_with_preserve_comment_violations; `iTokenIndex = oTokens.token_index` -/
def fixNewLinePreserve (c : Cls) (iTokenIndex : Int) (l : List Tok) : Except PyErr (List Tok) := do
  let tl ← pyGet l (-1)
  let (lTemp, l1) ←
    (if isCommentInst tl then do
      let (cm, la) ← pyPop l (-1)
      let tl2 ← pyGet la (-1)
      if isWs tl2 then do
        let (w, lb) ← pyPop la (-1)
        pure ([w, cm], lb)
      else pure ([cm], la)
    else pure ([], l) : Except PyErr (List Tok × List Tok))
  let l2 ← insertCr c l1 iTokenIndex
  .ok (pyInsertList l2 iTokenIndex lTemp)

/-- the trailing `[whitespace] comment` that fix_new_line_with_preserve_comment keeps on the old
    line (it re-inserts it in front of the new line break) -/
def preserveTail (l : List Tok) : List Tok :=
  match l.getLast? with
  | some cm =>
    if isCommentInst cm then
      match l.dropLast.getLast? with
      | some w => if isWs w then [w, cm] else [cm]
      | none => [cm]
    else []
  | none => []

/-- the region without that trailing comment -/
def preserveBody (l : List Tok) : List Tok := l.take (l.length - (preserveTail l).length)

/-- move_token.fix_move_left_violations; `bViolWs = oViolation.insert_whitespace` -/
def fixMoveTokenLeft (c : Cls) (bViolWs : Bool) (l : List Tok) : Except PyErr (List Tok) := do
  let (x, l1) ← pyPop l (-1)
  let l2 ← insertToken l1 1 x
  let l3 ← if bViolWs then insertToken l2 1 (mkWs c) else .ok l2
  .ok (fixBlankLines (mkBlank c) (rcw l3))

/-- which of the three fixes `move_token._fix_violation` runs -/
inductive MoveTokenMode where
  | newLine | newLinePreserve | moveLeft
  deriving DecidableEq, Repr

def moveTokenMode (action : Str) (preserveComment : Bool) : MoveTokenMode :=
  if action == "new_line".toList && !preserveComment then .newLine
  else if action == "new_line".toList && preserveComment then .newLinePreserve
  else .moveLeft

/-! ### what a single-token move jumps over -/

/-- position `list.insert(i, x)` uses in a list of length `n` -/
def insPos (n : Nat) (i : Int) : Nat :=
  (if i < 0 then max 0 (i + (n : Int)) else min i (n : Int)).toNat

/-- the tokens a token popped at position `k` and re-inserted at position `p` (of the shortened
    list) passes: to the left `l[p:k]`, to the right `l[k+1:p+1]` -/
def crossed (l : List Tok) (k p : Nat) : List Tok :=
  if p ≤ k then (l.take k).drop p else (l.drop (k + 1)).take (p - k)

/-! ### owners and dispatch -/

def moveNextOwners : List String := ["vsg.rules.move_token_next_to_another_token.move_token_next_to_another_token"]
def moveNextBetweenOwners : List String := ["vsg.rules.move_token_next_to_another_token_if_it_exists_between_tokens.move_token_next_to_another_token_if_it_exists_between_tokens"]
def moveLeftOwners : List String := ["vsg.rules.move_token_left_to_next_non_whitespace_token.move_token_left_to_next_non_whitespace_token"]
def moveRightOwners : List String := ["vsg.rules.move_token_right_to_next_non_whitespace_token.move_token_right_to_next_non_whitespace_token"]
def moveTokenOwners : List String := ["vsg.rules.move_token.move_token"]
def moveRightOfOwners : List String := ["vsg.rules.move_token_to_the_right_of_several_possible_tokens_if_it_exists_between_tokens.move_token_to_the_right_of_several_possible_tokens_if_it_exists_between_tokens"]
def moveSeqOwners : List String := ["vsg.rules.move_token_sequences_left_of_token.move_token_sequences_left_of_token"]
def insertCrAfterOwners : List String :=
  ["vsg.rules.insert_carriage_return_after_token_if_it_is_not_followed_by_a_comment.insert_carriage_return_after_token_if_it_is_not_followed_by_a_comment",
   "vsg.rules.insert_carriage_return_after_token_if_it_is_not_followed_by_a_comment_when_between_tokens.insert_carriage_return_after_token_if_it_is_not_followed_by_a_comment_when_between_tokens",
   "vsg.rules.insert_carriage_return_after_token_if_it_is_not_followed_by_a_comment_when_between_tokens_unless_between_tokens.insert_carriage_return_after_token_if_it_is_not_followed_by_a_comment_when_between_tokens_unless_between_tokens"]
def splitLineOwners : List String :=
  ["vsg.rules.split_line_at_token.split_line_at_token",
   "vsg.rules.split_line_at_token_when_between_tokens.split_line_at_token_when_between_tokens",
   "vsg.rules.split_line_at_token_when_between_tokens_unless_token_is_found.split_line_at_token_when_between_tokens_unless_token_is_found"]
def splitAtOwners : List String := ["vsg.rules.split_line_at_token_if_on_same_line_as_token_if_token_pair_are_not_on_the_same_line.split_line_at_token_if_on_same_line_as_token_if_token_pair_are_not_on_the_same_line"]
def removeCrAfterOwners : List String := ["vsg.rules.remove_carriage_return_after_token.remove_carriage_return_after_token"]
def removeCrPairsOwners : List String := ["vsg.rules.remove_carriage_returns_between_token_pairs.remove_carriage_returns_between_token_pairs"]
def removeCrOwners : List String := removeCrAfterOwners ++ removeCrPairsOwners
def removeLinesOwners : List String := ["vsg.rules.remove_lines_starting_with_token_between_token_pairs.remove_lines_starting_with_token_between_token_pairs"]

/-- the owners whose fix only inserts line breaks -/
def breakOwners : List String := insertCrAfterOwners ++ splitLineOwners ++ splitAtOwners
/-- the owners whose fix moves one token (or, block_001, a token sequence) -/
def moveOwners : List String :=
  moveNextOwners ++ moveNextBetweenOwners ++ moveLeftOwners ++ moveRightOwners ++ moveTokenOwners ++ moveRightOfOwners ++ moveSeqOwners
/-- every phase-1 owner of the family (remove_lines… is a phase-2 rule and listed separately) -/
def phase1Owners : List String := moveOwners ++ breakOwners ++ removeCrOwners
def allOwners : List String := phase1Owners ++ removeLinesOwners

/-- `dAction["key"]` -/
def needInt (kv : KV) (k : String) : Except PyErr Int :=
  match kv.get k with
  | some (.int i) => .ok i
  | some (.bool b) => .ok (if b then 1 else 0)
  | some _ => .error .typeError
  | none => .error (.keyError k)

/-- an attribute of the violation / the region that the rule reads directly; when the analysis did
    not set it Python raises AttributeError (or hands `None` to `pop`: TypeError) -/
def needAttrInt (kv : KV) (k : String) : Except PyErr Int :=
  match kv.get k with
  | some (.int i) => .ok i
  | some (.bool b) => .ok (if b then 1 else 0)
  | some _ => .error .typeError
  | none => .error .attributeError

/-- `oViolation.get_token_value()`: `None` when the region carries no token value, and
    `lTokens.pop(None)` raises TypeError -/
def needTokenValue (kv : KV) : Except PyErr Int :=
  match kv.get "_tv" with
  | some (.int i) => .ok i
  | _ => .error .typeError

/-- truthiness of `self.<k>` / `oViolation.<k>` -/
def needBool (kv : KV) (k : String) : Except PyErr Bool :=
  match kv.get k with
  | some (.bool b) => .ok b
  | some (.int i) => .ok (i != 0)
  | some (.str s) => .ok (!s.isEmpty)
  | some (.list l) => .ok (!l.isEmpty)
  | some .none => .ok false
  | none => .error .attributeError
  | some _ => .ok true

def needStr (kv : KV) (k : String) : Except PyErr Str :=
  match kv.get k with
  | some (.str s) => .ok s
  | some _ => .ok []
  | none => .error .attributeError

/-- the model of `owner._fix_violation` for the owners of this family -/
def fixByOwner (c : Cls) (owner : String) (params action : KV) (old : List Tok) : Option (Except PyErr (List Tok)) :=
  if owner ∈ moveNextOwners then some (do
    let i ← needTokenValue action
    fixMoveNext c i old)
  else if owner ∈ moveNextBetweenOwners then some (do
    let m ← needInt action "moveIndex"
    let i ← needInt action "insertIndex"
    fixMoveNextBetween c m i old)
  else if owner ∈ moveLeftOwners then some (do
    let bw ← needBool params "bInsertWhitespace"
    let bt ← needBool params "bRemoveTrailingWhitespace"
    fixMoveLeft c bw bt old)
  else if owner ∈ moveRightOwners then some (do
    let i ← needAttrInt action "_a"
    let bw ← needBool params "bInsertWhitespace"
    fixMoveRight c bw i old)
  else if owner ∈ moveTokenOwners then some (do
    let a ← needStr params "action"
    let pc ← needBool params "preserve_comment"
    match moveTokenMode a pc with
    | .newLine => fixSplitLine c old
    | .newLinePreserve => do
      let i ← needAttrInt action "_ti"
      fixNewLinePreserve c i old
    | .moveLeft => do
      let b ← needBool action "_iw"
      fixMoveTokenLeft c b old)
  else if owner ∈ moveRightOfOwners then some (do
    let m ← needInt action "move_index"
    let i ← needInt action "insert"
    let bw ← needBool params "bInsertWhitespace"
    fixMoveRightOf c bw m i old)
  else if owner ∈ moveSeqOwners then some (do
    let n ← needInt action "num_tokens"
    fixMoveSeq c n old)
  else if owner ∈ insertCrAfterOwners then some (fixInsertCrAfter c old)
  else if owner ∈ splitLineOwners then some (fixSplitLine c old)
  else if owner ∈ splitAtOwners then some (do
    let i ← needInt action "insert_index"
    fixSplitAt c i old)
  else if owner ∈ removeCrAfterOwners then some (do
    let b ← needBool params "bInsertSpace"
    fixRemoveCrAfter c b old)
  else if owner ∈ removeCrPairsOwners then some (do
    let b ← needBool params "bInsertSpace"
    fixRemoveCr c b old)
  else if owner ∈ removeLinesOwners then some (fixRemoveLines old)
  else none

/-- the owners whose fix is one pop + one insert (move_token: in its `move_left` mode) -/
def singleMoveOwners : List String :=
  moveNextOwners ++ moveNextBetweenOwners ++ moveLeftOwners ++ moveRightOwners ++ moveRightOfOwners

/-- Python indices (pop index, insert index) of the single-token move an owner performs -/
def moveIdx (owner : String) (action : KV) : Option (Int × Int) :=
  if owner ∈ moveNextOwners then
    (match needTokenValue action with | .ok i => some (i, 1) | .error _ => none)
  else if owner ∈ moveNextBetweenOwners then
    (match needInt action "moveIndex", needInt action "insertIndex" with
      | .ok m, .ok i => some (m, i) | _, _ => none)
  else if owner ∈ moveLeftOwners then some (-1, 1)
  else if owner ∈ moveRightOwners then
    (match needAttrInt action "_a" with | .ok i => some (i, -1) | .error _ => none)
  else if owner ∈ moveRightOfOwners then
    (match needInt action "move_index", needInt action "insert" with
      | .ok m, .ok i => some (m, i) | _, _ => none)
  else if owner ∈ moveTokenOwners then some (-1, 1)
  else none

end Vsgm.Base.LineStruct
