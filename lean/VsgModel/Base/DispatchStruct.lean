/-
  Layer B dispatch of the structure family (token-adding / token-removing base classes, the
  declaration splitters, `if_002`) and of the remaining alignment fixers:
  `_fix_violation` owner ↦ Lean model, with the rule parameters (`self.…`) and the violation's
  action decoded from the key/value wire form.  `__token_value` in the action is
  `oViolation.get_token_value()` (recorded by the harvester).
-/
import VsgModel.Base.StructCommon
import VsgModel.Base.Insert
import VsgModel.Base.Remove
import VsgModel.Base.Parens
import VsgModel.Base.Split
import VsgModel.Base.AlignMulti
import VsgModel.Generated.Classes
import VsgModel.Generated.ClassTree
import VsgModel.Wire
namespace Vsgm.Base
open Vsgm

/-- the environment of the pinned tree: generated class tree and class kinds -/
def stdEnv : Env :=
  { isa := Gen.isa, kindOf := Wire.kindOfCls, wsCls := Gen.wsCls, crCls := Gen.crCls,
    semicolonCls := Gen.semicolonCls, openParenCls := Gen.openParenCls, closeParenCls := Gen.closeParenCls,
    ifaceSemicolonCls := Gen.interfaceListSemicolonCls }

def ownNextTo : String := "vsg.rules.insert_token_next_to_token_if_it_does_not_exist_between_tokens_using_value_from_token.insert_token_next_to_token_if_it_does_not_exist_between_tokens_using_value_from_token"
def ownRightOf : String := "vsg.rules.insert_token_right_of_token_if_it_does_not_exist_before_token.insert_token_right_of_token_if_it_does_not_exist_before_token"
def ownRightOfPossible : String := "vsg.rules.insert_token_right_of_possible_tokens_if_it_does_not_exist_before_token.insert_token_right_of_possible_tokens_if_it_does_not_exist_before_token"
def ownLeftOf : String := "vsg.rules.insert_token_left_of_token_if_it_does_not_exist_between_tokens.insert_token_left_of_token_if_it_does_not_exist_between_tokens"
def ownTokensRightOf : String := "vsg.rules.insert_tokens_right_of_token_if_it_does_not_exist_before_token.insert_tokens_right_of_token_if_it_does_not_exist_before_token"
def ownGenerate011 : String := "vsg.rules.generate.rule_011.rule_011"
def ownBounded : String := "vsg.rules.remove_tokens_bounded_by_tokens_and_remove_trailing_whitespace.remove_tokens_bounded_by_tokens_and_remove_trailing_whitespace"
def ownRemoveTokens : String := "vsg.rules.remove_tokens.remove_tokens"
def ownRemoveComments : String := "vsg.rules.remove_comments_from_end_of_lines_bounded_by_tokens.remove_comments_from_end_of_lines_bounded_by_tokens"
def ownIf002 : String := "vsg.rules.if_statement.rule_002.rule_002"
def ownSignal015 : String := "vsg.rules.separate_multiple_signal_identifiers_into_individual_statements.separate_multiple_signal_identifiers_into_individual_statements"
def ownPort026 : String := "vsg.rules.port.rule_026.rule_026"
def ownMultiAlign : String := "vsg.rules.multiline_alignment_between_tokens.multiline_alignment_between_tokens"
def ownAlignConsecutive : String := "vsg.rules.align_consecutive_lines_after_line_starting_with_token_and_stopping_with_token.align_consecutive_lines_after_line_starting_with_token_and_stopping_with_token"
def ownArrayAlign : String := "vsg.rules.multiline_array_alignment.multiline_array_alignment"
def ownCondAlign : String := "vsg.rules.multiline_conditional_alignment.multiline_conditional_alignment"

/-- owners whose fix adds (or with `action: remove` removes) an optional code token -/
def insertOwners : List String := [ownNextTo, ownRightOf, ownRightOfPossible, ownLeftOf, ownTokensRightOf, ownGenerate011]
/-- owners whose fix deletes the tokens of interest (labels) / one token -/
def deleteOwners : List String := [ownBounded, ownRemoveTokens]
def commentRemoverOwnersB : List String := [ownRemoveComments]
def parensOwners : List String := [ownIf002]
def splitOwners : List String := [ownSignal015, ownPort026]
/-- alignment fixers that set the value of / insert the first token -/
def alignMultiOwners : List String := [ownMultiAlign, ownAlignConsecutive, ownArrayAlign, ownCondAlign]

def strIs (kv : KV) (k : String) (s : String) : Bool :=
  match kv.get k with
  | some (.str v) => v == s.toList
  | _ => false

/-- `oViolation.get_token_value()`: `none` when absent / None -/
def tokenValue (action : KV) : Except PyErr (Option Str) :=
  match action.get "__token_value" with
  | some (.str s) => .ok (some s)
  | some .none => .ok none
  | none => .ok none
  | some _ => .error (.unmodelled "non-str token value")

/-- the modelled `_fix_violation` owners of this family -/
inductive SOwner where
  | nextTo | rightOf | rightOfPossible | leftOf | tokensRightOf | generate011
  | bounded | removeTokens | removeComments | if002 | signal015 | port026
  | multiAlign | alignConsecutive | arrayAlign | condAlign
  deriving DecidableEq, Repr

def SOwner.name : SOwner → String
  | .nextTo => ownNextTo | .rightOf => ownRightOf | .rightOfPossible => ownRightOfPossible
  | .leftOf => ownLeftOf | .tokensRightOf => ownTokensRightOf | .generate011 => ownGenerate011
  | .bounded => ownBounded | .removeTokens => ownRemoveTokens | .removeComments => ownRemoveComments
  | .if002 => ownIf002 | .signal015 => ownSignal015 | .port026 => ownPort026
  | .multiAlign => ownMultiAlign | .alignConsecutive => ownAlignConsecutive
  | .arrayAlign => ownArrayAlign | .condAlign => ownCondAlign

def SOwner.all : List SOwner :=
  [.nextTo, .rightOf, .rightOfPossible, .leftOf, .tokensRightOf, .generate011, .bounded, .removeTokens,
   .removeComments, .if002, .signal015, .port026, .multiAlign, .alignConsecutive, .arrayAlign, .condAlign]

/-- fully qualified class name ↦ modelled owner -/
def sownerOf (owner : String) : Option SOwner := SOwner.all.find? (fun o => o.name == owner)

def SOwner.isInsert : SOwner → Bool
  | .nextTo | .rightOf | .rightOfPossible | .leftOf | .tokensRightOf | .generate011 => true
  | _ => false
def SOwner.isDelete : SOwner → Bool
  | .bounded | .removeTokens => true
  | _ => false
def SOwner.isSplit : SOwner → Bool
  | .signal015 | .port026 => true
  | _ => false
def SOwner.isAlign : SOwner → Bool
  | .multiAlign | .alignConsecutive | .arrayAlign | .condAlign => true
  | _ => false

/-- the rule is configured to remove the optional item (`action: remove`; `insert_tokens_right_of…`
    tests `action == "add"` instead) -/
def removeMode (o : SOwner) (params : KV) : Bool :=
  match o with
  | .tokensRightOf => !strIs params "action" "add"
  | _ => strIs params "action" "remove"

/-- the token(s) an insert-family rule is designated to insert: class and value from the rule
    parameter, the value copied from the token the extractor recorded (`…using_value_from_token`), or
    the label token the action carries (generate_011).  `none`: no value recorded. -/
def designated (E : Env) (o : SOwner) (params action : KV) : Except PyErr (Option (List Tok)) :=
  match o with
  | .nextTo => do
    let insCls ← needIntS params "insert_token"
    let v ← tokenValue action
    pure (v.map fun s => [E.inst insCls.toNat s])
  | .rightOf | .leftOf => do
    let tok ← needTok params "insert_token"
    pure (some [tok])
  | .rightOfPossible => do
    let tok ← needTok params "oInsertToken"
    pure (some [tok])
  | .tokensRightOf => do
    let tv ← needList params "insert_tokens"
    let toks ← toksOf tv
    pure (some toks)
  | .generate011 => do
    let lab ← needTok action "label"
    pure (some [lab])
  | _ => .error (.unmodelled "not an insert owner")

/-- the model of `<owner>._fix_violation` for the owners of this family -/
def fixS (E : Env) (o : SOwner) (params action : KV) (old : List Tok) : Except PyErr (List Tok) :=
  match o with
  | .nextTo => do
    let insCls ← needIntS params "insert_token"
    let anchor ← needIntS params "anchor_token"
    let v ← tokenValue action
    Insert.fixNextTo E (removeMode .nextTo params) (fun t => E.isa t.cls anchor.toNat)
      (fun s => E.inst insCls.toNat s) (strIs params "direction" "right") v old
  | .rightOf => do
    let tok ← needTok params "insert_token"
    Insert.fixRightOf E (removeMode .rightOf params) tok old
  | .rightOfPossible => do
    let tok ← needTok params "oInsertToken"
    Insert.fixRightOfPossible E (removeMode .rightOfPossible params) tok action old
  | .leftOf => do
    let tok ← needTok params "insert_token"
    Insert.fixLeftOf E (removeMode .leftOf params) tok action old
  | .tokensRightOf => do
    let tv ← needList params "insert_tokens"
    let toks ← toksOf tv
    Insert.fixTokensRightOf E (!removeMode .tokensRightOf params) toks action old
  | .generate011 => Insert.fixGenerate011 E (removeMode .generate011 params) action old
  | .bounded => Remove.fixBounded old
  | .removeTokens => Remove.fixRemoveTokens old
  | .removeComments => Remove.fixRemoveComments old
  | .if002 => Parens.fixV E (strIs params "parenthesis" "insert") action old
  | .signal015 => Split.fixSignal E action old
  | .port026 => Split.fixPort E action old
  | .multiAlign => AlignMulti.fixColumn E action old
  | .alignConsecutive | .arrayAlign => AlignMulti.fixWhitespace E action old
  | .condAlign => AlignMulti.fixConditional E action old

/-- the structure family's part of `fixByOwner` -/
def fixStruct (E : Env) (owner : String) (params action : KV) (old : List Tok) :
    Option (Except PyErr (List Tok)) :=
  (sownerOf owner).map fun o => fixS E o params action old

end Vsgm.Base
