/-
  driver mode `caseu`: the analysis side of the case family on the wire.

  strings: code points joined by '.', the empty string is "e"; lists of strings joined by ',', the
  empty list is "-".  One request per line, fields separated by TAB:

    C  name case prefixes suffixes exceptions regexMatches cp cs value index
         → none | some n <index> | some s<value> <index> | err <PyErr> | unmodelled
    A  mapStart,mapEnd,formal,assign name case prefixes suffixes exceptions regexMatches tokens
         → ok <act> <act> …   (act = n:<index> | s<value>:<index>)  | err <PyErr> | unmodelled
    F  ids value       (consistent_case_utils.create_tois)        → none | some s<value>
    M  ids value       (interface_case_mismatch + dInterfaceMap)  → none | some s<value> | err <PyErr>

  `unmodelled`: some string contains capital sigma (the final-sigma rule of `str.lower()` is not modelled).
-/
import VsgModel.Base.Case
import VsgModel.Base.CaseTables
import VsgModel.Base.CaseRegex
import VsgModel.Wire
namespace Vsgm.Base.Case.Cli
open Vsgm Vsgm.Base Vsgm.Base.Case Vsgm.Wire

def decS (s : String) : Str := if s == "e" then [] else decStr s
def encS (v : Str) : String := if v.isEmpty then "e" else encStr v
def decL (s : String) : List Str := if s == "-" then [] else (s.splitOn ",").map decS

/-- all strings of a request -/
def allStrings (p : Params) (more : List Str) : List Str :=
  p.name :: (p.prefixes ++ p.suffixes ++ p.exceptions ++ more)

def envOf (p : Params) (more : List Str) (regexMatches : List Str) : Env :=
  envFor (allStrings p more) (Rx.builtin regexMatches)

def showAct (a : Action) : String :=
  match a.value with
  | some e => s!"s{encS e}"
  | none => "n"

def mkParams (name case pre suf exc : String) : Params :=
  { name := decS name, style := Style.ofString case, prefixes := decL pre, suffixes := decL suf, exceptions := decL exc }

def sigmaIn (p : Params) (more : List Str) : Bool :=
  (p.prefixes ++ p.suffixes ++ p.exceptions ++ more).any hasCapitalSigma

def answer (line : String) : String :=
  match line.splitOn "\t" with
  | ["C", name, case, pre, suf, exc, rm, cp, cs, v, idx] =>
    let p := mkParams name case pre suf exc
    let v := decS v
    if sigmaIn p [v] then "unmodelled" else
    match checkForCaseViolation (envOf p [v] (decL rm)) p (cp == "1") (cs == "1") v idx.toInt! with
    | .error e => s!"err {repr e}"
    | .ok none => "none"
    | .ok (some a) => s!"some {showAct a} {a.index}"
  | ["A", cls, name, case, pre, suf, exc, rm, ts] =>
    let p := mkParams name case pre suf exc
    let toks := (decToks ts).map (·.tok)
    if sigmaIn p (toks.map (·.val)) then "unmodelled" else
    match (cls.splitOn ",").map String.toNat! with
    | [a, b, c, d] =>
      match FormalPart.analyzeToi (envOf p (toks.map (·.val)) (decL rm)) { mapStart := a, mapEnd := b, formal := c, assign := d } p toks with
      | .error e => s!"err {repr e}"
      | .ok acts => "ok" ++ String.join (acts.map fun x => s!" {showAct x}:{x.index}")
    | _ => "error bad classes"
  | ["F", ids, v] =>
    let ids := decL ids
    let v := decS v
    if (v :: ids).any hasCapitalSigma then "unmodelled" else
    match Consistent.expectedFirst (envFor (v :: ids) (Rx.builtin [])) ids v with
    | none => "none"
    | some e => s!"some s{encS e}"
  | ["M", ids, v] =>
    let ids := decL ids
    let v := decS v
    if (v :: ids).any hasCapitalSigma then "unmodelled" else
    match Consistent.expectedMap (envFor (v :: ids) (Rx.builtin [])) ids v with
    | .error e => s!"err {repr e}"
    | .ok none => "none"
    | .ok (some e) => s!"some s{encS e}"
  | _ => "error bad line"

partial def caseuMain (stdin stdout : IO.FS.Stream) : IO Unit := do
  let line ← stdin.getLine
  if line.isEmpty then return ()
  let line := if line.endsWith "\n" then (line.dropEnd 1).toString else line
  stdout.putStrLn (answer line)
  stdout.flush
  caseuMain stdin stdout

end Vsgm.Base.Case.Cli
