/-
  Layer P, C05: the syntactic fragment "navigation programs" — function bodies that touch the token list ONLY through
  calls (of the helpers of `utils.py` whose interpreted semantics is proved equal to the hand models, or of other
  functions of the fragment), built from assignment of a call result / a variable / `x + const` to a variable,
  if / while on a call, its negation, a variable or an (in)equality of simple values, return, pass, break, continue.
  No subscript, no `len`, no built-in, no `for`, no `try`, no fused store, no dynamic call.
  `navClosed` checks that a set of function NAMES is closed: every member has this shape and calls only members or
  base helpers.  (Membership is what the lifting theorem of C05 would be about; the theorem itself is not proved.)
-/
import VsgModel.Prog.Check
namespace Vsgm.Prog

def isStrLit : Expr → Bool
  | .str _ => true
  | _ => false

/-- an argument that is passed on unchanged: variable, constant, class / module constant, list of string literals -/
def simpleArg : Expr → Bool
  | .var _ | .none | .bool _ | .int _ | .str _ | .clsC _ | .modC _ | .glob _ => true
  | .list es => es.all isStrLit
  | _ => false

def navCall (inSet : Nat → Bool) : Expr → Bool
  | .callF k args => inSet k && args.all simpleArg
  | _ => false

/-- right-hand sides: a call, a simple value, or `x ± const` -/
def navRhs (inSet : Nat → Bool) (e : Expr) : Bool :=
  navCall inSet e || simpleArg e ||
  (match e with
   | .binop _ (.var _) (.int _) => true
   | _ => false)

def navCond (inSet : Nat → Bool) (e : Expr) : Bool :=
  navCall inSet e || simpleArg e ||
  (match e with
   | .not e' => navCall inSet e' || simpleArg e'
   | .cmp .eq a b => simpleArg a && simpleArg b
   | .cmp .ne a b => simpleArg a && simpleArg b
   | _ => false)

mutual
def navStmt (inSet : Nat → Bool) : Stmt → Bool
  | .assign (.var _) e => navRhs inSet e
  | .aug (.var _) _ (.int _) => true
  | .expr e => navCall inSet e
  | .ite c t e => navCond inSet c && navBlock inSet t && navBlock inSet e
  | .while c b => navCond inSet c && navBlock inSet b
  | .ret e => navRhs inSet e
  | .brk | .cont | .pass => true
  | _ => false
def navBlock (inSet : Nat → Bool) : List Stmt → Bool
  | [] => true
  | s :: ss => navStmt inSet s && navBlock inSet ss
end

def idxsOf (names : List String) (tab : List (String × FunDef)) : List Nat := names.filterMap (funIdx · tab)

/-- `names` is a closed set of navigation programs over the base helpers `base` -/
def navClosed (base names : List String) (tab : List (String × FunDef)) : Bool :=
  let ok := idxsOf base tab ++ idxsOf names tab
  let inSet := fun k => ok.contains k
  (idxsOf names tab).length == names.length &&
  (idxsOf names tab).all fun k =>
    match tab[k]? with
    | some (_, fd) => !fd.isOpaque && fd.defaults.all simpleArg && navBlock inSet fd.body
    | none => false

/-- one round of the greatest-fixpoint computation (used by the driver to FIND the set; the theorem only checks it) -/
def navRound (base : List Nat) (tab : List (String × FunDef)) (cur : List Nat) : List Nat :=
  let inSet := fun k => base.contains k || cur.contains k
  cur.filter fun k =>
    match tab[k]? with
    | some (_, fd) => !fd.isOpaque && fd.defaults.all simpleArg && navBlock inSet fd.body
    | none => false

def navFix (base : List Nat) (tab : List (String × FunDef)) : Nat → List Nat → List Nat
  | 0, cur => cur
  | n + 1, cur =>
    let nxt := navRound base tab cur
    if nxt.length == cur.length then cur else navFix base tab n nxt

/-- the helpers of `utils.py` whose interpreted semantics is proved (C05, `prog_*`) -/
def navBase : List String :=
  ["utils.find_next_token", "utils.is_next_token", "utils.object_value_is", "utils.assign_next_token",
   "utils.assign_next_token_if", "utils.assign_next_token_if_not", "utils.assign_next_token_required"]

/-- the largest closed set over `navBase`, as names -/
def navFragmentNames (tab : List (String × FunDef)) : List String :=
  let base := idxsOf navBase tab
  let all := (List.range tab.length).filter fun k => !base.contains k
  (navFix base tab tab.length all).filterMap fun k => (tab[k]?).map (·.1)

/-! ### chains: straight-line productions (the sub-fragment for which the lifting IS proved, `Lemmas/ProgChain.lean`) -/

/-- positions of the four assignment helpers in the table -/
structure ChainSig where
  kAnt : Nat
  kIf : Nat
  kIfNot : Nat
  kReq : Nat
  kFind : Nat
  kOvi : Nat
  kErr : Nat

inductive Step where
  | ant (c : Nat)                  -- assign_next_token(C, i, l)
  | aif (s : Str) (c : Nat)        -- assign_next_token_if(s, C, i, l)
  | aifnot (s : Str) (c : Nat)     -- assign_next_token_if_not(s, C, i, l)
  | areq (s : Str) (c : Nat)       -- assign_next_token_required(s, C, i, l)

def Step.fn (K : ChainSig) : Step → Nat
  | .ant _ => K.kAnt | .aif _ _ => K.kIf | .aifnot _ _ => K.kIfNot | .areq _ _ => K.kReq

def Step.argsE (cur l : Nat) : Step → List Expr
  | .ant c => [.clsC c, .var cur, .var l]
  | .aif s c => [.str s, .clsC c, .var cur, .var l]
  | .aifnot s c => [.str s, .clsC c, .var cur, .var l]
  | .areq s c => [.str s, .clsC c, .var cur, .var l]

/-- statements of a chain whose current index variable is `cur` (parameters: 0 = iToken, 1 = lObjects; 2 = iCurrent) -/
def chainFrom (K : ChainSig) (cur : Nat) : List Step → List Stmt
  | [] => [.ret (.var cur)]
  | s :: ss => .assign (.var 2) (.callF (s.fn K) (s.argsE cur 1)) :: chainFrom K 2 ss

def chainDef (K : ChainSig) (steps : List Step) : FunDef :=
  { nparams := 2, nlocals := 3, defaults := [], body := chainFrom K 0 steps }


/-- recognise the statements of a chain whose current index variable is `cur` -/
def decodeFrom (K : ChainSig) : Nat → List Stmt → Option (List Step)
  | cur, [.ret (.var v)] => if v == cur then some [] else none
  | cur, .assign (.var 2) (.callF k [.clsC c, .var x, .var 1]) :: rest =>
    if k == K.kAnt && x == cur then (decodeFrom K 2 rest).map (Step.ant c :: ·) else none
  | cur, .assign (.var 2) (.callF k [.str s, .clsC c, .var x, .var 1]) :: rest =>
    if x == cur then
      (if k == K.kIf then (decodeFrom K 2 rest).map (Step.aif s c :: ·)
       else if k == K.kIfNot then (decodeFrom K 2 rest).map (Step.aifnot s c :: ·)
       else if k == K.kReq then (decodeFrom K 2 rest).map (Step.areq s c :: ·)
       else none)
    else none
  | _, _ => none

/-- recognise a chain: `def f(iToken, lObjects)` with the one local `iCurrent` -/
def decodeChain (K : ChainSig) (fd : FunDef) : Option (List Step) :=
  if fd.nparams == 2 && fd.nlocals == 3 && fd.defaults.isEmpty && !fd.isOpaque then decodeFrom K 0 fd.body else none

/-- the signature of the generated table, by name -/
def chainSigOf (tab : List (String × FunDef)) : ChainSig :=
  { kAnt := (funIdx "utils.assign_next_token" tab).getD 0
    kIf := (funIdx "utils.assign_next_token_if" tab).getD 0
    kIfNot := (funIdx "utils.assign_next_token_if_not" tab).getD 0
    kReq := (funIdx "utils.assign_next_token_required" tab).getD 0
    kFind := (funIdx "utils.find_next_token" tab).getD 0
    kOvi := (funIdx "utils.object_value_is" tab).getD 0
    kErr := (funIdx "utils.print_error_message" tab).getD 0 }

/-- names of the functions of the table that are chains -/
def chainNames (tab : List (String × FunDef)) : List String :=
  (tab.filter fun p => (decodeChain (chainSigOf tab) p.2).isSome).map (·.1)

/-! ### chains with conditionals on `utils.is_next_token` (`Lemmas/ProgIfChain.lean`) -/

/-- a production built from helper assignments to `iCurrent`, `iCurrent = iToken`, and
    `if [not] utils.is_next_token("x", iCurrent, lObjects): … [else: …]` (nested), ending in `return iCurrent`;
    `skip` ends a branch that falls through -/
inductive ICmd where
  | ret
  | skip
  | init (k : ICmd)                                        -- iCurrent = iToken
  | step (s : Step) (k : ICmd)                             -- iCurrent = helper(…, cur, lObjects)
  | ite (neg : Bool) (str : Str) (thn els k : ICmd)        -- if [not] is_next_token(str, iCurrent, lObjects)

def condExpr (kIs : Nat) (neg : Bool) (str : Str) : Expr :=
  if neg then .not (.callF kIs [.str str, .var 2, .var 1]) else .callF kIs [.str str, .var 2, .var 1]

/-- statements of an `ICmd` whose current index variable is `cur` (0 = `iToken` before the first assignment, then 2) -/
def icmdStmts (K : ChainSig) (kIs : Nat) : Nat → ICmd → List Stmt
  | cur, .ret => [.ret (.var cur)]
  | _, .skip => []
  | _, .init k => .assign (.var 2) (.var 0) :: icmdStmts K kIs 2 k
  | cur, .step s k => .assign (.var 2) (.callF (s.fn K) (s.argsE cur 1)) :: icmdStmts K kIs 2 k
  | _, .ite neg str thn els k =>
    .ite (condExpr kIs neg str) (icmdStmts K kIs 2 thn) (icmdStmts K kIs 2 els) :: icmdStmts K kIs 2 k

def icmdDef (K : ChainSig) (kIs : Nat) (c : ICmd) : FunDef :=
  { nparams := 2, nlocals := 3, defaults := [], body := icmdStmts K kIs 0 c }

def ICmd.hasIte : ICmd → Bool
  | .ret | .skip => false
  | .init k => k.hasIte
  | .step _ k => k.hasIte
  | .ite _ _ _ _ _ => true

/-- nesting depth of conditionals (fuel) and number of nodes (step budget) -/
def ICmd.depth : ICmd → Nat
  | .ret | .skip => 0
  | .init k => k.depth
  | .step _ k => k.depth
  | .ite _ _ t e k => max (max t.depth e.depth + 1) k.depth

def ICmd.cost : ICmd → Nat
  | .ret | .skip => 0
  | .init k => k.cost
  | .step _ k => k.cost + 1
  | .ite _ _ t e k => t.cost + e.cost + k.cost + 1

/-- a main program ends in `return` on every path that reaches its end; a branch may fall through -/
def ICmd.endsRet : ICmd → Bool
  | .ret => true
  | .skip => false
  | .init k => k.endsRet
  | .step _ k => k.endsRet
  | .ite _ _ _ _ k => k.endsRet

/-- index variable discipline: `iCurrent = iToken` only first, conditionals only once `iCurrent` is bound -/
def ICmd.wf : Nat → ICmd → Bool
  | _, .ret | _, .skip => true
  | cur, .init k => cur == 0 && k.wf 2
  | _, .step _ k => k.wf 2
  | cur, .ite _ _ t e k => cur == 2 && t.wf 2 && e.wf 2 && k.wf 2

/-- the index variable at the end of a block that falls through -/
def ICmd.endCur : Nat → ICmd → Nat
  | cur, .ret | cur, .skip => cur
  | _, .init k => k.endCur 2
  | _, .step _ k => k.endCur 2
  | _, .ite _ _ _ _ k => k.endCur 2

def decodeStep (K : ChainSig) (cur : Nat) : Stmt → Option Step
  | .assign (.var 2) (.callF k [.clsC c, .var x, .var 1]) =>
    if k == K.kAnt && x == cur then some (.ant c) else none
  | .assign (.var 2) (.callF k [.str s, .clsC c, .var x, .var 1]) =>
    if x == cur then
      (if k == K.kIf then some (.aif s c) else if k == K.kIfNot then some (.aifnot s c)
       else if k == K.kReq then some (.areq s c) else none)
    else none
  | _ => none

def decodeCond (kIs : Nat) : Expr → Option (Bool × Str)
  | .callF k [.str s, .var 2, .var 1] => if k == kIs then some (false, s) else none
  | .not (.callF k [.str s, .var 2, .var 1]) => if k == kIs then some (true, s) else none
  | _ => none

/-- recognise the statements of an `ICmd` (fuel bounds the number of statements, nested ones included) -/
def decodeI (K : ChainSig) (kIs : Nat) : Nat → Nat → List Stmt → Option ICmd
  | 0, _, _ => none
  | _ + 1, _, [] => some .skip
  | _ + 1, cur, [.ret (.var v)] => if v == cur then some .ret else none
  | f + 1, cur, .assign (.var 2) (.var 0) :: rest =>
    if cur == 0 then (decodeI K kIs f 2 rest).map .init else none
  | f + 1, cur, .ite c t e :: rest =>
    if cur == 2 then
      (match decodeCond kIs c, decodeI K kIs f 2 t, decodeI K kIs f 2 e, decodeI K kIs f 2 rest with
        | some (neg, s), some a, some b, some k => some (.ite neg s a b k)
        | _, _, _, _ => none)
    else none
  | f + 1, cur, s :: rest =>
    match decodeStep K cur s, decodeI K kIs f 2 rest with
    | some a, some k => some (.step a k)
    | _, _ => none

def decodeIfChain (K : ChainSig) (kIs : Nat) (fd : FunDef) : Option ICmd :=
  if fd.nparams == 2 && fd.nlocals == 3 && fd.defaults.isEmpty && !fd.isOpaque then
    (match decodeI K kIs 64 0 fd.body with
      | some c => if c.endsRet && c.wf 0 then some c else none
      | none => none)
  else none

def isNextIdx (tab : List (String × FunDef)) : Nat := (funIdx "utils.is_next_token" tab).getD 0

/-- names of the functions that are chains with at least one conditional -/
def ifChainNames (tab : List (String × FunDef)) : List String :=
  (tab.filter fun p => match decodeIfChain (chainSigOf tab) (isNextIdx tab) p.2 with
    | some c => c.hasIte
    | none => false).map (·.1)

/-! ### detectors: `if utils.is_next_token("x", iToken, lObjects): return True` … `return False` (`Lemmas/ProgDetect.lean`) -/

def detectStmts (kIs : Nat) : List Str → List Stmt
  | [] => [.ret (.bool false)]
  | s :: ss => .ite (.callF kIs [.str s, .var 0, .var 1]) [.ret (.bool true)] [] :: detectStmts kIs ss

def detectDef (kIs : Nat) (strs : List Str) : FunDef :=
  { nparams := 2, nlocals := 2, defaults := [], body := detectStmts kIs strs }

def decodeDetect (kIs : Nat) : List Stmt → Option (List Str)
  | [.ret (.bool false)] => some []
  | .ite (.callF k [.str s, .var 0, .var 1]) [.ret (.bool true)] [] :: rest =>
    if k == kIs then (decodeDetect kIs rest).map (s :: ·) else none
  | _ => none

def decodeDetectFun (kIs : Nat) (fd : FunDef) : Option (List Str) :=
  if fd.nparams == 2 && fd.nlocals == 2 && fd.defaults.isEmpty && !fd.isOpaque then decodeDetect kIs fd.body else none

/-- names of the detectors of the table -/
def detectNames (tab : List (String × FunDef)) : List String :=
  (tab.filter fun p => (decodeDetectFun (isNextIdx tab) p.2).isSome).map (·.1)

end Vsgm.Prog
