/-
  Layer P, C05: the syntactic fragment "navigation programs" — function bodies that touch the token list ONLY through
  calls (of the helpers of `utils.py` whose interpreted semantics is proved equal to the hand models, or of other
  functions of the fragment), built from assignment of a call result / a variable / `x + const` to a variable,
  if / while on a call, its negation, a variable or an (in)equality of simple values, return, pass, break, continue.
  No subscript, no `len`, no built-in, no `for`, no `try`, no fused store, no dynamic call.
  `navClosed` checks that a set of function NAMES is closed: every member has this shape and calls only members or
  base helpers.  (Membership is what the lifting theorem of C05 would be about; the theorem itself is not proved.)
-/
import VsgModel.Prog.Check
namespace Vsgm.Prog

def isStrLit : Expr → Bool
  | .str _ => true
  | _ => false

/-- an argument that is passed on unchanged: variable, constant, class / module constant, list of string literals -/
def simpleArg : Expr → Bool
  | .var _ | .none | .bool _ | .int _ | .str _ | .clsC _ | .modC _ | .glob _ => true
  | .list es => es.all isStrLit
  | _ => false

def navCall (inSet : Nat → Bool) : Expr → Bool
  | .callF k args => inSet k && args.all simpleArg
  | _ => false

/-- right-hand sides: a call, a simple value, or `x ± const` -/
def navRhs (inSet : Nat → Bool) (e : Expr) : Bool :=
  navCall inSet e || simpleArg e ||
  (match e with
   | .binop _ (.var _) (.int _) => true
   | _ => false)

def navCond (inSet : Nat → Bool) (e : Expr) : Bool :=
  navCall inSet e || simpleArg e ||
  (match e with
   | .not e' => navCall inSet e' || simpleArg e'
   | .cmp .eq a b => simpleArg a && simpleArg b
   | .cmp .ne a b => simpleArg a && simpleArg b
   | _ => false)

mutual
def navStmt (inSet : Nat → Bool) : Stmt → Bool
  | .assign (.var _) e => navRhs inSet e
  | .aug (.var _) _ (.int _) => true
  | .expr e => navCall inSet e
  | .ite c t e => navCond inSet c && navBlock inSet t && navBlock inSet e
  | .while c b => navCond inSet c && navBlock inSet b
  | .ret e => navRhs inSet e
  | .brk | .cont | .pass => true
  | _ => false
def navBlock (inSet : Nat → Bool) : List Stmt → Bool
  | [] => true
  | s :: ss => navStmt inSet s && navBlock inSet ss
end

def idxsOf (names : List String) (tab : List (String × FunDef)) : List Nat := names.filterMap (funIdx · tab)

/-- `names` is a closed set of navigation programs over the base helpers `base` -/
def navClosed (base names : List String) (tab : List (String × FunDef)) : Bool :=
  let ok := idxsOf base tab ++ idxsOf names tab
  let inSet := fun k => ok.contains k
  (idxsOf names tab).length == names.length &&
  (idxsOf names tab).all fun k =>
    match tab[k]? with
    | some (_, fd) => !fd.isOpaque && fd.defaults.all simpleArg && navBlock inSet fd.body
    | none => false

/-- one round of the greatest-fixpoint computation (used by the driver to FIND the set; the theorem only checks it) -/
def navRound (base : List Nat) (tab : List (String × FunDef)) (cur : List Nat) : List Nat :=
  let inSet := fun k => base.contains k || cur.contains k
  cur.filter fun k =>
    match tab[k]? with
    | some (_, fd) => !fd.isOpaque && fd.defaults.all simpleArg && navBlock inSet fd.body
    | none => false

def navFix (base : List Nat) (tab : List (String × FunDef)) : Nat → List Nat → List Nat
  | 0, cur => cur
  | n + 1, cur =>
    let nxt := navRound base tab cur
    if nxt.length == cur.length then cur else navFix base tab n nxt

/-- the helpers of `utils.py` whose interpreted semantics is proved (C05, `prog_*`) -/
def navBase : List String :=
  ["utils.find_next_token", "utils.is_next_token", "utils.object_value_is", "utils.assign_next_token",
   "utils.assign_next_token_if", "utils.assign_next_token_if_not", "utils.assign_next_token_required"]

/-- the largest closed set over `navBase`, as names -/
def navFragmentNames (tab : List (String × FunDef)) : List String :=
  let base := idxsOf navBase tab
  let all := (List.range tab.length).filter fun k => !base.contains k
  (navFix base tab tab.length all).filterMap fun k => (tab[k]?).map (·.1)

/-! ### chains: straight-line productions (the sub-fragment for which the lifting IS proved, `Lemmas/ProgChain.lean`) -/

/-- positions of the four assignment helpers in the table -/
structure ChainSig where
  kAnt : Nat
  kIf : Nat
  kIfNot : Nat
  kReq : Nat
  kFind : Nat
  kOvi : Nat
  kErr : Nat

inductive Step where
  | ant (c : Nat)                  -- assign_next_token(C, i, l)
  | aif (s : Str) (c : Nat)        -- assign_next_token_if(s, C, i, l)
  | aifnot (s : Str) (c : Nat)     -- assign_next_token_if_not(s, C, i, l)
  | areq (s : Str) (c : Nat)       -- assign_next_token_required(s, C, i, l)

def Step.fn (K : ChainSig) : Step → Nat
  | .ant _ => K.kAnt | .aif _ _ => K.kIf | .aifnot _ _ => K.kIfNot | .areq _ _ => K.kReq

def Step.argsE (cur l : Nat) : Step → List Expr
  | .ant c => [.clsC c, .var cur, .var l]
  | .aif s c => [.str s, .clsC c, .var cur, .var l]
  | .aifnot s c => [.str s, .clsC c, .var cur, .var l]
  | .areq s c => [.str s, .clsC c, .var cur, .var l]

/-- statements of a chain whose current index variable is `cur` (parameters: 0 = iToken, 1 = lObjects; 2 = iCurrent) -/
def chainFrom (K : ChainSig) (cur : Nat) : List Step → List Stmt
  | [] => [.ret (.var cur)]
  | s :: ss => .assign (.var 2) (.callF (s.fn K) (s.argsE cur 1)) :: chainFrom K 2 ss

def chainDef (K : ChainSig) (steps : List Step) : FunDef :=
  { nparams := 2, nlocals := 3, defaults := [], body := chainFrom K 0 steps }


/-- recognise the statements of a chain whose current index variable is `cur` -/
def decodeFrom (K : ChainSig) : Nat → List Stmt → Option (List Step)
  | cur, [.ret (.var v)] => if v == cur then some [] else none
  | cur, .assign (.var 2) (.callF k [.clsC c, .var x, .var 1]) :: rest =>
    if k == K.kAnt && x == cur then (decodeFrom K 2 rest).map (Step.ant c :: ·) else none
  | cur, .assign (.var 2) (.callF k [.str s, .clsC c, .var x, .var 1]) :: rest =>
    if x == cur then
      (if k == K.kIf then (decodeFrom K 2 rest).map (Step.aif s c :: ·)
       else if k == K.kIfNot then (decodeFrom K 2 rest).map (Step.aifnot s c :: ·)
       else if k == K.kReq then (decodeFrom K 2 rest).map (Step.areq s c :: ·)
       else none)
    else none
  | _, _ => none

/-- recognise a chain: `def f(iToken, lObjects)` with the one local `iCurrent` -/
def decodeChain (K : ChainSig) (fd : FunDef) : Option (List Step) :=
  if fd.nparams == 2 && fd.nlocals == 3 && fd.defaults.isEmpty && !fd.isOpaque then decodeFrom K 0 fd.body else none

/-- the signature of the generated table, by name -/
def chainSigOf (tab : List (String × FunDef)) : ChainSig :=
  { kAnt := (funIdx "utils.assign_next_token" tab).getD 0
    kIf := (funIdx "utils.assign_next_token_if" tab).getD 0
    kIfNot := (funIdx "utils.assign_next_token_if_not" tab).getD 0
    kReq := (funIdx "utils.assign_next_token_required" tab).getD 0
    kFind := (funIdx "utils.find_next_token" tab).getD 0
    kOvi := (funIdx "utils.object_value_is" tab).getD 0
    kErr := (funIdx "utils.print_error_message" tab).getD 0 }

/-- names of the functions of the table that are chains -/
def chainNames (tab : List (String × FunDef)) : List String :=
  (tab.filter fun p => (decodeChain (chainSigOf tab) p.2).isSome).map (·.1)

end Vsgm.Prog
