/-
  Layer P: syntactic checkers on programs (executable, evaluated on the generated table by
  `decide +kernel` in `VsgProofs/Properties/*`).  A `Chk` says which built-in applications, which store
  shapes and whether `raise` may occur; `FunDef.ok` walks a function body.
-/
import VsgModel.Prog.Syntax
namespace Vsgm.Prog

structure Chk where
  prim     : Prim → List Expr → Bool     -- may `p(args)` occur
  idxStore : Bool                        -- may `l[i] = v` occur (any container)
  retag    : Bool → Bool                 -- may the fused store `L[X] = C(L[X].get_value())` (true) / `L[X] = C()` (false) occur
  raise    : Bool                        -- may `raise` occur
  index    : Bool := true                -- may a subscript READ `l[i]` occur

mutual
def Expr.ok (C : Chk) : Expr → Bool
  | .list es => Expr.okList C es
  | .tuple es => Expr.okList C es
  | .binop _ a b => a.ok C && b.ok C
  | .neg a => a.ok C
  | .cmp _ a b => a.ok C && b.ok C
  | .and a b => a.ok C && b.ok C
  | .or a b => a.ok C && b.ok C
  | .not a => a.ok C
  | .index l i => C.index && l.ok C && i.ok C
  | .slice l lo hi => l.ok C && Expr.okOpt C lo && Expr.okOpt C hi
  | .attr e _ => e.ok C
  | .call f args => f.ok C && Expr.okList C args
  | .callF _ args => Expr.okList C args
  | .prim p args => C.prim p args && Expr.okList C args
  | .fstr ps => Expr.okList C ps
  | _ => true
def Expr.okList (C : Chk) : List Expr → Bool
  | [] => true
  | e :: es => e.ok C && Expr.okList C es
def Expr.okOpt (C : Chk) : Option Expr → Bool
  | Option.none => true
  | Option.some e => e.ok C
end

def Target.okSimple (C : Chk) : Target → Bool
  | .var _ => true
  | .index l i => C.idxStore && l.ok C && i.ok C
  | .tuple _ => true                     -- a nested tuple target is `unmodelled` at run time

def Target.ok (C : Chk) : Target → Bool
  | .tuple ts => ts.all (Target.okSimple C)
  | t => t.okSimple C

def IterE.ok (C : Chk) : IterE → Bool
  | .range args => Expr.okList C args
  | .enumFrom l s => l.ok C && s.ok C
  | .enumerate e => e.ok C
  | .plain e => e.ok C

mutual
def Stmt.ok (C : Chk) : Stmt → Bool
  | .assign t e => t.ok C && e.ok C
  | .aug t _ e => t.ok C && e.ok C
  | .expr e => e.ok C
  | .ite c t e => c.ok C && Stmt.okBlock C t && Stmt.okBlock C e
  | .while c b => c.ok C && Stmt.okBlock C b
  | .for t it b o => t.ok C && it.ok C && Stmt.okBlock C b && Stmt.okBlock C o
  | .ret e => e.ok C
  | .brk => true
  | .cont => true
  | .pass => true
  | .try b hs => Stmt.okBlock C b && Stmt.okHandlers C hs
  | .raise e => C.raise && e.ok C
  | .del l i => l.ok C && i.ok C
  | .retag _ _ _ b => C.retag b
def Stmt.okBlock (C : Chk) : List Stmt → Bool
  | [] => true
  | s :: ss => s.ok C && Stmt.okBlock C ss
def Stmt.okHandlers (C : Chk) : List (List Exc × List Stmt) → Bool
  | [] => true
  | (_, b) :: hs => Stmt.okBlock C b && Stmt.okHandlers C hs
end

def FunDef.ok (C : Chk) (fd : FunDef) : Bool := Expr.okList C fd.defaults && Stmt.okBlock C fd.body

/-- indices of the functions of a table that do NOT pass the check -/
def failing (C : Chk) (tab : List FunDef) : List Nat :=
  (tab.zipIdx.filter fun p => !p.1.ok C).map (·.2)

/-- the table with the listed functions made opaque (calling them is `unmodelled`) -/
def maskTable (bad : List Nat) (tab : List FunDef) : List FunDef :=
  tab.zipIdx.map fun p => if bad.contains p.2 then { p.1 with body := [], defaults := [], isOpaque := true } else p.1

/-- the same by NAME (`module.function` of the generated table): facts stated with names survive a source change
    that merely adds, removes or reorders functions -/
def failingNames (C : Chk) (tab : List (String × FunDef)) : List String :=
  (tab.filter fun p => !p.2.ok C).map (·.1)

/-- the table with the named functions made opaque; positions are kept (calls refer to positions) -/
def maskNames (bad : List String) (tab : List (String × FunDef)) : List FunDef :=
  tab.map fun p => if bad.contains p.1 then { p.2 with body := [], defaults := [], isOpaque := true } else p.2

/-- position of a function of the table, by name -/
def funIdx (name : String) (tab : List (String × FunDef)) : Option Nat := tab.findIdx? (fun p => p.1 == name)

/-! ### the three checkers used by the property theorems -/

/-- everything is allowed (the unconditional theorems) -/
def Chk.any : Chk := { prim := fun _ _ => true, idxStore := true, retag := fun _ => true, raise := true }

/-- nothing can insert into / delete from the token list: no `pop`, no `insert`, no `clear`, no `reverse`,
    `append` only of a string literal (`lMyUntils.append(",")`) -/
def noLenPrim : Prim → List Expr → Bool
  | .listPop, _ => false
  | .listInsert, _ => false
  | .listAppend, [_, .str _] => true
  | .listAppend, _ => false
  | _, _ => true

def Chk.noLen : Chk := { prim := noLenPrim, idxStore := true, retag := fun _ => true, raise := true }

/-- value preservation: additionally no free `l[i] = v`; the token list is written only by the fused stores -/
def Chk.value : Chk := { prim := noLenPrim, idxStore := false, retag := fun _ => true, raise := true }

/-- no `raise` statement -/
def Chk.noRaise : Chk := { prim := fun _ _ => true, idxStore := true, retag := fun _ => true, raise := false }

/-- nothing that can raise IndexError: no subscript read, no subscript store, no fused store, no `pop` -/
def noIdxPrim : Prim → List Expr → Bool
  | .listPop, _ => false
  | _, _ => true

def Chk.noIndex : Chk := { prim := noIdxPrim, idxStore := false, retag := fun _ => false, raise := true, index := false }

end Vsgm.Prog
