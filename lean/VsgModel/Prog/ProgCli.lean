/-
  driver mode `prog`: the interpreter of layer P on the generated program table.

  line protocol (fields separated by TAB; tokens as in mode `c05`: cls:val:lower:iId:hier)
    RUN <function key> <args> <filename|-> <toks>
        args = items joined by ',' :  T (the token list) | I<int> | S<code points> | C<class> | M<module>
               | N (None) | L<s1;s2;…> (list of str) | B0 / B1
      -> ok <value> | err <kind>   TAB msg code points   TAB nIns nDel   TAB f:count …   TAB <toks afterwards>
    INFO -> number of functions, opaque ones
-/
import VsgModel.Prog.Eval
import VsgModel.Prog.Check
import VsgModel.Prog.NavCheck
import VsgModel.Generated.ClassifyProg
import VsgModel.Generated.ClassTree
import VsgModel.Base.CaseTables
import VsgModel.Lex.Tables
import VsgModel.Classify.ClassifyCli
import Std.Data.HashMap
namespace Vsgm.Prog
open Vsgm Vsgm.Classify Vsgm.Wire

/-! ### the fixed regular expressions of the sources (matched on `get_lower_value()` strings) -/

def isAsciiDigit (c : Char) : Bool := '0' ≤ c && c ≤ '9'

/-- `"[0-9a-fhluwxz\-_]*"` -/
def bitValueChar (c : Char) : Bool :=
  isAsciiDigit c || ('a' ≤ c && c ≤ 'f') || c == 'h' || c == 'l' || c == 'u' || c == 'w' || c == 'x' || c == 'z' || c == '-' || c == '_'

/-- known patterns: `some b` = fullmatch result; `match` (anchored at the start only) for the patterns used with it -/
def regexImpl (isDigit : Char → Bool) (pat : String) (full : Bool) (s : Str) : Option Bool :=
  if pat == "\\d+" then
    -- `\d` of a str pattern is Unicode category Nd; `str.isdigit` is a superset (superscripts …): decided only
    -- when both agree
    if s.isEmpty then some false
    else if s.all isAsciiDigit then some true
    else if full then (if s.any (fun c => c.toNat < 128 && !isAsciiDigit c) then some false else if s.all isDigit then none else some false)
    else (match s with | c :: _ => if isAsciiDigit c then some true else if isDigit c then none else some false | [] => some false)
  else if pat == "(([us]?[box])|d)" then
    if !full then none else
    some (match s with
      | [c] => c == 'b' || c == 'o' || c == 'x' || c == 'd'
      | [p, c] => (p == 'u' || p == 's') && (c == 'b' || c == 'o' || c == 'x')
      | _ => false)
  else if pat == "\"[0-9a-fhluwxz\\-_]*\"" then
    if !full then none else
    some (match s with
      | '"' :: rest => (match rest.reverse with
        | '"' :: mid => mid.all bitValueChar
        | _ => false)
      | _ => false)
  else none

def funArr : Array FunDef := (Gen.Prog.progTable.map (·.2)).toArray
def funNames : Array String := (Gen.Prog.progTable.map (·.1)).toArray
def ctor1Arr : Array Ctor1 := Gen.Prog.ctor1Table.toArray
def ctor0Arr : Array (Option (Str × Str)) := Gen.Prog.ctor0Table.toArray
def clsModArr : Array String := Gen.Prog.classModules.toArray
def modNameArr : Array String := Gen.Prog.moduleNames.toArray
def regexArr : Array String := Gen.Prog.regexPatterns.toArray

def modAttrMap : Std.HashMap (Nat × Nat) Val :=
  Std.HashMap.ofList (Gen.Prog.modAttrTable.map fun (m, a, k, i) =>
    ((m, a), match k with | 0 => Val.cls i | 1 => Val.fn i | _ => Val.mod i))

def funIndex : Std.HashMap String Nat :=
  Std.HashMap.ofList ((Gen.Prog.progTable.map (·.1)).zipIdx)

/-- the running system -/
def pySys : Sys where
  funs := funArr
  globals := Gen.Prog.progGlobals
  isa := Gen.isa
  ctor1 c := ctor1Arr.getD c .typeError
  ctor0 c := ctor0Arr.getD c none
  ctorOdd c := Gen.Prog.ctorOdd.contains c || ctor1Arr.size ≤ c
  lowerS := Base.Case.pyLowerS
  isDigitC := Lex.pyTables.isDigit
  isSpaceC := Lex.pyTables.isSpace
  clsModule c := (clsModArr.getD c "").toList
  modName m := (modNameArr.getD m "").toList
  modAttr m a := modAttrMap.get? (m, a)
  regex r full s := regexImpl Lex.pyTables.isDigit (regexArr.getD r "") full s
  maxSteps := 10000000

def errStr : Err → String
  | .py e => Cli.errName e
  | .attributeError => "AttributeError"
  | .valueError => "ValueError"
  | .recursionError => "RecursionError"
  | .outOfFuel => "OutOfFuel"
  | .unmodelled => "Unmodelled"

def encInt (n : Int) : String := if n < 0 then "-" ++ toString (-n).toNat else toString n.toNat

def showVal : Val → String
  | .none => "None"
  | .bool b => if b then "True" else "False"
  | .int i => encInt i
  | .str s => "S" ++ encStr s
  | .list a => s!"L@{a}"
  | .tuple vs => s!"T{vs.length}"
  | .cls c => s!"C{c}"
  | .mod m => s!"M{m}"
  | .fn f => s!"F{f}"
  | .toks => "TOKS"
  | .tok t => "K" ++ Cli.encCTok t
  | .regex r => s!"R{r}"
  | .exc _ => "EXC"
  | .undef => "UNDEF"

/-- an argument; lists are allocated on the heap of the initial state -/
def decArg (st : State) (s : String) : Val × State :=
  if s == "T" then (.toks, st)
  else if s == "N" then (.none, st)
  else if s.startsWith "I" then (.int (Cli.decInt (s.drop 1).toString), st)
  else if s.startsWith "S" then (.str (Cli.decS (s.drop 1).toString), st)
  else if s.startsWith "C" then (.cls (s.drop 1).toString.toNat!, st)
  else if s.startsWith "M" then (.mod (s.drop 1).toString.toNat!, st)
  else if s.startsWith "B" then (.bool ((s.drop 1).toString == "1"), st)
  else if s.startsWith "L" then
    let items := (Cli.decStrs (s.drop 1).toString).map Val.str
    (.list st.heap.size, { st with heap := st.heap.push items.toArray })
  else (.none, st)

def decArgs (st : State) (s : String) : List Val × State :=
  if s.isEmpty then ([], st) else
  (s.splitOn ",").foldl (fun (acc : List Val × State) a => let (v, st) := decArg acc.2 a; (acc.1 ++ [v], st)) ([], st)

def fuelDefault : Nat := 20000000

/-- the running system with the named functions made opaque (`maskNames`, the table of the `…_masked_…` theorems) -/
def maskedSys (bad : List String) : Sys :=
  if bad.isEmpty then pySys else { pySys with funs := (maskNames bad Gen.Prog.progTable).toArray }

def chkByName : String → Option Chk
  | "noLen" => some Chk.noLen
  | "value" => some Chk.value
  | "noRaise" => some Chk.noRaise
  | "noIndex" => some Chk.noIndex
  | "any" => some Chk.any
  | _ => none

def runLine (S : Sys) (key args fname toks : String) : String :=
  match funIndex.get? key with
  | none => "error unknown function " ++ key
  | some f =>
    let st0 := initState S (Cli.decCToks toks).toArray (if fname == "-" then Val.none else Val.str (Cli.decS fname))
    let (vs, st0) := decArgs st0 args
    let (r, st) :=
      match initGlobals S fuelDefault S.globals st0 with
      | (.error e, st) => ((.error e : Except Err Val), st)
      | (.ok (), st) => (run S fuelDefault).call f vs st
    let head := match r with
      | .ok v => "ok " ++ showVal v
      | .error e => "err " ++ errStr e
    let cov := " ".intercalate ((st.calls.toList.zipIdx.filter (fun p => p.1 != 0)).map fun p => s!"{p.2}:{p.1}")
    s!"{head}\t{encStr st.msg}\t{st.nIns} {st.nDel} {st.steps}\t{cov}\t{Cli.encCToks st.toks.toList}"

partial def progLoop (h out : IO.FS.Stream) (S : Sys := pySys) : IO Unit := do
  let line ← h.getLine
  if line.isEmpty then return ()
  let line := if line.endsWith "\n" then (line.dropEnd 1).toString else line
  match line.splitOn "\t" with
  | ["RUN", key, args, fname, toks] =>
    out.putStrLn (runLine S key args fname toks); out.flush
    progLoop h out S
  | ["MASK", names] =>
    -- subsequent RUNs use the table with these functions made opaque (names joined by ';', empty = full table)
    let bad := if names.isEmpty then [] else names.splitOn ";"
    out.putStrLn s!"masked {bad.length}"; out.flush
    progLoop h out (maskedSys bad)
  | ["CHAINS"] =>
    -- names of the functions recognised as chains (straight-line productions; lifting proved, C05 stage 2)
    out.putStrLn (";".intercalate (chainNames Gen.Prog.progTable)); out.flush
    progLoop h out S
  | ["DETECTORS"] =>
    out.putStrLn (";".intercalate (detectNames Gen.Prog.progTable)); out.flush
    progLoop h out S
  | ["IFCHAINS"] =>
    -- names of the chains with conditionals on utils.is_next_token (lifting proved, C05)
    out.putStrLn (";".intercalate (ifChainNames Gen.Prog.progTable)); out.flush
    progLoop h out S
  | ["NAVFRAG"] =>
    -- names of the largest closed set of navigation programs over the proved helpers (C05, partial lifting)
    out.putStrLn (";".intercalate (navFragmentNames Gen.Prog.progTable)); out.flush
    progLoop h out S
  | ["FAILING", chk] =>
    -- names of the functions of the generated table that do not pass the named checker
    match chkByName chk with
    | some C => out.putStrLn (";".intercalate (failingNames C Gen.Prog.progTable)); out.flush
    | none => out.putStrLn "error unknown checker"; out.flush
    progLoop h out S
  | ["INFO"] =>
    let opq := (funArr.toList.zipIdx.filter (fun p => p.1.isOpaque)).map (fun p => toString p.2)
    out.putStrLn s!"functions {funArr.size} opaque {" ".intercalate opq}"; out.flush
    progLoop h out S
  | _ =>
    out.putStrLn ("error bad line " ++ (line.take 40).toString); out.flush
    progLoop h out S

def progMain (stdin stdout : IO.FS.Stream) : IO Unit := progLoop stdin stdout

end Vsgm.Prog
