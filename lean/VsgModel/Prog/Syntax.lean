/-
  Layer P: the deep-embedded language the classifier productions of `/repo/vsg/vhdlFile/classify/*.py`
  and the helpers of `/repo/vsg/vhdlFile/utils.py` are translated into (by `harness/gen_prog.py`,
  on every check run).  Only the tiny Python subset those files use.

  Conventions: local variables are slots (`Nat`) of the function's frame, functions / modules /
  token classes / module-level constants are indices into generated tables, strings are
  `List Char`.  Everything Python does at run time that the productions can observe is kept:
  mutable lists live on a heap (aliasing `lMyUntils = lUntils; lMyUntils.append(",")` is real in
  the sources), the token list `lObjects` is the one distinguished mutable list of the state.
-/
import VsgModel.Classify.Prims
namespace Vsgm.Prog
open Vsgm Vsgm.Classify

inductive BinOp where
  | add | sub
  deriving DecidableEq, Repr, Inhabited

inductive CmpOp where
  | eq | ne | lt | le | gt | ge | isin | notin | is | isnot
  deriving DecidableEq, Repr, Inhabited

/-- leaf operations: the interpreter's built-ins (everything else is translated source) -/
inductive Prim where
  | len            -- len(x)
  | getValue       -- o.get_value()
  | getLower       -- o.get_lower_value()
  | typeOf         -- type(o)
  | isinstance     -- isinstance(o, C)
  | strLower       -- s.lower()
  | strSplit       -- s.split(sep)
  | strStartswith  -- s.startswith(p)
  | strEndswith    -- s.endswith(p)
  | strIsdigit     -- s.isdigit()
  | strIsspace     -- s.isspace()
  | strJoin        -- sep.join(list)
  | strOf          -- str(x) / f-string conversion
  | listAppend     -- l.append(x)
  | listPop        -- l.pop() / l.pop(i)
  | listInsert     -- l.insert(i, x)
  | listCopy       -- l.copy() / copy.deepcopy(l)
  | listReverse    -- l.reverse()
  | listClear      -- l.clear()
  | regexFullmatch -- r.fullmatch(s)   (result: a match object is `True`, no match is `None`)
  | regexMatch     -- r.match(s)
  | clsModule      -- C.__module__
  | modName        -- M.__name__
  | getFilename    -- o.get_filename()
  | print          -- print(…): no observable effect on the token list
  | classifyError  -- exceptions.ClassifyError(msg)  (the exception OBJECT; `raise` raises it)
  deriving DecidableEq, Repr, Inhabited

inductive Expr where
  | none
  | bool (b : Bool)
  | int (i : Int)
  | str (s : Str)
  | var (x : Nat)                          -- local slot
  | glob (g : Nat)                         -- module-level constant
  | clsC (c : Nat)                         -- token class constant (index of the generated class table)
  | modC (m : Nat)                         -- module constant
  | fnC (f : Nat)                          -- function constant
  | regexC (r : Nat)                       -- compiled regular expression (index of the generated pattern table)
  | list (es : List Expr)
  | tuple (es : List Expr)
  | binop (op : BinOp) (a b : Expr)
  | neg (a : Expr)
  | cmp (op : CmpOp) (a b : Expr)
  | and (a b : Expr)
  | or (a b : Expr)
  | not (a : Expr)
  | index (l i : Expr)                     -- l[i]
  | slice (l : Expr) (lo hi : Option Expr) -- l[lo:hi]
  | attr (e : Expr) (name : Nat)           -- e.<name> on a module value (name = index of the attribute-name table)
  | call (f : Expr) (args : List Expr)     -- callee computed at run time (class value, module attribute)
  | callF (f : Nat) (args : List Expr)     -- call of a function of the table
  | prim (p : Prim) (args : List Expr)
  | fstr (parts : List Expr)               -- f"…"
  deriving Repr, Inhabited

inductive Target where
  | var (x : Nat)
  | tuple (ts : List Target)
  | index (l i : Expr)
  deriving Repr, Inhabited

/-- the iterable of a `for` head, kept syntactic so that `enumerate(lObjects[i::])` need not copy -/
inductive IterE where
  | range (args : List Expr)
  | enumFrom (l start : Expr)              -- enumerate(l[start::])
  | enumerate (e : Expr)
  | plain (e : Expr)
  deriving Repr, Inhabited

/-- exception classes named in `except` clauses -/
inductive Exc where
  | typeError | indexError | classifyError
  deriving DecidableEq, Repr, Inhabited

inductive Stmt where
  | assign (t : Target) (e : Expr)
  | aug (t : Target) (op : BinOp) (e : Expr)
  | expr (e : Expr)
  | ite (c : Expr) (t e : List Stmt)
  | while (c : Expr) (body : List Stmt)
  | for (t : Target) (it : IterE) (body orelse : List Stmt)
  | ret (e : Expr)
  | brk
  | cont
  | pass
  | try (body : List Stmt) (handlers : List (List Exc × List Stmt))
  | raise (e : Expr)
  | del (l i : Expr)                       -- del l[i]
  /-- the two store shapes of `utils.py`, fused (all three names are plain local variables):
      `L[X] = C(L[X].get_value())` (withValue) and `L[X] = C()`.  The semantics is the composite of the same
      leaf operations in Python's order (read C, read L, read X, index, get_value, construct, store). -/
  | retag (l x c : Nat) (withValue : Bool)
  deriving Repr, Inhabited

/-- behaviour of `C(v)` -/
inductive Ctor1 where
  | keep                    -- value := v, lower_value := v.lower()
  | fixed (v lo : Str)      -- the argument is ignored
  | typeError               -- `__init__` takes no argument
  deriving DecidableEq, Repr, Inhabited

structure FunDef where
  nparams  : Nat
  nlocals  : Nat                           -- frame size (parameters first)
  defaults : List Expr := []               -- default values of the LAST parameters (constants)
  body     : List Stmt
  isOpaque : Bool := false                 -- not translated: calling it is `Err.unmodelled`
  deriving Repr, Inhabited

end Vsgm.Prog
