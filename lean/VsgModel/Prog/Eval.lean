/-
  Layer P: fuel-based total interpreter of the language of `Prog/Syntax.lean`.

  `run S n` is defined by structural recursion on the fuel `n`; one unit of fuel is spent for every
  nesting level of the evaluation (sub-expression, statement, call) and for every iteration of a
  loop.  All the work is done by NON-recursive step functions that receive the evaluator of the
  next lower fuel as a parameter (`Rec`), so that the generic theorems are proved once for the step
  functions and lifted by a one-line induction.

  Python semantics transcribed: `lObjects[i]` out of range is IndexError, negative indices wrap,
  `None + 1` is TypeError, a local read before assignment is UnboundLocalError, `C(v)` / `C()`
  follow the constructor signature of class `C` (generated per class), lists are heap objects with
  reference semantics, `try/except` sees the state and the locals as they were when the exception
  was raised.  The state is returned on errors too.
-/
import VsgModel.Prog.Syntax
namespace Vsgm.Prog
open Vsgm Vsgm.Classify

/-- what evaluation can end in besides a value -/
inductive Err where
  | py (e : PyErr)          -- IndexError, TypeError, UnboundLocalError, ClassifyError
  | attributeError          -- None.get_value(), missing module attribute
  | valueError
  | recursionError          -- Python's frame limit
  | outOfFuel               -- the interpreter's own bound: NOT a Python outcome
  | unmodelled              -- a construct / built-in case the model does not cover: NOT a Python outcome
  deriving DecidableEq, Repr, Inhabited

inductive Val where
  | undef                   -- slot of a frame that was never assigned
  | none
  | bool (b : Bool)
  | int (i : Int)
  | str (s : Str)
  | list (a : Nat)          -- address of a mutable list on the heap
  | tuple (vs : List Val)
  | cls (c : Nat)
  | mod (m : Nat)
  | fn (f : Nat)
  | toks                    -- THE token list (`lObjects`)
  | tok (t : CTok)          -- a token object
  | regex (r : Nat)
  | exc (msg : Str)         -- a ClassifyError object
  deriving Repr, Inhabited

/-- facts of the running system the interpreter depends on (generated / instantiated in `ProgCli`) -/
structure Sys where
  funs      : Array FunDef
  globals   : List Expr                       -- initialisers of the module-level constants
  isa       : Nat → Nat → Bool                -- isinstance(token of class c, class p)
  ctor1     : Nat → Ctor1
  ctor0     : Nat → Option (Str × Str)        -- `C()`: (value, lower_value) or TypeError
  ctorOdd   : Nat → Bool                      -- constructor outside the three behaviours: `unmodelled`
  lowerS    : Str → Str
  isDigitC  : Char → Bool
  isSpaceC  : Char → Bool
  clsModule : Nat → Str                       -- C.__module__
  modName   : Nat → Str                       -- M.__name__
  modAttr   : Nat → Nat → Option Val          -- module, attribute name index -> class / function / module
  regex     : Nat → Bool → Str → Option Bool  -- regex index, fullmatch?, subject -> matched? (none: unmodelled)
  maxDepth  : Nat := 900
  maxSteps  : Nat := 60000000                 -- bound on calls + loop iterations of one run (then `outOfFuel`)

structure State where
  toks     : Array CTok
  heap     : Array (Array Val) := #[]
  globals  : Array Val := #[]
  frame    : Array Val := #[]
  depth    : Nat := 0
  steps    : Nat := 0                          -- calls + loop iterations so far
  nIns     : Nat := 0                          -- ghost: executed insertions into the token list
  nDel     : Nat := 0                          -- ghost: executed deletions from the token list
  calls    : Array Nat := #[]                  -- per function: number of calls (coverage)
  msg      : Str := []                         -- message of the last ClassifyError object raised
  filename : Val := .none                     -- `filename` attribute of the token OBJECT at index 0 (lost when it is replaced)
  deriving Inhabited

inductive Flow where
  | normal | brk | cont | ret (v : Val)
  deriving Repr, Inhabited

abbrev M (α : Type) := State → Except Err α × State

namespace M
@[inline] def pure (a : α) : M α := fun st => (.ok a, st)
@[inline] def bind (m : M α) (f : α → M β) : M β := fun st =>
  match m st with
  | (.ok a, st') => f a st'
  | (.error e, st') => (.error e, st')
end M

instance : Monad M where
  pure := M.pure
  bind := M.bind

@[inline] def raise (e : Err) : M α := fun st => (.error e, st)
@[inline] def getSt : M State := fun st => (.ok st, st)
@[inline] def modSt (f : State → State) : M Unit := fun st => (.ok (), f st)
@[inline] def liftO (o : Option α) (e : Err) : M α := match o with | some a => pure a | none => raise e

def unmod : M α := raise .unmodelled
def typeErr : M α := raise (.py .typeError)
def indexErr : M α := raise (.py .indexError)

/-- the evaluator of the next lower fuel -/
structure Rec where
  expr : Expr → M Val
  stmt : Stmt → M Flow
  call : Nat → List Val → M Val

/-! ### values -/

def getVar (x : Nat) : M Val := fun st =>
  match st.frame[x]? with
  | some .undef => (.error (.py .unboundLocal), st)
  | some v => (.ok v, st)
  | none => (.error (.py .unboundLocal), st)

def setVar (x : Nat) (v : Val) : M Unit := modSt fun st => { st with frame := st.frame.setIfInBounds x v }

def getGlobal (g : Nat) : M Val := fun st =>
  match st.globals[g]? with
  | some v => (.ok v, st)
  | none => (.error .unmodelled, st)

def allocList (vs : Array Val) : M Val := fun st =>
  (.ok (.list st.heap.size), { st with heap := st.heap.push vs })

def readList (a : Nat) : M (Array Val) := fun st =>
  match st.heap[a]? with
  | some l => (.ok l, st)
  | none => (.error .unmodelled, st)

def writeList (a : Nat) (l : Array Val) : M Unit := modSt fun st => { st with heap := st.heap.setIfInBounds a l }

/-- Python index normalisation for `l[i]` on a sequence of length `n` -/
def normIdx (n : Nat) (i : Int) : Option Nat :=
  let j : Int := if i < 0 then (n : Int) + i else i
  if j < 0 then none else if j.toNat < n then some j.toNat else none

/-- slice bound clamping (`l[a:b]`, step 1) -/
def clampIdx (n : Nat) (i : Int) : Nat :=
  let j : Int := if i < 0 then (n : Int) + i else i
  if j < 0 then 0 else if j.toNat < n then j.toNat else n

def truthy (v : Val) : M Bool :=
  match v with
  | .none => pure false
  | .bool b => pure b
  | .int i => pure (i != 0)
  | .str s => pure (!s.isEmpty)
  | .tuple vs => pure (!vs.isEmpty)
  | .list a => do let l ← readList a; pure (l.size != 0)
  | .toks => do let st ← getSt; pure (st.toks.size != 0)
  | .undef => unmod
  | _ => pure true

/-- Python `==` on the values the productions compare (`True == 1`); `none` = not modelled -/
def pyEq : Val → Val → Option Bool
  | .none, .none => some true
  | .bool a, .bool b => some (a == b)
  | .int a, .int b => some (a == b)
  | .bool a, .int b => some ((if a then 1 else 0) == b)
  | .int a, .bool b => some (a == (if b then 1 else 0))
  | .str a, .str b => some (a == b)
  | .cls a, .cls b => some (a == b)
  | .mod a, .mod b => some (a == b)
  | .fn a, .fn b => some (a == b)
  | .list _, .list _ => none
  | .tuple _, .tuple _ => none
  | .tok _, .tok _ => none
  | .undef, _ => none
  | _, .undef => none
  | _, _ => some false

def asInt : Val → Option Int
  | .int i => some i
  | .bool b => some (if b then 1 else 0)
  | _ => none

def isSubstr (p s : Str) : Bool :=
  (List.range (s.length + 1)).any fun k => p.isPrefixOf (s.drop k)

def memVals (x : Val) : List Val → M Bool
  | [] => pure false
  | v :: vs =>
    match pyEq x v with
    | some true => pure true
    | some false => memVals x vs
    | none => unmod

def pyIn (x c : Val) : M Bool :=
  match c with
  | .list a => do let l ← readList a; memVals x l.toList
  | .tuple vs => memVals x vs
  | .str s => match x with
    | .str p => pure (isSubstr p s)
    | _ => typeErr
  | _ => typeErr

def pyIs : Val → Val → Option Bool
  | .none, .none => some true
  | .none, _ => some false
  | _, .none => some false
  | .bool a, .bool b => some (a == b)
  | .cls a, .cls b => some (a == b)
  | .list a, .list b => some (a == b)
  | _, _ => none

def cmpVals (op : CmpOp) (x y : Val) : M Val :=
  match op with
  | .eq => match pyEq x y with | some b => pure (.bool b) | none => unmod
  | .ne => match pyEq x y with | some b => pure (.bool !b) | none => unmod
  | .isin => do let b ← pyIn x y; pure (.bool b)
  | .notin => do let b ← pyIn x y; pure (.bool !b)
  | .is => match pyIs x y with | some b => pure (.bool b) | none => unmod
  | .isnot => match pyIs x y with | some b => pure (.bool !b) | none => unmod
  | .lt | .le | .gt | .ge =>
    match asInt x, asInt y with
    | some a, some b =>
      pure (.bool (match op with | .lt => a < b | .le => a ≤ b | .gt => a > b | _ => a ≥ b))
    | _, _ =>
      match x, y with
      | .str _, .str _ => unmod
      | _, _ => typeErr

def binopVals (op : BinOp) (x y : Val) : M Val :=
  match asInt x, asInt y with
  | some a, some b => pure (.int (match op with | .add => a + b | .sub => a - b))
  | _, _ =>
    match op, x, y with
    | .add, .str a, .str b => pure (.str (a ++ b))
    | .add, .list _, .list _ => unmod
    | _, .undef, _ => unmod
    | _, _, .undef => unmod
    | _, _, _ => typeErr

def natDigits (n : Nat) : Str := (toString n).toList

def strOf : Val → Option Str
  | .str s => some s
  | .int i => some (if i < 0 then '-' :: natDigits (-i).toNat else natDigits i.toNat)
  | .none => some "None".toList
  | .bool true => some "True".toList
  | .bool false => some "False".toList
  | _ => none

def splitChar (c : Char) : Str → Str → List Str
  | [], acc => [acc.reverse]
  | x :: xs, acc => if x == c then acc.reverse :: splitChar c xs [] else splitChar c xs (x :: acc)

/-- `l[i]` -/
def indexVal (lv iv : Val) : M Val :=
  match asInt iv with
  | none => (match iv with | .undef => unmod | _ => typeErr)
  | some i =>
    match lv with
    | .toks => do
      let st ← getSt
      match normIdx st.toks.size i with
      | some k => match st.toks[k]? with
        | some t => pure (.tok t)
        | none => indexErr
      | none => indexErr
    | .list a => do
      let l ← readList a
      match normIdx l.size i with
      | some k => match l[k]? with
        | some v => pure v
        | none => indexErr
      | none => indexErr
    | .tuple vs =>
      match normIdx vs.length i with
      | some k => match vs[k]? with
        | some v => pure v
        | none => indexErr
      | none => indexErr
    | .str s =>
      match normIdx s.length i with
      | some k => match s[k]? with
        | some c => pure (.str [c])
        | none => indexErr
      | none => indexErr
    | .none => typeErr
    | _ => unmod

def optBound (n : Nat) (dflt : Nat) : Option Val → M Nat
  | Option.none => pure dflt
  | some .none => pure dflt
  | some v => match asInt v with
    | some i => pure (clampIdx n i)
    | none => typeErr

/-- `l[lo:hi]` (a NEW list) -/
def sliceVal (lv : Val) (lo hi : Option Val) : M Val :=
  match lv with
  | .toks => do
    let st ← getSt
    let n := st.toks.size
    let a ← optBound n 0 lo
    let b ← optBound n n hi
    allocList ((st.toks.extract a b).map Val.tok)
  | .list ad => do
    let l ← readList ad
    let a ← optBound l.size 0 lo
    let b ← optBound l.size l.size hi
    allocList (l.extract a b)
  | .str s => do
    let a ← optBound s.length 0 lo
    let b ← optBound s.length s.length hi
    pure (.str ((s.take b).drop a))
  | _ => unmod

/-! ### the token list: the only three operations that write it -/

def toksSet (k : Nat) (t : CTok) : M Unit := modSt fun st =>
  { st with toks := st.toks.setIfInBounds k t, filename := if k == 0 then .none else st.filename }

/-- `lObjects.insert(i, o)` (Python clamps the position) -/
def toksInsert (i : Int) (t : CTok) : M Unit := modSt fun st =>
  let k := clampIdx st.toks.size i
  { st with toks := (st.toks.toList.take k ++ t :: st.toks.toList.drop k).toArray, nIns := st.nIns + 1 }

/-- `lObjects.pop(i)` -/
def toksPop (i : Int) : M Val := fun st =>
  match normIdx st.toks.size i with
  | some k =>
    match st.toks[k]? with
    | some t => (.ok (.tok t), { st with toks := (st.toks.toList.take k ++ st.toks.toList.drop (k + 1)).toArray, nDel := st.nDel + 1 })
    | none => (.error (.py .indexError), st)
  | none => (.error (.py .indexError), st)

/-- `l[i] = v` -/
def storeIndex (lv iv v : Val) : M Unit :=
  match asInt iv with
  | none => (match iv with | .undef => unmod | _ => typeErr)
  | some i =>
    match lv with
    | .toks => do
      let st ← getSt
      match normIdx st.toks.size i, v with
      | some k, .tok t => toksSet k t
      | some _, _ => unmod
      | none, _ => indexErr
    | .list a => do
      let l ← readList a
      match normIdx l.size i with
      | some k => writeList a (l.setIfInBounds k v)
      | none => indexErr
    | .none => typeErr
    | _ => unmod

/-- `C(args)` for a token class: a pure function of the class tables -/
def constructP (S : Sys) (c : Nat) (args : List Val) : Except Err Val :=
  if S.ctorOdd c then .error .unmodelled else
  match args with
  | [] => match S.ctor0 c with
    | some (v, lo) => .ok (.tok { cls := c, val := v, lower := lo })
    | none => .error (.py .typeError)
  | [.str s] => match S.ctor1 c with
    | .keep => .ok (.tok { cls := c, val := s, lower := S.lowerS s })
    | .fixed v lo => .ok (.tok { cls := c, val := v, lower := lo })
    | .typeError => .error (.py .typeError)
  | [.none] => match S.ctor1 c with
    | .keep => .error .attributeError          -- None.lower()
    | .fixed v lo => .ok (.tok { cls := c, val := v, lower := lo })
    | .typeError => .error (.py .typeError)
  | [_] => match S.ctor1 c with
    | .typeError => .error (.py .typeError)
    | _ => .error .unmodelled
  | _ => .error (.py .typeError)

def construct (S : Sys) (c : Nat) (args : List Val) : M Val := fun st => (constructP S c args, st)

def getAttr (S : Sys) (v : Val) (name : Nat) : M Val :=
  match v with
  | .mod m => match S.modAttr m name with
    | some r => pure r
    | none => raise .attributeError
  | .none => raise .attributeError
  | _ => unmod

def strArg : Val → M Str
  | .str s => pure s
  | .none => raise .attributeError
  | .undef => unmod
  | _ => unmod

def strArgs : List Val → M (List Str)
  | [] => pure []
  | v :: vs => do let s ← strArg v; let r ← strArgs vs; pure (s :: r)

def tokArg : Val → M CTok
  | .tok t => pure t
  | .none => raise .attributeError
  | .str _ => raise .attributeError
  | .int _ => raise .attributeError
  | _ => unmod

def isinstanceV (S : Sys) (o c : Val) : M Bool :=
  match c with
  | .cls p => match o with
    | .tok t => pure (S.isa t.cls p)
    | .undef => unmod
    | _ => pure false
  | .tuple cs => match o with
    | .tok t => pure (cs.any fun c => match c with | .cls p => S.isa t.cls p | _ => false)
    | .undef => unmod
    | _ => pure false
  | _ => unmod

def doPrim (S : Sys) (p : Prim) (vs : List Val) : M Val :=
  match p, vs with
  | .len, [.toks] => do let st ← getSt; pure (.int st.toks.size)
  | .len, [.list a] => do let l ← readList a; pure (.int l.size)
  | .len, [.str s] => pure (.int s.length)
  | .len, [.tuple t] => pure (.int t.length)
  | .len, [.none] => typeErr
  | .len, [.int _] => typeErr
  | .getValue, [v] => do let t ← tokArg v; pure (.str t.val)
  | .getLower, [v] => do let t ← tokArg v; pure (.str t.lower)
  | .typeOf, [.tok t] => pure (.cls t.cls)
  | .isinstance, [o, c] => do let b ← isinstanceV S o c; pure (.bool b)
  | .strLower, [v] => do let s ← strArg v; pure (.str (S.lowerS s))
  | .strSplit, [v, .str [c]] => do let s ← strArg v; allocList ((splitChar c s []).map Val.str).toArray
  | .strStartswith, [v, .str p] => do let s ← strArg v; pure (.bool (p.isPrefixOf s))
  | .strEndswith, [v, .str p] => do let s ← strArg v; pure (.bool (p.reverse.isPrefixOf s.reverse))
  | .strIsdigit, [v] => do let s ← strArg v; pure (.bool (!s.isEmpty && s.all S.isDigitC))
  | .strIsspace, [v] => do let s ← strArg v; pure (.bool (!s.isEmpty && s.all S.isSpaceC))
  | .strJoin, [.str sep, .list a] => do
    let l ← readList a
    let parts ← strArgs l.toList
    pure (.str (sep.intercalate parts))
  | .strOf, [v] => match strOf v with
    | some s => pure (.str s)
    | none => unmod
  | .listAppend, [.list a, x] => do let l ← readList a; writeList a (l.push x); pure .none
  | .listAppend, [.toks, .tok t] => do let st ← getSt; toksInsert st.toks.size t; pure .none
  | .listPop, [.list a] => do
    let l ← readList a
    match l.back? with
    | some x => do writeList a l.pop; pure x
    | none => indexErr
  | .listPop, [.list a, iv] => do
    let l ← readList a
    match asInt iv with
    | some i => match normIdx l.size i with
      | some k => match l[k]? with
        | some x => do writeList a (l.toList.take k ++ l.toList.drop (k + 1)).toArray; pure x
        | none => indexErr
      | none => indexErr
    | none => typeErr
  | .listPop, [.toks] => toksPop (-1)
  | .listPop, [.toks, iv] => match asInt iv with
    | some i => toksPop i
    | none => typeErr
  | .listInsert, [.list a, iv, x] => do
    let l ← readList a
    match asInt iv with
    | some i =>
      let k := clampIdx l.size i
      writeList a (l.toList.take k ++ x :: l.toList.drop k).toArray
      pure .none
    | none => typeErr
  | .listInsert, [.toks, iv, .tok t] => match asInt iv with
    | some i => do toksInsert i t; pure .none
    | none => typeErr
  | .listCopy, [.list a] => do let l ← readList a; allocList l
  | .listReverse, [.list a] => do let l ← readList a; writeList a l.reverse; pure .none
  | .listClear, [.list a] => do writeList a #[]; pure .none
  | .regexFullmatch, [.regex r, v] => do
    let s ← strArg v
    match S.regex r true s with
    | some true => pure (.bool true)
    | some false => pure .none
    | none => unmod
  | .regexMatch, [.regex r, v] => do
    let s ← strArg v
    match S.regex r false s with
    | some true => pure (.bool true)
    | some false => pure .none
    | none => unmod
  | .clsModule, [.cls c] => pure (.str (S.clsModule c))
  | .modName, [.mod m] => pure (.str (S.modName m))
  | .getFilename, [.tok _] => do let st ← getSt; pure st.filename
  | .print, _ => pure .none
  | .classifyError, [.str m] => pure (.exc m)
  | _, _ => unmod

/-- `L[X] = C(L[X].get_value())` / `L[X] = C()` with `L`, `X`, `C` local variables: callee first, then the
    argument, then the call, then the target (`L`, `X` are read again: nothing in between can change them) -/
def retagArgs (l x : Nat) (withValue : Bool) : M (List Val) :=
  if withValue then do
    let lv ← getVar l
    let iv ← getVar x
    let o ← indexVal lv iv
    let t ← tokArg o
    pure [Val.str t.val]
  else pure []

def retagCtor (S : Sys) (cv : Val) (args : List Val) : M Val :=
  match cv with
  | .cls k => construct S k args
  | .none => typeErr
  | _ => unmod

def retag (S : Sys) (l x c : Nat) (withValue : Bool) : M Unit := do
  let cv ← getVar c
  let args ← retagArgs l x withValue
  let v ← retagCtor S cv args
  let lv ← getVar l
  let iv ← getVar x
  storeIndex lv iv v

/-! ### step functions (open recursion through `R`) -/

def evalArgs (R : Rec) : List Expr → M (List Val)
  | [] => pure []
  | e :: es => fun st =>
    match R.expr e st with
    | (.error x, st) => (.error x, st)
    | (.ok v, st) =>
      match evalArgs R es st with
      | (.error x, st) => (.error x, st)
      | (.ok vs, st) => (.ok (v :: vs), st)

def evalOpt (R : Rec) : Option Expr → M (Option Val)
  | Option.none => pure Option.none
  | some e => do let v ← R.expr e; pure (some v)

def applyVal (S : Sys) (R : Rec) (f : Val) (args : List Val) : M Val :=
  match f with
  | .cls c => construct S c args
  | .fn g => R.call g args
  | .none => typeErr
  | _ => unmod

def concatStrs : List Val → Option Str
  | [] => some []
  | v :: vs => match strOf v, concatStrs vs with
    | some a, some b => some (a ++ b)
    | _, _ => Option.none

def stepExpr (S : Sys) (R : Rec) : Expr → M Val
  | .none => pure .none
  | .bool b => pure (.bool b)
  | .int i => pure (.int i)
  | .str s => pure (.str s)
  | .var x => getVar x
  | .glob g => getGlobal g
  | .clsC c => pure (.cls c)
  | .modC m => pure (.mod m)
  | .fnC f => pure (.fn f)
  | .regexC r => pure (.regex r)
  | .list es => do let vs ← evalArgs R es; allocList vs.toArray
  | .tuple es => do let vs ← evalArgs R es; pure (.tuple vs)
  | .binop op a b => do let x ← R.expr a; let y ← R.expr b; binopVals op x y
  | .neg a => do
    let x ← R.expr a
    match asInt x with
    | some i => pure (.int (-i))
    | Option.none => typeErr
  | .cmp op a b => do let x ← R.expr a; let y ← R.expr b; cmpVals op x y
  | .and a b => do
    let x ← R.expr a
    let t ← truthy x
    if t then R.expr b else pure x
  | .or a b => do
    let x ← R.expr a
    let t ← truthy x
    if t then pure x else R.expr b
  | .not a => do
    let x ← R.expr a
    let t ← truthy x
    pure (.bool !t)
  | .index l i => do let lv ← R.expr l; let iv ← R.expr i; indexVal lv iv
  | .slice l lo hi => do
    let lv ← R.expr l
    let a ← evalOpt R lo
    let b ← evalOpt R hi
    sliceVal lv a b
  | .attr e name => do let v ← R.expr e; getAttr S v name
  | .call f args => do let fv ← R.expr f; let vs ← evalArgs R args; applyVal S R fv vs
  | .callF f args => do let vs ← evalArgs R args; R.call f vs
  | .prim p args => do let vs ← evalArgs R args; doPrim S p vs
  | .fstr parts => do
    let vs ← evalArgs R parts
    match concatStrs vs with
    | some s => pure (.str s)
    | Option.none => unmod

def execBlock (R : Rec) : List Stmt → M Flow
  | [] => pure .normal
  | s :: ss => fun st =>
    match R.stmt s st with
    | (.ok .normal, st) => execBlock R ss st
    | r => r

def assignSimple (R : Rec) (t : Target) (v : Val) : M Unit :=
  match t with
  | .var x => setVar x v
  | .index l i => do let lv ← R.expr l; let iv ← R.expr i; storeIndex lv iv v
  | .tuple _ => unmod

def assignMany (R : Rec) : List Target → List Val → M Unit
  | [], [] => pure ()
  | t :: ts, v :: vs => do assignSimple R t v; assignMany R ts vs
  | _, _ => raise .valueError

def assignTarget (R : Rec) (t : Target) (v : Val) : M Unit :=
  match t with
  | .tuple ts =>
    match v with
    | .tuple vs => assignMany R ts vs
    | .list a => do let l ← readList a; assignMany R ts l.toList
    | .undef => unmod
    | _ => typeErr
  | t => assignSimple R t v

inductive Iter where
  | range (cur stop step : Int)
  | vals (l : List Val)
  | toks (a : Array CTok) (i : Nat)
  | enum (k : Int) (it : Iter)
  deriving Inhabited

def Iter.next : Iter → Option (Val × Iter)
  | .range cur stop step =>
    if (0 < step && cur < stop) || (step < 0 && stop < cur) then some (.int cur, .range (cur + step) stop step) else Option.none
  | .vals [] => Option.none
  | .vals (v :: vs) => some (v, .vals vs)
  | .toks a i => match a[i]? with
    | some t => some (.tok t, .toks a (i + 1))
    | Option.none => Option.none
  | .enum k it => match it.next with
    | Option.none => Option.none
    | some (v, it') => some (.tuple [.int k, v], .enum (k + 1) it')

def toIter (v : Val) : M Iter :=
  match v with
  | .toks => do let st ← getSt; pure (.toks st.toks 0)
  | .list a => do let l ← readList a; pure (.vals l.toList)
  | .tuple vs => pure (.vals vs)
  | .str s => pure (.vals (s.map fun c => Val.str [c]))
  | .none => typeErr
  | .int _ => typeErr
  | _ => unmod

def mkIter (R : Rec) : IterE → M Iter
  | .range args => do
    let vs ← evalArgs R args
    match vs.map asInt with
    | [some b] => pure (.range 0 b 1)
    | [some a, some b] => pure (.range a b 1)
    | [some a, some b, some c] => if c == 0 then raise .valueError else pure (.range a b c)
    | _ => if vs.any (fun v => match v with | .undef => true | _ => false) then unmod else typeErr
  | .enumFrom l start => do
    let lv ← R.expr l
    let sv ← R.expr start
    match lv with
    | .toks => do
      let st ← getSt
      let a ← optBound st.toks.size 0 (some sv)
      pure (.enum 0 (.toks st.toks a))
    | .list ad => do
      let ls ← readList ad
      let a ← optBound ls.size 0 (some sv)
      pure (.enum 0 (.vals (ls.toList.drop a)))
    | .none => typeErr
    | _ => unmod
  | .enumerate e => do let v ← R.expr e; let it ← toIter v; pure (.enum 0 it)
  | .plain e => do let v ← R.expr e; toIter v

def whileLoop (maxSteps : Nat) (R : Rec) (c : Expr) (body : List Stmt) : Nat → M Flow
  | 0 => raise .outOfFuel
  | k + 1 => fun st =>
    if maxSteps ≤ st.steps then (.error .outOfFuel, st) else
    match R.expr c { st with steps := st.steps + 1 } with
    | (.error e, st) => (.error e, st)
    | (.ok v, st) =>
      match truthy v st with
      | (.error e, st) => (.error e, st)
      | (.ok false, st) => (.ok .normal, st)
      | (.ok true, st) =>
        match execBlock R body st with
        | (.error e, st) => (.error e, st)
        | (.ok .brk, st) => (.ok .normal, st)
        | (.ok (.ret v), st) => (.ok (.ret v), st)
        | (.ok _, st) => whileLoop maxSteps R c body k st

def forLoop (maxSteps : Nat) (R : Rec) (t : Target) (body orelse : List Stmt) : Nat → Iter → M Flow
  | 0, _ => raise .outOfFuel
  | k + 1, it => fun st =>
    if maxSteps ≤ st.steps then (.error .outOfFuel, st) else
    match it.next with
    | Option.none => execBlock R orelse st
    | some (v, it') =>
      match assignTarget R t v { st with steps := st.steps + 1 } with
      | (.error e, st) => (.error e, st)
      | (.ok (), st) =>
        match execBlock R body st with
        | (.error e, st) => (.error e, st)
        | (.ok .brk, st) => (.ok .normal, st)
        | (.ok (.ret v), st) => (.ok (.ret v), st)
        | (.ok _, st) => forLoop maxSteps R t body orelse k it' st

def Exc.matches : Exc → Err → Bool
  | .typeError, .py .typeError => true
  | .indexError, .py .indexError => true
  | .classifyError, .py .classifyError => true
  | _, _ => false

def findHandler (e : Err) : List (List Exc × List Stmt) → Option (List Stmt)
  | [] => Option.none
  | (xs, b) :: hs => if xs.any (·.matches e) then some b else findHandler e hs

def stepStmt (S : Sys) (R : Rec) (n : Nat) : Stmt → M Flow
  | .assign t e => do let v ← R.expr e; assignTarget R t v; pure .normal
  | .aug t op e =>
    match t with
    | .var x => do
      let cur ← getVar x
      let v ← R.expr e
      let r ← binopVals op cur v
      setVar x r
      pure .normal
    | _ => unmod
  | .expr e => do let _ ← R.expr e; pure .normal
  | .ite c t e => do
    let v ← R.expr c
    let b ← truthy v
    if b then execBlock R t else execBlock R e
  | .while c body => whileLoop S.maxSteps R c body n
  | .for t it body orelse => do let iter ← mkIter R it; forLoop S.maxSteps R t body orelse n iter
  | .ret e => do let v ← R.expr e; pure (.ret v)
  | .brk => pure .brk
  | .cont => pure .cont
  | .pass => pure .normal
  | .try body handlers => fun st =>
    match execBlock R body st with
    | (.ok f, st) => (.ok f, st)
    | (.error e, st) =>
      match findHandler e handlers with
      | some h => execBlock R h st
      | Option.none => (.error e, st)
  | .raise e => do
    let v ← R.expr e
    match v with
    | .exc m => do modSt (fun st => { st with msg := m }); raise (.py .classifyError)
    | _ => unmod
  | .del _ _ => unmod
  | .retag l x c b => do retag S l x c b; pure .normal

def mkFrame (n : Nat) (args : List Val) : Array Val :=
  (args ++ List.replicate (n - args.length) Val.undef).toArray

/-- a call: new frame, run the body, restore the caller's frame (also when an exception passes through) -/
def stepCall (S : Sys) (R : Rec) (f : Nat) (args : List Val) : M Val := fun st =>
  match S.funs[f]? with
  | Option.none => (.error .unmodelled, st)
  | some fd =>
    if fd.isOpaque then (.error .unmodelled, st)
    else if fd.nparams < args.length || args.length + fd.defaults.length < fd.nparams then (.error (.py .typeError), st)
    else if S.maxDepth ≤ st.depth then (.error .recursionError, st)
    else if S.maxSteps ≤ st.steps then (.error .outOfFuel, st)
    else
      match evalArgs R (fd.defaults.drop (args.length + fd.defaults.length - fd.nparams)) st with
      | (.error e, st) => (.error e, st)
      | (.ok dv, st) =>
        let saved := st.frame
        let d := st.depth
        let st := { st with frame := mkFrame fd.nlocals (args ++ dv), depth := d + 1, steps := st.steps + 1, calls := st.calls.modify f (· + 1) }
        match execBlock R fd.body st with
        | (.ok (.ret v), st) => (.ok v, { st with frame := saved, depth := d })
        | (.ok _, st) => (.ok .none, { st with frame := saved, depth := d })
        | (.error e, st) => (.error e, { st with frame := saved, depth := d })

/-- the evaluator with fuel `n` -/
def run (S : Sys) : Nat → Rec
  | 0 => { expr := fun _ => raise .outOfFuel, stmt := fun _ => raise .outOfFuel, call := fun _ _ => raise .outOfFuel }
  | n + 1 =>
    { expr := fun e st => stepExpr S (run S n) e st
      stmt := fun s st => stepStmt S (run S n) n s st
      call := fun f a st => stepCall S (run S n) f a st }

/-- evaluate the module-level constants in order -/
def initGlobals (S : Sys) (fuel : Nat) : List Expr → M Unit
  | [] => pure ()
  | e :: es => do
    let v ← (run S fuel).expr e
    modSt fun st => { st with globals := st.globals.push v }
    initGlobals S fuel es

def initState (S : Sys) (toks : Array CTok) (filename : Val := .none) : State :=
  { toks := toks, calls := Array.replicate S.funs.size 0, filename := filename }

/-- run function `f` on the token list: globals first, then the call -/
def runEntry (S : Sys) (fuel : Nat) (f : Nat) (args : List Val) (toks : Array CTok) (filename : Val := .none) :
    Except Err Val × State :=
  match initGlobals S fuel S.globals (initState S toks filename) with
  | (.error e, st) => (.error e, st)
  | (.ok (), st) => (run S fuel).call f args st

end Vsgm.Prog
