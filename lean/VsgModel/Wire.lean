/-
  Line protocol between the Python harness and the Lean driver (executable glue only).
  token      = <serial>:<class index>:<value>          value = code points joined by '.'
  token list = tokens joined by ' '
-/
import VsgModel.Tok
import VsgModel.Generated.Classes
import VsgModel.Generated.CharTables
import Std.Data.HashMap
namespace Vsgm.Wire
open Vsgm

def decStr (s : String) : Str :=
  if s.isEmpty then [] else (s.splitOn ".").map (fun p => Char.ofNat p.toNat!)

def encStr (v : Str) : String := ".".intercalate (v.map (fun c => toString c.toNat))

def kindOfCls (cls : Nat) : Kind := Kind.ofCode (Gen.classKinds.getD cls 0)

/-- a token as it sits in the real token list: serial number of the Python object + token -/
structure STok where
  ser : Nat
  tok : Tok
  deriving Inhabited, DecidableEq

def decTok (s : String) : STok :=
  match s.splitOn ":" with
  | [a, b, c] => { ser := a.toNat!, tok := { cls := b.toNat!, kind := kindOfCls b.toNat!, val := decStr c } }
  | _ => { ser := 0, tok := { cls := 0, kind := .code, val := [] } }

def decToks (s : String) : List STok :=
  if s.isEmpty then [] else (s.splitOn " ").map decTok

def encTok (t : STok) : String := s!"{t.ser}:{t.tok.cls}:{encStr t.tok.val}"

/-- case folding used by the executable checkers: CPython's one-to-one `str.lower()` pairs
    (generated), final sigma identified with sigma -/
def lowerMap : Std.HashMap Nat Nat := Std.HashMap.ofList Gen.lowerPairs

def foldChar (c : Char) : Char :=
  let n := c.toNat
  let m := lowerMap.getD n n
  Char.ofNat (if m == 962 then 963 else m)

def fold (v : Str) : Str := v.map foldChar

end Vsgm.Wire
