/-
  Driver glue (executable only) for the vertical-spacing families of `BFull2/VSpace.lean`, called from the
  `bfull2` loop of `BFull2/Cli.lean`:

    VSP <tab> rule id <tab> style [<tab> hier]
        hier          = `k=v,k=v,…`: hierarchy `v` of the k-th token that is neither a line break nor a blank_line
                        (only tokens whose hierarchy is not None are listed; empty = all None)
    reply  `ok <tois>|<viols>|<fixed>|<second>`  or  `raise <Err>`  or  `unknown`
        tois   = start,line,len ; …      (`N` for a `None` region, `a+b` for a pair of regions)
        viols  = line,start,action code,solution ; …     (action code 0 Insert 1 Remove 2 Skip)
        fixed  = `=` (no violation), `!Err` (`_fix_violation` raised) or the token list after `Rule.fix`
        second = `-` (nothing fixed), `!Err`, or the violations `line,action code ; …` the MODEL reports on the fixed file
-/
import VsgModel.Wire
import VsgModel.Generated.ClassUids
import VsgModel.Generated.ClassTree
import VsgModel.Generated.BFull2Rules
import VsgModel.BFull2.VSpace
namespace Vsgm.BFull2.VSpaceCli
open Vsgm Vsgm.TM Vsgm.Wire Vsgm.BFull2.VSpace

def tokUid (t : Tok) : Option Key := Gen.classUids.getD t.cls none
def clsOf (c : Nat) : Cls := { uid := Gen.classUids.getD c none, idx := c }
def instOf (t : Tok) (p : Nat) : Bool := Gen.isa t.cls p

def familyOf : Nat → Family
  | 0 => .below | 1 => .above | _ => .previous

def paramsOf (r : Gen.VSpaceRuleRow) (style : Str) : Params :=
  { family := familyOf r.family, cs := r.cs.map clsOf, allow := r.allow, style := style, hier := r.hier,
    solution := r.solution.toList,
    crCls := Gen.crCls, blCls := Gen.blankCls, wsCls := Gen.wsCls, commentCls := Gen.commentCls, pragmaCls := Gen.pragmaCls }

def parseInt (s : String) : Int := if s.startsWith "-" then - ((s.drop 1).toString.toNat! : Int) else (s.toNat! : Int)

def parseHier (s : String) : Array (Option Int) :=
  if s.isEmpty then #[]
  else
    let kv := (s.splitOn ",").filterMap fun e => match e.splitOn "=" with | [k, v] => some (k.toNat!, parseInt v) | _ => none
    let n := kv.foldl (fun m p => max m (p.1 + 1)) 0
    kv.foldl (fun (a : Array (Option Int)) p => a.set! p.1 (some p.2)) (Array.replicate n none)

def encToks (l : List Tok) : String := " ".intercalate (l.map fun t => s!"{t.cls}:{encStr t.val}")

def showToi (t : Toi Tok) : String :=
  s!"{match t.start with | some s => toString s | none => "N"},{t.line},{t.toks.length}"

def showRegion : Region → String
  | .one none => "N"
  | .one (some t) => showToi t
  | .pair a b => showToi a ++ "+" ++ showToi b

def baseErrName : Base.PyErr → String
  | .indexError => "IndexError" | .typeError => "TypeError" | .keyError _ => "KeyError"
  | .attributeError => "AttributeError" | .valueError => "ValueError" | .unmodelled _ => "Unmodelled"

def firstFixErr (P : Params) : List Viol → Option Base.PyErr
  | [] => none
  | v :: vs => match fixE P v with | .error e => some e | .ok _ => firstFixErr P vs

def run (toks : List Tok) (ix : Index) (P : Params) (h : HOracle) : String :=
  match toisWith P (hierAt tokUid h toks) toks ix with
  | .error e => "raise " ++ e.name
  | .ok rs =>
    match analyzeRegions instOf P rs with
    | .error e => "raise " ++ e.name
    | .ok vs =>
      let S := sem tokUid instOf P h
      let sorted := sortByStart (vs.map (·.1))
      let (fixed, second) :=
        if vs.isEmpty then ("=", "-")
        else
          -- `for oViolation in self.violations[::-1]: self._fix_violation(oViolation)`
          match firstFixErr P sorted.reverse with
          | some e => ("!" ++ baseErrName e, "-")
          | none =>
            let g := update toks (sorted.map (editOf S))
            (encToks g,
              match analyzeE tokUid instOf P h g with
              | .error e => "!" ++ e.name
              | .ok ws => ";".intercalate (ws.map fun (w, _) => s!"{w.line},{w.act}"))
      "ok " ++ ";".intercalate (rs.map showRegion) ++ "|" ++
        ";".intercalate (vs.map fun (v, sol) => s!"{v.line},{v.start},{v.act},{encStr sol}") ++
        "|" ++ fixed ++ "|" ++ second

/-- the arguments of a `VSP` request line -/
def runVSpace (toks : List Tok) (ix : Index) (args : List String) : String :=
  match args with
  | id :: style :: rest =>
    match Gen.vspaceRuleTable.find? (·.id == id) with
    | none => "unknown"
    | some r =>
      let st := decStr style
      if !r.own || st == sUnlessLibrary then "unknown"
      else
        let hs := parseHier (rest.headD "")
        run toks ix (paramsOf r st) (fun k => hs.getD k none)
  | _ => "unknown"

end Vsgm.BFull2.VSpaceCli
