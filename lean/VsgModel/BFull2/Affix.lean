/-
  WP2b — B-full for the naming rules `token_prefix` / `token_suffix` (vsg/rules/token_prefix.py, token_suffix.py;
  52 phase-7 rules, unfixable, disabled by default) and their extractor variants
  `…_between_tokens` (get_tokens_matching_in_range_bounded_by_tokens), `…_between_tokens_unless_between_tokens`
  (…_unless_between_tokens) and the ten port rules port_600 … 609 (get_interface_elements_between_tokens, then
  `utils.extract_identifiers_with_mode`).

      def _analyze(self, lToi):
          self.generate_regexp_exceptions()
          lPrefixLower = [sPrefix.lower() for sPrefix in self.prefixes]          # `None` (the base default): TypeError
          for oToi in lToi:
              sToken = lTokens[0].get_lower_value()
              if self.exception_found(sToken): continue
              bValid = any(sToken.startswith(sPrefix.lower()) for sPrefix in lPrefixLower)   # suffix: endswith(sSuffix)
              if not bValid: "Prefix <value> with one of the following: <', '.join(self.prefixes)>"

  Parameters of the model: `lower` = `str.lower()` (the driver uses the generated CPython tables), `exc` = the
  verdict of `exception_found` on a lower-cased value (compiled regular expressions, matched with IGNORECASE —
  an oracle here; the pinned rules all have `exceptions = []`).
  Token state outside `Tok`: `lower_value` is computed when the token object is created and NOT refreshed by
  `set_value`; the model takes `lower (value)`, which is what a freshly parsed file has.
  `generate_regexp_exceptions` appends the compiled exceptions to `self.regexp_exceptions` on EVERY analysis (the
  list grows, the verdict does not change): state of the rule object, not of the file.
-/
import VsgModel.Engine.Extract
import VsgModel.Engine.Extract2
import VsgModel.Engine.Extract3
import VsgModel.Engine.RuleRun
namespace Vsgm.BFull2.Affix
open Vsgm Vsgm.TM Vsgm.TM.X

inductive Kind where
  | pre | suf
  deriving DecidableEq, Repr

inductive Variant where
  | plain
  | between (a b : Cls)
  | betweenUnless (a b : Cls) (un : List (Cls × Cls))
  /-- port_600 … 609: interface elements of the port clause (`a`, `b` its parentheses) that contain a token of
      class `mode`; of each the first token that is an instance of `ident` -/
  | portMode (a b : Cls) (mode ident semi : Nat) (pc : PCls)
  deriving Repr

structure Params where
  kind : Kind
  cs : List Cls                       -- self.lTokens
  variant : Variant := .plain
  affixes : Option (List Str)         -- self.prefixes / self.suffixes (`none` = None)
  deriving Repr

/-- `tokens.extract_tokens(i, i)` on a region: the token, its position, the region's line plus the line
    breaks before it -/
def extractOne (V : View Tok) (t : Toi Tok) (i : Nat) : Except PyErr (Toi Tok) :=
  match t.start with
  | none => .error .typeError
  | some s =>
    .ok { start := some (s + (i : Int)), line := t.line + ((t.toks.take i).filter V.isCr).length,
          toks := pySlice t.toks (i : Int) ((i : Int) + 1) }

/-- `utils.extract_identifiers_with_mode` -/
def identifiersWithMode (V : View Tok) (mode ident : Nat) (l : List (Toi Tok)) : Except PyErr (List (Toi Tok)) :=
  filterMapE (fun (t : Toi Tok) =>
    if t.toks.any (fun x => V.inst x mode) then
      match t.toks.findIdx? (fun x => V.inst x ident) with
      | none => .error .typeError          -- `self.lTokens[None : None + 1]`
      | some i => (extractOne V t i).map some
    else .ok none) l

/-- `_get_tokens_of_interest` -/
def toisWith (V : View Tok) (P : Params) (f : List Tok) (ix : Index) : Except PyErr (List (Toi Tok)) :=
  match P.variant with
  | .plain => tokensMatching f ix P.cs
  | .between a b => matchingInRange f ix P.cs a.uid b.uid
  | .betweenUnless a b un => matchingInRangeUnless f ix P.cs a.uid b.uid (un.map fun p => (p.1.uid, p.2.uid))
  | .portMode a b mode ident semi pc =>
    match interfaceElements V pc semi f ix a.uid b.uid with
    | .error e => .error e
    | .ok l => identifiersWithMode V mode ident l

/-- `bValid`: `lPrefixLower` holds the lower-cased options; the prefix test lowers them once more -/
def hasAffix (lower : Str → Str) (k : Kind) (affLower : List Str) (s : Str) : Bool :=
  match k with
  | .pre => affLower.any fun p => (lower p).isPrefixOf s
  | .suf => affLower.any fun p => p.isSuffixOf s

def sepJoin (sep : Str) : List Str → Str
  | [] => []
  | [a] => a
  | a :: r => a ++ sep ++ sepJoin sep r

def solution (k : Kind) (affixes : List Str) (v : Str) : Str :=
  (match k with | .pre => "Prefix ".toList | .suf => "Suffix ".toList) ++ v ++
    " with one of the following: ".toList ++ sepJoin ", ".toList affixes

/-- the loop body of `_analyze` (`lTokens[0]` of an empty region: IndexError) -/
def violOf (lower : Str → Str) (exc : Str → Bool) (k : Kind) (affixes : List Str) (t : Toi Tok) :
    Except PyErr (Option (Viol × Str)) :=
  match t.toks with
  | [] => .error .indexError
  | x :: _ =>
    if exc (lower x.val) then .ok none
    else if hasAffix lower k (affixes.map lower) (lower x.val) then .ok none
    else
      match t.start with
      | none => .error .typeError
      | some s => .ok (some ({ line := t.line, start := s.toNat, toks := t.toks, act := 0 }, solution k affixes x.val))

def analyzeWith (V : View Tok) (lower : Str → Str) (exc : Str → Bool) (P : Params) (f : List Tok) (ix : Index) :
    Except PyErr (List (Viol × Str)) :=
  match toisWith V P f ix with
  | .error e => .error e
  | .ok ts =>
    match P.affixes with
    | none => .error .typeError                      -- `for sPrefix in None`
    | some affixes => filterMapE (violOf lower exc P.kind affixes) ts

/-- `Rule.analyze` -/
def analyzeE (V : View Tok) (lower : Str → Str) (exc : Str → Bool) (P : Params) (f : List Tok) :
    Except PyErr (List (Viol × Str)) :=
  analyzeWith V lower exc P f (processTokens V.uid f)

/-- the rule as the engine sees it: `_fix_violation` finds no action it knows (the action is `None`) and leaves
    the region alone; an exception inside `analyze` aborts the run before anything is changed -/
def sem (V : View Tok) (lower : Str → Str) (exc : Str → Bool) (P : Params) : RuleSem where
  analyze f := match analyzeE V lower exc P f with | .ok vs => vs.map (·.1) | .error _ => []
  fixV v := v.toks

end Vsgm.BFull2.Affix
