/-
  WP2 — B-full for the vertical-spacing families: extractor + `_analyze` + `_fix_violation`, composed into a
  `RuleSem` (Engine/RuleRun.lean).

    vsg/rules/blank_line_below_line_ending_with_token.py     (family `below`,  36 rules)
        styles require_blank_line / no_blank_line / require_blank_line_unless_pragma
    vsg/rules/blank_line_above_line_starting_with_token.py   (family `above`,  16 rules)
        styles require_blank_line / no_blank_line
    vsg/rules/previous_line.py                               (family `previous`, 25 rules)
        styles require_blank_line / no_blank_line / no_code / allow_comment / require_comment
        (`no_blank_line_unless_different_library` is NOT modelled: its extractor
         get_blank_lines_above_line_starting_with_use_clause attaches library names as meta data)

  Faithful details kept:
  * a style the code does not know makes `_get_tokens_of_interest` return `None` (families below / above) and
    `_analyze` do nothing: modelled as no region, no violation;
  * `style.startswith("require_blank_line")` selects the extractor of family `below`, `==` selects the analysis;
  * `get_line_below_line_ending_with_token_with_hierarchy` keeps `None` regions; `_analyze_require_blank_line`
    then calls `None.get_tokens()`: AttributeError;
  * (repaired in /repo, WP5b) `_analyze_require_comment` used to read `self.allow_comment`, an attribute no
    `previous_line` rule has: AttributeError when the line above the comment block is `[whitespace, comment]`.
    It asks `_comment_starts_line` now: a comment line there means the comments reach the beginning of the
    file, and nothing is reported;
  * `require_blank_line_unless_pragma` APPENDS `token.pragma.pragma` to `self.lAllowTokens` on every analysis
    (the list object is shared with the rule's module): the model is ONE call on the rule's original list;
  * `_is_allowed_token` is `isinstance`: class ancestors (`inst`);
  * the line numbers are the coded ones (`get_line_number() - 1` below/Insert, `+ 1` below/Remove, plain above).
    `Viol.line` is a `Nat`; every region the extractors of family `below` return has `line ≥ 2`.

  Token state outside `Tok`.  `get_hierarchy()` belongs to the token OBJECT.  The families' fixes create and
  delete only `parser.carriage_return` / `parser.blank_line` tokens, so an object is identified by its ORDINAL
  among the tokens that are neither: the oracle `h : Nat → Option Int` maps the k-th such token to its hierarchy
  (`none` = Python `None`), the same oracle before and after the fix.

  Code tags: as in `Indent.lean`, the model is the rule on untagged files.
-/
import VsgModel.BFull2.ExtractV
import VsgModel.Base.BlankLine
import VsgModel.Engine.RuleRun
namespace Vsgm.BFull2.VSpace
open Vsgm Vsgm.TM

/-! ### token state -/

abbrev HOracle := Nat → Option Int

def isVLayoutU (uid : Tok → Option Key) (t : Tok) : Bool := uid t == some crKey || uid t == some blankKey

/-- ordinal of the token that follows `pre`: the number of tokens in `pre` that are neither a line break nor a
    blank_line -/
def ordOf (uid : Tok → Option Key) (pre : List Tok) : Nat := (pre.filter (fun t => !isVLayoutU uid t)).length

/-- `lAllObjects[i].get_hierarchy()` -/
def hierAt (uid : Tok → Option Key) (h : HOracle) (f : List Tok) (i : Nat) : Option Int := h (ordOf uid (f.take i))

/-! ### parameters -/

inductive Family where
  | below | above | previous
  deriving DecidableEq, Repr

structure Params where
  family : Family
  cs : List Cls                      -- self.lTokens
  allow : List Nat                   -- self.lAllowTokens (class numbers, for isinstance)
  style : Str                        -- self.style
  hier : Option (List Int) := none   -- self.lHierarchyLimits
  solution : Str := []               -- self.solution (previous_line)
  crCls : Nat
  blCls : Nat
  wsCls : Nat
  commentCls : Nat
  pragmaCls : Nat                    -- token.pragma.pragma
  deriving Repr

def sRequire : Str := "require_blank_line".toList
def sNoBlank : Str := "no_blank_line".toList
def sUnlessPragma : Str := "require_blank_line_unless_pragma".toList
def sNoCode : Str := "no_code".toList
def sAllowComment : Str := "allow_comment".toList
def sRequireComment : Str := "require_comment".toList
def sUnlessLibrary : Str := "no_blank_line_unless_different_library".toList

/-- what `_analyze` iterates over: a region (`None` happens), or a pair of regions (`zip(lFirst, lSecond)`) -/
inductive Region where
  | one (t : Option (Toi Tok))
  | pair (a b : Toi Tok)
  deriving Repr, DecidableEq

def ones (l : List (Toi Tok)) : List Region := l.map fun t => .one (some t)

/-- `_get_tokens_of_interest` against a given index; `hier` = hierarchy by position -/
def toisWith (P : Params) (hier : Nat → Option Int) (f : List Tok) (ix : Index) : Except PyErr (List Region) :=
  match P.family with
  | .below =>
    if sRequire.isPrefixOf P.style then
      match P.hier with
      | none => lineBelowLineEndingWith f ix P.cs >>= fun l => pure (ones l)
      | some lims => lineBelowLineEndingWithHier f ix hier P.cs lims >>= fun l => pure (l.map .one)
    else if P.style == sNoBlank then
      blankLinesBelowLineEndingWith f ix hier P.cs P.hier >>= fun l => pure (ones l)
    else pure []
  | .above =>
    if P.style == sRequire then lineAboveLineStartingWithB f ix P.cs false >>= fun l => pure (ones l)
    else if P.style == sNoBlank then blankLinesAboveLineStartingWith f ix P.cs >>= fun l => pure (ones l)
    else pure []
  | .previous =>
    if P.style == sRequireComment then
      match P.hier with
      | none =>
        lineAboveLineStartingWithB f ix P.cs false >>= fun a =>
        lineAboveLineStartingWithB f ix P.cs true >>= fun b =>
        pure ((a.zip b).map fun p => .pair p.1 p.2)
      | some lims =>
        lineAboveLineStartingWithHier f ix hier P.cs lims false >>= fun a =>
        lineAboveLineStartingWithHier f ix hier P.cs lims true >>= fun b =>
        pure ((a.zip b).map fun p => .pair p.1 p.2)
    else if P.style == sNoBlank then blankLinesAboveLineStartingWith f ix P.cs >>= fun l => pure (ones l)
    else
      -- `_include_comments`: True for allow_comment (and require_comment, handled above), False / None otherwise
      let incl := P.style == sAllowComment
      match P.hier with
      | none => lineAboveLineStartingWithB f ix P.cs incl >>= fun l => pure (ones l)
      | some lims => lineAboveLineStartingWithHier f ix hier P.cs lims incl >>= fun l => pure (ones l)

/-! ### `_analyze` -/

inductive Act where
  | insert | remove | skip
  deriving DecidableEq, Repr

def Act.code : Act → Nat
  | .insert => 0 | .remove => 1 | .skip => 2

def Act.ofCode : Nat → Act
  | 0 => .insert | 1 => .remove | _ => .skip

def sSkip : Str := "Skip".toList

def Act.str : Act → Str
  | .insert => Base.BlankLine.sInsert | .remove => Base.BlankLine.sRemove | .skip => sSkip

/-- `_is_allowed_token` -/
def isAllowed (inst : Tok → Nat → Bool) (allow : List Nat) (l : List Tok) : Bool :=
  allow.any fun a => l.any fun t => inst t a

/-- the two `continue`s of `_analyze_require_blank_line` -/
def cleanRequire (inst : Tok → Nat → Bool) (P : Params) (allow : List Nat) (l : List Tok) : Bool :=
  isAllowed inst allow l || (match l with | [t] => inst t P.blCls | _ => false)

/-- the `continue`s of `_analyze_no_code` -/
def cleanNoCode (inst : Tok → Nat → Bool) (P : Params) (l : List Tok) : Bool :=
  isAllowed inst P.allow l ||
    (match l with
     | [t] => inst t P.blCls || inst t P.commentCls
     | [a, b] => inst a P.wsCls && inst b P.commentCls
     | _ => false)

/-- `_comment_starts_line` -/
def commentStartsLine (inst : Tok → Nat → Bool) (P : Params) (l : List Tok) : Bool :=
  match l with
  | [t] => inst t P.commentCls
  | [a, b] => inst a P.wsCls && inst b P.commentCls
  | _ => false

/-- `violation.New(line, oToi, solution)` + `set_action` -/
def mkViol (t : Toi Tok) (line : Nat) (a : Act) (sol : Str) : Option (Viol × Str) :=
  match t.start with
  | none => none
  | some s => some ({ line := line, start := s.toNat, toks := t.toks, act := a.code }, sol)

def solBelowInsert : Str := "Insert blank line below".toList
def solBelowRemove : Str := "Remove blank lines below".toList
def solAboveInsert : Str := "Insert blank line above".toList
def solRemove : Str := "Remove blank lines".toList
def solComment : Str := "Comment required above this line.".toList

/-- the body of `_analyze_require_blank_line` for one region -/
def judgeRequire (inst : Tok → Nat → Bool) (P : Params) (allow : List Nat) (line : Toi Tok → Nat) (sol : Str)
    (r : Region) : Except PyErr (Option (Viol × Str)) :=
  match r with
  | .one none => .error .attributeError
  | .one (some t) => if cleanRequire inst P allow t.toks then pure none else pure (mkViol t (line t) .insert sol)
  | .pair _ _ => .error .attributeError             -- a tuple has no `get_tokens`

/-- the body of `_analyze_no_blank_line` for one region -/
def judgeNoBlank (line : Toi Tok → Nat) (sol : Str) (r : Region) : Except PyErr (Option (Viol × Str)) :=
  match r with
  | .one none => .error .attributeError
  | .one (some t) => pure (mkViol t (line t) .remove sol)
  | .pair _ _ => .error .attributeError

/-- the body of `_analyze_no_code` -/
def judgeNoCode (inst : Tok → Nat → Bool) (P : Params) (r : Region) : Except PyErr (Option (Viol × Str)) :=
  match r with
  | .one none => .error .attributeError
  | .one (some t) => if cleanNoCode inst P t.toks then pure none else pure (mkViol t t.line .insert P.solution)
  | .pair _ _ => .error .attributeError

/-- the body of `_analyze_require_comment` (`for oFirstToi, oToi in list(lToi)`: a non-pair cannot be unpacked) -/
def judgeRequireComment (inst : Tok → Nat → Bool) (P : Params) (r : Region) : Except PyErr (Option (Viol × Str)) :=
  match r with
  | .one _ => .error .typeError
  | .pair a b =>
    if isAllowed inst P.allow a.toks then pure none
    else if !commentStartsLine inst P a.toks then pure (mkViol a a.line .skip solComment)
    else if isAllowed inst P.allow b.toks then pure none
    else
      if (match b.toks with | [t] => inst t P.blCls | _ => false) then pure none
      -- the comments reach the beginning of the file: there is no line above them
      else if commentStartsLine inst P b.toks then pure none
      else pure (mkViol b b.line .insert P.solution)

/-- `_analyze`: the style dispatch of the three classes -/
def judge (inst : Tok → Nat → Bool) (P : Params) (r : Region) : Except PyErr (Option (Viol × Str)) :=
  match P.family with
  | .below =>
    if P.style == sRequire then judgeRequire inst P P.allow (fun t => t.line - 1) solBelowInsert r
    else if P.style == sNoBlank then judgeNoBlank (fun t => t.line + 1) solBelowRemove r
    else if P.style == sUnlessPragma then judgeRequire inst P (P.allow ++ [P.pragmaCls]) (fun t => t.line - 1) solBelowInsert r
    else pure none
  | .above =>
    if P.style == sRequire then judgeRequire inst P P.allow (fun t => t.line) solAboveInsert r
    else if P.style == sNoBlank then judgeNoBlank (fun t => t.line) solRemove r
    else pure none
  | .previous =>
    if P.style == sNoBlank then judgeNoBlank (fun t => t.line) solRemove r
    else if P.style == sRequire then judgeRequire inst P P.allow (fun t => t.line) P.solution r
    else if P.style == sNoCode || P.style == sAllowComment then judgeNoCode inst P r
    else if P.style == sRequireComment then judgeRequireComment inst P r
    else pure none

/-- `_analyze` over all regions -/
def analyzeRegions (inst : Tok → Nat → Bool) (P : Params) (rs : List Region) : Except PyErr (List (Viol × Str)) :=
  filterMapE (judge inst P) rs

/-- `analyze` against a given index (the driver computes the index once per file) -/
def analyzeWith (uid : Tok → Option Key) (inst : Tok → Nat → Bool) (P : Params) (h : HOracle) (f : List Tok) (ix : Index) :
    Except PyErr (List (Viol × Str)) :=
  match toisWith P (hierAt uid h f) f ix with
  | .error e => .error e
  | .ok rs => analyzeRegions inst P rs

/-- `Rule.analyze`: `_get_tokens_of_interest` on the file's (fresh) index, then `_analyze` -/
def analyzeE (uid : Tok → Option Key) (inst : Tok → Nat → Bool) (P : Params) (h : HOracle) (f : List Tok) :
    Except PyErr (List (Viol × Str)) :=
  analyzeWith uid inst P h f (processTokens uid f)

/-! ### `_fix_violation` (the models of Base/BlankLine.lean) -/

/-- may raise: `insert_token` on an empty region (family `below`) -/
def fixE (P : Params) (v : Viol) : Except Base.PyErr (List Tok) :=
  match P.family with
  | .below => Base.BlankLine.belowFixV P.crCls P.blCls (Act.ofCode v.act).str v.toks
  | _ => Base.BlankLine.aboveFixV P.crCls P.blCls (Act.ofCode v.act).str v.toks

def fixTok (P : Params) (v : Viol) : List Tok :=
  match fixE P v with
  | .ok r => r
  | .error _ => v.toks

/-- the rule as the engine sees it.  An exception inside `analyze` leaves `Rule.fix` before `update`: nothing
    is fixed — modelled as the empty list of violations.  (An exception inside `_fix_violation` also leaves
    `Rule.fix` before `update`; `fixTok` keeps the region instead — the driver reports the exception.) -/
def sem (uid : Tok → Option Key) (inst : Tok → Nat → Bool) (P : Params) (h : HOracle) : RuleSem where
  analyze f := match analyzeE uid inst P h f with | .ok vs => vs.map (·.1) | .error _ => []
  fixV := fixTok P

/-- what `Rule.fix` makes of the file (fixable rule, no `--fix_only`) -/
def fixAll (uid : Tok → Option Key) (inst : Tok → Nat → Bool) (P : Params) (h : HOracle) (f : List Tok) : List Tok :=
  update f ((sortByStart ((sem uid inst P h).analyze f)).map (editOf (sem uid inst P h)))

end Vsgm.BFull2.VSpace
