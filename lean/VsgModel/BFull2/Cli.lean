/-
  Driver mode `bfull2` (executable glue only): whole rules of the B-full families of WP2 on the real token
  list of a parsed file.

    TOKS <tab> tok*                          tok = cls:value:indent   (indent `N` = None); computes the index; no reply
    IND <tab> rule id <tab> style <tab> size reply  `ok <tois>|<viols>|<fixed>`  or  `raise <Err>`  or `unknown`
        tois  = start,line,len ; …
        viols = line,start,action code,level,solution ; …      (action code 0 remove 1 adjust 2 add)
        fixed = `=` (no violation) or the token list after `Rule.fix`, `cls:value` joined by blanks
-/
import VsgModel.Wire
import VsgModel.Generated.ClassUids
import VsgModel.Generated.BFull2Rules
import VsgModel.BFull2.Indent
import VsgModel.BFull2.VSpaceCli
import VsgModel.BFull2.AffixCli   -- wp2b
namespace Vsgm.BFull2.Cli
open Vsgm Vsgm.TM Vsgm.Wire

/-- the id of a classified token: the docstring `unique_id` of its class (generated table) -/
def tokUid (t : Tok) : Option Key := Gen.classUids.getD t.cls none

def clsOf (c : Nat) : Cls := { uid := Gen.classUids.getD c none, idx := c }

def indentParams (r : Gen.IndentRuleRow) (style : Str) (size : Int) : Params :=
  { cs := r.cs.map clsOf
    variant :=
      match r.variant with
      | 0 => .plain
      | 1 => .between (clsOf r.a) (clsOf r.b) r.incl
      | 2 => .betweenUnless (clsOf r.a) (clsOf r.b) (r.unl.map fun p => (clsOf p.1, clsOf p.2)) r.incl
      | _ => .unlessBetween (r.unl.map fun p => (clsOf p.1, clsOf p.2))
    style := style, size := size, wsCls := Gen.wsCls }

def parseInt (s : String) : Int := if s.startsWith "-" then - ((s.drop 1).toString.toNat! : Int) else (s.toNat! : Int)

def decTokI (s : String) : Tok × Option Int :=
  match s.splitOn ":" with
  | [c, v, i] => ({ cls := c.toNat!, kind := kindOfCls c.toNat!, val := decStr v }, if i == "N" then none else some (parseInt i))
  | _ => ({ cls := 0, kind := .code, val := [] }, none)

def encToks (l : List Tok) : String := " ".intercalate (l.map fun t => s!"{t.cls}:{encStr t.val}")

structure St where
  toks : List Tok := []
  index : Index := { dmap := [], maxTok := 0 }
  ind : Array (Option Int) := #[]      -- level of the k-th non-whitespace token

def showToi (t : Toi Tok) : String :=
  s!"{match t.start with | some s => toString s | none => "N"},{t.line},{t.toks.length}"

def runIndent (st : St) (r : Gen.IndentRuleRow) (style : Str) (size : Int) : String :=
  let P := indentParams r style size
  let ind : Oracle := fun k => (st.ind.getD k none)
  match toisWith P st.toks st.index with
  | .error e => "raise " ++ e.name
  | .ok ts =>
    match analyzeWith tokUid P ind st.toks st.index with
    | .error e => "raise " ++ e.name
    | .ok vs =>
      let S := sem tokUid P ind
      let fixed :=
        if vs.isEmpty then "="
        else encToks (update st.toks ((sortByStart (vs.map (·.1))).map (editOf S)))
      "ok " ++ ";".intercalate (ts.map showToi) ++ "|" ++
        ";".intercalate (vs.map fun (v, sol) => s!"{v.line},{v.start},{(decAct v.act).1.code},{(decAct v.act).2},{encStr sol}") ++
        "|" ++ fixed

partial def loop (h out : IO.FS.Stream) (st : St) : IO Unit := do
  let line ← h.getLine
  if line.isEmpty then return ()
  let line := if line.endsWith "\n" then (line.dropEnd 1).toString else line
  match line.splitOn "\t" with
  | ["TOKS", ts] =>
    let l := if ts.isEmpty then [] else (ts.splitOn " ").map decTokI
    let toks := l.map (·.1)
    let ind := ((l.filter fun p => !isWsU tokUid p.1).map (·.2)).toArray
    loop h out { toks := toks, index := processTokens tokUid toks, ind := ind }
  | ["IND", id, style, size] =>
    match Gen.indentRuleTable.find? (·.id == id) with
    | none => out.putStrLn "unknown"
    | some r => out.putStrLn (runIndent st r (decStr style) (parseInt size))
    out.flush
    loop h out st
  | "AFX" :: args =>   -- wp2b
    out.putStrLn (AffixCli.runAffix st.toks st.index args); out.flush
    loop h out st
  | "VSP" :: args =>
    out.putStrLn (VSpaceCli.runVSpace st.toks st.index args); out.flush
    loop h out st
  | _ =>
    out.putStrLn ("error bad line " ++ (line.take 40).toString); out.flush
    loop h out st

def bfull2Main (stdin stdout : IO.FS.Stream) : IO Unit := loop stdin stdout {}

end Vsgm.BFull2.Cli
