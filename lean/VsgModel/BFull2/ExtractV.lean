/-
  WP2 (B-full, second batch): the extractors of the vertical-spacing families, transcribed beside the
  thirteen of `Engine/Extract.lean` (which already has `linePreceding` = `get_line_preceding_line` with
  `bSkipComments = False`, `lineAboveLineStartingWith`, `isStartOfLine`, `isEndOfLine`).

    get_line_succeeding_line
    get_line_below_line_ending_with_token
    get_line_below_line_ending_with_token_with_hierarchy          (appends `None` regions)
    get_blank_lines_below_line_ending_with_token                  (+ `_get_indexes_with_hierarchy`)
    get_line_preceding_line with bSkipComments = True             (`_build_index_list`, `_get_start_index`)
    get_line_above_line_starting_with_token (bIncludeComments)
    get_line_above_line_starting_with_token_with_hierarchy
    get_blank_lines_above_line_starting_with_token                (utils.get_all_blank_lines_above_indexes)

  `token.get_hierarchy()` is token state outside the token value: the extractors take it as a function of
  the POSITION (`hier i` = `lAllTokens[i].get_hierarchy()`, `none` = Python `None`).
-/
import VsgModel.Engine.Extract
namespace Vsgm.TM

variable {α : Type}

/-- `utils.get_line_numbers_of_indexes_in_list` -/
def lineNumbersOf (ix : Index) (idxs : List Nat) : Except PyErr (List Nat) :=
  mapE (fun (i : Nat) => ix.lineOf i) idxs >>= fun ls => pure (sortNat ls)

/-- `lAllTokens[iIndex].get_hierarchy() in lHierarchy` (`None in [ints]` is `False`) -/
def hierIn (hier : Nat → Option Int) (lims : List Int) (i : Nat) : Bool :=
  match hier i with
  | some h => lims.contains h
  | none => false

/-! ### get_line_succeeding_line: `lCarriageReturns[iLine - 1]` is OUTSIDE the `try`, the second look-up is
    inside (`IndexError ⇒ None`) -/

def lineSucceeding (f : List α) (ix : Index) (line : Nat) (numLines : Nat) : Except PyErr (Option (Toi α)) :=
  let crs := ix.get (some crKey)
  pyIdx crs ((line : Int) - 1) >>= fun c =>
  match pyIdx crs ((line : Int) + (numLines : Int) - 1) with
  | .error _ => pure none
  | .ok e => pure (some { start := some ((c : Int) + 1), line := line + 1, toks := pySlice f ((c : Int) + 1) (e : Int) })

/-- the positions of the listed classes that end a line -/
def eolIdxs (ix : Index) (cs : List Cls) : List Nat :=
  (idxsOfList ix cs).filter (fun (i : Nat) => isEndOfLine ix i)

/-! ### get_line_below_line_ending_with_token: `None` regions are dropped -/

def lineBelowOfIdxs (f : List α) (ix : Index) (idxs : List Nat) : Except PyErr (List (Option (Toi α))) :=
  lineNumbersOf ix idxs >>= fun ls => mapE (fun l => lineSucceeding f ix l 1) ls

def lineBelowLineEndingWith (f : List α) (ix : Index) (cs : List Cls) : Except PyErr (List (Toi α)) :=
  lineBelowOfIdxs f ix (eolIdxs ix cs) >>= fun r => pure (r.filterMap id)

/-! ### get_line_below_line_ending_with_token_with_hierarchy: `None` regions are KEPT -/

def lineBelowLineEndingWithHier (f : List α) (ix : Index) (hier : Nat → Option Int) (cs : List Cls) (lims : List Int) :
    Except PyErr (List (Option (Toi α))) :=
  lineBelowOfIdxs f ix ((idxsOfList ix cs).filter fun (i : Nat) => hierIn hier lims i && isEndOfLine ix i)

/-! ### get_blank_lines_below_line_ending_with_token -/

/-- `_get_indexes_with_hierarchy` -/
def idxsWithHier (ix : Index) (hier : Nat → Option Int) (cs : List Cls) (lims : Option (List Int)) : List Nat :=
  match lims with
  | none => idxsOfList ix cs
  | some l => (idxsOfList ix cs).filter fun (i : Nat) => hierIn hier l i && isEndOfLine ix i

/-- one iteration of the outer loop: the inner `for i in range(iLine - 1, len(lCarriageReturns))` stops at the
    first line break that is not followed by a blank_line token -/
def blankBelowBody (f : List α) (ix : Index) (i : Nat) : Except PyErr (Option (Toi α)) :=
  if !isEndOfLine ix i then pure none
  else
    let crs := ix.get (some crKey)
    let blanks := ix.get (some blankKey)
    ix.lineOf i >>= fun line =>
    pyIdx crs ((line : Int) - 1) >>= fun c =>
    match (crs.drop (line - 1)).find? (fun (x : Nat) => !blanks.contains (x + 1)) with
    | none => pure none
    | some e =>
      let l := pySlice f ((c : Int) + 1) ((e : Int) + 1)
      if l.length > 0 then pure (some { start := some ((c : Int) + 1), line := line, toks := l }) else pure none

def blankLinesBelowLineEndingWith (f : List α) (ix : Index) (hier : Nat → Option Int) (cs : List Cls)
    (lims : Option (List Int)) : Except PyErr (List (Toi α)) :=
  filterMapE (blankBelowBody f ix) (idxsWithHier ix hier cs lims)

/-! ### get_line_preceding_line, bSkipComments = True -/

/-- `_build_index_list` -/
def commentWsCrIdxs (ix : Index) : List Nat :=
  sortNat (ix.get (some commentKey) ++ ix.get (some wsKey) ++ ix.get (some crKey))

/-- `for i in range(k - 1, -1, -1): if lTemp[i] != iCurrent - 1: break; iCurrent = lTemp[i]` -/
def walkDown (l : List Nat) : Nat → Nat → Nat
  | 0, cur => cur
  | k + 1, cur =>
    match l[k]? with
    | some x => if x + 1 != cur then cur else walkDown l k x
    | none => cur

/-- `_get_start_index` (`list.index` raises ValueError) -/
def skipStartIndex (ix : Index) (line : Nat) : Except PyErr Nat :=
  let crs := ix.get (some crKey)
  let tmp := commentWsCrIdxs ix
  pyIdx crs ((line : Int) - 2) >>= fun c =>
  match tmp.findIdx? (· == c) with
  | none => .error .valueError
  | some k => pure (bisectLeft crs (walkDown tmp k c : Nat))

def linePrecedingSkip (f : List α) (ix : Index) (line : Nat) : Except PyErr (Toi α) :=
  let crs := ix.get (some crKey)
  skipStartIndex ix line >>= fun si =>
  if si == 0 then
    pyIdx crs 0 >>= fun e =>
    pure { start := some 0, line := si + 2, toks := pySlice f 0 (e : Int) }
  else
    pyIdx crs ((si : Int) - 1) >>= fun s =>
    pyIdx crs (si : Int) >>= fun e =>
    pure { start := some ((s : Int) + 1), line := si + 2, toks := pySlice f ((s : Int) + 1) (e : Int) }

/-- `get_line_preceding_line(iLine, lAllTokens, 1, oTokenMap, bSkipComments)` -/
def linePrecedingB (f : List α) (ix : Index) (line : Nat) (skipComments : Bool) : Except PyErr (Toi α) :=
  if skipComments then linePrecedingSkip f ix line else linePreceding f ix line 1

/-- the positions of the listed classes that start a line -/
def solIdxs (ix : Index) (cs : List Cls) : List Nat :=
  (idxsOfList ix cs).filter (fun (i : Nat) => isStartOfLine ix i)

/-! ### get_line_above_line_starting_with_token (both values of bIncludeComments) -/

def lineAboveLineStartingWithB (f : List α) (ix : Index) (cs : List Cls) (inclComments : Bool) :
    Except PyErr (List (Toi α)) :=
  if inclComments then lineNumbersOf ix (solIdxs ix cs) >>= fun ls => mapE (fun l => linePrecedingSkip f ix l) ls
  else lineAboveLineStartingWith f ix cs

/-! ### get_line_above_line_starting_with_token_with_hierarchy -/

def lineAboveLineStartingWithHier (f : List α) (ix : Index) (hier : Nat → Option Int) (cs : List Cls) (lims : List Int)
    (inclComments : Bool) : Except PyErr (List (Toi α)) :=
  lineNumbersOf ix ((idxsOfList ix cs).filter fun (i : Nat) => hierIn hier lims i && isStartOfLine ix i) >>= fun ls =>
  mapE (fun l => linePrecedingB f ix l inclComments) ls

/-! ### get_blank_lines_above_line_starting_with_token -/

/-- one iteration of `utils.get_all_blank_lines_above_indexes`; `iEnd is None` (position 0) makes
    `iIndex - 1` raise TypeError inside the search for the previous token -/
def blankAboveBody (f : List α) (ix : Index) (i : Nat) : Except PyErr (Option (Toi α)) :=
  ix.lineOf i >>= fun line =>
  ix.crBefore i >>= fun e? =>
  match e? with
  | none => .error .typeError
  | some e =>
    match ix.prevNonWsBefore e with
    | none => pure none
    | some p =>
      ix.crAfter p >>= fun s =>
      if (s : Int) != e then pure (some { start := some (s : Int), line := line, toks := pySlice f (s : Int) e })
      else pure none

def blankLinesAboveLineStartingWith (f : List α) (ix : Index) (cs : List Cls) : Except PyErr (List (Toi α)) :=
  filterMapE (blankAboveBody f ix) (solIdxs ix cs)

end Vsgm.TM
