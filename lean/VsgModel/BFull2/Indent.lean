/-
  WP2 — B-full for the indent family: `token_indent` (vsg/rules/token_indent.py, 93 rules) and its three
  variants `token_indent_between_tokens` (7), `token_indent_between_tokens_unless_between_tokens` (1),
  `token_indent_unless_between_tokens` (1): extractor + `_analyze` + `_fix_violation`, composed into a
  `RuleSem` (Engine/RuleRun.lean).

      def _analyze(self, lToi):
          for oToi in lToi:
              lTokens = oToi.get_tokens()
              if   indent_should_be_zero_but_has_leading_whitespace(lTokens):  "Indent level 0"  / remove_whitespace
              elif indent_exists_but_is_incorrect(self, lTokens):              "Use …"           / adjust_whitespace
              elif no_indent_exists_but_should(self, lTokens):                 "Use …"           / add_whitespace

  Token state outside `Tok`.  The indent level (`get_indent()`, written by `set_token_indent` before phase
  4) belongs to the token OBJECT.  The family's fix never creates, deletes or reorders a token that is
  not `parser.whitespace`, so the object is identified by its ORDINAL among the non-whitespace tokens
  of the file: the oracle `ind : Nat → Option Int` maps the k-th such token to its level (`none` = Python
  `None`), and it is the same oracle before and after the fix.  (Whitespace tokens are never asked for their
  level: the rules' `lTokens` never name `parser.whitespace` — generated table, `indentRule_cs_noWs`.)

  `add_violation` drops a violation whose tokens carry the rule's code tag; tags are not part of `Tok` — the
  model is the rule on untagged files (the correspondence clears the tags on the real side).
-/
import VsgModel.BFull2.Extract2
import VsgModel.Base.Indent
import VsgModel.Engine.RuleRun
namespace Vsgm.BFull2
open Vsgm Vsgm.TM

/-- what can go wrong inside a whole rule: the extractor's errors, and the unbound `sSolution` of
    `create_indent_solution` when `indent_style` is neither "spaces" nor "smart_tabs" -/
inductive RErr where
  | tm (e : TM.PyErr)
  | unboundLocal
  deriving DecidableEq, Repr

def RErr.name : RErr → String
  | .tm e => e.name
  | .unboundLocal => "UnboundLocalError"

def liftTM {β : Type} : Except TM.PyErr β → Except RErr β
  | .ok x => .ok x
  | .error e => .error (.tm e)

/-- a loop that appends or `continue`s, any error type -/
def fmE {ε β γ : Type} (g : β → Except ε (Option γ)) : List β → Except ε (List γ)
  | [] => .ok []
  | b :: bs =>
    match g b with
    | .error e => .error e
    | .ok c =>
      match fmE g bs with
      | .error e => .error e
      | .ok cs => .ok (match c with | some x => x :: cs | none => cs)

/-! ### token state -/

abbrev Oracle := Nat → Option Int

def isWsU (uid : Tok → Option Key) (t : Tok) : Bool := uid t == some wsKey

/-- ordinal of the token that follows `pre`: the number of non-whitespace tokens in `pre` -/
def ordOf (uid : Tok → Option Key) (pre : List Tok) : Nat := (pre.filter (fun t => !isWsU uid t)).length

/-- `lAllObjects[i].get_indent()` -/
def indAt (uid : Tok → Option Key) (ind : Oracle) (f : List Tok) (i : Nat) : Option Int := ind (ordOf uid (f.take i))

/-! ### parameters -/

inductive Variant where
  | plain
  | between (a b : Cls) (incl : Bool)
  | betweenUnless (a b : Cls) (unl : List (Cls × Cls)) (incl : Bool)
  | unlessBetween (unl : List (Cls × Cls))
  deriving Repr, DecidableEq

structure Params where
  cs : List Cls
  variant : Variant := .plain
  style : Str              -- self.indent_style
  size : Int               -- self.indent_size
  wsCls : Nat              -- class number of parser.whitespace (for the token the fix creates)
  deriving Repr

/-- `_get_tokens_of_interest` against a given index -/
def toisWith (P : Params) (f : List Tok) (ix : Index) : Except TM.PyErr (List (Toi Tok)) :=
  match P.variant with
  | .plain => tokensAtBolMatching f ix P.cs
  | .between a b incl => tokensAtBolBetween f ix P.cs a b incl
  | .betweenUnless a b u incl => tokensAtBolBetweenUnless f ix P.cs a b u incl
  | .unlessBetween u => tokensAtBolUnless f ix P.cs u

/-! ### `_analyze` -/

inductive Act where
  | remove | adjust | add
  deriving DecidableEq, Repr

def Act.code : Act → Nat
  | .remove => 0 | .adjust => 1 | .add => 2

def Act.ofCode : Nat → Act
  | 0 => .remove | 1 => .adjust | _ => .add

def Act.str : Act → Str
  | .remove => Base.Indent.sRemove | .adjust => Base.Indent.sAdjust | .add => Base.Indent.sAdd

/-- `sIndent` of `indent_exists_but_is_incorrect`: blanks for "spaces", tabs for EVERY other style -/
def expectedWs (style : Str) (size lvl : Int) : Str :=
  if style == Base.Indent.sSpaces then Base.Indent.rep ' ' (size * lvl) else Base.Indent.rep '\t' lvl

/-- the three tests of `_analyze` in their order; the level read from the token is returned with the
    action (`ind k` = `lTokens[k].get_indent()`) -/
def judge (style : Str) (size : Int) (ind : Nat → Option Int) (l : List Tok) : Option (Act × Int) :=
  match l with
  | [w, _] =>
    match ind 1 with
    | some lvl =>
      if lvl == 0 then some (.remove, 0)
      else if w.val != expectedWs style size lvl then some (.adjust, lvl)
      else none
    | none => none
  | [_] =>
    match ind 0 with
    | some lvl => if size == 0 then none else if lvl != 0 then some (.add, lvl) else none
    | none => none
  | _ => none

def strOfInt (i : Int) : Str := (toString i).toList

/-- `sSolution` -/
def solution (style : Str) (size : Int) (a : Act) (lvl : Int) : Except RErr Str :=
  match a with
  | .remove => .ok "Indent level 0".toList
  | _ =>
    if style == Base.Indent.sSpaces then .ok ("Use ".toList ++ strOfInt (lvl * size) ++ " spaces for indent".toList)
    else if style == Base.Indent.sSmartTabs then .ok ("Use ".toList ++ strOfInt lvl ++ " tab(s) for indent".toList)
    else .error .unboundLocal

/-- the action identifier of `Viol`: action string and the level the fix will read again -/
def intCode (i : Int) : Nat := if 0 ≤ i then 2 * i.toNat else 2 * (-i).toNat - 1
def intDecode (n : Nat) : Int := if n % 2 == 0 then ((n / 2 : Nat) : Int) else - (((n + 1) / 2 : Nat) : Int)
def encAct (a : Act) (lvl : Int) : Nat := 3 * intCode lvl + a.code
def decAct (n : Nat) : Act × Int := (Act.ofCode (n % 3), intDecode (n / 3))

/-- one token list of interest → at most one violation (with its solution text) -/
def violOf (uid : Tok → Option Key) (P : Params) (ind : Oracle) (f : List Tok) (t : Toi Tok) :
    Except RErr (Option (Viol × Str)) :=
  match t.start with
  | none => .ok none
  | some s =>
    match judge P.style P.size (fun k => indAt uid ind f (s.toNat + k)) t.toks with
    | none => .ok none
    | some (a, lvl) =>
      match solution P.style P.size a lvl with
      | .error e => .error e
      | .ok sol => .ok (some ({ line := t.line, start := s.toNat, toks := t.toks, act := encAct a lvl }, sol))

/-- `analyze` against a given index (the driver computes the index once per file) -/
def analyzeWith (uid : Tok → Option Key) (P : Params) (ind : Oracle) (f : List Tok) (ix : Index) :
    Except RErr (List (Viol × Str)) :=
  match liftTM (toisWith P f ix) with
  | .error e => .error e
  | .ok ts => fmE (violOf uid P ind f) ts

/-- `Rule.analyze`: `_get_tokens_of_interest` on the file's (fresh) index, then `_analyze` -/
def analyzeE (uid : Tok → Option Key) (P : Params) (ind : Oracle) (f : List Tok) : Except RErr (List (Viol × Str)) :=
  analyzeWith uid P ind f (processTokens uid f)

/-! ### `_fix_violation` (the model of Base/Indent.lean; the level is the one the analysis read) -/

def fixTok (P : Params) (v : Viol) : List Tok :=
  match Base.Indent.fixV P.wsCls P.style P.size (decAct v.act).1.str (fun _ => some (decAct v.act).2) v.toks with
  | .ok r => r
  | .error _ => v.toks

/-- the rule as the engine sees it.  An exception inside `analyze` leaves `Rule.fix` before `update`:
    nothing is fixed — modelled as the empty list of violations -/
def sem (uid : Tok → Option Key) (P : Params) (ind : Oracle) : RuleSem where
  analyze f := match analyzeE uid P ind f with | .ok vs => vs.map (·.1) | .error _ => []
  fixV := fixTok P

/-- what `Rule.fix` makes of the file (fixable rule, no `--fix_only`) -/
def fixAll (uid : Tok → Option Key) (P : Params) (ind : Oracle) (f : List Tok) : List Tok :=
  update f ((sortByStart ((sem uid P ind).analyze f)).map (editOf (sem uid P ind)))

end Vsgm.BFull2
