/-
  Driver glue (executable only) for `BFull2/Affix.lean`:
    AFX <tab> rule id <tab> affixes       affixes = `N` (None) | `L` + items joined by `,` (item = code points joined by `.`, `e` = empty string)
    reply  `ok <tois>|<viols>`  (tois = start,line,len ;…   viols = line,start,solution ;…)  |  `raise <Err>`  |  `unknown`
  `exception_found` is constant false (every pinned rule has `exceptions = []`; the harness keeps it so).
-/
import VsgModel.Wire
import VsgModel.Generated.ClassUids
import VsgModel.Generated.ClassTree
import VsgModel.Generated.BFull2Rules
import VsgModel.Base.CaseTables
import VsgModel.BFull2.Affix
namespace Vsgm.BFull2.AffixCli
open Vsgm Vsgm.TM Vsgm.TM.X Vsgm.Wire Vsgm.BFull2.Affix

def clsOf (c : Nat) : Cls := { uid := Gen.classUids.getD c none, idx := c }

def view : View Tok where
  uid t := Gen.classUids.getD t.cls none
  inst t p := (Gen.classAncestors.getD t.cls []).contains p
  isCr t := t.kind == .cr
  isBof t := t.kind == .bof
  len t := t.val.length
  bof := { cls := 0, kind := .bof, val := [] }

def pc : PCls := { ws := Gen.wsCls, cr := Gen.crCls, comment := Gen.commentCls, blank := Gen.blankCls, preproc := Gen.preprocessorCls }

def paramsOf (r : Gen.AffixRuleRow) (aff : Option (List Str)) : Params :=
  { kind := if r.kind == 0 then .pre else .suf
    cs := r.cs.map clsOf
    variant :=
      match r.variant with
      | 0 => .plain
      | 1 => .between (clsOf r.a) (clsOf r.b)
      | 2 => .betweenUnless (clsOf r.a) (clsOf r.b) (r.unl.map fun p => (clsOf p.1, clsOf p.2))
      | _ => .portMode (clsOf r.a) (clsOf r.b) r.mode Gen.identifierCls Gen.interfaceListSemicolonCls pc
    affixes := aff }

def decAff (s : String) : Option (List Str) :=
  if s == "N" then none
  else
    let body := (s.drop 1).toString
    if body.isEmpty then some []
    else some ((body.splitOn ",").map fun it => if it == "e" then [] else decStr it)

def showToi (t : Toi Tok) : String :=
  s!"{match t.start with | some s => toString s | none => "N"},{t.line},{t.toks.length}"

def runAffix (toks : List Tok) (ix : Index) : List String → String
  | [id, aff] =>
    match Gen.affixRuleTable.find? (·.id == id) with
    | none => "unknown"
    | some r =>
      let P := paramsOf r (decAff aff)
      match toisWith view P toks ix with
      | .error e => "raise " ++ e.name
      | .ok ts =>
        match analyzeWith view Base.Case.pyLowerS (fun _ => false) P toks ix with
        | .error e => "raise " ++ e.name
        | .ok vs =>
          "ok " ++ ";".intercalate (ts.map showToi) ++ "|" ++
            ";".intercalate (vs.map fun (v, sol) => s!"{v.line},{v.start},{encStr sol}")
  | _ => "unknown"

end Vsgm.BFull2.AffixCli
