/-
  WP2 (B-full, second batch): the extractor variants used by the indent family, transcribed beside the
  thirteen of `Engine/Extract.lean`.

    get_tokens_at_beginning_of_line_matching_between_tokens
    get_tokens_at_beginning_of_line_matching_between_tokens_unless_between_tokens
    get_tokens_at_beginning_of_line_matching_unless_between_tokens
    utils.is_index_between_indexes / get_indexes_of_token_pairs / filter_indexes_in_unless_regions

  All four `…at_beginning_of_line…` functions run the SAME loop body over a list of candidate positions
  (`bolBody`); they differ in how the candidate list is filtered before.
-/
import VsgModel.Engine.Extract
namespace Vsgm.TM

variable {α : Type}

/-- the loop body of the four extractors: `[token]` right after a line break, `[whitespace, token]`
    after a line break and one whitespace token, nothing otherwise -/
def bolBody (f : List α) (ix : Index) (i : Nat) : Except PyErr (Option (Toi α)) := do
  if ix.isAt (some crKey) ((i : Int) - 1) then
    let line ← ix.lineOf i
    let t ← pyIdx f i
    pure (some { start := some (i : Int), line := line, toks := [t] })
  else if ix.isAt (some crKey) ((i : Int) - 2) && ix.isAt (some wsKey) ((i : Int) - 1) then
    let line ← ix.lineOf i
    pure (some { start := some ((i : Int) - 1), line := line, toks := pySlice f ((i : Int) - 1) ((i : Int) + 1) })
  else pure none

/-- the loop over an already chosen candidate list -/
def tokensAtBolOf (f : List α) (ix : Index) (idxs : List Nat) : Except PyErr (List (Toi α)) :=
  filterMapE (bolBody f ix) idxs

/-- `utils.is_index_between_indexes` -/
def isBetweenIdx (i : Nat) (ls le : List Nat) (incl : Bool) : Bool :=
  (ls.zip le).any fun se => if incl then decide (se.1 ≤ i) && decide (i ≤ se.2) else decide (se.1 < i) && decide (i < se.2)

/-- `utils.get_indexes_of_token_pairs` (every pair is a two-element list in the rule files) -/
def idxsOfPairs (ix : Index) (pairs : List (Cls × Cls)) : List (Nat × Nat) :=
  pairs.flatMap fun p => (ix.pairIndexes p.1.uid p.2.uid).1.zip (ix.pairIndexes p.1.uid p.2.uid).2

/-- `utils.filter_indexes_in_unless_regions` -/
def filterUnless (ix : Index) (idxs : List Nat) (unl : List (Cls × Cls)) : List Nat :=
  let u := idxsOfPairs ix unl
  if u.length == 0 then idxs
  else idxs.filter fun i => !(u.any fun se => decide (i ≥ se.1) && decide (i ≤ se.2))

/-! ### 14 — get_tokens_at_beginning_of_line_matching_between_tokens (7 rules) -/

def tokensAtBolBetween (f : List α) (ix : Index) (cs : List Cls) (a b : Cls) (incl : Bool) :
    Except PyErr (List (Toi α)) :=
  tokensAtBolOf f ix ((idxsOfList ix cs).filter fun i =>
    isBetweenIdx i (ix.pairIndexes a.uid b.uid).1 (ix.pairIndexes a.uid b.uid).2 incl)

/-! ### 15 — get_tokens_at_beginning_of_line_matching_between_tokens_unless_between_tokens (1 rule) -/

def tokensAtBolBetweenUnless (f : List α) (ix : Index) (cs : List Cls) (a b : Cls) (unl : List (Cls × Cls))
    (incl : Bool) : Except PyErr (List (Toi α)) :=
  tokensAtBolOf f ix ((filterUnless ix (idxsOfList ix cs) unl).filter fun i =>
    isBetweenIdx i (ix.pairIndexes a.uid b.uid).1 (ix.pairIndexes a.uid b.uid).2 incl)

/-! ### 16 — get_tokens_at_beginning_of_line_matching_unless_between_tokens (1 rule) -/

def tokensAtBolUnless (f : List α) (ix : Index) (cs : List Cls) (unl : List (Cls × Cls)) :
    Except PyErr (List (Toi α)) :=
  tokensAtBolOf f ix (filterUnless ix (idxsOfList ix cs) unl)

end Vsgm.TM
