/-
  Per-step verdicts of the trace checker: what a rule of a given documented class may do
  to the token list (C03), to the code sequence (C01), to comments (C02) and to lines (C07).
  This file is the executable *specification* the certificates are checked against; the
  mapping from base classes to edit classes is hand written (it is the property's list of
  permitted differences), the rule metadata comes from the generated table.
-/
import VsgModel.Check.Trace
import VsgModel.Generated.Rules
namespace Vsgm.Verdict
open Vsgm Vsgm.Wire Vsgm.Trace

/-- how a rule's fix may change the folded code sequence (C01) -/
inductive EditClass where
  | none      -- not at all
  | insert    -- adds or (configured `action: remove`) removes redundant keywords / a copy of a name that is still there
  | delete    -- removes a label (`name :`) or an end name
  | parens    -- adds or (configured `parenthesis: remove`) removes balanced parentheses
  | split     -- splits a multi-identifier declaration
  deriving DecidableEq, Repr

def s (x : String) : Str := x.toList

/-- the `_fix_violation` owners that are documented to add or remove code tokens -/
def editClassOfOwner (owner : String) : EditClass :=
  if owner ∈ ["vsg.rules.insert_token_next_to_token_if_it_does_not_exist_between_tokens_using_value_from_token.insert_token_next_to_token_if_it_does_not_exist_between_tokens_using_value_from_token",
      "vsg.rules.insert_token_right_of_token_if_it_does_not_exist_before_token.insert_token_right_of_token_if_it_does_not_exist_before_token",
      "vsg.rules.insert_token_right_of_possible_tokens_if_it_does_not_exist_before_token.insert_token_right_of_possible_tokens_if_it_does_not_exist_before_token",
      "vsg.rules.insert_token_left_of_token_if_it_does_not_exist_between_tokens.insert_token_left_of_token_if_it_does_not_exist_between_tokens",
      "vsg.rules.insert_tokens_right_of_token_if_it_does_not_exist_before_token.insert_tokens_right_of_token_if_it_does_not_exist_before_token",
      "vsg.rules.generate.rule_011.rule_011"] then .insert
  else if owner ∈ ["vsg.rules.remove_tokens_bounded_by_tokens_and_remove_trailing_whitespace.remove_tokens_bounded_by_tokens_and_remove_trailing_whitespace",
      "vsg.rules.remove_tokens.remove_tokens",
      "vsg.rules.token_does_not_exist_before_token.token_does_not_exist_before_token"] then .delete
  else if owner ∈ ["vsg.rules.if_statement.rule_002.rule_002"] then .parens
  else if owner ∈ ["vsg.rules.separate_multiple_signal_identifiers_into_individual_statements.separate_multiple_signal_identifiers_into_individual_statements",
      "vsg.rules.port.rule_026.rule_026"] then .split
  else .none

/-- the redundant keywords of C01: optional `is`, `component`, and the keyword after `end` -/
def redundantKeywords : List Str :=
  ["is", "component", "architecture", "entity", "package", "body", "configuration", "context", "function",
   "procedure", "process", "postponed", "block", "generate", "case", "if", "loop", "record", "units",
   "protected", "for"].map s

/-- how many code tokens one violation of the class may add / remove -/
def perEdit : EditClass → Nat
  | .none => 0 | .insert => 2 | .delete => 2 | .parens => 2 | .split => 1000000

def balanced : List Str → Nat → Bool
  | [], d => d == 0
  | x :: r, d =>
    if x == s "(" then balanced r (d + 1)
    else if x == s ")" then (if d == 0 then false else balanced r (d - 1))
    else false

/-- a word (identifier or keyword, extended identifiers and operator symbols `"+"` included): what a
    label, a designator or an end name is; punctuation is never "a name that is still present" -/
def isWord : Str → Bool
  | c :: _ => c.isAlpha || c == '\\' || c == '"'
  | [] => false

def insertOk (n : Nat) (a b : List Str) : Bool :=
  match extras a b with
  | some e => e.all (fun x => x ∈ redundantKeywords || (isWord x && x ∈ a)) && e.length ≤ n * perEdit .insert
  | none => false

/-- removal of optional elements (`action: remove`): what goes is a redundant keyword, a name
    that is still present, or whatever stands in the end-name position (directly after `end` or
    after the redundant keyword that follows `end`) -/
def removeOk (n : Nat) (a b : List Str) : Bool :=
  match extrasP none b a with
  | some e => e.all (fun px => px.2 ∈ redundantKeywords || (isWord px.2 && px.2 ∈ b) ||
        (isWord px.2 && match px.1 with | some p => p == s "end" || p ∈ redundantKeywords | none => false))
      && e.length ≤ n * perEdit .insert
  | none => false

def deleteOk (n : Nat) (a b : List Str) : Bool :=
  match extras b a with
  | some e => e.all (fun x => x == s ":" || (x ∉ redundantKeywords)) && e.length ≤ n * perEdit .delete
  | none => false

def parensOk (n : Nat) (a b : List Str) : Bool :=
  match extras a b with
  | some e => balanced e 0 && e.length ≤ n * perEdit .parens
  | none => false

def splitOk (a b : List Str) : Bool :=
  match extras (a.filter (· != s ",")) (b.filter (· != s ",")) with
  | some e => e.all (fun x => x ∈ a || x == s ";")
  | none => false

/-- C01 at step level.  `a`, `b`: folded code sequences before / after; `n`: number of violations fixed. -/
def codeAllowed (c : EditClass) (n : Nat) (a b : List Str) : Bool :=
  a == b ||
  match c with
  | .none => false
  | .insert => insertOk n a b || removeOk n a b
  | .delete => deleteOk n a b
  | .parens => parensOk n a b || parensOk n b a
  | .split => splitOk a b

/-- documented class of a rule: by its root group (`whitespace`, `blank_line`, `indent`,
    `alignment` → layout; `case` → case; `naming`, `length` → nothing; `structure` → any) -/
inductive Effect where
  | same | layout | case | any
  deriving DecidableEq, Repr

def rootGroup (g : String) : List Char := g.toList.takeWhile (· != ':')

def effectOfGroups (gs : List String) : Effect :=
  let roots := gs.map rootGroup
  if roots.any (· == "structure".toList) then .any
  else if roots.any (fun g => g == "whitespace".toList || g == "blank_line".toList || g == "indent".toList || g == "alignment".toList) then .layout
  else if roots.any (· == "case".toList) then .case
  else .same

def isWsChar (c : Char) : Bool := c == ' ' || c == '\t'

/-- comment-like values are compared modulo blanks and tabs inside them: "nothing but spaces,
    tabs, line breaks and blank lines" includes the blanks inside a comment -/
def normTok (t : Tok) : Tok := if t.isCommentLike then { t with val := t.val.filter (fun c => !isWsChar c) } else t

def layoutOnlyW (a b : List Tok) : Bool := (nonLayout a).map normTok == (nonLayout b).map normTok

/-- owners documented to normalise whitespace inside comments (C02) -/
def commentWsOwners : List String :=
  ["vsg.rules.comment.rule_100.rule_100", "vsg.rules.whitespace.rule_002.rule_002"]

/-- owners documented to remove comments (C02) -/
def commentRemoverOwners : List String :=
  ["vsg.rules.remove_comments_from_end_of_lines_bounded_by_tokens.remove_comments_from_end_of_lines_bounded_by_tokens",
   "vsg.rules.multiline_structure.multiline_structure"]

/-- comment-like tokens with the flag "stands alone on its line" (only whitespace between the previous
    line break, or the start of the list, and the comment) -/
def commentsWithOwnLine : List Tok → Bool → List (Str × Bool)
  | [], _ => []
  | t :: r, atStart =>
    if t.isCommentLike then (t.val, atStart) :: commentsWithOwnLine r false
    else if t.isCr then commentsWithOwnLine r true
    else if t.kind == .ws || t.kind == .blank then commentsWithOwnLine r atStart
    else commentsWithOwnLine r false

/-- the documented trailing-comment removers may delete comments that FOLLOW code on their line only -/
def onlyTrailingRemoved (a b : List Tok) : Bool :=
  match extras (commentsWithOwnLine b true) (commentsWithOwnLine a true) with
  | some e => e.all (fun p => !p.2)
  | none => false

/-- own-line comments with the number of layout tokens between the line break and the comment -/
def ownLineComments : List Tok → Option Nat → List (Str × Nat)
  | [], _ => []
  | t :: r, st =>
    if t.isCommentLike then
      (match st with
       | some n => (t.val, n) :: ownLineComments r none
       | none => ownLineComments r none)
    else if t.isCr then ownLineComments r (some 0)
    else if t.kind == .ws || t.kind == .blank then ownLineComments r (st.map (· + 1))
    else ownLineComments r none

/-- for the report: the smallest number of layout tokens in front of a removed own-line comment
    (`0` = the comment started its line, `1` = one indentation token, `2` = more) -/
def removedOwnLineShape (a b : List Tok) : Nat :=
  match extras (commentsWithOwnLine b true) (commentsWithOwnLine a true) with
  | some e =>
    let vals := (e.filter (·.2)).map (·.1)
    let ns := (ownLineComments a (some 0)).filterMap fun p => if vals.contains p.1 then some (min p.2 2) else none
    ns.foldl min 2
  | none => 2

/-- owners documented to remove trailing comments only -/
def trailingCommentRemoverOwners : List String :=
  ["vsg.rules.remove_comments_from_end_of_lines_bounded_by_tokens.remove_comments_from_end_of_lines_bounded_by_tokens"]

def ruleMap : Std.HashMap String RuleRow := Std.HashMap.ofList (Gen.ruleTable.map fun r => (r.id, r))

structure Verdicts where
  c01 : String
  c02 : String
  c03 : String
  c07 : String

def lineSplit : List Tok → List (List Tok) → List Tok → List (List Tok)
  | [], acc, cur => (cur.reverse :: acc).reverse
  | t :: r, acc, cur => if t.isCr then lineSplit r (cur.reverse :: acc) [] else lineSplit r acc (t :: cur)

def changedLines (a b : List (List Tok)) (i : Nat) : List Nat :=
  match a, b with
  | x :: a', y :: b' => (if x == y then [] else [i]) ++ changedLines a' b' (i + 1)
  | _, _ => []

def dedupSorted (l : List Nat) : List Nat := (l.mergeSort (· ≤ ·)).eraseDups

def verdicts (f after : List STok) (si : StepIn) (o : StepOut) : Verdicts :=
  let row := ruleMap.get? si.rule
  let owner := (row.map (·.fixVOwner)).getD ""
  let groups := (row.map (·.groups)).getD []
  let a := toks f
  let b := toks after
  let inert := !si.fixable || si.disabled || !si.sevError || si.kind == "analyze"
  let eff : Effect := if si.kind == "post" then .layout else if inert then .same else
    match row with
    | some _ => effectOfGroups groups
    | none => .any
  let c03 :=
    match eff with
    | .same => if o.same then "ok" else "changedByInertRule"
    | .layout => if o.same || layoutOnlyW a b then "ok" else "notLayoutOnly"
    | .case => if o.same || o.caseOnly then "ok" else "notCaseOnly"
    | .any => "ok"
  let n := si.edits.length
  let c01 :=
    if o.code then "ok"
    else if si.kind != "fix" then "codeChangedOutsideFix"
    else if codeAllowed (editClassOfOwner owner) n (codeSeq fold a) (codeSeq fold b) then "ok"
    else match editClassOfOwner owner with
      | .none => "codeChanged"
      | .insert => "badInsert"
      | .delete => "badDelete"
      | .parens => "badParens"
      | .split => "badSplit"
  let ma := commentSeq a
  let mb := commentSeq b
  let c02 :=
    if o.celBefore && !o.cel then "commentAbsorbsCode"
    else if o.comment then "ok"
    else if si.kind == "fix" && owner ∈ commentWsOwners && ma.map (·.filter (fun c => !isWsChar c)) == mb.map (·.filter (fun c => !isWsChar c)) then "ok"
    else if si.kind == "fix" && owner ∈ trailingCommentRemoverOwners then
      (if onlyTrailingRemoved a b then "ok" else s!"ownLineCommentRemoved:ws{removedOwnLineShape a b}")
    else if si.kind == "fix" && owner ∈ commentRemoverOwners && (extras mb ma).isSome then "ok"
    else if (extras mb ma).isSome then "commentLost"
    else if (extras ma mb).isSome then "commentInvented"
    else "commentChanged"
  let roots := groups.map rootGroup
  let lineLocal := (eff == .layout || eff == .case) && si.kind == "fix" && !roots.any (· == "blank_line".toList)
  let c07 :=
    if lineLocal then
      if si.kind != "fix" then "ok"
      else if !o.cr then "lineCountChanged"
      else
        let ch := changedLines (lineSplit a [] []) (lineSplit b [] []) 1
        let rep := dedupSorted (si.lines)
        if ch == rep then "ok" else "lines:changed=[" ++ ",".intercalate (ch.map toString) ++ "]:reported=[" ++ ",".intercalate (rep.map toString) ++ "]"
    else "ok"
  { c01 := c01, c02 := c02, c03 := c03, c07 := c07 }

end Vsgm.Verdict
