/-
  Executable checker for fix-run traces (certificates of layer U and correspondence of
  `update`).  Soundness theorems are in Properties/*.lean.
-/
import VsgModel.Wire
import VsgModel.Engine.Splice
import VsgModel.Engine.Relations
namespace Vsgm.Trace
open Vsgm Vsgm.Wire

/-- greedy subsequence test returning the elements of `b` that are not matched by `a` -/
def extras [DecidableEq α] : List α → List α → Option (List α)
  | [], b => some b
  | _ :: _, [] => none
  | x :: a, y :: b =>
    if x = y then extras a b
    else (extras (x :: a) b).map (y :: ·)

/-- like `extras`, each surplus element paired with the element that precedes it in `b` -/
def extrasP [DecidableEq α] : Option α → List α → List α → Option (List (Option α × α))
  | _, [], [] => some []
  | prev, [], y :: b => (extrasP (some y) [] b).map ((prev, y) :: ·)
  | _, _ :: _, [] => none
  | prev, x :: a, y :: b =>
    if x = y then extrasP (some y) a b
    else (extrasP (some y) (x :: a) b).map ((prev, y) :: ·)

structure StepIn where
  rule : String
  kind : String
  fixable : Bool
  sevError : Bool
  disabled : Bool
  remap : Bool
  hasEdits : Bool
  edits : List (Edit STok)     -- ascending, as in rule.violations
  lines : List Nat             -- reported line of each violation
  pre : Nat
  suf : Nat
  mid : List STok              -- claimed new middle

def toks (l : List STok) : List Tok := l.map (·.tok)

/-- the model's `vhdlFile.update`: beginning_of_file pseudo tokens are dropped from each
    replacement (remove_beginning_of_file_tokens) -/
def modelUpdate (f : List STok) (es : List (Edit STok)) : List STok :=
  update f (es.map fun e => { e with new := e.new.filter (fun t => !t.tok.isBof) })

structure StepOut where
  upd : String            -- none | ok | mismatch | overlap-ok | overlap-mismatch
  same : Bool
  layout : Bool
  caseOnly : Bool
  code : Bool
  comment : Bool
  cel : Bool
  celBefore : Bool
  cr : Bool
  ins : Option (List Str)  -- folded code values inserted (when before is a subsequence of after)
  del : Option (List Str)
  insC : Option (List Str) -- comment values inserted / deleted
  delC : Option (List Str)

def showStrs (o : Option (List Str)) : String :=
  match o with
  | none => "-"
  | some l => "[" ++ ",".intercalate (l.map encStr) ++ "]"

def b2s (b : Bool) : String := if b then "1" else "0"

def StepOut.render (o : StepOut) : String :=
  s!"upd={o.upd} same={b2s o.same} layout={b2s o.layout} case={b2s o.caseOnly} code={b2s o.code} comment={b2s o.comment} cel={b2s o.cel} celb={b2s o.celBefore} cr={b2s o.cr} ins={showStrs o.ins} del={showStrs o.del} insC={showStrs o.insC} delC={showStrs o.delC}"

def claimedAfter (f : List STok) (s : StepIn) : List STok :=
  f.take s.pre ++ s.mid ++ f.drop (f.length - s.suf)

def checkStep (f : List STok) (s : StepIn) : StepOut × List STok :=
  let after := claimedAfter f s
  let chain : Bool := decide (Chain f.length 0 s.edits)
  let upd :=
    if !s.hasEdits then (if after == f then "none" else "noedit-changed")
    else
      let m := modelUpdate f s.edits
      if chain then (if m == after then "ok" else "mismatch")
      else (if m == after then "overlap-ok" else "overlap-mismatch")
  let a := toks f
  let b := toks after
  let ca := codeSeq fold a
  let cb := codeSeq fold b
  let ma := commentSeq a
  let mb := commentSeq b
  let out : StepOut := {
    upd := upd
    same := a == b
    layout := decide (LayoutOnly a b)
    caseOnly := caseOnlyB fold a b
    code := ca == cb
    comment := ma == mb
    cel := commentEndsLine b
    celBefore := commentEndsLine a
    cr := crSeq a == crSeq b
    ins := if ca == cb then some [] else extras ca cb
    del := if ca == cb then some [] else extras cb ca
    insC := if ma == mb then some [] else extras ma mb
    delC := if ma == mb then some [] else extras mb ma }
  (out, after)

end Vsgm.Trace
