/-
  Model of `vsg/vhdlFile/indent/set_token_indent.py` (the function that gives every token its `indent`
  attribute; called by `vhdlFile.set_indent_map` after parsing and by `rule_list.fix` in front of phase 4 /
  when phase 1 is skipped) and of `config.read_indent_configuration` (default `indent_config.yaml` merged
  with a user `indent:` section).

  Transcribed as it is:
    * the main loop is a left-to-right pass with a parameter object (`cParams`); the three look-aheads
      (`extract_use_clause_library_name`, `is_use_clause_use_keyword_next`, `get_indent_value_of_next_token`)
      read only the CLASS and `lower_value` of later tokens, never an `indent`, so the in-place mutation of
      Python is a function of the *keys* of the tokens (`Key` = everything the function reads of a token);
    * what the function WRITES is one `set_indent` per token or nothing (`W`): a token whose branch ends in a
      bare `continue` and whose id is not a key of the indent map keeps the indent it had before the call
      (`none : W`); the last `set_indent` of an iteration wins (`use_clause.keyword` is written twice);
    * `utils.find_next_non_whitespace_token` returns its start index when nothing is found, so a trailing
      comment looks at the token right behind it, and raises `IndexError` when it is the last token;
    * `get_unique_id(":")` raises `TypeError` for a class without `unique_id` docstring, a missing entry key
      is a `KeyError`; `update_indent_var` returns any other value as it is — an indent that is not an
      integer is outside the model (`Err.outOfDomain`: the real run goes on with a `str` indent).
-/
import VsgModel.Tok
import VsgModel.Indent.Types
import VsgModel.Generated.ClassUids
import VsgModel.Generated.IndentConfig
namespace Vsgm.Indent
open Vsgm

/-! ### dictionaries -/

/-- `d[k]` of a Python dict given as association list (a later pair with the same key overrides) -/
def dget {α : Type} (d : List (String × α)) (k : String) : Option α :=
  (d.reverse.find? (fun e => e.1 == k)).map (·.2)

/-- `d[k] = v`: an existing key keeps its place -/
def dset {α : Type} (d : List (String × α)) (k : String) (v : α) : List (String × α) :=
  if d.any (fun e => e.1 == k) then d.map (fun e => if e.1 == k then (k, v) else e) else d ++ [(k, v)]

/-- `process_indent_map`: the flat dictionary `group:token ↦ entry` (`lTokenKeys` are its keys) -/
def processIndentMap (m : IndentMap) : List (String × Entry) :=
  m.flatMap fun ge => ge.2.map fun ke => (ge.1 ++ ":" ++ ke.1, ke.2)

/-! ### `config.read_indent_configuration` -/

inductive MergeErr where
  | invalidGroup (g : String)             -- report_invalid_indent_group → sys.exit(1)
  | invalidToken (g k : String)           -- report_invalid_indent_token → sys.exit(1)
  deriving DecidableEq, Repr

/-- `dReturn["indent"]["tokens"][sGroup][sToken][sParameter] = v` with the `KeyError` handler -/
def assignParam (base : IndentMap) (g k p : String) (v : Raw) : Except MergeErr IndentMap :=
  match dget base g with
  | none => .error (.invalidGroup g)
  | some toks =>
    match dget toks k with
    | none => .error (.invalidToken g k)
    | some e => .ok (dset base g (dset toks k (dset e p v)))

/-- the three nested loops over the user's `indent: tokens:` dictionary -/
def mergeIndent (base user : IndentMap) : Except MergeErr IndentMap :=
  user.foldlM (fun b ge =>
    ge.2.foldlM (fun b ke =>
      ke.2.foldlM (fun b pv => assignParam b ge.1 ke.1 pv.1 pv.2) b) b) base

/-- `read_indent_configuration`: no `indent` key → the default map -/
def readIndentConfiguration (base : IndentMap) (user : Option IndentMap) : Except MergeErr IndentMap :=
  match user with
  | none => .ok base
  | some u => mergeIndent base u

/-! ### `update_indent_var` -/

inductive Err where
  | typeError     -- `None + ":"` in get_unique_id
  | keyError      -- missing "token" / "after" / use-clause key, or `dIndents[sUniqueId]` for an unknown id
  | indexError    -- `lTokens[iToken + 1]` behind the last token
  | outOfDomain   -- an indent value that is neither int, "current" nor "[+-]digits" (Python goes on with it)
  deriving DecidableEq, Repr, Inhabited

def Err.name : Err → String
  | .typeError => "TypeError" | .keyError => "KeyError" | .indexError => "IndexError" | .outOfDomain => "outOfDomain"

/-- the three behaviours of `update_indent_var` -/
inductive Upd where
  | rel (d : Int)    -- `str(update)` starts with "+" or "-": `iIndent + int(update)`
  | cur              -- "current"
  | abs (v : Int)    -- returned as it is
  deriving DecidableEq, Repr

def digitVal (c : Char) : Option Nat :=
  if '0' ≤ c ∧ c ≤ '9' then some (c.toNat - '0'.toNat) else none

/-- `int(s)` for a non-empty string of ASCII digits -/
def parseDigits : List Char → Option Nat
  | [] => none
  | cs => cs.foldl (fun acc c => match acc, digitVal c with
      | some a, some v => some (10 * a + v)
      | _, _ => none) (some 0)

/-- a negative int prints with "-" and is therefore relative, as is a string "+n" / "-n" -/
def Upd.ofRaw : Raw → Option Upd
  | .int v => some (if v < 0 then .rel v else .abs v)
  | .str s =>
    if s == "current" then some .cur
    else match s.toList with
      | '+' :: ds => (parseDigits ds).map fun n => .rel (Int.ofNat n)
      | '-' :: ds => (parseDigits ds).map fun n => .rel (- Int.ofNat n)
      | _ => none

def updateIndentVar (i : Int) (r : Raw) : Except Err Int :=
  match Upd.ofRaw r with
  | some (.rel d) => .ok (i + d)
  | some .cur => .ok i
  | some (.abs v) => .ok v
  | none => .error .outOfDomain

/-! ### tokens -/

/-- the two comment attributes the block_comment rules write (`block_rule.set_token_indent`) as the
    function reads them: `block_comment_indent` is looked at only when `is_block_comment` is set -/
inductive Block where
  | no      -- is_block_comment = False                       (every freshly parsed comment)
  | yes     -- is_block_comment = True, block_comment_indent ≠ 0
  | yes0    -- is_block_comment = True, block_comment_indent == 0   (allow_indenting off)
  deriving DecidableEq, Repr, Inhabited

/-- what `set_token_indent` READS of a token -/
structure Key where
  cls : Nat                    -- type(oToken): row of the class table
  lower : Str                  -- oToken.get_lower_value()  (logical names, use-clause library names)
  block : Block := .no         -- comment.is_block_comment / comment.block_comment_indent
  deriving DecidableEq, Repr, Inhabited

/-- a token of this slice: key + the attribute the function writes -/
structure ITok where
  key : Key
  indent : Option Int
  deriving DecidableEq, Repr, Inhabited

/-- the class table as the function sees it -/
structure Env where
  isa : Nat → Nat → Bool                   -- isinstance(token of class c, class p)
  uid : Nat → Option (String × String)     -- docstring unique_id
  n : ClsNames

/-- the class table of the pinned tree -/
def genEnv : Env where
  isa c p := (Gen.classAncestors.getD c []).contains p
  uid c := Gen.classUids.getD c none
  n := Gen.indentCls

namespace Env
variable (E : Env)

def isWs (k : Key) : Bool := E.isa k.cls E.n.whitespace
def isBlank (k : Key) : Bool := E.isa k.cls E.n.blankLine
def isCr (k : Key) : Bool := E.isa k.cls E.n.carriageReturn
def isComment (k : Key) : Bool := E.isa k.cls E.n.comment
def isPreproc (k : Key) : Bool := E.isa k.cls E.n.preprocessor

/-- `utils.token_is_whitespace_or_comment` -/
def skippable (k : Key) : Bool :=
  E.isWs k || E.isCr k || E.isComment k || E.isBlank k || E.isPreproc k

/-- the tokens the main loop passes over without reading or writing anything -/
def isLayout (k : Key) : Bool := E.isWs k || E.isCr k

def isPrimaryUnit (k : Key) : Bool :=
  E.isa k.cls E.n.entKw || E.isa k.cls E.n.cfgDeclKw || E.isa k.cls E.n.pkgDeclKw || E.isa k.cls E.n.pkgInstKw

def isSecondaryUnit (k : Key) : Bool :=
  E.isa k.cls E.n.archKw || E.isa k.cls E.n.pkgBodyKw

def clearLibraryName (k : Key) : Bool := E.isPrimaryUnit k || E.isSecondaryUnit k

/-- `oToken.get_unique_id(sJoin=":")` -/
def uidStr (k : Key) : Except Err String :=
  match E.uid k.cls with
  | some (b, s) => .ok (b ++ ":" ++ s)
  | none => .error .typeError

end Env

/-- `class parameters` (`lTokenKeys` / `dIndents` are the flat dictionary, passed separately) -/
structure Params where
  iIndent : Int := 0
  bLibraryFound : Bool := false
  bArchitectureFound : Bool := false
  insideConcurrentSignalAssignment : Bool := false
  libraryName : List Str := []
  deriving DecidableEq, Repr, Inhabited

abbrev Dict := List (String × Entry)

def need (e : Entry) (p : String) : Except Err Raw :=
  match dget e p with
  | some r => .ok r
  | none => .error .keyError

/-- `lTokens[utils.find_next_non_whitespace_token(iToken + 1, lTokens)]`, `rest = lTokens[iToken+1:]` -/
def nextTok (E : Env) (rest : List Key) : Except Err Key :=
  match rest.find? (fun k => !E.skippable k) with
  | some k => .ok k
  | none =>
    match rest with
    | [] => .error .indexError
    | k :: _ => .ok k

/-- `is_use_clause_use_keyword_next(iToken + 1, lTokens)` -/
def isUseNext (E : Env) (rest : List Key) : Except Err Bool := do
  let k ← nextTok E rest
  pure (E.isa k.cls E.n.useKw || E.isa k.cls E.n.ctxRefKw)

/-- `get_indent_value_of_next_token` -/
def nextIndent (E : Env) (d : Dict) (p : Params) (rest : List Key) : Except Err Int := do
  let k ← nextTok E rest
  let uid ← E.uidStr k
  match dget d uid with
  | some e => do
    let tk ← need e "token"
    updateIndentVar p.iIndent tk
  | none => pure p.iIndent

/-- `extract_use_clause_library_name(iToken, lTokens)` (`ks = lTokens[iToken:]`) -/
def extractLib (E : Env) (ks : List Key) : Option Str :=
  (ks.find? (fun k => E.isa k.cls E.n.useLibName)).map (·.lower)

/-- `set_indent_of_comment` (and `set_indent_of_pragma` = the normal-comment branch) -/
def commentIndent (E : Env) (d : Dict) (p : Params) (k : Key) (rest : List Key) : Except Err Int :=
  if p.bLibraryFound then do
    let b ← isUseNext E rest
    pure (if b then p.iIndent + 1 else p.iIndent)
  else match k.block with
    | .yes0 => pure 0
    | .yes => pure p.iIndent
    | .no => nextIndent E d p rest

/-- what one loop iteration writes: `none` = no `set_indent` call (the token keeps its old indent),
    `some v` = the argument of the last `set_indent` call -/
abbrev W := Option (Option Int)

/-- the table-driven head of an iteration: `(write so far, iTokenIndent, cParams)` -/
def tableStep (d : Dict) (p : Params) (uid : String) : Except Err (W × Option Int × Params) :=
  match dget d uid with
  | some e => do
    let tk ← need e "token"
    let ak ← need e "after"
    let ti ← updateIndentVar p.iIndent tk
    let ai ← updateIndentVar p.iIndent ak
    pure (some (some ti), some ti, { p with iIndent := ai })
  | none => pure (none, none, p)

/-- an iteration behind the table-driven head (`w`, `tokInd`, `p` as the head left them) -/
def tailW (E : Env) (d : Dict) (k : Key) (rest : List Key) (uid : String) (w : W) (tokInd : Option Int)
    (p : Params) : Except Err (W × Params) :=
  if E.isa k.cls E.n.ctxDeclEnd then pure (w, { p with bLibraryFound := false })
  else if E.isa k.cls E.n.libKw then pure (w, { p with bLibraryFound := true })
  else
    let p := if E.isa k.cls E.n.logicalName then { p with libraryName := p.libraryName ++ [k.lower] } else p
    let p := if E.clearLibraryName k then { p with libraryName := [] } else p
    if E.isa k.cls E.n.useKw then
      if !p.bArchitectureFound then
        let inList := match extractLib E (k :: rest) with
          | some s => p.libraryName.contains s
          | none => false
        match dget d uid with
        | none => .error .keyError
        | some e => do
          let r ← need e (if inList then "token_after_library_clause" else "token_if_no_matching_library_clause")
          let i ← updateIndentVar p.iIndent r
          pure (some (some i), p)
      else pure (some (some p.iIndent), p)
    else if E.isa k.cls E.n.ctxRefKw then
      pure (some (some (if p.bLibraryFound then p.iIndent + 1 else p.iIndent)), p)
    else if E.isa k.cls E.n.archKw then pure (w, { p with bLibraryFound := false, bArchitectureFound := true })
    else if E.isa k.cls E.n.archSemi then pure (w, { p with bArchitectureFound := false })
    else if E.isa k.cls E.n.entKw then pure (w, { p with bLibraryFound := false })
    else if E.isa k.cls E.n.pkgBodyKw then pure (w, { p with bLibraryFound := false })
    else if E.isa k.cls E.n.pkgDeclKw then pure (w, { p with bLibraryFound := false })
    else if E.isComment k then do
      let i ← commentIndent E d p k rest
      pure (some (some i), p)
    else if E.isa k.cls E.n.pragma then do
      let i ← nextIndent E d p rest
      pure (some (some i), p)
    else if E.isa k.cls E.n.csaLabel then pure (w, { p with insideConcurrentSignalAssignment := true })
    else if E.isa k.cls E.n.csaPostponed then pure (w, { p with insideConcurrentSignalAssignment := true })
    else if E.isa k.cls E.n.cssaTarget then pure (w, { p with insideConcurrentSignalAssignment := true })
    else if E.isa k.cls E.n.ccsaTarget then pure (w, { p with insideConcurrentSignalAssignment := true })
    else if E.isa k.cls E.n.csesaWith then pure (w, { p with insideConcurrentSignalAssignment := true })
    else if E.isa k.cls E.n.cssaSemi then pure (w, { p with insideConcurrentSignalAssignment := false })
    else if E.isa k.cls E.n.ccsaSemi then pure (w, { p with insideConcurrentSignalAssignment := false })
    else if E.isa k.cls E.n.csesaSemi then pure (w, { p with insideConcurrentSignalAssignment := false })
    else pure (some tokInd, p)

/-- one iteration of the loop of `set_token_indent` on token `k` followed by `rest` -/
def stepW (E : Env) (d : Dict) (p : Params) (k : Key) (rest : List Key) : Except Err (W × Params) :=
  if E.isWs k then .ok (none, p)
  else if E.isBlank k then .ok (none, { p with bLibraryFound := false })
  else if E.isCr k then .ok (none, p)
  else do
    let uid ← E.uidStr k
    let r ← tableStep d p uid
    tailW E d k rest uid r.1 r.2.1 r.2.2

/-- the loop: the list of writes, one per token -/
def plan (E : Env) (d : Dict) : Params → List Key → Except Err (List W)
  | _, [] => .ok []
  | p, k :: rest => do
    let (w, p') ← stepW E d p k rest
    let ws ← plan E d p' rest
    pure (w :: ws)

def ITok.write (t : ITok) : W → ITok
  | none => t
  | some v => { t with indent := v }

def keys (l : List ITok) : List Key := l.map (·.key)

/-- `set_token_indent(dIndentMap, lTokens)`: the token list afterwards (an exception leaves the list
    partially written; the model only says which exception) -/
def setTokenIndent (E : Env) (m : IndentMap) (l : List ITok) : Except Err (List ITok) := do
  let ws ← plan E (processIndentMap m) {} (keys l)
  pure (List.zipWith ITok.write l ws)

/-- a fresh parse of the same token sequence: new objects (`indent = None`, `is_block_comment = False`,
    `block_comment_indent = None`); class and lower-case value are those of the in-memory tokens -/
def ITok.fresh (t : ITok) : ITok :=
  { key := { t.key with block := .no }, indent := none }

def fresh (l : List ITok) : List ITok := l.map ITok.fresh

/-- the tokens the main loop skips: whitespace and carriage returns -/
def strip (E : Env) (l : List ITok) : List ITok := l.filter (fun t => !E.isLayout t.key)

/-- which branch of the `if … continue` chain a token takes -/
inductive Branch where
  | ws | blank | cr | ctxDeclEnd | libKw | useKw | ctxRef | archKw | archSemi | entKw | pkgBody | pkgDecl
  | comment | pragma | csaOn | csaOff | other
  deriving DecidableEq, Repr

def branchOf (E : Env) (k : Key) : Branch :=
  if E.isWs k then .ws
  else if E.isBlank k then .blank
  else if E.isCr k then .cr
  else if E.isa k.cls E.n.ctxDeclEnd then .ctxDeclEnd
  else if E.isa k.cls E.n.libKw then .libKw
  else if E.isa k.cls E.n.useKw then .useKw
  else if E.isa k.cls E.n.ctxRefKw then .ctxRef
  else if E.isa k.cls E.n.archKw then .archKw
  else if E.isa k.cls E.n.archSemi then .archSemi
  else if E.isa k.cls E.n.entKw then .entKw
  else if E.isa k.cls E.n.pkgBodyKw then .pkgBody
  else if E.isa k.cls E.n.pkgDeclKw then .pkgDecl
  else if E.isComment k then .comment
  else if E.isa k.cls E.n.pragma then .pragma
  else if E.isa k.cls E.n.csaLabel then .csaOn
  else if E.isa k.cls E.n.csaPostponed then .csaOn
  else if E.isa k.cls E.n.cssaTarget then .csaOn
  else if E.isa k.cls E.n.ccsaTarget then .csaOn
  else if E.isa k.cls E.n.csesaWith then .csaOn
  else if E.isa k.cls E.n.cssaSemi then .csaOff
  else if E.isa k.cls E.n.ccsaSemi then .csaOff
  else if E.isa k.cls E.n.csesaSemi then .csaOff
  else .other

/-- the function never calls `set_indent` on a token with this key under dictionary `d`: the skipped
    tokens, and the branches that end in a bare `continue` when the id is not a key of the indent map -/
def neverSet (E : Env) (d : Dict) (k : Key) : Bool :=
  match branchOf E k with
  | .ws | .blank | .cr => true
  | .useKw | .ctxRef | .comment | .pragma | .other => false
  | .ctxDeclEnd | .libKw | .archKw | .archSemi | .entKw | .pkgBody | .pkgDecl | .csaOn | .csaOff =>
    match E.uid k.cls with
    | some (b, s) => (dget d (b ++ ":" ++ s)).isNone
    | none => false

end Vsgm.Indent
