/-
  Driver mode `setindent` (executable glue only).

    MAP <tab> default                 current indent map := generated default           reply `ok`
    MAP <tab> entries                 current indent map := the entries                 reply `ok`
    MERGE <tab> entries               current := read_indent_configuration(default, user entries)
                                      reply `ok <entries of the merged map>` | `err group <g>` | `err token <g> <k>`
    RUN <tab> toks                    set_token_indent on the tokens                    reply `ok <indent>*` | `err <Err>`
    FRESH <tab> toks                  set_token_indent on `fresh` of the tokens         reply `ok <indent>*` | `err <Err>`
    PLAN <tab> toks                   the writes                                        reply `ok <w>*` | `err <Err>`
    NEVERSET                          class rows that are never written under the current map
                                      (non-layout classes only)                         reply `ok <cls>*`

  entries = `g,k,p,v` joined by ' ' (g k p: code points joined by '.'; v = `i<int>` | `s<code points>`);
  tok = `cls:lower:indent:flags` (lower: code points; indent: `N` | int; flags: bit 0 is_block_comment,
  bit 1 block_comment_indent == 0); indent in replies: `N` | int; w = `-` (no set_indent) | `N` | int.
-/
import VsgModel.Wire
import VsgModel.Indent.SetIndent
namespace Vsgm.Indent.Cli
open Vsgm Vsgm.Wire Vsgm.Indent

def decS (s : String) : String := String.ofList (decStr s)
def encS (s : String) : String := encStr s.toList

def decRaw (s : String) : Raw :=
  if s.startsWith "i" then .int ((s.drop 1).toString.toInt!) else .str (decS (s.drop 1).toString)

def encRaw : Raw → String
  | .int v => s!"i{v}"
  | .str s => "s" ++ encS s

/-- nested map from a flat entry list (consecutive entries of one group / token are merged) -/
def addEntry (m : IndentMap) (g k p : String) (v : Raw) : IndentMap :=
  let toks := (dget m g).getD []
  let e := (dget toks k).getD []
  dset m g (dset toks k (dset e p v))

def decEntries (s : String) : IndentMap :=
  if s.isEmpty then [] else
  (s.splitOn " ").foldl (fun m x =>
    match x.splitOn "," with
    | [g, k, p, v] => addEntry m (decS g) (decS k) (decS p) (decRaw v)
    | _ => m) []

def encEntries (m : IndentMap) : String :=
  " ".intercalate (m.flatMap fun ge => ge.2.flatMap fun ke => ke.2.map fun pv =>
    s!"{encS ge.1},{encS ke.1},{encS pv.1},{encRaw pv.2}")

def decIndent (s : String) : Option Int := if s == "N" then none else some s.toInt!
def encIndent : Option Int → String
  | none => "N"
  | some v => toString v

def decITok (s : String) : ITok :=
  match s.splitOn ":" with
  | [c, lo, ind, fl] =>
    let f := fl.toNat!
    { key := { cls := c.toNat!, lower := decStr lo,
               block := if f % 2 == 1 then (if (f / 2) % 2 == 1 then .yes0 else .yes) else .no },
      indent := decIndent ind }
  | _ => default

def decITokList (s : String) : List ITok := if s.isEmpty then [] else (s.splitOn " ").map decITok

def encW : W → String
  | none => "-"
  | some v => encIndent v

def replyToks (r : Except Err (List ITok)) : String :=
  match r with
  | .ok l => "ok " ++ " ".intercalate (l.map fun t => encIndent t.indent)
  | .error e => "err " ++ e.name

def say (out : IO.FS.Stream) (s : String) : IO Unit := do
  out.putStrLn s
  out.flush

partial def loop (h out : IO.FS.Stream) (m : IndentMap) : IO Unit := do
  let line ← h.getLine
  if line.isEmpty then return ()
  let line := if line.endsWith "\n" then (line.dropEnd 1).toString else line
  match line.splitOn "\t" with
  | ["MAP", "default"] => say out "ok"; loop h out Gen.indentConfig
  | ["MAP", es] => say out "ok"; loop h out (decEntries es)
  | ["MERGE", es] =>
    match readIndentConfiguration Gen.indentConfig (some (decEntries es)) with
    | .ok m' => say out ("ok " ++ encEntries m'); loop h out m'
    | .error (.invalidGroup g) => say out ("err group " ++ encS g); loop h out m
    | .error (.invalidToken g k) => say out ("err token " ++ encS g ++ " " ++ encS k); loop h out m
  | ["RUN", ts] =>
    say out (replyToks (setTokenIndent genEnv m (decITokList ts))); loop h out m
  | ["FRESH", ts] =>
    say out (replyToks (setTokenIndent genEnv m (fresh (decITokList ts)))); loop h out m
  | ["PLAN", ts] =>
    match plan genEnv (processIndentMap m) {} (keys (decITokList ts)) with
    | .ok ws => say out ("ok " ++ " ".intercalate (ws.map encW)); loop h out m
    | .error e => say out ("err " ++ e.name); loop h out m
  | ["NEVERSET"] =>
    let d := processIndentMap m
    let cs := (List.range Gen.numClasses).filter fun c =>
      let k : Key := { cls := c, lower := [] }
      neverSet genEnv d k && !genEnv.isLayout k
    say out ("ok " ++ " ".intercalate (cs.map toString)); loop h out m
  | _ => say out ("error bad line " ++ (line.take 40).toString); loop h out m

def setindentMain (stdin stdout : IO.FS.Stream) : IO Unit := do
  loop stdin stdout Gen.indentConfig
  stdout.flush

end Vsgm.Indent.Cli
