/-
  Row types of the generated indent tables (`Generated/IndentConfig.lean`): the values of
  `vsg/vhdlFile/indent/indent_config.yaml` as PyYAML loads them, and the token classes that
  `vsg/vhdlFile/indent/set_token_indent.py` (and `utils.token_is_whitespace_or_comment`) name in
  `isinstance` tests.
-/
namespace Vsgm.Indent

/-- a YAML scalar of the indent configuration: `0`, `1` (int) or `current`, `'+1'`, `'-1'` (str) -/
inductive Raw where
  | int (v : Int)
  | str (s : String)
  deriving DecidableEq, Repr, Inhabited

/-- `{"token": …, "after": …}` (plus the two extra keys of `use_clause: keyword`) -/
abbrev Entry := List (String × Raw)

/-- `dIndentMap["indent"]["tokens"]`: group ↦ token ↦ entry (association lists in file order) -/
abbrev IndentMap := List (String × List (String × Entry))

/-- class indices (rows of the generated class table) of the classes named in `isinstance` tests -/
structure ClsNames where
  whitespace : Nat      -- parser.whitespace
  blankLine : Nat       -- parser.blank_line
  carriageReturn : Nat  -- parser.carriage_return
  comment : Nat         -- parser.comment
  preprocessor : Nat    -- parser.preprocessor
  pragma : Nat          -- token.pragma.pragma
  ctxDeclEnd : Nat      -- token.context_declaration.end_keyword
  libKw : Nat           -- token.library_clause.keyword
  logicalName : Nat     -- token.logical_name_list.logical_name
  useKw : Nat           -- token.use_clause.keyword
  useLibName : Nat      -- token.use_clause.library_name
  ctxRefKw : Nat        -- token.context_reference.keyword
  archKw : Nat          -- token.architecture_body.architecture_keyword
  archSemi : Nat        -- token.architecture_body.semicolon
  entKw : Nat           -- token.entity_declaration.entity_keyword
  pkgBodyKw : Nat       -- token.package_body.package_keyword
  pkgDeclKw : Nat       -- token.package_declaration.package_keyword
  cfgDeclKw : Nat       -- token.configuration_declaration.configuration_keyword
  pkgInstKw : Nat       -- token.package_instantiation_declaration.package_keyword
  csaLabel : Nat        -- token.concurrent_signal_assignment_statement.label_name
  csaPostponed : Nat    -- token.concurrent_signal_assignment_statement.postponed_keyword
  cssaTarget : Nat      -- token.concurrent_simple_signal_assignment.target
  ccsaTarget : Nat      -- token.concurrent_conditional_signal_assignment.target
  csesaWith : Nat       -- token.concurrent_selected_signal_assignment.with_keyword
  cssaSemi : Nat        -- token.concurrent_simple_signal_assignment.semicolon
  ccsaSemi : Nat        -- token.concurrent_conditional_signal_assignment.semicolon
  csesaSemi : Nat       -- token.concurrent_selected_signal_assignment.semicolon
  deriving Repr, Inhabited

end Vsgm.Indent
