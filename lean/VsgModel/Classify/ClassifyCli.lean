/-
  driver mode `c05`: line protocol (fields separated by TAB)
    token      = cls:val:lower:iId:hier   (val/lower = code points joined by '.', lower `=` when equal
                 to val, iId/hier `-` for None); token list = tokens joined by ' '
    LIST <toks>                 set the current list                      -> (no reply)
    CMP  <toksA> <toksB>        compare the roles of two parses           -> same n | count a b | value k | role k ca cb ; k:ca:cb …
    P    <prim> <args…>         run a navigation primitive on the list    -> ok <value> | err <PyErr>
    PASS <pta|hier|todo|agg|all> run a post pass on the current list     -> ok <toks> | err <PyErr>
-/
import VsgModel.Wire
import VsgModel.Lex.Tables
import VsgModel.Classify.Tables
import VsgModel.Classify.View
namespace Vsgm.Classify.Cli
open Vsgm Vsgm.Wire Vsgm.Classify

def decOptNat (s : String) : Option Nat := if s == "-" then none else some s.toNat!
def decInt (s : String) : Int := if s.startsWith "-" then - ((s.drop 1).toString.toNat! : Int) else (s.toNat! : Int)
def decOptInt (s : String) : Option Int := if s == "-" then none else some (decInt (if s.startsWith "m" then "-" ++ (s.drop 1).toString else s))

def decCTok (s : String) : CTok :=
  match s.splitOn ":" with
  | [c, v, lo, id, h] =>
    let val := decStr v
    { cls := c.toNat!, val := val, lower := if lo == "=" then val else decStr lo, iId := decOptNat id, hier := decOptInt h }
  | [c, v] => let val := decStr v; { cls := c.toNat!, val := val, lower := fold val }
  | _ => { cls := 0, val := [], lower := [] }

def decCToks (s : String) : List CTok := if s.isEmpty then [] else (s.splitOn " ").map decCTok

def encOptNat : Option Nat → String | none => "-" | some n => toString n
def encOptInt : Option Int → String | none => "-" | some n => if n < 0 then "m" ++ toString (-n).toNat else toString n.toNat

def encCTok (t : CTok) : String :=
  s!"{t.cls}:{encStr t.val}:{if t.lower == t.val then "=" else encStr t.lower}:{encOptNat t.iId}:{encOptInt t.hier}"

def encCToks (l : List CTok) : String := " ".intercalate (l.map encCTok)

def decS (s : String) : Str := if s == "E" then [] else decStr s
def decOptStrs (s : String) : List (Option Str) :=
  if s.isEmpty then [] else (s.splitOn ";").map fun x => if x == "N" then none else some (decS x)
def decStrs (s : String) : List Str := if s.isEmpty then [] else (s.splitOn ";").map decS
def decTy (s : String) : Ty := if s == "E" || s.isEmpty then [] else (s.splitOn ",").map String.toNat!
def decOptTys (s : String) : List (Option Ty) :=
  if s.isEmpty then [] else (s.splitOn ";").map fun x => if x == "N" then none else some (decTy x)

def errName : PyErr → String
  | .indexError => "IndexError" | .typeError => "TypeError" | .unboundLocal => "UnboundLocalError"
  | .classifyError => "ClassifyError"

def showE [ToString α] : Except PyErr α → String
  | .ok a => "ok " ++ toString a
  | .error e => "err " ++ errName e

def showBool (b : Bool) : String := if b then "True" else "False"
def showEB (r : Except PyErr Bool) : String := showE (r.map showBool)
def showEI (r : Except PyErr Int) : String := showE (r.map fun (n : Int) => if n < 0 then "-" ++ toString (-n).toNat else toString n.toNat)

def specialName : Special → String
  | .expMinus => "expMinus" | .expPlus => "expPlus" | .todo => "todo" | .eKeyword => "eKeyword"
  | .expInteger => "expInteger" | .oType => "oType" | .fixed => "fixed"

/-- `str.isdigit()` of CPython on a token value -/
def isDigitStr (s : Str) : Bool := !s.isEmpty && s.all Lex.pyTables.isDigit

def decTokCls (c d : String) : TokCls :=
  { cls := c.toNat!, dflt := if d == "-" then none else some (decS d, decS d) }

def showAssign (r : Except PyErr (List CTok × Nat)) : String :=
  match r with
  | .ok (l, i) => s!"ok {i}\t{encCToks l}"
  | .error e => "err " ++ errName e

def runPrim (l : List CTok) (name : String) (a : List String) : String :=
  let T := pyClassTables
  match name, a with
  | "findNextToken", [i] => s!"ok {findNextToken T i.toNat! l}"
  | "findNextNonWs", [i] => s!"ok {findNextNonWs T i.toNat! l}"
  | "findPrevNonWs", [i] => showEI (findPrevNonWs T (decInt i) l)
  | "objectValueIs", [i, s] => showEB (objectValueIs l i.toNat! (decS s))
  | "isItem", [i] => showEB (isItem T l i.toNat!)
  | "isNextToken", [s, i] => showEB (isNextToken T (decS s) i.toNat! l)
  | "isNextTokenOneOf", [ss, i] => showEB (isNextTokenOneOf T (decStrs ss) i.toNat! l)
  | "areNextTokens", [ss, i] => showEB (areNextTokens T (decOptStrs ss) i.toNat! l)
  | "areNextTypes", [ts, i] => showEB (areNextTypes (decOptTys ts) i.toNat! l)
  | "areNextTokensIgnWs", [ss, i] => showEB (areNextTokensIgnWs T (decOptStrs ss) i.toNat! l)
  | "areNextTypesIgnWs", [ts, i] => showEB (areNextTypesIgnWs T (decOptTys ts) i.toNat! l)
  | "arePrevTypesIgnWs", [ts, i] => showEB (arePrevTypesIgnWs T (decOptTys ts) (decInt i) l)
  | "findInNextN", [s, n, i] => showEB (findInNextN T (decS s) n.toNat! i.toNat! l)
  | "updateParenCounter", [i, c] => showEI (updateParenCounter i.toNat! l (decInt c))
  | "findInRange", [s, i, e] => showEB (findInRange (decS s) i.toNat! (decS e) l)
  | "findInIndexRange", [s, x, y] => showEB (findInIndexRange (decS s) x.toNat! y.toNat! l)
  | "findNextTokenWithValue", [i, v] =>
    (match findNextTokenWithValue i.toNat! (decS v) l with | some k => s!"ok {k}" | none => "ok None")
  | "allAssignmentsInsideParen", [i, s] => showEB (allAssignmentsInsideParen i.toNat! (decS s) l)
  | "assignmentOperatorFound", [i] => showEB (assignmentOperatorFound i.toNat! l)
  | "keywordFound", [k, i] => showEB (keywordFound T (decS k) i.toNat! l)
  | "hasLabel", [i] => showEB (hasLabel T i.toNat! l)
  | "exponentDetected", [i] => showEB (exponentDetected T l (decInt i))
  | "assignSpecial", [i] => showE ((assignSpecial T isDigitStr l i.toNat!).map specialName)
  | "assignNextToken", [c, d, i] => showAssign (assignNextToken T (decTokCls c d) i.toNat! l)
  | "assignToken", [c, d, i] => showAssign (assignToken T l i.toNat! (decTokCls c d))
  | "assignNextTokenIf", [s, c, d, i] => showAssign (assignNextTokenIf T (decS s) (decTokCls c d) i.toNat! l)
  | "assignNextTokenIfNot", [s, c, d, i] => showAssign (assignNextTokenIfNot T (decS s) (decTokCls c d) i.toNat! l)
  | "assignNextTokenRequired", [s, c, d, i] => showAssign (assignNextTokenRequired T (decS s) (decTokCls c d) i.toNat! l)
  | _, _ => "bad prim " ++ name

def runPass (l : List CTok) (name : String) : String :=
  let T := pyClassTables
  let P := pyPostTables
  let r : Except PyErr (List CTok) :=
    match name with
    | "pta" => postTokenAssignments T P l
    | "hier" => .ok (setTokenHierarchy P l)
    | "todo" => .ok (setTodoTokens T P l)
    | "agg" => setAggregateTokens P l
    | _ => postPasses T P l
  match r with
  | .ok l => "ok " ++ encCToks l
  | .error e => "err " ++ errName e

def showCmp (a b : List CTok) : String :=
  let k := kindOfCls
  match compareRoles k a b with
  | .same n => s!"same {n}"
  | .count x y => s!"count {x} {y}"
  | .value i => s!"value {i}"
  | .role i ca cb =>
    let ds := (allRoleDiffs (codeView k a) (codeView k b) 0).take 40
    s!"role {i} {ca} {cb} ; " ++ " ".intercalate (ds.map fun d => s!"{d.1}:{d.2.1}:{d.2.2}")

partial def loop (h out : IO.FS.Stream) (cur : List CTok) : IO Unit := do
  let line ← h.getLine
  if line.isEmpty then return ()
  let line := if line.endsWith "\n" then (line.dropEnd 1).toString else line
  match line.splitOn "\t" with
  | ["LIST", ts] => loop h out (decCToks ts)
  | ["CMP", a, b] =>
    out.putStrLn (showCmp (decCToks a) (decCToks b)); out.flush
    loop h out cur
  | "P" :: name :: args =>
    out.putStrLn (runPrim cur name args); out.flush
    loop h out cur
  | ["PASS", name] =>
    out.putStrLn (runPass cur name); out.flush
    loop h out cur
  | _ =>
    out.putStrLn ("error bad line " ++ (line.take 40).toString); out.flush
    loop h out cur

end Vsgm.Classify.Cli

namespace Vsgm.Classify
def classifyMain (stdin stdout : IO.FS.Stream) : IO Unit := Cli.loop stdin stdout []
end Vsgm.Classify
