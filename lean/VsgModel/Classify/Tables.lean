/- the classifier's class tables, instantiated from the generated isinstance facts of /repo -/
import VsgModel.Classify.PostPasses
import VsgModel.Generated.ClassifyTables
namespace Vsgm.Classify
open Vsgm

/-- the tables of the running system for the navigation primitives -/
def pyClassTables : ClassTables where
  item := Gen.idx_parser_item
  wsOrCmt := Gen.sub_parser_whitespace ++ Gen.sub_parser_carriage_return ++ Gen.sub_parser_comment
    ++ Gen.sub_parser_blank_line ++ Gen.sub_parser_preprocessor
  eKeyword := Gen.sub_exponent_e_keyword
  expPlus := Gen.sub_exponent_plus_sign
  expMinus := Gen.sub_exponent_minus_sign

def strKeys (m : List (String × β)) : List (Str × β) := m.map fun p => (p.1.toList, p.2)

/-- the tables of the running system for the post passes -/
def pyPostTables : PostTables where
  dcText := Gen.sub_delimited_comment_text
  groupA := Gen.sub_resolution_indication_resolution_function_name ++ Gen.sub_type_mark_name
    ++ Gen.sub_attribute_name_name ++ Gen.sub_todo_name
  attrAttribute := Gen.sub_attribute_name_attribute
  todo := Gen.sub_parser_todo
  todoExact := Gen.idx_parser_todo
  openParen := Gen.sub_parser_open_parenthesis
  openParenExact := Gen.idx_parser_open_parenthesis
  closeParenExact := Gen.idx_parser_close_parenthesis
  keyword := Gen.sub_parser_keyword
  assignment := Gen.sub_parser_assignment
  comma := Gen.sub_parser_comma
  commaExact := Gen.idx_parser_comma
  bar := Gen.sub_choices_bar
  logicalOperator := Gen.sub_logical_operator_logical_operator
  todoName := Gen.sub_todo_name
  parserType := Gen.sub_parser_type
  parserFunction := Gen.sub_parser_function
  ifKw := Gen.sub_if_statement_if_keyword
  elsifKw := Gen.sub_if_statement_elsif_keyword
  elseKw := Gen.sub_if_statement_else_keyword
  ifSemicolon := Gen.sub_if_statement_semicolon
  aggOpen := Gen.sub_aggregate_open_parenthesis
  elemAssign := Gen.sub_element_association_assignment
  cPredefKeyword := Gen.idx_predefined_attribute_keyword
  cPredefEvent := Gen.idx_predefined_attribute_event_keyword
  cOpenParen := Gen.idx_parser_open_parenthesis
  cCloseParen := Gen.idx_parser_close_parenthesis
  cTic := Gen.idx_parser_tic
  cCharLit := Gen.idx_parser_character_literal
  cPlus := Gen.idx_adding_operator_plus
  cMinus := Gen.idx_adding_operator_minus
  cStar := Gen.idx_multiplying_operator_star
  cSlash := Gen.idx_multiplying_operator_slash
  cDoubleStar := Gen.idx_miscellaneous_operator_double_star
  cTodoName := Gen.idx_todo_name
  cTodoOpen := Gen.idx_todo_open_parenthesis
  cTodoClose := Gen.idx_todo_close_parenthesis
  cAggOpen := Gen.idx_aggregate_open_parenthesis
  cAggClose := Gen.idx_aggregate_close_parenthesis
  todoMap := strKeys Gen.parserTodoStringMap
  addMap := strKeys Gen.addOpMap
  logMap := strKeys Gen.logOpMap
  predefValues := Gen.predefinedAttributeValues.map String.toList

end Vsgm.Classify
