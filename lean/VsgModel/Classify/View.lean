/-
  C05: code view of a classified token list, the re-layout relation, and the executable
  comparison of the roles of two parses (used by the driver on the REAL parser's output).
-/
import VsgModel.Classify.Prims
namespace Vsgm.Classify
open Vsgm

/-- a code token: neither layout (white space, line end, blank line) nor comment-like
    (comment, delimited comment parts, pragma, tool directive) nor the begin-of-file marker -/
def isCodeKind : Kind → Bool
  | .code | .codeCI => true
  | _ => false

/-- the code view: layout and comment tokens dropped (`kindOf` = generated class table) -/
def codeView (kindOf : Nat → Kind) (l : List CTok) : List CTok :=
  l.filter fun t => isCodeKind (kindOf t.cls)

/-- the view the navigation primitives themselves skip to: everything that is not
    `token_is_whitespace_or_comment` (delimited comments are NOT skipped by it) -/
def navView (T : ClassTables) (l : List CTok) : List CTok := l.filter fun t => !isSkip T t

/-- values that no re-layout may touch: character / string literals, extended identifiers -/
def verbatim (v : Str) : Bool :=
  match v with
  | '\'' :: _ | '"' :: _ | '\\' :: _ => true
  | _ => false

/-- two code tokens are the same token up to letter case: same lower-cased value, and the very
    same value when it is a literal or an extended identifier.  (The class is NOT part of it:
    it is what the property compares.) -/
def sameToken (a b : CTok) : Bool :=
  a.lower == b.lower && (!(verbatim a.val || verbatim b.val) || a.val == b.val)

/-- same token AND same role -/
def agree (a b : CTok) : Bool := sameToken a b && a.cls == b.cls

/-- `Relayout l l'`: the code views agree token by token (roles included) up to letter case of
    non-literal values.  For lists produced by the classifier this is the conclusion of C05;
    for the primitives and post passes it is the hypothesis. -/
def agreeList : List CTok → List CTok → Bool
  | [], [] => true
  | a :: as, b :: bs => agree a b && agreeList as bs
  | _, _ => false

def Relayout (kindOf : Nat → Kind) (l l' : List CTok) : Prop :=
  agreeList (codeView kindOf l) (codeView kindOf l') = true

instance (kindOf : Nat → Kind) (l l' : List CTok) : Decidable (Relayout kindOf l l') := by
  unfold Relayout; infer_instance

inductive Cmp where
  | same (n : Nat)
  | count (na nb : Nat)
  | value (k : Nat)                    -- k-th code tokens are different tokens: the inputs do not align
  | role (k : Nat) (ca cb : Nat)       -- k-th code tokens are the same token with different classes
  deriving DecidableEq, Repr

def firstDiff : List CTok → List CTok → Nat → Option Cmp
  | a :: as, b :: bs, k =>
    if !sameToken a b then some (.value k)
    else if a.cls != b.cls then some (.role k a.cls b.cls)
    else firstDiff as bs (k + 1)
  | _, _, _ => none

/-- the comparison of C05 on two classified lists -/
def compareRoles (kindOf : Nat → Kind) (l l' : List CTok) : Cmp :=
  let a := codeView kindOf l
  let b := codeView kindOf l'
  if a.length != b.length then .count a.length b.length
  else match firstDiff a b 0 with
    | some c => c
    | none => .same a.length

/-- every role difference, not only the first (for reports) -/
def allRoleDiffs : List CTok → List CTok → Nat → List (Nat × Nat × Nat)
  | a :: as, b :: bs, k =>
    (if sameToken a b && a.cls != b.cls then [(k, a.cls, b.cls)] else []) ++ allRoleDiffs as bs (k + 1)
  | _, _, _ => []

end Vsgm.Classify
