/-
  C05, layer K: the four post passes of `vsg/vhdlFile/vhdlFile.py`
  (`post_token_assignments`, `set_token_hierarchy_value`, `set_todo_tokens`,
  `set_aggregate_tokens`), transcribed as they are.

  Each pass is `for iToken, oToken in enumerate(lTokens)` with in-place writes.  At iteration
  `iToken` the Python list is `done ++ t :: rest` with `done.length = iToken`; the loops below
  recurse on `rest` and hand exactly that list (and that index) to the navigation primitives of
  `Prims.lean`.  Writes go to the current index, to `iToken + 1 …` (`classify_predefined_types`,
  through `assign_token`) or to an earlier index (`set_aggregate_tokens`).

  A token built by a constructor call (`parser.tic(sValue)`, `adding_operator.plus()`, …) is a
  NEW object: `iId` and `hierarchy` start as `None`.  `convert_to` keeps both.
  `sValue.lower()` is read off the token's `lower_value` (the harness checks on every token of
  every explored list that `lower_value == value.lower()`).
-/
import VsgModel.Classify.Prims
namespace Vsgm.Classify
open Vsgm

/-- class facts the post passes depend on (generated from /repo, see `Classify/Tables.lean`) -/
structure PostTables where
  dcText : Ty                 -- delimited_comment.text
  groupA : Ty                 -- (resolution_function_name, type_mark.name, attribute_name.name, todo.name)
  attrAttribute : Ty          -- attribute_name.attribute
  todo : Ty                   -- isinstance(·, parser.todo)
  todoExact : Nat             -- type(·) == parser.todo
  openParen : Ty
  openParenExact : Nat
  closeParenExact : Nat
  keyword : Ty
  assignment : Ty
  comma : Ty
  commaExact : Nat
  bar : Ty                    -- choices.bar
  logicalOperator : Ty
  todoName : Ty
  parserType : Ty
  parserFunction : Ty
  ifKw : Ty
  elsifKw : Ty
  elseKw : Ty
  ifSemicolon : Ty
  aggOpen : Ty
  elemAssign : Ty
  cPredefKeyword : Nat
  cPredefEvent : Nat
  cOpenParen : Nat
  cCloseParen : Nat
  cTic : Nat
  cCharLit : Nat
  cPlus : Nat
  cMinus : Nat
  cStar : Nat
  cSlash : Nat
  cDoubleStar : Nat
  cTodoName : Nat
  cTodoOpen : Nat
  cTodoClose : Nat
  cAggOpen : Nat
  cAggClose : Nat
  todoMap : List (Str × Nat)          -- dParserTodoStringMap
  addMap : List (Str × Nat × Nat)     -- dUnaryOrBinaryAdditionOperatorStringMap (unary, binary)
  logMap : List (Str × Nat × Nat)     -- dUnaryOrBinaryLogicalOperatorStringMap
  predefValues : List Str             -- predefined_attribute.values
  deriving Repr, Inhabited

variable (T : ClassTables) (P : PostTables)

/-- `cls(sValue)`: a new object with the old value -/
def rebuilt (c : Nat) (t : CTok) : CTok := { cls := c, lower := t.lower, val := t.val }

/-- `cls()` for the parenthesis / operator classes whose value is built in -/
def fresh (c : Nat) (v : Str) : CTok := { cls := c, lower := v, val := v }

/-- `oToken.convert_to(cls)`: value, iId, hierarchy kept -/
def converted (c : Nat) (t : CTok) : CTok := { t with cls := c }

def lookup (m : List (Str × β)) (k : Str) : Option β := (m.find? (·.1 == k)).map (·.2)

/-- `are_previous_consecutive_token_types_ignoring_whitespace([ty], iToken - 1, lTokens)`;
    the function catches its IndexError, so it always answers -/
def prevIs (ty : Ty) (l : List CTok) (i : Nat) : Bool :=
  match arePrevTypesIgnWs T [some ty] ((i : Int) - 1) l with
  | .ok b => b
  | .error _ => false

/-- `are_next_consecutive_token_types_ignoring_whitespace([ty], iToken + 1, lTokens)` -/
def nextIs (ty : Ty) (l : List CTok) (i : Nat) : Bool :=
  match areNextTypesIgnWs T [some ty] (i + 1) l with
  | .ok b => b
  | .error _ => false

/-! ### post_token_assignments -/

structure ParenState where
  next : Nat := 0            -- iParenId
  stack : List Nat := []     -- lParenId, top first
  deriving Repr, Inhabited, DecidableEq

/-- result of one iteration: the token now at `iToken`, an optional write into `rest`
    (offset, token), the parenthesis state -/
structure PtaOut where
  tok : CTok
  write : Option (Nat × CTok) := none
  st : ParenState

def quote : Str := ['\'']

def isCharLitValue (v : Str) : Bool := v.length == 3 && v.head? == some '\'' && v.getLast? == some '\''

/-- assign_token_of_addition_operator_that_can_be_either_unary_and_binary -/
def addIsUnary (l : List CTok) (i : Nat) : Bool :=
  prevIs T P.openParen l i || prevIs T P.keyword l i || prevIs T P.assignment l i
    || prevIs T P.comma l i || prevIs T P.bar l i

/-- assign_token_of_logical_operator_that_can_be_either_unary_and_binary -/
def logIsUnary (l : List CTok) (i : Nat) : Bool :=
  prevIs T P.openParen l i || prevIs T P.assignment l i || prevIs T P.comma l i
    || prevIs T P.logicalOperator l i || (prevIs T P.keyword l i && nextIs T P.openParen l i)

/-- `classify_predefined_types(lTokens, iToken + 1)` seen from `rest = lTokens[iToken+1:]`:
    reads `lTokens[iToken + 1]` DIRECTLY; `assign_token` then writes to the next RAW item at or
    after it (normally there is none left and it is that very token) -/
def classifyPredefined (rest : List CTok) : Except PyErr (Option (Nat × CTok)) := do
  let n ← natGet rest 0
  if !isInst n P.todo then return none
  if !P.predefValues.contains n.lower then return none
  let k := findNextToken T 0 rest
  let old ← natGet rest k
  let c := if n.lower == "event".toList then P.cPredefEvent else P.cPredefKeyword
  return some (k, rebuilt c old)

def ptaTodo (done : List CTok) (t : CTok) (rest : List CTok) (st : ParenState) : Except PyErr PtaOut := do
  let l := done ++ t :: rest
  let i := done.length
  let lo := t.lower
  let v := t.val
  match lookup P.todoMap lo with
  | some c => return { tok := rebuilt c t, st := st }
  | none =>
  match lookup P.addMap lo with
  | some (u, b) => return { tok := rebuilt (if addIsUnary T P l i then u else b) t, st := st }
  | none =>
  match lookup P.logMap lo with
  | some (u, b) => return { tok := rebuilt (if logIsUnary T P l i then u else b) t, st := st }
  | none =>
  if v == ['('] then
    let id := st.next + 1
    return { tok := { fresh P.cOpenParen ['('] with iId := some id }, st := { next := id, stack := id :: st.stack } }
  if v == [')'] then
    match st.stack with
    | [] => .error .indexError                 -- pop from empty list
    | id :: stack => return { tok := { fresh P.cCloseParen [')'] with iId := some id }, st := { st with stack := stack } }
  if v == quote then
    let w ← classifyPredefined T P rest
    return { tok := rebuilt P.cTic t, write := w, st := st }
  if isCharLitValue v then return { tok := rebuilt P.cCharLit t, st := st }
  return { tok := t, st := st }

def ptaOther (done : List CTok) (t : CTok) (rest : List CTok) (st : ParenState) : Except PyErr PtaOut := do
  let l := done ++ t :: rest
  let i := done.length
  let v := t.val
  if v == ['+'] then
    return { tok := if prevIs T T.eKeyword l i then t else fresh P.cPlus ['+'], st := st }
  if v == ['-'] then
    return { tok := if prevIs T T.eKeyword l i then t else fresh P.cMinus ['-'], st := st }
  if v == ['*'] then return { tok := rebuilt P.cStar t, st := st }
  if v == ['/'] then return { tok := rebuilt P.cSlash t, st := st }
  if v == ['*', '*'] then return { tok := rebuilt P.cDoubleStar t, st := st }
  if v == ['('] then
    let id := st.next + 1
    return { tok := { t with iId := some id }, st := { next := id, stack := id :: st.stack } }
  if v == [')'] then
    match st.stack with
    | [] => .error .indexError
    | id :: stack => return { tok := { t with iId := some id }, st := { st with stack := stack } }
  return { tok := t, st := st }

def ptaStep (done : List CTok) (t : CTok) (rest : List CTok) (st : ParenState) : Except PyErr PtaOut :=
  if isInst t P.dcText then .ok { tok := t, st := st }
  else if isInst t P.groupA then .ok { tok := t, st := st }
  else if isInst t P.attrAttribute then
    .ok { tok := if P.predefValues.contains t.lower then rebuilt P.cPredefKeyword t else t, st := st }
  else if isInst t P.todo then ptaTodo T P done t rest st
  else ptaOther T P done t rest st

def applyWrite (rest : List CTok) : Option (Nat × CTok) → List CTok
  | none => rest
  | some (k, tok) => rest.set k tok

theorem applyWrite_length (rest : List CTok) (w : Option (Nat × CTok)) :
    (applyWrite rest w).length = rest.length := by
  cases w with
  | none => rfl
  | some p => simp [applyWrite]

def ptaGo (done : List CTok) (rest : List CTok) (st : ParenState) : Except PyErr (List CTok) :=
  match rest with
  | [] => .ok done
  | t :: rest =>
    match ptaStep T P done t rest st with
    | .error e => .error e
    | .ok o => ptaGo (done ++ [o.tok]) (applyWrite rest o.write) o.st
termination_by rest.length
decreasing_by simp [applyWrite_length]

/-- `post_token_assignments(lTokens)` -/
def postTokenAssignments (l : List CTok) : Except PyErr (List CTok) := ptaGo T P [] l {}

/-! ### set_token_hierarchy_value -/

def hierGo : List CTok → Int → List CTok
  | [], _ => []
  | t :: rest, h =>
    let (t1, h1) := if isInst t P.ifKw then ({ t with hier := some h }, h + 1) else (t, h)
    let t2 := if isInst t P.elsifKw then { t1 with hier := some (h1 - 1) } else t1
    let t3 := if isInst t P.elseKw then { t2 with hier := some (h1 - 1) } else t2
    let (t4, h4) := if isInst t P.ifSemicolon then ({ t3 with hier := some (h1 - 1) }, h1 - 1) else (t3, h1)
    t4 :: hierGo rest h4

/-- `set_token_hierarchy_value(lTokens)` -/
def setTokenHierarchy (l : List CTok) : List CTok := hierGo P l 0

/-! ### set_todo_tokens -/

/-- one iteration; `opens` = `lOpenParens` (the iId of the stored tokens, top first) -/
def todoStep (done : List CTok) (t : CTok) (rest : List CTok) (opens : List (Option Nat)) :
    CTok × List (Option Nat) :=
  let l := done ++ t :: rest
  let i := done.length
  -- check_for_name
  let t1 := if t.cls == P.todoExact && nextIs T P.openParen l i then converted P.cTodoName t else t
  -- check_for_open_parenthesis (tests the ORIGINAL token object)
  let isOpen := t.cls == P.openParenExact
    && (prevIs T P.todoName l i || prevIs T P.parserType l i || prevIs T P.parserFunction l i)
  let t2 := if isOpen then converted P.cTodoOpen t else t1
  let opens1 := if isOpen then t.iId :: opens else opens
  -- check_for_close_parenthesis (`lOpenParens[-1]` raises IndexError on an empty list: caught)
  if t.cls == P.closeParenExact then
    match opens1 with
    | top :: restOpens => if t.iId == top then (converted P.cTodoClose t, restOpens) else (t2, opens1)
    | [] => (t2, opens1)
  else (t2, opens1)

def todoGo (done : List CTok) : List CTok → List (Option Nat) → List CTok
  | [], _ => done
  | t :: rest, opens =>
    let r := todoStep T P done t rest opens
    todoGo (done ++ [r.1]) rest r.2

/-- `set_todo_tokens(lTokens)` -/
def setTodoTokens (l : List CTok) : List CTok := todoGo T P [] l []

/-! ### set_aggregate_tokens -/

/-- `if type(oToken) == parser.open_parenthesis: lOpenParens.append(iToken)` -/
def aggPush (i : Nat) (t : CTok) (opens : List Nat) : List Nat :=
  if t.cls == P.openParenExact then i :: opens else opens

/-- `if type(oToken) == parser.close_parenthesis: …` (`cur` is the list, `i` the index of `t`) -/
def aggClose (cur : List CTok) (i : Nat) (t : CTok) (opens : List Nat) : Except PyErr (List CTok × List Nat) :=
  if t.cls == P.closeParenExact then
    match opens with
    | [] => .error .indexError                        -- pop from empty list
    | idx :: os =>
      match natGet cur idx with
      | .error e => .error e
      | .ok o =>
        if isInst o P.aggOpen then .ok (cur.set i { fresh P.cAggClose [')'] with iId := t.iId }, os)
        else .ok (cur, os)
  else .ok (cur, opens)

/-- `if len(lOpenParens) > 0 and (isinstance(oToken, element_association.assignment) or type(oToken) == parser.comma): …` -/
def aggMark (cur : List CTok) (t : CTok) (opens : List Nat) : Except PyErr (List CTok × List Nat) :=
  match opens with
  | top :: _ =>
    if isInst t P.elemAssign || t.cls == P.commaExact then
      match natGet cur top with
      | .error e => .error e
      | .ok o => .ok (cur.set top { fresh P.cAggOpen ['('] with iId := o.iId }, opens)
    else .ok (cur, opens)
  | [] => .ok (cur, opens)

/-- one iteration: `opens` = `lOpenParens` (indices, top first); returns the updated
    `done ++ [token at iToken]` and the stack -/
def aggStep (done : List CTok) (t : CTok) (opens : List Nat) : Except PyErr (List CTok × List Nat) :=
  match aggClose P (done ++ [t]) done.length t (aggPush P done.length t opens) with
  | .error e => .error e
  | .ok (cur, os) => aggMark P cur t os

def aggGo (done : List CTok) : List CTok → List Nat → Except PyErr (List CTok)
  | [], _ => .ok done
  | t :: rest, opens =>
    match aggStep P done t opens with
    | .error e => .error e
    | .ok (d, o) => aggGo d rest o

/-- `set_aggregate_tokens(lTokens)` -/
def setAggregateTokens (l : List CTok) : Except PyErr (List CTok) := aggGo P [] l []

/-- the four passes in the order of `vhdlFile._processFile` -/
def postPasses (l : List CTok) : Except PyErr (List CTok) := do
  let a ← postTokenAssignments T P l
  let b := setTokenHierarchy P a
  let c := setTodoTokens T P b
  setAggregateTokens P c

end Vsgm.Classify
