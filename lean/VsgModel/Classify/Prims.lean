/-
  C05, layer T/K: the navigation primitives of `vsg/vhdlFile/utils.py`, transcribed one by one
  on (token list, index) with Python's behaviour at the ends of the list (`IndexError` of
  `lObjects[i]`, `return None`, negative indices that wrap) kept as it is.

  A token is seen through what the primitives read: its class (index in the generated class
  table), `lower_value`, `value`, and the two attributes the post passes write (`iId`,
  `hierarchy`).  A Python *type* argument (`isinstance(o, ty)`) is the list of the class
  indices that are subclasses of it (generated: `Generated/ClassifyTables.lean`).

  Forward primitives take a `Nat` index: every call site passes an index that started at 0 and
  was only advanced.  Backward primitives take an `Int` (the post passes call them with
  `iToken - 1`, which is `-1` for the first token of the file: Python then reads `lObjects[-1]`).
-/
import VsgModel.Tok
namespace Vsgm.Classify
open Vsgm

/-- what the classifier reads of / writes to a token -/
structure CTok where
  cls   : Nat
  lower : Str              -- get_lower_value()
  val   : Str              -- get_value()
  iId   : Option Nat := none
  hier  : Option Int := none
  deriving DecidableEq, Repr, Inhabited

/-- a Python type used with `isinstance`: the class indices of its subclasses -/
abbrev Ty := List Nat

def isInst (t : CTok) (ty : Ty) : Bool := ty.contains t.cls

/-- what Python can raise inside the modelled functions -/
inductive PyErr where
  | indexError       -- lObjects[i] out of range / pop from empty list
  | typeError        -- None + 1
  | unboundLocal     -- `sEarliest` referenced before assignment
  | classifyError    -- exceptions.ClassifyError raised by print_error_message
  deriving DecidableEq, Repr, Inhabited

/-- class facts of the running system the primitives depend on -/
structure ClassTables where
  item    : Nat          -- class index of parser.item (`type(o) == parser.item`)
  wsOrCmt : Ty           -- token_is_whitespace_or_comment: whitespace, carriage_return, comment, blank_line, preprocessor
  eKeyword : Ty          -- exponent.e_keyword
  expPlus : Ty           -- exponent.plus_sign
  expMinus : Ty          -- exponent.minus_sign
  deriving Repr, Inhabited

variable (T : ClassTables)

/-- `type(oToken) == parser.item` -/
def isRaw (t : CTok) : Bool := t.cls == T.item

/-- `utils.token_is_whitespace_or_comment` -/
def isSkip (t : CTok) : Bool := isInst t T.wsOrCmt

/-- `lObjects[i]` for a Python int (negative indices count from the end) -/
def pyGet (l : List α) (i : Int) : Except PyErr α :=
  let n : Int := l.length
  let j : Int := if i < 0 then n + i else i
  if j < 0 then .error .indexError
  else match l[j.toNat]? with
    | some x => .ok x
    | none => .error .indexError

/-- `lObjects[i]` for an index known to be non-negative -/
def natGet (l : List α) (i : Nat) : Except PyErr α :=
  match l[i]? with
  | some x => .ok x
  | none => .error .indexError

/-- first index `≥ i` whose token satisfies `p` -/
def firstFrom (p : CTok → Bool) (l : List CTok) (i : Nat) : Option Nat :=
  ((l.drop i).findIdx? p).map (i + ·)

/-- `find_next_token`: next raw `parser.item` at or after `iToken`; `iToken` itself if there is none -/
def findNextToken (i : Nat) (l : List CTok) : Nat := (firstFrom (isRaw T) l i).getD i

/-- `find_next_non_whitespace_token` -/
def findNextNonWs (i : Nat) (l : List CTok) : Nat := (firstFrom (fun t => !isSkip T t) l i).getD i

/-- scan `k, k-1, …, 0` for the first token that is not skipped (all indices in range) -/
def scanDown (l : List CTok) : Nat → Option Nat
  | 0 => match l[0]? with
    | some t => if isSkip T t then none else some 0
    | none => none
  | k + 1 => match l[k + 1]? with
    | some t => if isSkip T t then scanDown l k else some (k + 1)
    | none => none

/-- `find_previous_non_whitespace_token`: `range(iToken, -1, -1)` is empty for a negative
    `iToken` (which is then returned), and `lObjects[iToken]` raises when `iToken ≥ len` -/
def findPrevNonWs (i : Int) (l : List CTok) : Except PyErr Int :=
  if i < 0 then .ok i
  else if l.length ≤ i.toNat then .error .indexError
  else match scanDown T l i.toNat with
    | some r => .ok r
    | none => .ok i

/-- `object_value_is(lAllObjects, iToken, sString)`; `sLower` is `sString.lower()` -/
def objectValueIs (l : List CTok) (i : Nat) (sLower : Str) : Except PyErr Bool := do
  let t ← natGet l i
  return t.lower == sLower

def isItem (l : List CTok) (i : Nat) : Except PyErr Bool := do
  let t ← natGet l i
  return isRaw T t

/-- `is_next_token` -/
def isNextToken (sLower : Str) (i : Nat) (l : List CTok) : Except PyErr Bool :=
  objectValueIs l (findNextToken T i l) sLower

/-- `is_next_token_one_of` / `is_next_token_in_list`: `lower_value in lTokens` (the list is not lower-cased) -/
def isNextTokenOneOf (toks : List Str) (i : Nat) (l : List CTok) : Except PyErr Bool := do
  let t ← natGet l (findNextToken T i l)
  return toks.contains t.lower

/-- `are_next_consecutive_tokens` (no try/except: the IndexError propagates) -/
def areNextTokens : List (Option Str) → Nat → List CTok → Except PyErr Bool
  | [], _, _ => .ok true
  | tok :: rest, i, l => do
    let cur := findNextToken T i l
    match tok with
    | some s =>
      let b ← isNextToken T s cur l
      if !b then return false
      areNextTokens rest (cur + 1) l
    | none => areNextTokens rest (cur + 1) l

/-- body of `are_next_consecutive_token_types` before the `except IndexError` -/
def areNextTypesE : List (Option Ty) → Nat → List CTok → Except PyErr Bool
  | [], _, _ => .ok true
  | ty :: rest, i, l => do
    match ty with
    | some ty =>
      let t ← natGet l i
      if !isInst t ty then return false
      areNextTypesE rest (i + 1) l
    | none => areNextTypesE rest (i + 1) l

def exceptIndexFalse (r : Except PyErr Bool) : Except PyErr Bool :=
  match r with
  | .error .indexError => .ok false
  | r => r

/-- `are_next_consecutive_token_types`: looks at `lObjects[iToken], lObjects[iToken+1], …` DIRECTLY -/
def areNextTypes (tys : List (Option Ty)) (i : Nat) (l : List CTok) : Except PyErr Bool :=
  exceptIndexFalse (areNextTypesE tys i l)

def areNextTokensIgnWsE : List (Option Str) → Nat → List CTok → Except PyErr Bool
  | [], _, _ => .ok true
  | tok :: rest, i, l => do
    let cur := findNextNonWs T i l
    match tok with
    | some s =>
      let b ← isNextToken T s cur l       -- NB: `is_next_token` moves on to the next RAW item
      if !b then return false
      areNextTokensIgnWsE rest (cur + 1) l
    | none => areNextTokensIgnWsE rest (cur + 1) l

/-- `are_next_consecutive_tokens_ignoring_whitespace` -/
def areNextTokensIgnWs (toks : List (Option Str)) (i : Nat) (l : List CTok) : Except PyErr Bool :=
  exceptIndexFalse (areNextTokensIgnWsE T toks i l)

def areNextTypesIgnWsE : List (Option Ty) → Nat → List CTok → Except PyErr Bool
  | [], _, _ => .ok true
  | ty :: rest, i, l => do
    let cur := findNextNonWs T i l
    match ty with
    | some ty =>
      let t ← natGet l cur
      if !isInst t ty then return false
      areNextTypesIgnWsE rest (cur + 1) l
    | none => areNextTypesIgnWsE rest (cur + 1) l

/-- `are_next_consecutive_token_types_ignoring_whitespace` -/
def areNextTypesIgnWs (tys : List (Option Ty)) (i : Nat) (l : List CTok) : Except PyErr Bool :=
  exceptIndexFalse (areNextTypesIgnWsE T tys i l)

/-- loop of `are_previous_consecutive_token_types_ignoring_whitespace`; the types are consumed
    from the LAST one (`lTypes[iTokenCount - 1]`), so the argument is the reversed list -/
def arePrevTypesIgnWsE : List (Option Ty) → Int → List CTok → Except PyErr Bool
  | [], _, _ => .ok true
  | ty :: rest, i, l => do
    let cur ← findPrevNonWs T i l
    match ty with
    | some ty =>
      let t ← pyGet l cur                -- a negative `cur` wraps around
      if !isInst t ty then return false
      arePrevTypesIgnWsE rest (cur - 1) l
    | none => arePrevTypesIgnWsE rest (cur - 1) l

/-- `are_previous_consecutive_token_types_ignoring_whitespace` -/
def arePrevTypesIgnWs (tys : List (Option Ty)) (i : Int) (l : List CTok) : Except PyErr Bool :=
  exceptIndexFalse (arePrevTypesIgnWsE T tys.reverse i l)

/-- `find_in_next_n_tokens`: counts RAW items -/
def findInNextN (sLower : Str) : Nat → Nat → List CTok → Except PyErr Bool
  | 0, _, _ => .ok false
  | n + 1, i, l => do
    let cur := findNextToken T i l
    let b ← objectValueIs l cur sLower
    if b then return true
    if cur + 1 == l.length then return false
    findInNextN sLower n (cur + 1) l

/-- `update_paren_counter` -/
def updateParenCounter (i : Nat) (l : List CTok) (c : Int) : Except PyErr Int := do
  let o ← objectValueIs l i ['(']
  if o then return c + 1
  let cl ← objectValueIs l i [')']
  if cl then return c - 1
  return c

/-- `get_range`: walks over EVERY token (comments and white space included) comparing
    `lower_value` with `sEnd`; runs off the end with an IndexError -/
def getRangeEnd (sEnd : Str) : Nat → List CTok → Nat → Except PyErr Nat
  | _, [], _ => .error .indexError
  | 0, t :: rest, pos => if t.lower == sEnd then .ok pos else getRangeEnd sEnd 0 rest (pos + 1)
  | k + 1, _ :: rest, pos => getRangeEnd sEnd k rest (pos + 1)

/-- `find_in_index_range` -/
def findInIndexRange (sLower : Str) (iStart iEnd : Nat) (l : List CTok) : Except PyErr Bool :=
  (List.range (iEnd + 1 - iStart)).foldlM (init := false) fun acc k =>
    if acc then pure true else objectValueIs l (iStart + k) sLower

/-- `find_in_range` -/
def findInRange (sLower : Str) (i : Nat) (sEnd : Str) (l : List CTok) : Except PyErr Bool := do
  let e ← getRangeEnd sEnd i l 0
  findInIndexRange sLower i e l

/-- `find_next_token_with_value` (`None` = `none`) -/
def findNextTokenWithValue (i : Nat) (v : Str) (l : List CTok) : Option Nat :=
  firstFrom (fun t => t.val == v) l i

/-- `all_assignments_inside_parenthesis` -/
def allAssignmentsInsideParen (i : Nat) (sStop : Str) (l : List CTok) : Except PyErr Bool :=
  match findNextTokenWithValue i sStop l with
  | none => .error .typeError           -- `None + 1`
  | some stop => do
    let r ← (List.range (stop + 1 - i)).foldlM (init := ((0 : Int), true)) fun (acc : Int × Bool) k => do
      if !acc.2 then return acc
      let p ← updateParenCounter (i + k) l acc.1
      let a ← objectValueIs l (i + k) ['<', '=']
      if a && p == 0 then return (p, false) else return (p, true)
    return r.2

/-- `assignment_operator_found` -/
def assignmentOperatorFound (i : Nat) (l : List CTok) : Except PyErr Bool := do
  let f ← findInRange ['<', '='] i [';'] l
  if f then
    let a ← allAssignmentsInsideParen i [';'] l
    return !a
  return false

/-- `keyword_found` -/
def keywordFound (kw : Str) (i : Nat) (l : List CTok) : Except PyErr Bool := do
  let c ← findInNextN T [':'] 2 i l
  if c then findInNextN T kw 3 i l
  else isNextToken T kw i l

/-- `has_label` -/
def hasLabel (i : Nat) (l : List CTok) : Except PyErr Bool :=
  objectValueIs l (findNextToken T (findNextToken T i l + 1) l) [':']

/-- `exponent_detected`: looks at `lObjects[iCurrent - 1]` DIRECTLY -/
def exponentDetected (l : List CTok) (i : Int) : Except PyErr Bool := do
  let t ← pyGet l (i - 1)
  return isInst t T.eKeyword || isInst t T.expPlus || isInst t T.expMinus

/-! ### assignment primitives (they replace the token at an index by one of another class) -/

/-- a token class as a constructor: class index and, for classes whose `__init__` takes no
    argument (`token()` after the `TypeError`), the built-in value -/
structure TokCls where
  cls  : Nat
  dflt : Option (Str × Str) := none       -- (value, lower_value) of `token()`
  deriving DecidableEq, Repr, Inhabited

/-- `token(lObjects[i].get_value())`, falling back to `token()` on `TypeError`; `lowerOf` is
    CPython's `str.lower` on the value that is kept (here: the old token's own `lower_value`) -/
def construct (c : TokCls) (old : CTok) : CTok :=
  match c.dflt with
  | some (v, lo) => { cls := c.cls, lower := lo, val := v }
  | none => { cls := c.cls, lower := old.lower, val := old.val }

/-- `lObjects[i] = …` -/
def setAt (l : List CTok) (i : Nat) (t : CTok) : List CTok := l.set i t

/-- `assign_next_token` -/
def assignNextToken (c : TokCls) (i : Nat) (l : List CTok) : Except PyErr (List CTok × Nat) := do
  let cur := findNextToken T i l
  let old ← natGet l cur
  return (setAt l cur (construct c old), cur + 1)

/-- `assign_token` (on `TypeError` it writes to `lObjects[iToken]`, not to the found index) -/
def assignToken (l : List CTok) (i : Nat) (c : TokCls) : Except PyErr (List CTok × Nat) := do
  let cur := findNextToken T i l
  let old ← natGet l cur
  match c.dflt with
  | none => return (setAt l cur (construct c old), i + 1)
  | some _ =>
    if i < l.length then return (setAt l i (construct c old), i + 1) else .error .indexError

/-- `assign_next_token_if` -/
def assignNextTokenIf (sLower : Str) (c : TokCls) (i : Nat) (l : List CTok) : Except PyErr (List CTok × Nat) := do
  let cur := findNextToken T i l
  let b ← objectValueIs l cur sLower
  if b then
    let old ← natGet l cur
    if c.dflt.isSome then .error .typeError      -- `token(value)` without the TypeError fallback
    return (setAt l cur { cls := c.cls, lower := old.lower, val := old.val }, cur + 1)
  return (l, i)

/-- `assign_next_token_if_not` -/
def assignNextTokenIfNot (sLower : Str) (c : TokCls) (i : Nat) (l : List CTok) : Except PyErr (List CTok × Nat) := do
  let cur := findNextToken T i l
  let b ← objectValueIs l cur sLower
  if !b then
    let old ← natGet l cur
    if c.dflt.isSome then .error .typeError      -- `token(value)` without the TypeError fallback
    return (setAt l cur { cls := c.cls, lower := old.lower, val := old.val }, cur + 1)
  return (l, i)

/-- `assign_next_token_required`: `print_error_message` raises ClassifyError — except at token 0,
    where `calculate_column`'s loop `for iCarriageReturn in range(0, 0, -1)` does not bind its
    variable and the function dies with UnboundLocalError -/
def assignNextTokenRequired (sLower : Str) (c : TokCls) (i : Nat) (l : List CTok) : Except PyErr (List CTok × Nat) := do
  let cur := findNextToken T i l
  let b ← objectValueIs l cur sLower
  if b then
    let old ← natGet l cur
    if c.dflt.isSome then .error .typeError      -- `token(value)` without the TypeError fallback
    return (setAt l cur { cls := c.cls, lower := old.lower, val := old.val }, cur + 1)
  if cur == 0 then .error .unboundLocal else .error .classifyError

/-- the decision `assign_special_tokens` takes for `-`, `+`, `e` and in its two last branches
    (the other branches map a value to a fixed class and read nothing else) -/
inductive Special where
  | expMinus | expPlus | todo | eKeyword | expInteger | oType | fixed
  deriving DecidableEq, Repr, Inhabited

/-- values with a fixed class in `assign_special_tokens` -/
def specialFixed : List Str :=
  [")", "(", "*", "**", "/", "downto", "to", "others", "=>", "=", "/=", "<", "<=", ">", ">=",
   "?=", "?/=", "?<", "?<=", "?>", "?>="].map String.toList

/-- `assign_special_tokens`: `lObjects[iCurrent - 1]` and `lObjects[iCurrent + 1]` are read
    DIRECTLY (no skipping of white space); `isDigit` is `str.isdigit` of the next token's value -/
def assignSpecial (isDigitStr : Str → Bool) (l : List CTok) (i : Nat) : Except PyErr Special := do
  let t ← natGet l i
  let v := t.lower
  if v == ['-'] then
    let p ← pyGet l ((i : Int) - 1)
    return if isInst p T.eKeyword then .expMinus else .todo
  if v == ['+'] then
    let p ← pyGet l ((i : Int) - 1)
    return if isInst p T.eKeyword then .expPlus else .todo
  if v == ['e'] then
    let n ← natGet l (i + 1)
    return if isDigitStr n.val || n.val == ['-'] || n.val == ['+'] then .eKeyword else .oType
  if specialFixed.contains v then return .fixed
  let e ← exponentDetected T l i
  return if e then .expInteger else .oType

end Vsgm.Classify
