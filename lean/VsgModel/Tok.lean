/-
  Tokens of the model.  A token value is a `List Char` (`Str`) so that string
  concatenation is `List.flatten` / `++` and the core `List` lemmas apply.
-/
namespace Vsgm

abbrev Str := List Char

/-- The lexical category a token class belongs to.  Assigned per token *class* by the
    generated class table (`Generated/Classes.lean`), never by the harness. -/
inductive Kind where
  | code        -- anything that is not one of the categories below
  | codeCI      -- code whose quoted value is case-insensitive: the value string of a bit string literal (x"ff")
  | ws          -- parser.whitespace
  | cr          -- parser.carriage_return
  | blank       -- parser.blank_line
  | comment     -- parser.comment  (`-- …` to end of line)
  | dcBegin     -- delimited_comment.beginning  `/*`
  | dcText      -- delimited_comment.text
  | dcEnd       -- delimited_comment.ending     `*/`
  | pragma      -- token.pragma.*  (a `--` comment recognised as synthesis pragma)
  | preproc     -- parser.preprocessor / token.preprocessor.*
  | bof         -- parser.beginning_of_file pseudo token
  deriving DecidableEq, Repr, Inhabited

def Kind.ofCode : Nat → Kind
  | 1 => .ws | 2 => .cr | 3 => .blank | 4 => .comment | 5 => .dcBegin | 6 => .dcText
  | 7 => .dcEnd | 8 => .pragma | 9 => .preproc | 10 => .bof | 11 => .codeCI | _ => .code

def Kind.toCode : Kind → Nat
  | .code => 0 | .ws => 1 | .cr => 2 | .blank => 3 | .comment => 4 | .dcBegin => 5 | .dcText => 6
  | .dcEnd => 7 | .pragma => 8 | .preproc => 9 | .bof => 10 | .codeCI => 11

/-- layout: what phases 2–5 may create, delete or resize -/
def Kind.isLayout : Kind → Bool
  | .ws | .cr | .blank => true
  | _ => false

/-- comment-like: what C02 tracks -/
def Kind.isCommentLike : Kind → Bool
  | .comment | .dcBegin | .dcText | .dcEnd | .pragma | .preproc => true
  | _ => false

/-- A classified token: class id (index in the generated class table), kind (looked up
    from that table when a token is read), value and the code tags stamped on it. -/
structure Tok where
  cls  : Nat
  kind : Kind
  val  : Str
  deriving DecidableEq, Repr, Inhabited

def Tok.isCode (t : Tok) : Bool := t.kind == .code || t.kind == .codeCI
def Tok.isLayout (t : Tok) : Bool := t.kind.isLayout
def Tok.isCommentLike (t : Tok) : Bool := t.kind.isCommentLike
def Tok.isBof (t : Tok) : Bool := t.kind == .bof
def Tok.isCr (t : Tok) : Bool := t.kind == .cr

/-- `remove_beginning_of_file_tokens` -/
def dropBof (l : List Tok) : List Tok := l.filter (fun t => !t.isBof)

theorem dropBof_append (a b : List Tok) : dropBof (a ++ b) = dropBof a ++ dropBof b := by
  simp [dropBof]

end Vsgm
