/-
  Layer T: `vsg/tokens.py` — `tokens.create`, all nine passes, transcribed pass by pass with
  their oddities (trailing "" of combine_whitespace, closing backslash that does not close an
  extended identifier, candidate filtering with Python's negative index, slices that clamp).
  Character predicates are parameters (`LexTables`), instantiated by the generated tables of
  CPython's `str.isspace`, `str.isdigit`, `str.lower` in `Lex/Tables.lean`.
-/
import VsgModel.Tok
namespace Vsgm.Lex
open Vsgm

structure LexTables where
  isSpace   : Char → Bool          -- c.isspace()
  isDigit   : Char → Bool          -- c.isdigit()
  isDigitL  : Char → Bool          -- c.lower().isdigit()
  lowerIsE  : Char → Bool          -- c.lower() == "e"  (and "e" in c.lower())
  lowerBoxd : Char → Bool          -- c.lower().endswith(("b","o","x","d"))
  single    : List Str             -- lSingleCharacterSymbols
  two       : List Str             -- lTwoCharacterSymbols
  three     : List Str             -- lThreeCharacterSymbols
  stop      : List Str             -- lStopChars

variable (T : LexTables)

/-- `s.isspace()` for a Python string: non-empty and all whitespace -/
def strIsSpace (s : Str) : Bool := !s.isEmpty && s.all T.isSpace

/-- convert_string_to_chars -/
def toChars (s : Str) : List Str := s.map (fun c => [c])

/-! ### pass 1 — combine_whitespace -/

def cwGo : List Str → Str → List Str → List Str
  | [], sp, acc => acc ++ [sp]
  | c :: cs, sp, acc =>
    if strIsSpace T c then cwGo cs (sp ++ c) acc
    else if strIsSpace T sp then cwGo cs [] (acc ++ [sp] ++ [c])
    else cwGo cs sp (acc ++ [c])

def combineWhitespace (l : List Str) : List Str := cwGo T l [] []

/-! ### pass 2 — combine_string_literals (and the shared combine_quote_pairs) -/

/-- find_indexes_of_token_with_value -/
def indexesOf (v : Str) : List Str → Nat → List Nat
  | [], _ => []
  | t :: ts, i => if t = v then i :: indexesOf v ts (i + 1) else indexesOf v ts (i + 1)

/-- find_indexes_of_double_quote_pairs: `range(0, len-1, 2)` -/
def pairUp : List Nat → List (Nat × Nat)
  | a :: b :: rest => (a, b) :: pairUp rest
  | _ => []

/-- one iteration of combine_quote_pairs: `l[0:iLeft] + ["".join(l[iLeft:iRight+1])] + l[iRight+1:]` -/
def joinPair (l : List Str) (p : Nat × Nat) : List Str :=
  l.take p.1 ++ [((l.drop p.1).take (p.2 + 1 - p.1)).flatten] ++ l.drop (p.2 + 1)

/-- combine_quote_pairs over the (already reversed) pair list -/
def combineQuotePairs (pairs : List (Nat × Nat)) (l : List Str) : List Str :=
  pairs.foldl joinPair l

def dq : Str := ['"']
def sq : Str := ['\'']

def combineStringLiterals (l : List Str) : List Str :=
  combineQuotePairs (pairUp (indexesOf dq l 0)).reverse l

/-! ### pass 3 — combine_backslash_characters_into_symbols -/

def stopCharFound (c : Str) (b : Bool) : Bool := (c ∈ T.stop || ' ' ∈ c) && b

def bsGo : List Str → Str → Bool → List Str → List Str
  | [], sym, _, acc => if sym.length > 0 then acc ++ [sym] else acc
  | c :: cs, sym, b, acc =>
    let stop := stopCharFound T c b
    let b1 := if stop then false else b
    let acc1 := if stop then acc ++ [sym] else acc
    let sym1 := if stop then [] else sym
    let b2 := if c = ['\\'] then true else b1
    let sym2 := if b2 then sym1 ++ c else sym1
    let acc2 := if !b2 then acc1 ++ [c] else acc1
    bsGo cs sym2 b2 acc2

def combineBackslash (l : List Str) : List Str := bsGo T l [] false []

/-! ### passes 4, 5 — combine_three/two_character_symbols -/

def combN (n : Nat) (syms : List Str) : List Str → List Str
  | [] => []
  | a :: rest =>
    let chunk := (a :: rest).take (n + 1)
    if chunk.flatten ∈ syms then chunk.flatten :: combN n syms ((a :: rest).drop (n + 1))
    else a :: combN n syms rest
termination_by l => l.length
decreasing_by all_goals simp_wf <;> omega

def combineThree (l : List Str) : List Str := combN 2 T.three l
def combineTwo (l : List Str) : List Str := combN 1 T.two l

/-! ### pass 6 — combine_characters_into_words -/

def partOfWord (c : Str) : Bool :=
  if c.length > 1 then false
  else if strIsSpace T c then false
  else if c ∈ T.single then false
  else true

def cwordsGo : List Str → Str → List Str → List Str
  | [], tmp, acc => if tmp.length != 0 then acc ++ [tmp] else acc
  | c :: cs, tmp, acc =>
    if partOfWord T c then cwordsGo cs (tmp ++ c) acc
    else cwordsGo cs [] ((if tmp != [] then acc ++ [tmp] else acc) ++ [c])

def combineWords (l : List Str) : List Str := cwordsGo T l [] []

/-! ### pass 7 — combine_character_literals -/

/-- find_character_literal_candidates over `lQuotes[0:-1]` -/
def candidates (l : List Str) : List Nat → List (Nat × Nat)
  | q :: q' :: rest =>
    (if q + 2 = q' ∧ ((l[q + 1]?).map (·.length) = some 1) ∧ l[q + 1]? ≠ some ['('] then [(q, q + 2)] else [])
      ++ candidates l (q' :: rest)
  | _ => []

/-- filter_character_literal_candidates: `lLiterals[iIndex-1]` wraps to the last element at 0 -/
def filterCandidates (lits : List (Nat × Nat)) : List (Nat × Nat) :=
  match lits.getLast? with
  | none => []
  | some last =>
    let n := lits.length
    ((List.range (n - 1)).filterMap fun i =>
      match lits[i]?, lits[i + 1]?, (if i = 0 then some last else lits[i - 1]?) with
      | some cur, some nxt, some prv => if cur.2 = nxt.1 ∧ cur.1 = prv.2 then none else some cur
      | _, _, _ => none) ++ [last]

def combineCharLiterals (l : List Str) : List Str :=
  let lits := candidates l (indexesOf sq l 0)
  if lits.length = 0 then l
  else combineQuotePairs (filterCandidates lits).reverse l

/-! ### pass 8 — split_natural_numbers -/

/-- Python `str.split(sep)` on the *positions* selected by `p` (a one-character separator) -/
def splitOnP (p : Char → Bool) : Str → Str → List Str
  | [], cur => [cur]
  | c :: cs, cur => if p c then cur :: splitOnP p cs [] else splitOnP p cs (cur ++ [c])

/-- `s.isdigit()` of the lower-cased segment: non-empty, every character a digit -/
def segIsDigit (s : Str) : Bool := !s.isEmpty && s.all T.isDigitL

/-- is_natural_number -/
def isNaturalNumber (s : Str) : Bool :=
  let lString := splitOnP T.lowerIsE s []
  let lBase := splitOnP (· == '.') (lString.headD []) [] ++ lString.tail
  (lBase.dropLast).all (segIsDigit T)

/-- parse_natural_number -/
def pnGo : Str → Str → List Str → List Str
  | [], tmp, acc => if tmp.length > 0 then acc ++ [tmp] else acc
  | c :: cs, tmp, acc =>
    if T.lowerIsE c then pnGo cs [] (acc ++ [tmp] ++ [[c]])
    else pnGo cs (tmp ++ [c]) acc

def parseNaturalNumber (s : Str) : List Str := pnGo T s [] []

def splitNaturalNumbers (l : List Str) : List Str :=
  l.flatMap fun s => if isNaturalNumber T s then parseNaturalNumber T s else [s]

/-! ### pass 9 — split_bit_string_literal_integer_and_base_specifier -/

/-- get_bit_string_literal_integer_and_base_specifier_split_index: `none` is Python's `None` -/
def splitIndex : Str → Nat → Option Nat
  | [], _ => none
  | c :: cs, i => if !T.isDigit c then some i else splitIndex cs (i + 1)

/-- parse_…: `s[:None]` and `s[None:]` are both the whole string -/
def parseBitString (s : Str) : List Str :=
  let parts :=
    match splitIndex T s 0 with
    | some i => [s.take i, s.drop i]
    | none => [s, s]
  parts.filter (· ≠ [])

def endsBoxd (s : Str) : Bool :=
  match s.getLast? with
  | some c => T.lowerBoxd c
  | none => false

def startsDq (s : Str) : Bool :=
  match s with
  | '"' :: _ => true
  | _ => false

def splitBitStrings : List Str → List Str
  | [] => []
  | [s] => [s]
  | s :: n :: rest =>
    (if endsBoxd T s && startsDq n then parseBitString T s else [s]) ++ splitBitStrings (n :: rest)

/-! ### tokens.create -/

def create (s : Str) : List Str :=
  splitBitStrings T <| splitNaturalNumbers T <| combineCharLiterals <| combineWords T <|
    combineTwo T <| combineThree T <| combineBackslash T <| combineStringLiterals <|
    combineWhitespace T <| toChars s

/-- the intermediate results, for the pass-by-pass correspondence check -/
def passes (s : Str) : List (List Str) :=
  let p0 := toChars s
  let p1 := combineWhitespace T p0
  let p2 := combineStringLiterals p1
  let p3 := combineBackslash T p2
  let p4 := combineThree T p3
  let p5 := combineTwo T p4
  let p6 := combineWords T p5
  let p7 := combineCharLiterals p6
  let p8 := splitNaturalNumbers T p7
  let p9 := splitBitStrings T p8
  [p1, p2, p3, p4, p5, p6, p7, p8, p9]

end Vsgm.Lex
