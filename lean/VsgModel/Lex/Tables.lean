/- the tokenizer's tables, instantiated from the generated CPython / tokens.py tables -/
import VsgModel.Lex.Create
import VsgModel.Generated.CharTables
namespace Vsgm.Lex
open Vsgm

def inRanges (rs : List (Nat × Nat)) (n : Nat) : Bool := rs.any (fun r => r.1 ≤ n && n ≤ r.2)

/-- the tables of the running system: CPython's predicates and the symbol lists of tokens.py -/
def pyTables : LexTables where
  isSpace c := inRanges Gen.spaceRanges c.toNat
  isDigit c := inRanges Gen.digitRanges c.toNat
  isDigitL c := inRanges Gen.digitRanges c.toNat
  lowerIsE c := c.toNat ∈ Gen.lowerECodes
  lowerBoxd c := c.toNat ∈ Gen.lowerBoxdCodes
  single := Gen.singleSymbols.map String.toList
  two := Gen.twoSymbols.map String.toList
  three := Gen.threeSymbols.map String.toList
  stop := Gen.stopChars.map String.toList

end Vsgm.Lex
