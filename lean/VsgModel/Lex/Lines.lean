/-
  Layer T, line layer: how a file becomes the flat token list `lAllObjects` before the
  classifier productions run, and how it is emitted again.

    * `vsg/vhdlFile/utils.py:823-839`  `read_vhdlfile` — text-mode iteration (universal newlines)
      and `sLine.rstrip("\r\n")`
    * `vsg/vhdlFile/vhdlFile.py:128-145` `_processFile` — `sLine.rstrip("\n").rstrip("\r")`,
      `tokens.create`, `blank.classify`, `whitespace.classify`, `comment.classify`,
      `preprocessor.classify`, `pragma.classify`, one `carriage_return` per line
    * `vsg/vhdlFile/vhdlFile.py:197-209,506-519` `get_lines`, `split_on_carriage_return`

  Transcribed as it is, oddities included:
    * `whitespace.classify` turns every token that contains a tab but no space into a
      `parser.whitespace` (also a string literal `"<tab>"`); a token of other white space
      (form feed, U+00A0 …) stays a `parser.item`
    * `comment.classify` indexes `lObjects[iToken - 1]` (`ending_token_should_exist`,
      `remove_last_star_from_previous_token`); since /repo c5cb15b the test is guarded by
      `iToken > 0` (before, Python's negative index read and overwrote the LAST token of the line
      at `iToken = 0`); the subscript itself is still modelled with Python's semantics (`prevIdx`)
    * `merge_text_tokens` merges everything between the first and the last text token of a line,
      delimiters included
    * `preprocessor.classify` collapses the line after `comment.classify` has already updated the
      delimited-comment state
    * `pragma.classify` looks at token values only, so a delimited-comment text `--vhdl_comp_off`
      opens an ignore region
  Everything Python can raise here (`IndexError` of a subscript) is a `none`.
-/
import VsgModel.Tok
import VsgModel.Lex.Create
namespace Vsgm.Lex
open Vsgm

/-! ### token kinds of the pre-classification layer -/

inductive LKind where
  | item          -- parser.item (not yet classified)
  | ws            -- parser.whitespace
  | blank         -- parser.blank_line
  | comment       -- parser.comment
  | dcBegin       -- token.delimited_comment.beginning
  | dcText        -- token.delimited_comment.text
  | dcEnd         -- token.delimited_comment.ending
  | preproc       -- parser.preprocessor
  | cr            -- parser.carriage_return
  | pragmaOpen    -- token.pragma.open
  | pragmaClose   -- token.pragma.close
  | pragmaSingle  -- token.pragma.single
  | pragmaIgnore  -- token.pragma.ignore
  deriving DecidableEq, Repr, Inhabited

def LKind.code : LKind → Nat
  | .item => 0 | .ws => 1 | .cr => 2 | .blank => 3 | .comment => 4 | .dcBegin => 5 | .dcText => 6
  | .dcEnd => 7 | .preproc => 9 | .pragmaOpen => 12 | .pragmaClose => 13 | .pragmaSingle => 14
  | .pragmaIgnore => 15

/-- the category of `VsgModel/Tok.lean` -/
def LKind.toKind : LKind → Kind
  | .item => .code | .ws => .ws | .cr => .cr | .blank => .blank | .comment => .comment
  | .dcBegin => .dcBegin | .dcText => .dcText | .dcEnd => .dcEnd | .preproc => .preproc
  | .pragmaOpen | .pragmaClose | .pragmaSingle | .pragmaIgnore => .pragma

/-- `isinstance(o, parser.comment)`: the pragma classes open/close/single derive from it -/
def LKind.isCommentClass : LKind → Bool
  | .comment | .pragmaOpen | .pragmaClose | .pragmaSingle => true
  | _ => false

structure LTok where
  kind : LKind
  val  : Str
  deriving DecidableEq, Repr, Inhabited

def LTok.isCr (t : LTok) : Bool := t.kind == .cr

/-- the values of a token list -/
def vals (l : List LTok) : List Str := l.map (·.val)

/-! ### line ends -/

/-- Python `s.rstrip(chars)`: drop the longest suffix made of characters satisfying `p` -/
def rstripP (p : Char → Bool) : Str → Str
  | [] => []
  | c :: cs =>
    let r := rstripP p cs
    if r.isEmpty && p c then [] else c :: r

def isEolChar (c : Char) : Bool := c == '\n' || c == '\r'

/-- `read_vhdlfile`: `sLine.rstrip("\r\n")` — the argument is a character SET -/
def stripEol (s : Str) : Str := rstripP isEolChar s

/-- `_processFile`: `sLine.rstrip("\n").rstrip("\r")` -/
def stripNlCr (s : Str) : Str := rstripP (· == '\r') (rstripP (· == '\n') s)

/-- iteration over a text-mode file object opened with `newline=None` (universal newlines):
    `\n`, `\r\n` and a lone `\r` end a line and are delivered as `\n`; nothing else does (not
    form feed, vertical tab, U+0085, U+2028 — those only count for `str.splitlines`).
    `afterCr`: the previous character was a `\r` that already ended a line. -/
def iterGo : Str → Str → Bool → List Str
  | [], cur, _ => if cur.isEmpty then [] else [cur]
  | c :: cs, cur, afterCr =>
    if c = '\n' then
      if afterCr then iterGo cs cur false
      else (cur ++ ['\n']) :: iterGo cs [] false
    else if c = '\r' then (cur ++ ['\n']) :: iterGo cs [] true
    else iterGo cs (cur ++ [c]) false

def iterLines (text : Str) : List Str := iterGo text [] false

/-- `read_vhdlfile` on the decoded text of a file -/
def readLines (text : Str) : List Str := (iterLines text).map stripEol

/-- what `write_vhdl_file` writes for `linesep = "\n"`: `"\n".join(lines) + "\n"` -/
def joinEol (eol : Str) (ls : List Str) : Str := (ls.map (· ++ eol)).flatten

/-! ### blank.classify -/

def blankClassify (inside : Bool) (objs : List LTok) : List LTok :=
  if objs.length = 0 && !inside then objs ++ [⟨.blank, []⟩] else objs

/-! ### whitespace.classify -/

def isStringLiteral (s : Str) : Bool := s.head? == some '"' && s.getLast? == some '"'
def isCharLiteral (s : Str) : Bool := s.head? == some '\'' && s.getLast? == some '\''

/-- the decision of `whitespace.classify` for one token string -/
def isWsToken (s : Str) : Bool :=
  if s.contains ' ' then
    if isStringLiteral s then false
    else if isCharLiteral s then false
    else true
  else if s.contains '\t' then true
  else false

/-- `for iToken, sToken in enumerate(lTokens): … lObjects[iToken] = parser.whitespace(sToken)` -/
def wsGo : List Str → Nat → List LTok → List LTok
  | [], _, objs => objs
  | s :: ss, i, objs => wsGo ss (i + 1) (if isWsToken s then objs.set i ⟨.ws, s⟩ else objs)

def wsClassify (toks : List Str) (objs : List LTok) : List LTok := wsGo toks 0 objs

/-! ### comment.classify -/

structure CState where
  objs   : List LTok
  inside : Bool         -- oOptions.bInsideDelimitedComment
  deriving DecidableEq, Repr

def dashdash : Str := ['-', '-']
def slashStar : Str := ['/', '*']
def starSlash : Str := ['*', '/']
def slash : Str := ['/']

/-- Python `l[i - 1]` for `i ≥ 0`: at `i = 0` the index `-1` is the last element -/
def prevIdx (i len : Nat) : Nat := if i = 0 then len - 1 else i - 1

/-- classify_delimited_comment_text: `if inside: lObjects[iToken] = text(sToken)` -/
def textStep (i : Nat) (o : LTok) (s : CState) : List LTok :=
  if s.inside then s.objs.set i ⟨.dcText, o.val⟩ else s.objs

/-- the body of classify_single_line_comment once `--` was found at `i` (value `v`): everything up
    to the end of the line, except a last token that `isspace()`, is appended to the comment and
    popped from the list -/
def singleLine (T : LexTables) (i : Nat) (v : Str) (objs : List LTok) : Option (List LTok) :=
  match objs.getLast? with
  | none => none         -- lObjects[-1] of an empty list
  | some l =>
    let e := if strIsSpace T l.val then objs.length - 1 else objs.length
    let cnt := e - (i + 1)
    let sTok := v ++ (vals ((objs.drop (i + 1)).take cnt)).flatten
    some ((objs.take (i + 1) ++ objs.drop (i + 1 + cnt)).set i ⟨.comment, sTok⟩)

/-- classify_delimited_comment_open_keyword -/
def openStep (i : Nat) (v : Str) (objs : List LTok) (inside : Bool) : CState :=
  if !inside && v == slashStar then ⟨objs.set i ⟨.dcBegin, v⟩, true⟩ else ⟨objs, inside⟩

/-- classify_closing_comment_delimiters (`v` is the value at `i`) -/
def closeStep (i : Nat) (v : Str) (s : CState) : Option CState :=
  if s.inside && v == starSlash then
    -- ending_token_exists
    some ⟨s.objs.set i ⟨.dcEnd, v⟩, false⟩
  else if s.inside && decide (i > 0) && v == slash then
    -- ending_token_should_exist: inside and iToken > 0 and value == "/" and
    -- lObjects[iToken - 1].get_value().endswith("*")
    let j := prevIdx i s.objs.length
    match s.objs[j]? with
    | none => none
    | some p =>
      if p.val.getLast? == some '*' then
        -- replace_token_with_ending_token: ending("*" + sToken)
        let objs3 := s.objs.set i ⟨.dcEnd, '*' :: v⟩
        -- remove_last_star_from_previous_token: text(value[:-1])
        match objs3[j]? with
        | none => none
        | some p' => some ⟨objs3.set j ⟨.dcText, p'.val.dropLast⟩, false⟩
      else some s
  else some s

/-- one iteration of the loop of `comment.classify` at index `i`; `none` = IndexError;
    the Boolean is the `break`.  (The value at `i` is read once: the steps in between replace
    the object at `i` only by objects with the same value.) -/
def commentIter (T : LexTables) (i : Nat) (s : CState) : Option (CState × Bool) :=
  match s.objs[i]? with
  | none => none
  | some o =>
    let objs1 := textStep i o s
    if !s.inside && dashdash.isPrefixOf o.val then
      match singleLine T i o.val objs1 with
      | none => none
      | some objs => some (⟨objs, s.inside⟩, true)
    else
      match closeStep i o.val (openStep i o.val objs1 s.inside) with
      | none => none
      | some s' => some (s', false)

/-- `for iToken, sToken in enumerate(lTokens)`: `k` iterations left, starting at index `i` -/
def commentLoop (T : LexTables) : Nat → Nat → CState → Option CState
  | 0, _, s => some s
  | k + 1, i, s =>
    match commentIter T i s with
    | none => none
    | some (s', true) => some s'
    | some (s', false) => commentLoop T k (i + 1) s'

/-- index of the last element satisfying `p` -/
def lastIdx (p : LTok → Bool) : List LTok → Nat → Option Nat
  | [], _ => none
  | t :: ts, i =>
    match lastIdx p ts (i + 1) with
    | some j => some j
    | none => if p t then some i else none

def isText (t : LTok) : Bool := t.kind == .dcText

/-- merge_text_tokens -/
def mergeText (objs : List LTok) : List LTok :=
  match objs.findIdx? isText, lastIdx isText objs 0 with
  | some a, some b =>
    if a < b then
      objs.take a ++ [⟨.dcText, (vals ((objs.drop a).take (b + 1 - a))).flatten⟩] ++ objs.drop (b + 1)
    else objs
  | _, _ => objs

def commentClassify (T : LexTables) (toks : List Str) (objs : List LTok) (inside : Bool) :
    Option (List LTok × Bool) :=
  let objs0 := if objs.length = 0 && inside then objs ++ [⟨.dcText, []⟩] else objs
  match commentLoop T toks.length 0 ⟨objs0, inside⟩ with
  | none => none
  | some s => some (mergeText s.objs, s.inside)

/-! ### preprocessor.classify -/

/-- `try: if lTokens[0].startswith("#") or (lTokens[0].startswith(" ") and
    lTokens[1].startswith("#")): … except IndexError: return` -/
def preprocClassify (toks : List Str) (objs : List LTok) : List LTok :=
  match toks with
  | [] => objs
  | t0 :: rest =>
    if t0.head? == some '#' then [⟨.preproc, toks.flatten⟩]
    else if t0.head? == some ' ' then
      match rest with
      | [] => objs
      | t1 :: _ => if t1.head? == some '#' then [⟨.preproc, toks.flatten⟩] else objs
    else objs

/-! ### pragma.classify -/

/-- does one of the configured regular expressions (`pragma: regexp: open / close / single`)
    match the raw line `dVars["line"]` — computed outside, the model only sees the answers -/
structure PragmaRx where
  isOpen   : Bool
  isClose  : Bool
  isSingle : Bool
  deriving DecidableEq, Repr, Inhabited

def openPragmas : List Str := ["--vhdl_comp_off".toList]
def closePragmas : List Str := ["--vhdl_comp_on".toList]

def tokenIsAComment (o : Option LTok) : Bool :=
  match o with
  | some t => dashdash.isPrefixOf t.val
  | none => false      -- IndexError → False

def lineStartsWithComment (objs : List LTok) : Bool :=
  tokenIsAComment objs[0]? || tokenIsAComment objs[1]?

def replaceAllComments (k : LKind) (objs : List LTok) : List LTok :=
  objs.map fun t => if t.kind.isCommentClass then ⟨k, t.val⟩ else t

def replaceFirstComment (k : LKind) : List LTok → List LTok
  | [] => []
  | t :: ts => if t.kind.isCommentClass then ⟨k, t.val⟩ :: ts else t :: replaceFirstComment k ts

/-- classify_pragmas -/
def classifyPragmas (rx : PragmaRx) (objs : List LTok) : List LTok :=
  if rx.isOpen then replaceAllComments .pragmaOpen objs
  else if rx.isClose then replaceAllComments .pragmaClose objs
  else if rx.isSingle then replaceFirstComment .pragmaSingle objs
  else objs

/-- set_tokens_to_ignore: every non-whitespace token becomes `pragma.ignore`; the region ends
    (for the NEXT line) when a token's value is a close pragma -/
def setTokensToIgnore (objs : List LTok) : List LTok × Bool :=
  (objs.map fun t => if t.kind == .ws then t else ⟨.pragmaIgnore, t.val⟩,
   !(objs.any fun t => t.val ∈ closePragmas))

/-- the first `if` of `pragma.classify`: classify_pragmas, check_for_open_pragmas -/
def pragmaOpenStep (rx : PragmaRx) (region : Bool) (objs : List LTok) : List LTok × Bool :=
  if !region && lineStartsWithComment objs then
    (classifyPragmas rx objs, region || (classifyPragmas rx objs).any fun t => t.val ∈ openPragmas)
  else (objs, region)

def pragmaClassify (rx : PragmaRx) (region : Bool) (objs : List LTok) : List LTok × Bool :=
  let p := pragmaOpenStep rx region objs
  if p.2 then setTokensToIgnore p.1 else p

/-! ### one line, a whole file -/

/-- the state `_processFile` carries from line to line -/
structure LState where
  inside : Bool      -- oOptions.bInsideDelimitedComment
  region : Bool      -- dVars["pragma"]
  deriving DecidableEq, Repr, Inhabited

def LState.init : LState := ⟨false, false⟩

/-- the body of the loop of `_processFile` without the trailing carriage return -/
def classifyLine (T : LexTables) (rx : PragmaRx) (st : LState) (raw : Str) : Option (List LTok × LState) :=
  let toks := create T (stripNlCr raw)
  let objs0 : List LTok := toks.map fun t => ⟨.item, t⟩
  let objs1 := blankClassify st.inside objs0
  let objs2 := wsClassify toks objs1
  match commentClassify T toks objs2 st.inside with
  | none => none
  | some (objs3, inside') =>
    let objs4 := preprocClassify toks objs3
    let p := pragmaClassify rx st.region objs4
    some (p.1, ⟨inside', p.2⟩)

def crTok : LTok := ⟨.cr, ['\n']⟩

/-- the loop of `_processFile`: `lAllObjects` before `design_file.tokenize` -/
def processLines (T : LexTables) (rx : Str → PragmaRx) : LState → List Str → Option (List LTok)
  | _, [] => some []
  | st, l :: ls =>
    match classifyLine T (rx l) st l with
    | none => none
    | some (objs, st') =>
      match processLines T rx st' ls with
      | none => none
      | some rest => some (objs ++ crTok :: rest)

/-! ### get_lines -/

/-- split_on_carriage_return -/
def splitGo {α : Type} (isCr : α → Bool) : List α → List α → List (List α)
  | [], cur => if cur.length > 0 then [cur] else []
  | o :: os, cur => if isCr o then cur :: splitGo isCr os [] else splitGo isCr os (cur ++ [o])

def splitOnCr {α : Type} (isCr : α → Bool) (l : List α) : List (List α) := splitGo isCr l []

/-- `vhdlFile.get_lines` for any token representation: element 0 is `""` -/
def getLinesG {α : Type} (isCr : α → Bool) (val : α → Str) (l : List α) : List Str :=
  [] :: (splitOnCr isCr l).map fun g => (g.map val).flatten

def getLinesL (l : List LTok) : List Str := getLinesG LTok.isCr (·.val) l
def getLines (l : List Tok) : List Str := getLinesG Tok.isCr (·.val) l

/-! ### the classifier productions and post passes as a contract -/

/-- the strict one-for-one form (`utils.assign_token`, `assign_next_token` …: `lObjects[i] =
    token(lObjects[i].get_value())`): same values in the same order, hence the same length;
    carriage returns stay carriage returns, nothing else becomes one -/
def OneForOne (inp : List LTok) (out : List Tok) : Prop :=
  out.map (·.val) = inp.map (·.val) ∧ out.map Tok.isCr = inp.map LTok.isCr

/-- what the productions really do (measured: 146 of 2604 accepted corpus files are not
    one-for-one): a token is replaced by itself re-classified OR by a non-empty group of tokens whose
    values concatenate to its value (`ieee.std_logic_1164.all` becomes library_name `.`
    package_name `.` all_keyword: `classify/utils.py`, `instantiated_unit.classify_entity_name`,
    `context_reference`); a carriage return is replaced by one carriage return; no other token
    becomes or contains a carriage return -/
inductive Refines : List LTok → List Tok → Prop
  | nil : Refines [] []
  | cr (t : LTok) (c : Tok) (inp : List LTok) (out : List Tok) :
      t.isCr = true → c.isCr = true → Refines inp out → Refines (t :: inp) (c :: out)
  | tok (t : LTok) (g : List Tok) (inp : List LTok) (out : List Tok) :
      t.isCr = false → g ≠ [] → (∀ x ∈ g, x.isCr = false) → (g.map (·.val)).flatten = t.val →
      Refines inp out → Refines (t :: inp) (g ++ out)

/-- the contract of `design_file.tokenize` + post passes on one file -/
def ValuePreservingOn (inp : List LTok) (out : List Tok) : Prop := Refines inp out

def ValuePreserving (classify : List LTok → List Tok) : Prop := ∀ l, ValuePreservingOn l (classify l)

end Vsgm.Lex
