/-
  C08, layer T: when does the text of a line, emitted as the concatenation of the token values
  of the in-memory model, tokenise back into exactly those values?
  `WellFormedLine` is the decidable guard of `C08.emit_retokenise_partial`:
    * no value of the line contains a quote or backslash character (so the three passes whose
      effect is global over the line — string literals, extended identifiers, character
      literals — and the bit-string pass are inert),
    * the line is an alternation of single whitespace values (non-empty, all `isspace`) and
      non-empty whitespace-free *segments*; leading / trailing whitespace is allowed,
    * each segment, on its own, re-tokenises to itself (a local computation on the few values
      between two blanks).
  The theorem says that nothing else has to be looked at: tokenisation never looks across a
  whitespace token.
-/
import VsgModel.Lex.Create
import VsgModel.Lex.Tables
namespace Vsgm.Lex
open Vsgm

def isQuoteChar (c : Char) : Bool := c == '"' || c == '\'' || c == '\\'

/-- no `"`, `'`, `\` -/
def quoteFree (s : Str) : Bool := s.all (fun c => !isQuoteChar c)

variable (T : LexTables)

def spaceFree (s : Str) : Bool := s.all (fun c => !T.isSpace c)

/-- a maximal whitespace-free run of values: non-empty text, no whitespace, no quote character,
    and the tokenizer gives the values back -/
def segOk (seg : List Str) : Bool :=
  !seg.flatten.isEmpty && spaceFree T seg.flatten && quoteFree seg.flatten && (create T seg.flatten == seg)

/-- `acc` = the values of the segment read so far -/
def wfGo : List Str → List Str → Bool
  | [], acc => segOk T acc
  | v :: vs, acc =>
    if strIsSpace T v then quoteFree v && segOk T acc && (vs.isEmpty || wfGo vs [])
    else wfGo vs (acc ++ [v])

def WellFormedLine (vals : List Str) : Bool :=
  match vals with
  | [] => true
  | v :: vs =>
    if strIsSpace T v then quoteFree v && (vs.isEmpty || wfGo T vs [])
    else wfGo T (v :: vs) []

/-- two lines differ only in the size of their whitespace tokens -/
inductive SameUpToWhitespace (T : LexTables) : List Str → List Str → Prop
  | nil : SameUpToWhitespace T [] []
  | same (a : Str) {l l' : List Str} : SameUpToWhitespace T l l' → SameUpToWhitespace T (a :: l) (a :: l')
  | ws (a b : Str) {l l' : List Str} : strIsSpace T a = true → strIsSpace T b = true → quoteFree b = true →
      SameUpToWhitespace T l l' → SameUpToWhitespace T (a :: l) (b :: l')

/-- what the harness asks for: the guard, whether the model re-tokenises to the values, and
    the tokens of the model tokenizer -/
def retok (vals : List Str) : Bool × Bool × List Str :=
  let toks := create T vals.flatten
  (WellFormedLine T vals, toks == vals, toks)

/-- the conditions on the tables under which `emit_retokenise_partial` is proved
    (all hold for `pyTables`, see `C08.pyTables_ok`) -/
structure TablesOk : Prop where
  threeLen : ∀ y ∈ T.three, y.length = 3
  twoLen : ∀ y ∈ T.two, y.length = 2
  threeNoSpace : ∀ y ∈ T.three, ∀ c ∈ y, T.isSpace c = false
  twoNoSpace : ∀ y ∈ T.two, ∀ c ∈ y, T.isSpace c = false
  spaceNotE : ∀ c, T.isSpace c = true → T.lowerIsE c = false
  emptyNotSingle : [] ∉ T.single

end Vsgm.Lex
