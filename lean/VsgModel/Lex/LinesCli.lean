/-
  driver mode `lines` (executable glue only)

  request   F <n>                       then n lines   <o><c><s> TAB <raw line, code points joined by '.'>
            (o, c, s ∈ {0,1}: does an open / close / single pragma regexp match the raw line)
  reply     n lines   <kind code>:<value> … TAB <inside><region>      (or `ERR`)
            1 line    G <line> <line> …       get_lines of the whole list, `e` = empty string
                                              (or `G ERR` when processLines is `none`)
  request   R <text>                    decoded file content
  reply     1 line    <line> <line> …         read_vhdlfile's list, `e` = empty string
-/
import VsgModel.Wire
import VsgModel.Lex.Lines
import VsgModel.Lex.Tables
namespace Vsgm.Lex
open Vsgm Vsgm.Wire

def encLine (s : Str) : String := if s.isEmpty then "e" else encStr s

def encLTok (t : LTok) : String := s!"{t.kind.code}:{encStr t.val}"

def bit (b : Bool) : String := if b then "1" else "0"

def parseRx (s : String) : PragmaRx :=
  match s.toList with
  | [a, b, c] => ⟨a == '1', b == '1', c == '1'⟩
  | _ => ⟨false, false, false⟩

def parseReqLine (line : String) : PragmaRx × Str :=
  match line.splitOn "\t" with
  | [f, v] => (parseRx f, decStr v)
  | [f] => (parseRx f, [])
  | _ => (⟨false, false, false⟩, [])

def stripNl (line : String) : String :=
  if line.endsWith "\n" then (line.dropEnd 1).toString else line

partial def readN (h : IO.FS.Stream) : Nat → List (PragmaRx × Str) → IO (List (PragmaRx × Str))
  | 0, acc => pure acc.reverse
  | n + 1, acc => do
    let l ← h.getLine
    readN h n (parseReqLine (stripNl l) :: acc)

/-- the per-line replies, threading the state exactly as `processLines` does -/
def perLine (T : LexTables) : LState → List (PragmaRx × Str) → List String
  | _, [] => []
  | st, (rx, l) :: rest =>
    match classifyLine T rx st l with
    | none => ["ERR"]
    | some (objs, st') =>
      (" ".intercalate (objs.map encLTok) ++ "\t" ++ bit st'.inside ++ bit st'.region) :: perLine T st' rest

/-- `processLines` wants the regexp answers as a function of the raw line; the harness sends
    them per line, so the function is the lookup by position -/
def processIndexed (T : LexTables) : LState → List (PragmaRx × Str) → Option (List LTok)
  | _, [] => some []
  | st, (rx, l) :: ls =>
    match classifyLine T rx st l with
    | none => none
    | some (objs, st') =>
      match processIndexed T st' ls with
      | none => none
      | some rest => some (objs ++ crTok :: rest)

partial def linesMain (stdin stdout : IO.FS.Stream) : IO Unit := do
  let line ← stdin.getLine
  if line.isEmpty then return ()
  let line := stripNl line
  match line.splitOn " " with
  | ["F", n] =>
    let reqs ← readN stdin n.toNat! []
    let out := perLine pyTables LState.init reqs
    -- a file that stopped with ERR has fewer reply lines: pad so that the reader stays in step
    let out := out ++ List.replicate (reqs.length - out.length) "ERR"
    for o in out do stdout.putStrLn o
    match processIndexed pyTables LState.init reqs with
    | none => stdout.putStrLn "G ERR"
    | some objs => stdout.putStrLn ("G " ++ " ".intercalate ((getLinesL objs).map encLine))
    stdout.flush
    linesMain stdin stdout
  | ["R", t] =>
    stdout.putStrLn (" ".intercalate ((readLines (decStr t)).map encLine)); stdout.flush
    linesMain stdin stdout
  | ["R"] =>
    stdout.putStrLn (" ".intercalate ((readLines []).map encLine)); stdout.flush
    linesMain stdin stdout
  | _ =>
    stdout.putStrLn ("error bad line " ++ line.take 40); stdout.flush
    linesMain stdin stdout

end Vsgm.Lex
