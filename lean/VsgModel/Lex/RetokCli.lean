/-
  driver mode `retok`: one line of token values per input line (values separated by ' ', each
  value = code points joined by '.', the empty value is `e`), reply
    R <TAB> wellFormed(0/1) <TAB> create(flatten vals) == vals (0/1) <TAB> tokens of create(flatten vals)
-/
import VsgModel.Lex.Retok
import VsgModel.Wire
namespace Vsgm.Lex
open Vsgm Vsgm.Wire

def decVals (line : String) : List Str :=
  if line.isEmpty then [] else (line.splitOn " ").map (fun p => if p == "e" then [] else decStr p)

partial def retokLoop (h : IO.FS.Stream) (out : IO.FS.Stream) : IO Unit := do
  let line ← h.getLine
  if line.isEmpty then return ()
  let line := if line.endsWith "\n" then (line.dropEnd 1).toString else line
  let vals := decVals line
  let (wf, same, toks) := retok pyTables vals
  let b (x : Bool) := if x then "1" else "0"
  out.putStrLn ("R\t" ++ b wf ++ "\t" ++ b same ++ "\t" ++ " ".intercalate (toks.map fun t => if t.isEmpty then "e" else encStr t))
  out.flush
  retokLoop h out

def retokMain (stdin stdout : IO.FS.Stream) : IO Unit := do
  retokLoop stdin stdout
  stdout.flush

end Vsgm.Lex
