/-
  `rule_list.check_rules` (vsg/rule_list.py:204-238) and the tail of `apply_rules`
  (vsg/apply_rules.py:117-131) with the file model as a parameter `α`: whatever the analyses
  read (token classes, values, `indent`, `hierarchy`, code tags) is part of `α`.
-/
import VsgModel.Engine.RuleRun
namespace Vsgm.Reparse
open Vsgm

/-- a rule as `check_rules` uses it: the configured attributes and its analysis -/
structure CheckRule (α : Type) where
  cfg     : RuleCfg
  analyze : α → List Viol

/-- one line block of the report: rule id, is the severity of error type, its violations -/
structure Entry where
  id       : String
  sevError : Bool
  viols    : List Viol
  deriving Repr, DecidableEq

variable {α : Type}

/-- the rules analysed in phase `p`, in order: sub-phases 0 … 5, disabled rules filtered out
    (no prerequisite reordering in `check_rules`) -/
def checkPhase (rs : List (CheckRule α)) (p : Nat) (f : α) : List Entry :=
  (List.range 6).flatMap fun (s : Nat) =>
    (((rs.filter (fun r => r.cfg.phase == (p : Int))).filter (fun r => r.cfg.subphase == (s : Int))).filter
      (fun r => !r.cfg.disabled)).map fun r => ⟨r.cfg.id, r.cfg.sevError, r.analyze f⟩

/-- `iFailures > 0`: some error-type rule reported something -/
def hasFailure (es : List Entry) : Bool := es.any (fun e => e.sevError && !e.viols.isEmpty)

/-- the phase loop: a skipped phase is `continue`d; after a phase with `self.violations` set
    the loop breaks unless `bAllPhases` -/
def checkGo (rs : List (CheckRule α)) (allPhases : Bool) (skip : List Nat) (f : α) : List Nat → Bool → List Entry
  | [], _ => []
  | p :: ps, viol =>
    if p ∈ skip then checkGo rs allPhases skip f ps viol
    else
      let rep := checkPhase rs p f
      let viol' := viol || hasFailure rep
      rep ++ (if viol' && !allPhases then [] else checkGo rs allPhases skip f ps viol')

/-- `check_rules(bAllPhases, lSkipPhase)` after `clear_violations()` -/
def checkRules (rs : List (CheckRule α)) (allPhases : Bool) (skip : List Nat) (f : α) : List Entry :=
  checkGo rs allPhases skip f [1, 2, 3, 4, 5, 6, 7] false

/-- what `vsg --fix` prints: the same in-memory model the fix run ended with is re-checked -/
def reportAfterFix (rs : List (CheckRule α)) (allPhases : Bool) (skip : List Nat) (fixed : α) : List Entry :=
  checkRules rs allPhases skip fixed

/-- what a following plain `vsg` run prints: the written text is parsed afresh -/
def reportFresh (rs : List (CheckRule α)) (allPhases : Bool) (skip : List Nat) (reparse : α → α) (fixed : α) : List Entry :=
  checkRules rs allPhases skip (reparse fixed)

end Vsgm.Reparse
