/-
  The post-phase-1 normalisation of `rule_list.fix` (vsg/rule_list.py:163-166):

      self.oVhdlFile.fix_blank_lines()            # lAllObjects = utils.fix_blank_lines(lAllObjects)
      self.oVhdlFile.fix_trailing_whitespace()    # lAllObjects = utils.fix_trailing_whitespace(lAllObjects)

  `vsg/vhdlFile/utils.py:769-806`, transcribed with their exception-driven control flow:
  `lTokens[iToken + 1]` raises IndexError at the last token (caught: fall through),
  `lTokens[iToken - 1]` at index 0 is `lTokens[-1]`, the LAST token (no exception),
  `lReturn.pop()` on the empty list raises IndexError (caught as well).

  `fixBlankLines` / `fixTrailingWhitespace` are the index-based transcriptions; `fblGo` / `ftwGo`
  are the structurally recursive forms the proofs use (equality proved in
  `VsgProofs/Lemmas/PostPhase1.lean`, not assumed).
-/
import VsgModel.Tok
import VsgModel.Base.KV
namespace Vsgm.Post
open Vsgm Vsgm.Base

/-- `parser.blank_line()` -/
def blankTok (blCls : Nat) : Tok := { cls := blCls, kind := .blank, val := [] }

/-- outcome of a `try:` block whose body is `if <cond>: …; continue`:
    `.ok true` = the `if` fired, `.ok false` = it did not, `.error` = IndexError caught, `pass` -/
abbrev Try := Except PyErr Bool

/-- first `try` of fix_blank_lines:
    `isinstance(oToken, carriage_return) and isinstance(lTokens[iToken + 1], carriage_return)` -/
def fblFirst (l : List Tok) (i : Nat) (t : Tok) : Try :=
  if t.kind == .cr then do
    let nx ← pyGet l ((i : Int) + 1)
    pure (nx.kind == .cr)
  else pure false

/-- second `try`: `isinstance(lTokens[iToken - 1], carriage_return) and isinstance(oToken, whitespace)
    and isinstance(lTokens[iToken + 1], carriage_return)` (short-circuit order kept) -/
def fblSecond (l : List Tok) (i : Nat) (t : Tok) : Try := do
  let pv ← pyGet l ((i : Int) - 1)
  if pv.kind == .cr then
    if t.kind == .ws then do
      let nx ← pyGet l ((i : Int) + 1)
      pure (nx.kind == .cr)
    else pure false
  else pure false

/-- what one loop iteration appends to `lReturn` -/
def fblStep (blCls : Nat) (l : List Tok) (i : Nat) (t : Tok) : List Tok :=
  match fblFirst l i t with
  | .ok true => [t, blankTok blCls]
  | _ =>
    match fblSecond l i t with
    | .ok true => [blankTok blCls]
    | _ => [t]

/-- `utils.fix_blank_lines` -/
def fixBlankLines (blCls : Nat) (l : List Tok) : List Tok :=
  l.zipIdx.flatMap (fun p => fblStep blCls l p.2 p.1)

/-- one loop iteration of fix_trailing_whitespace on the accumulator `lReturn` -/
def ftwStep (l : List Tok) (acc : List Tok) (i : Nat) (t : Tok) : List Tok :=
  let body : Except PyErr (Option (List Tok)) :=
    if t.kind == .cr then do
      let pv ← pyGet l ((i : Int) - 1)
      if pv.kind == .ws then
        match acc.getLast? with                      -- lReturn.pop()
        | none => throw .indexError                  -- "pop from empty list"
        | some _ => pure (some (acc.dropLast ++ [t]))  -- append; continue
      else pure none
    else pure none
  match body with
  | .ok (some acc') => acc'
  | _ => acc ++ [t]

/-- `utils.fix_trailing_whitespace` -/
def fixTrailingWhitespace (l : List Tok) : List Tok :=
  l.zipIdx.foldl (fun acc p => ftwStep l acc p.2 p.1) []

/-- the `post` parameter of `fixRun` -/
def postPhase1 (blCls : Nat) (l : List Tok) : List Tok :=
  fixTrailingWhitespace (fixBlankLines blCls l)

/-! ### structurally recursive forms -/

def headIsCr : List Tok → Bool
  | t :: _ => t.kind == .cr
  | [] => false

def lastIsCr (l : List Tok) : Bool :=
  match l.getLast? with
  | some t => t.kind == .cr
  | none => false

/-- `pcr` = the token before the head (for the first token: the LAST token of the list) is a CR -/
def fblGo (blCls : Nat) (pcr : Bool) : List Tok → List Tok
  | [] => []
  | t :: rest =>
    if t.kind == .cr && headIsCr rest then t :: blankTok blCls :: fblGo blCls true rest
    else if pcr && t.kind == .ws && headIsCr rest then blankTok blCls :: fblGo blCls false rest
    else t :: fblGo blCls (t.kind == .cr) rest

/-- a whitespace token directly followed by a carriage return disappears -/
def ftwGo : List Tok → List Tok
  | [] => []
  | t :: rest => if t.kind == .ws && headIsCr rest then ftwGo rest else t :: ftwGo rest

end Vsgm.Post
