/-
  `vsg/vhdlFile/extract/*.py`, third batch (work package WP3): the `…_in_between_tokens`,
  `…_when_between_tokens`, `…_unless_…` variants, `get_line_which_includes_tokens`,
  `get_tokens_from_beginning_of_line_containing_token_to_the_next_non_whitespace_token_to_the_right`,
  `get_sequence_of_tokens_matching_bounded_by_tokens`, `get_association_elements_between_tokens`,
  `get_tokens_matching_not_at_beginning_or_ending_of_line`,
  `get_tokens_from_non_whitespace_token_until_tokens`, `get_if_statement_conditions`.
-/
import VsgModel.Engine.TokenMap
import VsgModel.Engine.Extract
import VsgModel.Engine.Extract2
namespace Vsgm.TM.X
open Vsgm Vsgm.TM

variable {α : Type}

/-! ### get_tokens_from_beginning_of_line_containing_token_to_the_next_non_whitespace_token_to_the_right
    (5 rules).  `value` = `dMetaData["iTokenIndex"]`.  The start is the line break BEFORE the line
    (or the token itself on the first line); a `None` start or end ends in `TypeError`
    (`iEnd + 1`, `iToken - iStart`) -/

def bolToNextNonWs (f : List α) (ix : Index) (tok : Option Key) : Except PyErr (List (Toi α)) :=
  mapE (fun (i : Nat) =>
    ix.lineOf i >>= fun line =>
    ix.crBefore i >>= fun s =>
    match ix.nextNonWsIgnoringComments i, s with
    | none, _ => .error .typeError
    | some _, none => .error .typeError
    | some e, some s =>
      pure { start := some s, line := line, toks := pySlice f s (e + 1), value := some ((i : Int) - s) }) (ix.get tok)

/-! ### get_token_and_n_tokens_before_it_in_between_tokens (5 rules) and its two `unless`
    variants: the recorded line is the line of the START position -/

def windowsBefore (f : List α) (ix : Index) (n : Nat) (idxs : List Nat) : Except PyErr (List (Toi α)) :=
  filterMapE (fun (i : Nat) =>
    let s : Int := (i : Int) - (n : Int)
    if s ≥ 0 then
      ix.lineOf s >>= fun line => pure (some { start := some s, line := line, toks := pySlice f s ((i : Int) + 1) })
    else pure none) idxs

def nBeforeInBetween (f : List α) (ix : Index) (cs : List Cls) (n : Nat) (a b : Option Key) : Except PyErr (List (Toi α)) :=
  windowsBefore f ix n (filterBetween ix cs a b)

def nBeforeInBetweenUnless (f : List α) (ix : Index) (cs : List Cls) (n : Nat) (a b : Option Key)
    (un : List (Option Key × Option Key)) : Except PyErr (List (Toi α)) :=
  windowsBefore f ix n (filterUnless ix (filterBetween ix cs a b) un)

/-- `utils.filter_tokens_between_tokens_unless_token_exists_between_them`: for every start the
    first end after it that has no stop token in between -/
def filterBetweenUnlessStop (ix : Index) (cs : List Cls) (a b stop : Option Key) : List Nat :=
  cs.flatMap fun c => (ix.get a).flatMap fun s =>
    match (ix.get b).find? (fun e => decide (e > s) && !(ix.get stop).any fun st => decide (s < st) && decide (st < e)) with
    | some e => ix.getBetween c.uid s e
    | none => []

def nBeforeInBetweenUnlessStop (f : List α) (ix : Index) (cs : List Cls) (n : Nat) (a b stop : Option Key) :
    Except PyErr (List (Toi α)) :=
  windowsBefore f ix n (filterBetweenUnlessStop ix cs a b stop)

/-! ### get_token_and_n_tokens_after_it_when_between_tokens (5 rules) and its `unless` variant -/

def windowsAfter (f : List α) (ix : Index) (n : Nat) (idxs : List Nat) : Except PyErr (List (Toi α)) :=
  mapE (fun (i : Nat) =>
    ix.lineOf i >>= fun line =>
    pure { start := some (i : Int), line := line, toks := pySlice f i ((i : Int) + (n : Int) + 1) }) idxs

def nAfterWhenBetween (f : List α) (ix : Index) (cs : List Cls) (n : Nat) (a b : Option Key) : Except PyErr (List (Toi α)) :=
  windowsAfter f ix n (filterBetween ix cs a b)

def nAfterWhenBetweenUnless (f : List α) (ix : Index) (cs : List Cls) (n : Nat) (a b : Option Key)
    (un : List (Option Key × Option Key)) : Except PyErr (List (Toi α)) :=
  windowsAfter f ix n (filterUnless ix (filterBetween ix cs a b) un)

/-! ### get_tokens_matching_in_range_bounded_by_tokens_unless_between_tokens (3 rules) -/

def matchingInRangeUnless (f : List α) (ix : Index) (cs : List Cls) (a b : Option Key)
    (un : List (Option Key × Option Key)) : Except PyErr (List (Toi α)) :=
  let ls := (ix.pairIndexes a b).1
  let le := (ix.pairIndexes a b).2
  singles f ix (filterUnless ix (sortNat ((ls.zip le).flatMap fun se => cs.flatMap fun c => ix.getBetween c.uid se.1 se.2)) un)

/-! ### get_n_tokens_before_and_after_tokens_bounded_by_tokens (3 rules): like its unbounded sibling, a
    matched token with fewer than `iToken` tokens in front of it gets no region (`if iStart >= 0`, repaired) -/

def nBeforeAndAfterBounded (f : List α) (ix : Index) (n : Nat) (cs : List Cls) (a b : Option Key) :
    Except PyErr (List (Toi α)) :=
  filterMapE (fun (i : Nat) =>
    ix.lineOf i >>= fun line =>
    let s : Int := (i : Int) - (n : Int)
    if s ≥ 0 then pure (some { start := some s, line := line, toks := pySlice f s ((i : Int) + (n : Int) + 1) })
    else pure none) (filterBetween ix cs a b)

/-! ### get_line_which_includes_tokens (2 rules).  `value` = the attribute `token_index`.  On the
    first line `get_index_of_carriage_return_before_index` returns the position itself, so the
    region starts AFTER the token and `token_index` is `-1` -/

def lineWhichIncludes (f : List α) (ix : Index) (cs : List Cls) : Except PyErr (List (Toi α)) :=
  mapE (fun (i : Nat) =>
    ix.crBefore i >>= fun s0 =>
    let s : Int := match s0 with | none => 0 | some x => x + 1
    ix.crAfter i >>= fun e =>
    ix.lineOf i >>= fun line =>
    pure { start := some s, line := line, toks := pySlice f s e, value := some ((i : Int) - s) }) (idxsOfList ix cs)

/-! ### get_sequence_of_tokens_matching_bounded_by_tokens (2 rules): the raw position lists of
    `oStart` / `oEnd` are zipped -/

def sequenceMatchingBounded (V : View α) (f : List α) (ix : Index) (cs : List Cls) (a b : Option Key) :
    Except PyErr (List (Toi α)) :=
  let z := (ix.get a).zip (ix.get b)
  (match cs.head? with
   | some c0 => .ok (z.flatMap fun se => ix.getBetween c0.uid se.1 se.2)
   | none => if z.isEmpty then .ok [] else .error .indexError) >>= fun (idxs : List Nat) =>
  filterMapE (fun (i : Nat) =>
    ix.lineOf i >>= fun line =>
    seqMatches V f i 0 cs >>= fun ok =>
    if ok then pure (some { start := some (i : Int), line := line, toks := pySlice f i ((i : Int) + (cs.length : Int)) })
    else pure none) (sortNat idxs)

/-! ### get_association_elements_between_tokens (2 rules).  `iStartIndex` is a function local: a comma
    met while nothing is stored hands out an EMPTY region at the stale start; if the variable is
    still unbound (`UnboundLocalError`) or `iLineNumber` is still `None` the call is outside this
    model (`outside`).  A `formal_part` token met while storing MOVES the start without clearing
    the stored tokens -/

structure AeState (α : Type) where
  store : Bool := false
  start : Option Int := none     -- `none` = unbound
  lineNo : Option Nat := none    -- `iLineNumber`
  line : Nat
  tmp : List α := []
  out : List (Toi α) := []
  outside : Bool := false

structure AeCls where
  formal : Nat
  actual : Nat
  comma : Nat
  cr : Nat
  deriving Repr, DecidableEq

def aeStep (V : View α) (C : AeCls) (st : AeState α) (kt : Nat × α) : AeState α :=
  let t := kt.2
  let st1 : AeState α := if V.inst t C.formal then { st with store := true, start := some (kt.1 : Int), lineNo := some st.line } else st
  let st2 : AeState α :=
    if V.inst t C.actual && !st1.store then { st1 with store := true, start := some (kt.1 : Int), lineNo := some st1.line } else st1
  let st3 : AeState α := if st2.store then { st2 with tmp := st2.tmp ++ [t] } else st2
  let st4 : AeState α :=
    if V.inst t C.comma then
      match st3.start, st3.lineNo with
      | some s, some l => { st3 with out := st3.out ++ [{ start := some s, line := l, toks := st3.tmp }], tmp := [], store := false }
      | _, _ => { st3 with outside := true }
    else st3
  if V.inst t C.cr then { st4 with line := st4.line + 1 } else st4

def aeOuter (V : View α) (C : AeCls) (f : List α) (ix : Index) (acc : Option Int × Bool × List (Toi α)) (se : Nat × Nat) :
    Except PyErr (Option Int × Bool × List (Toi α)) :=
  ix.lineOf se.1 >>= fun line =>
  let st := (enumFrom se.1 (pySlice f se.1 ((se.2 : Int) + 1))).foldl (aeStep V C)
    { start := acc.1, line := line, out := acc.2.2, outside := acc.2.1 }
  if st.tmp.length > 0 then
    match st.start, st.lineNo with
    | some s, some l => pure (st.start, st.outside, st.out ++ [{ start := some s, line := l, toks := st.tmp }])
    | _, _ => pure (st.start, true, st.out)       -- unreachable: storing binds both
  else pure (st.start, st.outside, st.out)

/-- `none` = outside the modelled domain (see above) -/
def associationElements (V : View α) (C : AeCls) (f : List α) (ix : Index) (a b : Option Key) :
    Except PyErr (Option (List (Toi α))) :=
  foldlE (aeOuter V C f ix) (none, false, []) ((ix.pairIndexes a b).1.zip (ix.pairIndexes a b).2) >>= fun r =>
  pure (if r.2.1 then none else some r.2.2)

/-! ### get_tokens_matching_not_at_beginning_or_ending_of_line (whitespace_002) -/

def matchingNotAtLineEnds (f : List α) (ix : Index) (cs : List Cls) : Except PyErr (List (Toi α)) :=
  let crs := ix.get (some crKey)
  singles f ix ((idxsOfList ix cs).filter fun (i : Nat) => !memInt ((i : Int) - 1) crs && !memInt ((i : Int) + 1) crs)

/-! ### get_tokens_from_non_whitespace_token_until_tokens (instantiation_005): the start can be
    `None` (no earlier non-whitespace token at a position ≥ 1); the line is that of the END token -/

def fromNonWsUntil (f : List α) (ix : Index) (cs : List Cls) : Except PyErr (List (Toi α)) :=
  mapE (fun (e : Nat) =>
    ix.lineOf e >>= fun line =>
    pure (match ix.prevNonWs e with
      | none => { start := none, line := line, toks := pySlice f 0 e }
      | some s => { start := some (s : Int), line := line, toks := pySlice f s e })) (cs.flatMap fun c => ix.get c.uid)

/-! ### get_if_statement_conditions (if_002) -/

def isWsOrComment (V : View α) (P : PCls) (t : α) : Bool :=
  V.inst t P.ws || V.inst t P.cr || V.inst t P.comment || V.inst t P.blank || V.inst t P.preproc

/-- `vhdlFile.utils.remove_leading_whitespace_and_comments(iToken, lTokens)`: `lTokens[0]` sits at
    `iToken + 1`; when nothing but whitespace / comments is there the `for … else` returns the
    empty list and the position after the trimmed tokens (repaired: it used to return `iToken`
    itself together with the untrimmed list) -/
def removeLeading (V : View α) (P : PCls) (i : Int) (l : List α) : Int × List α :=
  match l.findIdx? (fun t => !isWsOrComment V P t) with
  | some k => (i + (k : Int) + 1, l.drop k)
  | none => (i + (l.length : Int) + 1, [])

/-- `vhdlFile.utils.remove_trailing_whitespace_and_comments`: reverses in place, drops, reverses the
    copy back; when nothing but whitespace / comments is there the result is the empty list
    (repaired: it used to return the REVERSED argument) -/
def removeTrailing (V : View α) (P : PCls) (l : List α) : List α :=
  match l.reverse.findIdx? (fun t => !isWsOrComment V P t) with
  | some k => (l.reverse.drop k).reverse
  | none => []

/-- the body of the loop of `get_if_statement_conditions` for the keyword at `s` and the raw region
    `tmp0 = lAllTokens[s + 1 : iEnd]`: with `fRemoveWhitespace` a condition that is empty after
    trimming gets no region (`if len(lTemp) == 0: continue`, before the line is looked up) -/
def ifRegion (V : View α) (P : PCls) (ix : Index) (rm : Bool) (s : Nat) (tmp0 : List α) : Except PyErr (Option (Toi α)) :=
  let st : Int × List α :=
    if rm then ((removeLeading V P s tmp0).1, removeTrailing V P (removeLeading V P s tmp0).2) else ((s : Int) + 1, tmp0)
  if rm && st.2.isEmpty then pure none
  else ix.lineOf st.1 >>= fun line => pure (some { start := some st.1, line := line, toks := st.2 })

def ifConditions (V : View α) (P : PCls) (f : List α) (ix : Index) (ifK elsifK thenK : Option Key) (rm : Bool) :
    Except PyErr (List (Toi α)) :=
  filterMapE (fun (s : Nat) =>
    ifRegion V P ix rm s (match ix.tokAfter thenK s with
      | some e => pySlice f ((s : Int) + 1) e
      | none => pySlice f ((s : Int) + 1) f.length))
    (sortNat (ix.get ifK ++ ix.get elsifK))

end Vsgm.TM.X
