/-
  Model of the configuration machinery (layer K):
    vsg/config.py        process_config_file, process_file_list_key, read_configuration_files, New
    vsg/severity.py      create_list, get_severity_named
    vsg/rule.py          Rule.configure, configure_{global,group}_rule_attributes, configure_attribute,
                         configure_rule_attributes, get_configuration
    vsg/rule_list.py     configure, _validate_configuration_rule_exists, get_configuration
    vsg/apply_rules.py   configure_rules, configure_rules_per_option
    vsg/__main__.py      generate_output_configuration, display_rule_configuration
  The code is transcribed as it is, including its KeyError-driven control flow.  Anything Python can
  raise is an `Err`.  Python dictionaries are association lists in insertion order (`dset` replaces in
  place or appends, like `d[k] = v`); the model is exact for association lists with distinct keys, which
  is what a JSON / YAML parser produces.

  Domain of the model (checked by the driver, `outsideDomain`): configuration documents of the
  documented shape (`rule` maps `global` and rule ids to attribute dictionaries and `group` to a
  dictionary of those; per-file entries are `{name: {rule: …}}`), whose attribute names are not one of
  the structural attributes the configure code itself reads (`structuralKeys`).

  The second half (`namespace Spec`) is the executable SPECIFICATION of property C12: which value an
  attribute must end up with for a stack of documents.  It lives here because the driver runs it.
-/
import VsgModel.Engine.RuleRun
namespace Vsgm.Cfg

/-! ### values and dictionaries -/

/-- configuration values: what option values need; anything else travels as canonical JSON text -/
inductive Val where
  | str (s : String)
  | int (i : Int)
  | bool (b : Bool)
  | list (l : List String)
  | null
  | other (json : String)
  deriving DecidableEq, Repr, Inhabited

/-- a Python dict with string keys, in insertion order -/
abbrev Dict (α : Type) := List (String × α)

/-- `d[k]` (none = KeyError) -/
def dget {α : Type} : Dict α → String → Option α
  | [], _ => none
  | (k', v) :: t, k => if k' = k then some v else dget t k

/-- `d[k] = v` -/
def dset {α : Type} : Dict α → String → α → Dict α
  | [], k, v => [(k, v)]
  | (k', v') :: t, k, v => if k' = k then (k, v) :: t else (k', v') :: dset t k v

/-- `k in d` -/
def dhas {α : Type} (d : Dict α) (k : String) : Bool := (dget d k).isSome

def dkeys {α : Type} (d : Dict α) : List String := d.map (·.1)

/-- the value a `for k in d: x[k] = d[k]` loop leaves behind for `k`: the last pair with that key
    (equal to `dget` when keys are distinct) -/
def dlast {α : Type} : Dict α → String → Option α
  | [], _ => none
  | (k', v) :: t, k =>
    match dlast t k with
    | some w => some w
    | none => if k' = k then some v else none

abbrev Attrs := Dict Val

/-! ### configuration documents -/

/-- a value of the `rule` dictionary: `global` and rule ids map to attributes, `group` to groups -/
inductive Entry where
  | attrs (a : Attrs)
  | groups (g : Dict Attrs)
  deriving DecidableEq, Repr, Inhabited

abbrev RuleSec := Dict Entry

/-- the dictionary below a file name in `file_list` / `file_rules`: only its `rule` key is read -/
structure PerFile where
  rule : Option RuleSec := none
  deriving DecidableEq, Repr, Inhabited

inductive FileEntry where
  | name (s : String)
  | cfg (d : Dict PerFile)
  deriving DecidableEq, Repr, Inhabited

/-- one configuration file (or the predefined style, or the merged `dConfig`).  Top-level keys are
    independent of each other in everything the code does, so they are fields. -/
structure Doc where
  rule : Option RuleSec := none
  fileList : Option (List FileEntry) := none
  fileRules : Option (List FileEntry) := none
  /-- `severity: {name: {type: …}}`; `none` inside = no `type` key -/
  severity : Option (Dict (Option String)) := none
  /-- opaque JSON text of the `indent`, `pragma` values -/
  indent : Option String := none
  pragma : Option String := none
  localRules : Option String := none
  debug : Option Bool := none
  deriving DecidableEq, Repr, Inhabited

inductive Err where
  /-- `exceptions.ConfigurationError` (kind ∈ unknownRule, deprecated, unknownSeverity) -/
  | config (kind : String) (detail : String)
  /-- any other Python exception: a traceback -/
  | py (exc : String) (detail : String)
  /-- `sys.exit(code)` with a message -/
  | exit (code : Nat) (detail : String)
  deriving DecidableEq, Repr, Inhabited

/-- file system / opaque parts of `config.New` -/
structure Env where
  /-- `glob_filenames` -/
  glob : String → List String
  /-- `read_indent_configuration`: user value ↦ `dConfig["indent"]` -/
  indentNorm : Option String → String
  /-- `add_pragma_regular_expressions`: user value ↦ `dConfig["pragma"]["patterns"]` -/
  pragmaNorm : Option String → String

/-! ### config.process_config_file -/

/-- the `rule` branch: every key of the later file's `rule` dictionary REPLACES the entry of the same
    key (`dReturn["rule"][sRule] = tempConfiguration["rule"][sRule]`); the KeyError branch creates
    `dReturn["rule"]` on first use -/
def mergeRule (base : Option RuleSec) (tmp : RuleSec) : Option RuleSec :=
  tmp.foldl (fun acc ke => some (dset (acc.getD []) ke.1 ke.2)) base

/-- `process_file_list_key`: entries are globbed and appended -/
def processFileList (env : Env) (base : Option (List FileEntry)) (tmp : List FileEntry) : Except Err (List FileEntry) :=
  tmp.foldlM (fun acc e =>
    match e with
    | .name s =>
      match env.glob s with
      | [] => .error (.exit 1 ("Could not find file " ++ s))
      | gs => .ok (acc ++ gs.map FileEntry.name)
    | .cfg d =>
      match d with
      | [] => .error (.py "IndexError" "list(sFilename.keys())[0]")
      | (k, pf) :: _ =>
        match env.glob k with
        | [] => .error (.exit 1 ("Could not find file " ++ k))
        | gs => .ok (acc ++ gs.map (fun g => FileEntry.cfg [(g, pf)]))) (base.getD [])

def orElseOpt {α : Type} (later earlier : Option α) : Option α :=
  match later with
  | some x => some x
  | none => earlier

/-- `process_config_file(dConfiguration, tempConfiguration)` -/
def processConfigFile (env : Env) (base tmp : Doc) : Except Err Doc := do
  let fl ← match tmp.fileList with
    | none => pure base.fileList
    | some l => (processFileList env base.fileList l).map some
  pure {
    rule := match tmp.rule with
      | none => base.rule
      | some r => mergeRule base.rule r
    fileList := fl
    fileRules := orElseOpt tmp.fileRules base.fileRules
    severity := orElseOpt tmp.severity base.severity
    indent := orElseOpt tmp.indent base.indent
    pragma := orElseOpt tmp.pragma base.pragma
    localRules := orElseOpt tmp.localRules base.localRules
    debug := orElseOpt tmp.debug base.debug }

/-- `read_configuration_files(dStyle, cla)`: the style dictionary is the base of the merge -/
def readConfigurationFiles (env : Env) (style : Doc) (docs : List Doc) : Except Err Doc :=
  docs.foldlM (processConfigFile env) style

/-! ### severities -/

structure Sev where
  name : String
  type : String
  deriving DecidableEq, Repr, Inhabited

def builtinSevs : List Sev := [⟨"Error", "error"⟩, ⟨"Warning", "warning"⟩]

/-- `severity.create_list(dConfig)` -/
def createSevList (d : Doc) : Except Err (List Sev) :=
  match d.severity with
  | none => .ok builtinSevs
  | some s =>
    s.foldlM (fun acc kt =>
      match kt.2 with
      | none => .error (.py "KeyError" "type")
      | some ty =>
        if ty = "error" then .ok (acc ++ [⟨kt.1, "error"⟩])
        else if ty = "warning" then .ok (acc ++ [⟨kt.1, "warning"⟩])
        else .ok acc) builtinSevs

/-- `get_severity_named`: first severity with that name, or None -/
def getSeverityNamed (sl : List Sev) (v : Val) : Option Sev :=
  match v with
  | .str s => sl.find? (fun x => x.name = s)
  | _ => none

/-- the `config` object: `dConfig` plus `severity_list` -/
structure Config where
  doc : Doc
  sevs : List Sev
  deriving Repr

/-- `config.New` (the parts that touch what the rule configuration reads) -/
def newConfig (env : Env) (style : Doc) (docs : List Doc) (debug : Bool) : Except Err Config := do
  let d ← readConfigurationFiles env style docs
  let sl ← createSevList d
  pure { doc := { d with debug := some debug, indent := some (env.indentNorm d.indent),
                         pragma := some (env.pragmaNorm d.pragma) }, sevs := sl }

/-! ### rule objects -/

/-- what the configure code reads and writes of a rule object.  `dict` is `__dict__` without the
    `severity` entry (held in `severity`: None after a failed lookup) -/
structure RuleObj where
  id : String
  groups : List String
  configuration : List String
  dict : Attrs
  severity : Option Sev
  /-- option objects: name ↦ `.value` -/
  options : Dict Val
  /-- `self.deprecated` (equivalently: instance of `deprecated_rule.Rule`, a table fact) -/
  deprecated : Bool
  deriving DecidableEq, Repr, Inhabited

/-- attributes the configure code itself reads: configurations that assign them are outside the model -/
def structuralKeys : List String :=
  ["name", "identifier", "unique_id", "groups", "configuration", "options", "deprecated", "debug"]

/-- `str(sName)` of a configured severity value, for the message of the configuration error -/
def sevNameStr : Val → String
  | .str s => s
  | .int i => toString i
  | .bool b => if b then "True" else "False"
  | .null => "None"
  | .list _ => "[…]"
  | .other j => j

/-- `self.severity = get_configured_severity(oConfig, v)` (rule.py, repaired): a name no severity has is a
    ConfigurationError (kind `unknownSeverity`; it used to leave `severity = None`, and the run ended in an
    AttributeError traceback); the per-file `config.config()` object has no `severity_list` attribute -/
def setSeverity (sevs : Option (List Sev)) (r : RuleObj) (v : Val) : Except Err RuleObj :=
  match sevs with
  | none => .error (.py "AttributeError" "'config' object has no attribute 'severity_list'")
  | some sl =>
    match getSeverityNamed sl v with
    | none => .error (.config "unknownSeverity" (sevNameStr v))
    | some s => .ok { r with severity := some s }

/-- loop body of `configure_global_rule_attributes`: guard `in self.configuration` -/
def assignGlobal (sevs : Option (List Sev)) (r : RuleObj) (kv : String × Val) : Except Err RuleObj :=
  if kv.1 = "severity" then setSeverity sevs r kv.2
  else if kv.1 ∈ r.configuration then .ok { r with dict := dset r.dict kv.1 kv.2 }
  else .ok r

/-- loop body of `configure_attribute` (group level): guard `in self.__dict__` -/
def assignDict (sevs : Option (List Sev)) (r : RuleObj) (kv : String × Val) : Except Err RuleObj :=
  if kv.1 = "severity" then setSeverity sevs r kv.2
  else if dhas r.dict kv.1 then .ok { r with dict := dset r.dict kv.1 kv.2 }
  else .ok r

/-- loop body of `configure_rule_attributes`: as `assignDict`, then the option objects of that name -/
def assignRule (sevs : Option (List Sev)) (r : RuleObj) (kv : String × Val) : Except Err RuleObj :=
  (assignDict sevs r kv).map fun r' =>
    { r' with options := if dhas r'.options kv.1 then dset r'.options kv.1 kv.2 else r'.options }

def shapeErr : Err := .py "TypeError" "configuration of an undocumented shape"

/-- `configure_global_rule_attributes`: a missing `global` key is a caught KeyError -/
def configureGlobal (sevs : Option (List Sev)) (sec : RuleSec) (r : RuleObj) : Except Err RuleObj :=
  match dget sec "global" with
  | none => .ok r
  | some (.attrs a) => a.foldlM (assignGlobal sevs) r
  | some (.groups _) => .error shapeErr

/-- `configure_group_rule_attributes` + `configure_attribute`: groups in the ORDER OF THE CONFIGURATION,
    each group the rule belongs to is applied, so the last listed matching group wins -/
def configureGroup (sevs : Option (List Sev)) (sec : RuleSec) (r : RuleObj) : Except Err RuleObj :=
  match dget sec "group" with
  | none => .ok r
  | some (.groups gs) =>
    gs.foldlM (fun r ga => if ga.1 ∈ r.groups then ga.2.foldlM (assignDict sevs) r else .ok r) r
  | some (.attrs _) => .error shapeErr

/-- `configure_rule_attributes` -/
def configureRuleAttrs (sevs : Option (List Sev)) (sec : RuleSec) (r : RuleObj) : Except Err RuleObj :=
  match dget sec r.id with
  | none => .ok r
  | some (.attrs a) => a.foldlM (assignRule sevs) r
  | some (.groups _) => .error shapeErr

def deprecatedMessage (id : String) : String := "ERROR [config-001] Rule " ++ id ++ " has been deprecated."

/-- `Rule.configure`: returns the configured rule and the deprecation messages -/
def ruleConfigure (sevs : Option (List Sev)) (sec : RuleSec) (r : RuleObj) : Except Err (RuleObj × List String) :=
  if r.deprecated && dhas sec r.id then .ok (r, [deprecatedMessage r.id])
  else do
    let r ← configureGlobal sevs sec r
    let r ← configureGroup sevs sec r
    let r ← configureRuleAttrs sevs sec r
    pure (r, [])

/-- `_validate_configuration_rule_exists` -/
def validateRuleExists (names : List String) (sec : RuleSec) : Except Err Unit :=
  sec.foldlM (fun _ ke =>
    if ke.1 = "global" then .ok ()
    else if ke.1 = "group" then .ok ()
    else if ke.1 ∈ names then .ok ()
    else .error (.config "unknownRule" ke.1)) ()

def setDebug (r : RuleObj) : RuleObj := { r with dict := dset r.dict "debug" (.bool true) }

/-- `rule_list.configure(oConfig)`; `rule` = `dConfig["rule"]` if the dictionary is non-empty and has
    the key; `debug` = `dConfig["debug"]` (KeyError caught) -/
def ruleListConfigure (sevs : Option (List Sev)) (rule : Option RuleSec) (debug : Option Bool)
    (rs : List RuleObj) : Except Err (List RuleObj) := do
  let out ← match rule with
    | none => pure (rs.map fun r => (r, ([] : List String)))
    | some sec => do
      validateRuleExists (rs.map (·.id)) sec
      rs.mapM (ruleConfigure sevs sec)
  let msgs := out.flatMap (·.2)
  if msgs ≠ [] then .error (.config "deprecated" (String.intercalate "\n" msgs))
  else
    let rs' := out.map (·.1)
    pure (if debug = some true then rs'.map setDebug else rs')

/-- `utils.extract_file_names_from_file_list` -/
def extractFileNames (l : List FileEntry) : List String :=
  l.flatMap fun e => match e with
    | .name s => [s]
    | .cfg d => dkeys d

/-- first index of `x` (`list.index`) -/
def indexOf? (l : List String) (x : String) : Option Nat :=
  match l with
  | [] => none
  | a :: t => if a = x then some 0 else (indexOf? t x).map (· + 1)

/-- the per-file dictionary `configure_rules_per_option` configures from: the file must be among the
    extracted names, the entry AT THE INDEX OF ITS FIRST OCCURRENCE must be a dictionary with that key -/
def perFileOf (sect : Option (List FileEntry)) (fname : String) : Option PerFile :=
  match sect with
  | none => none
  | some l =>
    match indexOf? (extractFileNames l) fname with
    | none => none
    | some i =>
      match l[i]? with
      | some (.cfg d) => dget d fname
      | _ => none

/-- `configure_rules_per_option`: the per-file object is a bare `config.config()` — no severity list,
    no `debug` key -/
def configurePerOption (sect : Option (List FileEntry)) (fname : String) (rs : List RuleObj) :
    Except Err (List RuleObj) :=
  match perFileOf sect fname with
  | none => .ok rs
  | some pf => ruleListConfigure none pf.rule none rs

/-- `apply_rules.configure_rules` -/
def configureRules (c : Config) (rs : List RuleObj) (fname : String) : Except Err (List RuleObj) := do
  let rs ← ruleListConfigure (some c.sevs) c.doc.rule c.doc.debug rs
  let rs ← configurePerOption c.doc.fileList fname rs
  configurePerOption c.doc.fileRules fname rs

/-! ### emitting the configuration -/

/-- `Rule.get_configuration`: every name of `configuration` through getattr, `severity` by name -/
def getConfiguration (r : RuleObj) : Except Err Attrs := do
  let d ← r.configuration.foldlM (fun acc p =>
    if p = "severity" then .ok (dset acc p Val.null)
    else match dget r.dict p with
      | some v => .ok (dset acc p v)
      | none => .error (.py "AttributeError" p)) ([] : Attrs)
  match r.severity with
  | none => .error (.py "AttributeError" "'NoneType' object has no attribute 'name'")
  | some s => .ok (dset d "severity" (.str s.name))

/-- `rule_list.get_configuration`: deprecated rules are skipped -/
def ruleListGetConfiguration (rs : List RuleObj) : Except Err (Dict Attrs) :=
  rs.foldlM (fun acc r =>
    if r.deprecated then .ok acc
    else (getConfiguration r).map fun c => dset acc r.id c) []

/-- the dictionary `generate_output_configuration` dumps -/
structure OcDoc where
  fileList : Option (List String)
  localRules : Option String
  rule : Dict Attrs
  indent : String
  pragmaPatterns : String
  deriving DecidableEq, Repr

/-- `update_command_line_arguments`: names of the configuration's file_list are appended to `-f` -/
def claFilenames (env : Env) (d : Doc) (cla : List String) : List String :=
  match d.fileList with
  | none => cla
  | some l =>
    l.foldl (fun acc e =>
      let n := match e with
        | .name s => some s
        | .cfg d => (dkeys d).head?
      match n with
      | none => acc
      | some n => (env.glob n).foldl (fun acc g => if g ∈ acc then acc else acc ++ [g]) acc) cla

/-- `generate_output_configuration`: rules configured from the `rule` section only -/
def generateOutputConfiguration (env : Env) (c : Config) (defaults : List RuleObj) (cla : List String)
    (localRules : Option String) : Except Err OcDoc := do
  let rs ← ruleListConfigure (some c.sevs) c.doc.rule c.doc.debug defaults
  let rc ← ruleListGetConfiguration rs
  let files := claFilenames env c.doc cla
  pure { fileList := if files = [] then none else some files
         localRules := orElseOpt c.doc.localRules localRules
         rule := rc
         indent := c.doc.indent.getD (env.indentNorm none)
         pragmaPatterns := c.doc.pragma.getD (env.pragmaNorm none) }

/-- the emitted file read back as a configuration document -/
def OcDoc.toDoc (o : OcDoc) : Doc :=
  { rule := some (o.rule.map fun ka => (ka.1, Entry.attrs ka.2))
    fileList := o.fileList.map (·.map FileEntry.name)
    indent := some o.indent
    pragma := some o.pragmaPatterns
    localRules := o.localRules }

/-- `display_rule_configuration`: the fragment of one rule (none = "rule was not found", exit 1) -/
def displayRuleConfiguration (c : Config) (defaults : List RuleObj) (id : String) :
    Except Err (Option (Dict Attrs)) := do
  let rs ← ruleListConfigure (some c.sevs) c.doc.rule c.doc.debug defaults
  let rc ← ruleListGetConfiguration rs
  pure ((dget rc id).map fun a => [(id, a)])

/-- does a document stay inside the modelled domain? -/
def attrsInDomain (a : Attrs) : Bool := a.all fun kv => !(kv.1 ∈ structuralKeys)

def secInDomain (sec : RuleSec) : Bool :=
  sec.all fun ke =>
    match ke.2 with
    | .attrs a => ke.1 != "group" && attrsInDomain a
    | .groups g => ke.1 == "group" && g.all fun ga => attrsInDomain ga.2

def entriesInDomain (l : List FileEntry) : Bool :=
  l.all fun e => match e with
    | .name _ => true
    | .cfg d => d.all fun kp => match kp.2.rule with
      | none => true
      | some s => secInDomain s

def Doc.inDomain (d : Doc) : Bool :=
  (match d.rule with | none => true | some s => secInDomain s) &&
  (match d.fileList with | none => true | some l => entriesInDomain l) &&
  (match d.fileRules with | none => true | some l => entriesInDomain l)


/-! ### what the engine reads of a configured rule -/

/-- Python truthiness (`if self.fixable`, `if not oRule.disable`) -/
def Val.truthy : Val → Bool
  | .str s => s ≠ ""
  | .int i => i ≠ 0
  | .bool b => b
  | .list l => l ≠ []
  | .null => false
  | .other _ => true

/-- the engine's view (`RuleCfg` of Engine/RuleRun.lean) of a configured rule object: `disable` and
    `fixable` by truthiness, `severity.type == "error"`, integer phase / subphase.  `none` = the run
    would not be an engine run (severity None raises, non-integer phase never matches) -/
def toRuleCfg (r : RuleObj) (prereq : Bool) : Option RuleCfg :=
  match r.severity, dget r.dict "phase", dget r.dict "subphase", dget r.dict "disable", dget r.dict "fixable" with
  | some s, some (.int p), some (.int sp), some d, some f =>
    some { id := r.id, phase := p, subphase := sp, disabled := d.truthy, fixable := f.truthy,
           sevError := s.type = "error", prereq := prereq }
  | _, _, _, _, _ => none

/-! ### SPECIFICATION of C12 (what the property demands) -/
namespace Spec

def firstSome {α : Type} : List (Option α) → Option α
  | [] => none
  | some x :: _ => some x
  | none :: t => firstSome t

/-- value given to attribute `a` by the rule-id level of a `rule` section -/
def idLevel (sec : RuleSec) (r : RuleObj) (a : String) : Option Val :=
  match dget sec r.id with
  | some (.attrs av) => dlast av a
  | _ => none

/-- attributes of the groups the rule belongs to, concatenated in the order the groups are WRITTEN in
    the configuration (not by how specific the group is) -/
def groupAttrs (groups : List String) (gs : Dict Attrs) : Attrs :=
  (gs.filter fun ga => ga.1 ∈ groups).flatMap (·.2)

/-- … by the group level: the last mention among the groups the rule belongs to, in written order.
    A rule in `case` and `case::keyword` takes the value of whichever group is written later. -/
def groupLevel (sec : RuleSec) (r : RuleObj) (a : String) : Option Val :=
  match dget sec "group" with
  | some (.groups gs) => dlast (groupAttrs r.groups gs) a
  | _ => none

/-- … by the global level -/
def globalLevel (sec : RuleSec) (a : String) : Option Val :=
  match dget sec "global" with
  | some (.attrs av) => dlast av a
  | _ => none

/-- guards of the three levels as coded: `in self.configuration` for global, `in self.__dict__` below;
    `severity` is never guarded -/
def guardGlobal (r : RuleObj) (a : String) : Bool := a = "severity" || a ∈ r.configuration
def guardDict (r : RuleObj) (a : String) : Bool := a = "severity" || dhas r.dict a

/-- the three levels of one `rule` section, most specific first, with the guards of the code -/
def secLevels (sec : RuleSec) (r : RuleObj) (a : String) : List (Option Val) :=
  [ if guardDict r a then idLevel sec r a else none,
    if guardDict r a then groupLevel sec r a else none,
    if guardGlobal r a then globalLevel sec a else none ]

def optSecLevels (sec : Option RuleSec) (r : RuleObj) (a : String) : List (Option Val) :=
  match sec with
  | none => [none, none, none]
  | some s => secLevels s r a

/-- all nine levels of ONE document for file `fname`, most specific first:
    file_rules (id, group, global) > file_list (id, group, global) > rule (id, group, global) -/
def docLevels (d : Doc) (fname : String) (r : RuleObj) (a : String) : List (Option Val) :=
  optSecLevels ((perFileOf d.fileRules fname).bind (·.rule)) r a ++
  optSecLevels ((perFileOf d.fileList fname).bind (·.rule)) r a ++
  optSecLevels d.rule r a

/-- value chosen by a single document: the most specific level that mentions the attribute -/
def chosen (d : Doc) (fname : String) (r : RuleObj) (a : String) : Option Val :=
  firstSome (docLevels d fname r a)

/-- effective value of a non-severity attribute under one document -/
def effective (d : Doc) (fname : String) (r : RuleObj) (a : String) : Option Val :=
  match chosen d fname r a with
  | some v => some v
  | none => dget r.dict a

/-- effective severity under one document with severity list `sl` -/
def effectiveSeverity (sl : List Sev) (d : Doc) (fname : String) (r : RuleObj) : Option Sev :=
  match chosen d fname r "severity" with
  | some v => getSeverityNamed sl v
  | none => r.severity

/-- transpose: level-major view of a stack of documents (all rows have nine entries) -/
def levelColumn (rows : List (List (Option Val))) (i : Nat) : List (Option Val) :=
  rows.map fun row => (row[i]?).getD none

/-- THE PROPERTY for a stack `base :: docs` (base = predefined style or `{}`): the most specific level
    that mentions the attribute in ANY document; at the same level the later document wins.  The
    per-file levels of `file_list` follow the documentation's exemption ("true for all configuration
    parameters except file_list"): they are read from the merged list, as coded. -/
def specChosen (merged : Doc) (stack : List Doc) (fname : String) (r : RuleObj) (a : String) : Option Val :=
  let rows := stack.reverse.map fun d => docLevels d fname r a        -- later documents first
  let mergedRow := docLevels merged fname r a
  firstSome ((List.range 9).map fun i =>
    if 3 ≤ i ∧ i < 6 then (mergedRow[i]?).getD none
    else firstSome (levelColumn rows i))


/-- reading "style default" of the property literally: whatever the predefined style says about an
    attribute (at any of its levels) ranks below every level of the user's configuration files -/
def specChosenStyleLowest (mergedUser : Doc) (style : Doc) (user : List Doc) (fname : String) (r : RuleObj)
    (a : String) : Option Val :=
  match specChosen mergedUser user fname r a with
  | some v => some v
  | none => chosen style fname r a

def specEffective (merged : Doc) (stack : List Doc) (fname : String) (r : RuleObj) (a : String) : Option Val :=
  match specChosen merged stack fname r a with
  | some v => some v
  | none => dget r.dict a

def specSeverity (sl : List Sev) (merged : Doc) (stack : List Doc) (fname : String) (r : RuleObj) : Option Sev :=
  match specChosen merged stack fname r "severity" with
  | some v => getSeverityNamed sl v
  | none => r.severity

end Spec
end Vsgm.Cfg
