/-
  Driver mode `tokmap` (executable glue only): the harness sends the token list of the real
  `vhdlFile` object (serial : class : value length per token), the stored `oTokenMap.dMap`,
  look-up / extractor calls with the arguments real rules used, and the tokens of interest real
  rules obtained; the model answers and the checkers decide.

    TOKS <tab> tok*                    set the current token list           (no reply)
    MAP                                reply: process_tokens of it, canonical
    STORED <tab> map <tab> max         set the stored index; reply `fresh` | `stale <key>`
    REINDEX                            stored index := process_tokens(current)   (no reply)
    LOOKUP <tab> name <tab> args…      reply `ok <v>` | `raise <Err>`
    EXTRACT <tab> name <tab> args…     reply `ok toi;toi…` | `raise <Err>` | `unknown`
    TOI <tab> start <tab> end <tab> runs   reply `ok` | `notSlice`
    TOIS <tab> start,end,runs|…        reply `ok` | `bad i,j,…`

  tok = ser:cls:len; map = `b:s=i,j,…` joined by `;`; toi = start,line,value,serials ('.' joined,
  `b` for a beginning_of_file token); runs = `a-b` | `a` | `bN` separated by spaces; `N` = None.
-/
import VsgModel.Wire
import VsgModel.Generated.ClassUids
import VsgModel.Engine.TokenMap
import VsgModel.Engine.Extract
import VsgModel.Engine.Extract2Cli  -- WP3
namespace Vsgm.TM.Cli
open Vsgm Vsgm.TM

structure ITok where
  ser : Nat
  cls : Nat
  len : Nat
  hier : Option Int := none   -- WP3: `oToken.get_hierarchy()` (optional 4th wire field)
  deriving DecidableEq, Inhabited, Repr

def uidOfCls (c : Nat) : Option Key := (Gen.classUids.getD c none)

def bofCls : Nat := (Gen.classKinds.toList.findIdx? (· == Kind.toCode .bof)).getD 0

def view : View ITok where
  uid t := uidOfCls t.cls
  inst t p := (Gen.classAncestors.getD t.cls []).contains p
  isCr t := Wire.kindOfCls t.cls == .cr
  isBof t := Wire.kindOfCls t.cls == .bof
  len t := t.len
  bof := { ser := 0, cls := bofCls, len := 17 }

def clsOf (s : String) : Cls := let p := s.toNat!; { uid := uidOfCls p, idx := p }
def clsList (s : String) : List Cls := if s.isEmpty then [] else (s.splitOn ",").map clsOf
def keyOf (s : String) : Option Key := uidOfCls s.toNat!

def decITok (s : String) : ITok :=
  match s.splitOn ":" with
  | [a, b, c] => { ser := a.toNat!, cls := b.toNat!, len := c.toNat! }
  | [a, b, c, d] => { ser := a.toNat!, cls := b.toNat!, len := c.toNat!, hier := some (X.Cli.parseInt d) }  -- WP3
  | _ => default

def decITokList (s : String) : List ITok := if s.isEmpty then [] else (s.splitOn " ").map decITok

def decMap (s : String) : Map :=
  if s.isEmpty then []
  else (s.splitOn ";").filterMap fun e =>
    match e.splitOn "=" with
    | [k, v] =>
      match k.splitOn ":" with
      | [b, su] => some ((b, su), if v.isEmpty then [] else (v.splitOn ",").map String.toNat!)
      | _ => none
    | _ => none

def keyLe (a b : Key × List Nat) : Bool := a.1.1 < b.1.1 || (a.1.1 == b.1.1 && a.1.2 ≤ b.1.2)

def canon (m : Map) : Map := m.mergeSort keyLe

def encMap (m : Map) : String :=
  ";".intercalate ((canon m).map fun kl => s!"{kl.1.1}:{kl.1.2}=" ++ ",".intercalate (kl.2.map toString))

def parseInt (s : String) : Int := if s.startsWith "-" then - ((s.drop 1).toString.toNat! : Int) else (s.toNat! : Int)
def parseOptInt (s : String) : Option Int := if s == "N" then none else some (parseInt s)
def showOptInt : Option Int → String
  | none => "N"
  | some i => toString i
def showOptNat : Option Nat → String
  | none => "N"
  | some i => toString i

def showErr (e : PyErr) : String := "raise " ++ e.name

def encToi (t : Toi ITok) : String :=
  s!"{showOptInt t.start},{t.line},{showOptInt t.value}," ++
    ".".intercalate (t.toks.map fun x => if view.isBof x then "b" else toString x.ser)

def showTois : Except PyErr (List (Toi ITok)) → String
  | .error e => showErr e
  | .ok l => "ok " ++ ";".intercalate (l.map encToi)

def showE {β : Type} (sh : β → String) : Except PyErr β → String
  | .error e => showErr e
  | .ok v => "ok " ++ sh v

def lookup (ix : Index) : List String → String
  | ["get_token_indexes", c] => "ok " ++ ",".intercalate ((ix.get (keyOf c)).map toString)
  | ["get_token_indexes_between_indexes", c, a, b] =>
    "ok " ++ ",".intercalate ((ix.getBetween (keyOf c) (parseInt a) (parseInt b)).map toString)
  | ["get_line_number_of_index", i] => showE toString (ix.lineOf (parseInt i))
  | ["get_index_of_carriage_return_after_index", i] => showE toString (ix.crAfter (parseInt i))
  | ["get_index_of_carriage_return_before_index", i] => showE showOptInt (ix.crBefore (parseInt i))
  | ["get_index_of_token_after_index", c, i] => "ok " ++ showOptNat (ix.tokAfter (keyOf c) (parseInt i))
  | ["get_token_pair_indexes", a, b] =>
    let r := ix.pairIndexes (keyOf a) (keyOf b)
    "ok " ++ ",".intercalate (r.1.map toString) ++ "|" ++ ",".intercalate (r.2.map toString)
  | ["is_token_at_index", c, i] => s!"ok {ix.isAt (keyOf c) (parseInt i)}"
  | ["is_token_at_index_whitespace", i] => s!"ok {ix.isWsAt (parseInt i)}"
  | ["is_token_at_index_whitespace_or_comment", i] => s!"ok {ix.isWsOrCommentAt (parseInt i)}"
  | ["get_index_of_next_non_whitespace_token", i, e] => "ok " ++ showOptInt (ix.nextNonWs (parseInt i) (e == "1"))
  | ["get_index_of_previous_non_whitespace_token_before_index", i] => "ok " ++ showOptNat (ix.prevNonWsBefore (parseInt i))
  | ["get_index_of_previous_non_whitespace_token", i] => "ok " ++ showOptNat (ix.prevNonWs (parseInt i))
  | ["get_index_of_next_non_whitespace_token_after_index_ignoring_comments", i] =>
    "ok " ++ showOptInt (ix.nextNonWsIgnoringComments (parseInt i))
  | ["is_previous_non_whitespace_token", i, c] => s!"ok {ix.isPrevNonWs (parseInt i) (keyOf c)}"
  | ["get_index_of_line", l] => showE toString (ix.indexOfLine (parseInt l))
  | ["extract_start_end_indexes", a, b] =>
    let nats (s : String) : List Nat := if s.isEmpty then [] else (s.splitOn ",").map String.toNat!
    let r := startEndIndexes (nats a) (nats b)
    "ok " ++ ",".intercalate (r.1.map toString) ++ "|" ++ ",".intercalate (r.2.map toString)
  | _ => "unknown"

def extract (f : List ITok) (ix : Index) : List String → String
  | ["get_tokens_matching", cs] => showTois (tokensMatching f ix (clsList cs))
  | ["get_tokens_bounded_by", a, b, tw, xl, eol, bol] =>
    showTois (tokensBoundedBy f ix (keyOf a) (keyOf b)
      { trailingWs := tw == "1", exclLast := xl == "1", tillEol := eol == "1", tillBol := bol == "1" })
  | ["get_tokens_at_beginning_of_line_matching", cs] => showTois (tokensAtBolMatching f ix (clsList cs))
  | ["get_sequence_of_tokens_matching", cs, ig] => showTois (sequenceMatching view f ix (clsList cs) (ig == "1"))
  | ["get_token_and_n_tokens_before_it", cs, n] => showTois (tokenAndNBefore f ix (clsList cs) n.toNat!)
  | ["get_token_and_n_tokens_after_it", cs, n] => showTois (tokenAndNAfter f ix (clsList cs) n.toNat!)
  | ["get_m_tokens_before_and_n_tokens_after_token", m, n, cs] =>
    showTois (mBeforeNAfter view f ix m.toNat! n.toNat! (clsList cs))
  | ["get_n_token_after_tokens", n, cs] => showTois (nTokenAfterTokens f ix n.toNat! (clsList cs))
  | ["get_tokens_matching_in_range_bounded_by_tokens", cs, a, b] =>
    showTois (matchingInRange f ix (clsList cs) (keyOf a) (keyOf b))
  | ["get_line_above_line_starting_with_token", cs] => showTois (lineAboveLineStartingWith f ix (clsList cs))
  | ["get_line_preceding_line", l, n] => showTois ((linePreceding f ix l.toNat! n.toNat!).map fun t => [t])
  | ["get_line_count_between_tokens", a, b] => showTois (lineCountBetween f ix (keyOf a) (keyOf b))
  | ["get_all_tokens"] => showTois (.ok [allTokens f])
  | ["get_lines_with_length_that_exceed_column", c] => showTois (.ok (linesExceeding view f c.toNat!))
  | args => X.Cli.extract2 view (·.hier) encToi f ix args  -- WP3

/-- expands `a-b`, `a`, `bN` runs -/
def decRuns (s : String) : List ITok :=
  if s.isEmpty then []
  else (s.splitOn " ").flatMap fun r =>
    if r.startsWith "b" then [{ ser := (r.drop 1).toString.toNat!, cls := bofCls, len := 0 }]
    else match r.splitOn "-" with
      | [a, b] => (List.range (b.toNat! + 1 - a.toNat!)).map fun k => { ser := a.toNat! + k, cls := 0, len := 0 }
      | _ => [{ ser := r.toNat!, cls := 0, len := 0 }]

/-- the slice test compares serial numbers (identity of the Python objects) -/
def serView : View Nat where
  uid _ := none
  inst _ _ := false
  isCr _ := false
  isBof n := n == 0
  len _ := 0
  bof := 0

/-- serial `n` is sent as `n + 1`; `0` stands for a beginning_of_file pseudo token -/
def toiVerdictSpec (f : List ITok) (start stop : Option Int) (toks : List ITok) : Bool :=
  toiCheck serView (f.map (·.ser + 1)) start stop (toks.map fun t => if view.isBof t then 0 else t.ser + 1)

/-- the same test as `toiVerdictSpec` with the serial numbers of the file in an array (a file
    has tens of thousands of tokens and a rule can obtain thousands of regions) -/
def toiVerdict (sers : Array Nat) (start stop : Option Int) (toks : List ITok) : Bool :=
  match start with
  | none => false
  | some s =>
    let d := (toks.filter (fun t => !view.isBof t)).map (·.ser)
    decide (0 ≤ s) && decide (s.toNat + d.length ≤ sers.size) &&
      (d.zipIdx.all fun xk => sers[s.toNat + xk.2]? == some xk.1) && (stop == some (s + (d.length : Nat)))

structure St where
  toks : List ITok := []
  sers : Array Nat := #[]
  index : Index := { dmap := [], maxTok := 0 }

partial def loop (h out : IO.FS.Stream) (st : St) : IO Unit := do
  let line ← h.getLine
  if line.isEmpty then return ()
  let line := if line.endsWith "\n" then (line.dropEnd 1).toString else line
  match line.splitOn "\t" with
  | ["TOKS", ts] =>
    let l := decITokList ts
    loop h out { st with toks := l, sers := (l.map (·.ser)).toArray }
  | ["MAP"] =>
    let ix := processTokens view.uid st.toks
    out.putStrLn (encMap ix.dmap ++ s!"\t{ix.maxTok}"); out.flush
    loop h out st
  | ["STORED", m, mx] =>
    let stored : Index := { dmap := decMap m, maxTok := mx.toNat! }
    let fresh := processTokens view.uid st.toks
    let a := canon stored.dmap
    let b := canon fresh.dmap
    let verdict :=
      if a == b && stored.maxTok == fresh.maxTok then "fresh"
      else
        let bad := (a.filter (fun kl => !b.contains kl) ++ b.filter (fun kl => !a.contains kl)).head?
        match bad with
        | some kl => s!"stale {kl.1.1}:{kl.1.2}"
        | none => "stale maxTok"
    out.putStrLn verdict; out.flush
    loop h out { st with index := stored }
  | ["REINDEX"] => loop h out { st with index := processTokens view.uid st.toks }
  | "LOOKUP" :: args =>
    out.putStrLn (lookup st.index args); out.flush
    loop h out st
  | "EXTRACT" :: args =>
    out.putStrLn (extract st.toks st.index args); out.flush
    loop h out st
  | ["TOI", s, e, runs] =>
    out.putStrLn (if toiVerdict st.sers (parseOptInt s) (parseOptInt e) (decRuns runs) then "ok" else "notSlice")
    out.flush
    loop h out st
  | ["TOIS", body] =>
    -- all regions of one call: `start,end,runs` joined by `|`
    let items := if body.isEmpty then [] else body.splitOn "|"
    let bad := items.zipIdx.filterMap fun (it, k) =>
      match it.splitOn "," with
      | [s, e, runs] => if toiVerdict st.sers (parseOptInt s) (parseOptInt e) (decRuns runs) then none else some k
      | _ => some k
    out.putStrLn (if bad.isEmpty then "ok" else "bad " ++ ",".intercalate (bad.map toString))
    out.flush
    loop h out st
  | _ =>
    out.putStrLn ("error bad line " ++ (line.take 40).toString); out.flush
    loop h out st

def tokmapMain (stdin stdout : IO.FS.Stream) : IO Unit := loop stdin stdout {}

end Vsgm.TM.Cli
