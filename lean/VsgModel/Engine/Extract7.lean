/-
  `vsg/vhdlFile/extract/get_tokens_in_declarative_parts.py` (work package WP3b; declarative_part_400)
  with `tokens.New.extract_tokens` and `vhdlFile.utils.combine_two_token_class_lists`.
-/
import VsgModel.Engine.TokenMap
import VsgModel.Engine.Extract
import VsgModel.Engine.Extract2
namespace Vsgm.TM.X
open Vsgm Vsgm.TM

variable {α : Type}

/-- `oToi.extract_tokens(1, len(lTokens) - 1)`: the region without its first token; the line number
    grows by one when that token is a line break; `sTokenValue` is copied; `1 + None` raises -/
def extractTail (V : View α) (t : Toi α) : Except PyErr (Toi α) :=
  match t.start with
  | none => .error .typeError
  | some s =>
    .ok { start := some (s + 1),
          line := t.line + (match t.toks.head? with | some x => if V.isCr x then 1 else 0 | none => 0),
          toks := t.toks.drop 1, value := t.value }

/-- the insertion loop of `combine_two_token_class_lists` for one region (`None < int` raises) -/
def insertToi (x : Toi α) : List (Toi α) → Except PyErr (List (Toi α))
  | [] => .ok [x]
  | y :: ys =>
    match x.start, y.start with
    | some a, some b => if a < b then .ok (x :: y :: ys) else insertToi x ys >>= fun r => .ok (y :: r)
    | _, _ => .error .typeError

def combineTois (a b : List (Toi α)) : Except PyErr (List (Toi α)) :=
  if a.isEmpty then .ok b else if b.isEmpty then .ok a else foldlE (fun acc x => insertToi x acc) a b

structure DeclKeys where
  prot : Option Key × Option Key
  arch : Option Key × Option Key
  pkgBody : Option Key × Option Key
  subp : Option Key × Option Key
  pkg : Option Key × Option Key
  process : Option Key × Option Key
  entity : Option Key × Option Key
  block : Option Key × Option Key

def declarativeParts (V : View α) (f : List α) (ix : Index) (K : DeclKeys) : Except PyErr (List (Toi α)) :=
  let bb := fun (p : Option Key × Option Key) => tokensBoundedBy f ix p.1 p.2 {}
  bb K.prot >>= fun prot0 => mapE (extractTail V) prot0 >>= fun prot =>
  bb K.arch >>= fun arch =>
  bb K.pkgBody >>= fun pkgBody =>
  bb K.subp >>= fun subp0 => mapE (extractTail V) subp0 >>= fun subp =>
  bb K.pkg >>= fun pkg =>
  bb K.process >>= fun process =>
  bb K.entity >>= fun entity =>
  bb K.block >>= fun block =>
  combineTois arch prot >>= fun r =>
  combineTois r pkg >>= fun r =>
  combineTois r pkgBody >>= fun r =>
  combineTois r subp >>= fun r =>
  combineTois r process >>= fun r =>
  combineTois r entity >>= fun r =>
  combineTois r block

end Vsgm.TM.X
