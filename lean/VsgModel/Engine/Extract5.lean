/-
  `vsg/vhdlFile/extract/get_tokens_starting_with_token_and_ending_with_one_of_possible_tokens.py`
  (work package WP3; assert_400, case_011, report_statement_400).
-/
import VsgModel.Engine.TokenMap
import VsgModel.Engine.Extract
import VsgModel.Engine.Extract2
import VsgModel.Engine.Extract3
namespace Vsgm.TM.X
open Vsgm Vsgm.TM

variable {α : Type}

/-- the start positions (one past the start token unless `bIncludeStartToken`), each paired with
    the next one (the last with `iMax` = one past the last end token) -/
def seStarts (ix : Index) (startCs endCs : List Cls) (inclStart : Bool) : List (Nat × Nat) :=
  let s0 := idxsOfList ix startCs
  let starts := if inclStart then s0 else s0.map (· + 1)
  let iMax := ((endCs.map fun c => ix.get c.uid).foldl (fun m l => match l.getLast? with | some x => max m x | none => m) 0) + 1
  starts.zip (starts.drop 1 ++ [iMax])

/-- the first end class (in the order of the loop) that has a position strictly between the two
    starts, and its first such position.  The region is `tokens.New(iStartIndex - 1, …)` where
    `iStartIndex` is what `remove_leading_whitespace_and_comments` returned (one past the first
    kept token, or one past the end of the trimmed tokens when nothing is kept: an empty region at
    the right place since the repair of the helper) -/
def startingEnding (V : View α) (P : PCls) (f : List α) (ix : Index) (startCs endCs : List Cls)
    (inclStart inclEnd earliest : Bool) : Except PyErr (List (Toi α)) :=
  let endLists := endCs.map fun c => ix.get c.uid
  let ordered := if earliest then endLists else endLists.reverse
  filterMapE (fun (sn : Nat × Nat) =>
    match ordered.findSome? (fun (l : List Nat) => l.find? fun (e : Nat) => decide (sn.1 < e) && decide (e < sn.2)) with
    | none => pure none
    | some e =>
      ix.lineOf sn.1 >>= fun line =>
      let sl := if inclEnd then pySlice f sn.1 ((e : Int) + 1) else pySlice f sn.1 e
      pure (some { start := some ((removeLeading V P sn.1 sl).1 - 1), line := line,
                   toks := removeTrailing V P (removeLeading V P sn.1 sl).2 })) (seStarts ix startCs endCs inclStart)

end Vsgm.TM.X
