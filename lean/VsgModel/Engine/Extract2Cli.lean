/-
  Driver glue (executable only) for the extractors of `Extract2.lean` …: generic in the token
  type so that `TokenMapCli.lean` can call it with its `view` / `encToi` from the fall-through of
  its `extract`.

  wire arguments: a class = its number in the generated class table; a class list = numbers joined
  by `,`; unless-pairs = `a:b` joined by `,`; hierarchy list = ints joined by `,`;
  parser classes = `ws,cr,comment,blank,preproc`; booleans `0` / `1`.
-/
import VsgModel.Generated.ClassUids
import VsgModel.Engine.Extract2
import VsgModel.Engine.Extract3
import VsgModel.Engine.Extract4
import VsgModel.Engine.Extract5
import VsgModel.Engine.Extract6
import VsgModel.Engine.Extract7
import VsgModel.Engine.Extract8
namespace Vsgm.TM.X.Cli
open Vsgm Vsgm.TM Vsgm.TM.X

variable {α : Type}

def uidOfCls (c : Nat) : Option Key := (Gen.classUids.getD c none)
def clsOf (s : String) : Cls := let p := s.toNat!; { uid := uidOfCls p, idx := p }
def clsList (s : String) : List Cls := if s.isEmpty then [] else (s.splitOn ",").map clsOf
def keyOf (s : String) : Option Key := uidOfCls s.toNat!

def pairList (s : String) : List (Option Key × Option Key) :=
  if s.isEmpty then []
  else (s.splitOn ",").filterMap fun p =>
    match p.splitOn ":" with
    | [a, b] => some (keyOf a, keyOf b)
    | _ => none

def parseInt (s : String) : Int := if s.startsWith "-" then - ((s.drop 1).toString.toNat! : Int) else (s.toNat! : Int)
def intList (s : String) : List Int := if s.isEmpty then [] else (s.splitOn ",").map parseInt

def pcls (s : String) : PCls :=
  match (s.splitOn ",").map String.toNat! with
  | [a, b, c, d, e] => { ws := a, cr := b, comment := c, blank := d, preproc := e }
  | _ => { ws := 0, cr := 0, comment := 0, blank := 0, preproc := 0 }

def showErr (e : PyErr) : String := "raise " ++ e.name

def showTois (enc : Toi α → String) : Except PyErr (List (Toi α)) → String
  | .error e => showErr e
  | .ok l => "ok " ++ ";".intercalate (l.map enc)

def extract2 (V : View α) (hier : α → Option Int) (enc : Toi α → String) (f : List α) (ix : Index) :
    List String → String
  | ["get_line_succeeding_line", l, n] =>
    showTois enc ((lineSucceeding f ix l.toNat! n.toNat!).map fun o => o.toList)
  | ["get_line_below_line_ending_with_token", cs] => showTois enc (lineBelowLineEndingWith f ix (clsList cs))
  | ["get_line_below_line_ending_with_token_with_hierarchy", cs, lh] =>
    showTois enc ((lineBelowLineEndingWithHier f ix hier (clsList cs) (intList lh)).map fun l => l.filterMap id)
  | ["get_line_preceding_line+skip", l, n] => showTois enc ((linePreceding2 f ix l.toNat! n.toNat! true).map fun t => [t])
  | ["get_line_above_line_starting_with_token+comments", cs] => showTois enc (lineAbove f ix (clsList cs) true)
  | ["get_line_above_line_starting_with_token_with_hierarchy", cs, lh, ic] =>
    showTois enc (lineAboveHier f ix hier (clsList cs) (intList lh) (ic == "1"))
  | ["get_tokens_bounded_by_unless_between", a, b, un] => showTois enc (boundedByUnless f ix (keyOf a) (keyOf b) (pairList un))
  | ["get_tokens_between_tokens_inclusive_while_storing_value_from_token", l, r, v] =>
    showTois enc (storingValue f ix (keyOf l) (keyOf r) (keyOf v))
  | ["get_interface_elements_between_tokens", a, b, pc, semi] =>
    showTois enc (interfaceElements V (pcls pc) semi.toNat! f ix (keyOf a) (keyOf b))
  | ["get_tokens_between_non_whitespace_token_and_token", r] => showTois enc (betweenNonWsAndToken f ix (keyOf r))
  | ["get_tokens_from_line", l] => showTois enc ((tokensFromLine f ix l.toNat!).map fun t => [t])
  | ["get_n_tokens_before_and_after_tokens", n, cs] => showTois enc (nBeforeAndAfter f ix n.toNat! (clsList cs))
  | ["get_tokens_bounded_by_token_when_between_tokens", l, r, a, b, tw] =>
    showTois enc (boundedWhenBetween f ix (keyOf l) (keyOf r) (keyOf a) (keyOf b) (tw == "1"))
  | ["get_tokens_from_beginning_of_line_containing_token_to_the_next_non_whitespace_token_to_the_right", t] =>
    showTois enc (bolToNextNonWs f ix (keyOf t))
  | ["get_token_and_n_tokens_before_it_in_between_tokens", cs, n, a, b] =>
    showTois enc (nBeforeInBetween f ix (clsList cs) n.toNat! (keyOf a) (keyOf b))
  | ["get_token_and_n_tokens_before_it_in_between_tokens_unless_between_tokens", cs, n, a, b, un] =>
    showTois enc (nBeforeInBetweenUnless f ix (clsList cs) n.toNat! (keyOf a) (keyOf b) (pairList un))
  | ["get_token_and_n_tokens_before_it_in_between_tokens_unless_token_is_found", cs, n, a, b, st] =>
    showTois enc (nBeforeInBetweenUnlessStop f ix (clsList cs) n.toNat! (keyOf a) (keyOf b) (keyOf st))
  | ["get_token_and_n_tokens_after_it_when_between_tokens", cs, n, a, b] =>
    showTois enc (nAfterWhenBetween f ix (clsList cs) n.toNat! (keyOf a) (keyOf b))
  | ["get_token_and_n_tokens_after_it_when_between_tokens_unless_between_tokens", cs, n, a, b, un] =>
    showTois enc (nAfterWhenBetweenUnless f ix (clsList cs) n.toNat! (keyOf a) (keyOf b) (pairList un))
  | ["get_tokens_matching_in_range_bounded_by_tokens_unless_between_tokens", cs, a, b, un] =>
    showTois enc (matchingInRangeUnless f ix (clsList cs) (keyOf a) (keyOf b) (pairList un))
  | ["get_n_tokens_before_and_after_tokens_bounded_by_tokens", n, cs, a, b] =>
    showTois enc (nBeforeAndAfterBounded f ix n.toNat! (clsList cs) (keyOf a) (keyOf b))
  | ["get_line_which_includes_tokens", cs] => showTois enc (lineWhichIncludes f ix (clsList cs))
  | ["get_sequence_of_tokens_matching_bounded_by_tokens", cs, a, b] =>
    showTois enc (sequenceMatchingBounded V f ix (clsList cs) (keyOf a) (keyOf b))
  | ["get_association_elements_between_tokens", a, b, fo, ac, co, cr] =>
    (match associationElements V { formal := fo.toNat!, actual := ac.toNat!, comma := co.toNat!, cr := cr.toNat! } f ix (keyOf a) (keyOf b) with
     | .error e => showErr e
     | .ok none => "outside"
     | .ok (some l) => showTois enc (.ok l))
  | ["get_tokens_matching_not_at_beginning_or_ending_of_line", cs] => showTois enc (matchingNotAtLineEnds f ix (clsList cs))
  | ["get_tokens_from_non_whitespace_token_until_tokens", cs] => showTois enc (fromNonWsUntil f ix (clsList cs))
  | ["get_if_statement_conditions", pc, i, ei, th, rm] =>
    showTois enc (ifConditions V (pcls pc) f ix (keyOf i) (keyOf ei) (keyOf th) (rm == "1"))
  | ["get_blank_lines_above_line_starting_with_token", cs] => showTois enc (blankAbove f ix (clsList cs))
  | ["get_blank_lines_above_line_starting_with_token_when_between_tokens", cs, a, b] =>
    showTois enc (blankAboveWhenBetween f ix (clsList cs) (keyOf a) (keyOf b))
  | ["get_blank_lines_below_line_ending_with_token", cs, lh] =>
    showTois enc (blankBelow f ix hier (clsList cs) (if lh == "N" then none else some (intList lh)))
  | ["get_tokens_at_beginning_of_line_matching_unless_between_tokens", cs, un] => showTois enc (bolUnless f ix (clsList cs) (pairList un))
  | ["get_tokens_at_beginning_of_line_matching_between_tokens", cs, a, b, inc] =>
    showTois enc (bolBetween f ix (clsList cs) (keyOf a) (keyOf b) (inc == "1"))
  | ["get_tokens_at_beginning_of_line_matching_between_tokens_unless_between_tokens", cs, a, b, un, inc] =>
    showTois enc (bolBetweenUnless f ix (clsList cs) (keyOf a) (keyOf b) (pairList un) (inc == "1"))
  | ["get_subprogram_body_of", ds, bs, pk, fk, kw, desig] =>
    (match subprogramBodyOf V f ix { declSemi := keyOf ds, bodySemi := keyOf bs, procKw := keyOf pk, funcKw := keyOf fk } kw.toNat! desig.toNat! with
     | .error e => showErr e
     | .ok none => "outside"
     | .ok (some l) => showTois enc (.ok l))
  | ["get_tokens_starting_with_token_and_ending_with_one_of_possible_tokens", ss, es, pc, is, ie, ea] =>
    showTois enc (startingEnding V (pcls pc) f ix (clsList ss) (clsList es) (is == "1") (ie == "1") (ea == "1"))
  | ["get_line_below_line_ending_with_several_possible_tokens", st, es] => showTois enc (lineBelowSeveral f ix (keyOf st) (clsList es))
  | ["get_blank_lines_below_line_ending_with_several_possible_tokens", st, es] => showTois enc (blankBelowSeveral f ix (keyOf st) (clsList es))
  | ["get_column_of_token_index", i] =>
    (match columnOf V f ix (parseInt i) with
     | .error e => showErr e
     | .ok c => s!"ok {c}")
  | ["get_consecutive_lines_starting_with_token", t, n] => showTois enc (consecutiveLines f ix (keyOf t) n.toNat!)
  | ["get_consecutive_lines_starting_with_token_and_stopping_when_token_starting_line_is_found", a, b] =>
    showTois enc (consecutiveLinesStopping f ix (keyOf a) (keyOf b))
  | ["get_tokens_in_declarative_parts", ks] =>
    (match pairList ks with
     | [a, b, c, d, e, g, h, i] =>
       showTois enc (declarativeParts V f ix { prot := a, arch := b, pkgBody := c, subp := d, pkg := e, process := g, entity := h, block := i })
     | _ => "unknown")
  | ["get_blank_lines_above_line_starting_with_use_clause", cs, semis, lib] =>
    -- the value field carries `<previous position | N>/<current position>`
    (match blankAboveUseClause f ix (clsList cs) ((if semis.isEmpty then [] else semis.splitOn ",").map keyOf) (keyOf lib) with
     | .error e => showErr e
     | .ok l => "ok " ++ ";".intercalate (l.map fun tpc =>
         match (enc { tpc.1 with value := none }).splitOn "," with
         | [a, b, _, d] => s!"{a},{b},{match tpc.2.1 with | some p => toString p | none => "N"}/{tpc.2.2},{d}"
         | _ => "?"))
  | _ => "unknown"

end Vsgm.TM.X.Cli
