/-
  Model of the analysis engine with rule semantics as a parameter:
  `rule_list.check_rules` (vsg/rule_list.py:204-238), `Rule.analyze` / `Rule.add_violation` /
  `Rule.clear_violations` (vsg/rule.py), `rule_list.clear_violations`, and the instrumented
  version of `rule_list.fix` (which `_fix_violation`s are invoked, on which token list).

  A rule OBJECT is a `CRule`: its configuration, its semantics and the content of
  `rule.violations`.  `analyze` APPENDS to `rule.violations`; only `clear_violations` empties it.
  A check run never touches the token list: every analysis of a run sees the same `f`.
-/
import VsgModel.Engine.RuleRun
namespace Vsgm

/-- one element of `rule.violations` as the reports read it: `get_line_number()`, `get_solution()` -/
structure VRec where
  line : Nat
  sol  : String
  deriving DecidableEq, Repr

/-- a rule object -/
structure CRule where
  cfg     : RuleCfg
  sem     : RuleSem
  sevName : String          -- severity.name   (severity.type == "error" is cfg.sevError)
  userMsg : String          -- user_error_message
  sol     : Viol → String   -- the sSolution `_analyze` gives the violation
  viols   : List VRec       -- rule.violations

/-- `add_violation`: the user_error_message suffix -/
def withUserMsg (msg sol : String) : String :=
  if msg ≠ "" then sol ++ " [user_error_message: " ++ msg ++ "]" else sol

/-- what one `analyze` call appends -/
def CRule.analyzeRecs (r : CRule) (f : List Tok) : List VRec :=
  (r.sem.analyze f).map fun v => ⟨v.line, withUserMsg r.userMsg (r.sol v)⟩

/-- `Rule.analyze` -/
def CRule.analyze (f : List Tok) (r : CRule) : CRule :=
  { r with viols := r.viols ++ r.analyzeRecs f }

/-- `Rule.clear_violations` -/
def CRule.clear (r : CRule) : CRule := { r with viols := [] }

/-- `rule_list.clear_violations` -/
def clearViolations (rs : List CRule) : List CRule := rs.map CRule.clear

def CRule.toRule (r : CRule) : Rule := (r.cfg, r.sem)

/-- selected by `get_rules_in_phase p`, `get_rules_in_subphase s`, `filter_out_disabled_rules` -/
def CRule.inSub (r : CRule) (p s : Nat) : Bool :=
  r.cfg.phase == (p : Int) && r.cfg.subphase == (s : Int) && !r.cfg.disabled

/-- `len(oRule.violations)` after the analysis, counted for error-type severities only -/
def errOf (f : List Tok) (r : CRule) : Nat :=
  if r.cfg.sevError then (r.analyze f).viols.length else 0

/-- the attributes `check_rules` writes -/
structure CheckState where
  rules     : List CRule
  nran      : Nat       -- iNumberRulesRan
  failures  : Nat       -- iFailures
  lastPhase : Nat       -- lastPhaseRan
  viol      : Bool      -- self.violations

/-- one sub-phase: `for oRule in lRules: analyze; iFailures += len(violations) (error type);
    iNumberRulesRan += 1`, then `lastPhaseRan = phase; if iFailures > 0: violations = True` -/
def subStep (f : List Tok) (p : Nat) (st : CheckState) (s : Nat) : CheckState :=
  let sel := st.rules.filter (·.inSub p s)
  let failures := st.failures + (sel.map (errOf f)).sum
  { rules := st.rules.map (fun r => if r.inSub p s then r.analyze f else r)
    nran := st.nran + sel.length
    failures := failures
    lastPhase := p
    viol := if failures > 0 then true else st.viol }

/-- `for subphase in range(0, 6)` -/
def phaseStep (f : List Tok) (st : CheckState) (p : Nat) : CheckState :=
  (List.range 6).foldl (subStep f p) st

/-- `for phase in …: if phase in lSkipPhase: continue; …; if self.violations and not bAllPhases: break` -/
def checkLoop (f : List Tok) (allPhases : Bool) (skip : List Nat) : List Nat → CheckState → CheckState
  | [], st => st
  | p :: ps, st =>
    if p ∈ skip then checkLoop f allPhases skip ps st
    else
      let st' := phaseStep f st p
      if st'.viol && !allPhases then st' else checkLoop f allPhases skip ps st'

def allPhasesList : List Nat := [1, 2, 3, 4, 5, 6, 7]

/-- `check_rules(bAllPhases, lSkipPhase)`; `last0` is `lastPhaseRan` at entry (0 for a fresh rule_list) -/
def checkRules (allPhases : Bool) (skip : List Nat) (rs : List CRule) (f : List Tok) (last0 : Nat := 0) : CheckState :=
  checkLoop f allPhases skip allPhasesList
    { rules := rs, nran := 0, failures := 0, lastPhase := last0, viol := false }

/-- `oRules.clear_violations(); oRules.check_rules(...)` of apply_rules -/
def checkRun (allPhases : Bool) (skip : List Nat) (rs : List CRule) (f : List Tok) : CheckState :=
  checkRules allPhases skip (clearViolations rs) f

/-! ### specification vocabulary (used by the theorems, not by the model) -/

/-- the rule is analysed when phase `p` is executed -/
def CRule.runsIn (r : CRule) (p : Nat) : Bool := (List.range 6).any (fun s => r.inSub p s)

/-- error-type violations counted while phase `p` is executed -/
def errIn (rs : List CRule) (f : List Tok) (p : Nat) : Nat :=
  ((List.range 6).map fun s => ((rs.filter (·.inSub p s)).map (errOf f)).sum).sum

/-- rules analysed while phase `p` is executed -/
def ranIn (rs : List CRule) (p : Nat) : Nat :=
  ((List.range 6).map fun s => (rs.filter (·.inSub p s)).length).sum

/-- phases that are not skipped, in execution order -/
def activePhases (skip : List Nat) : List Nat := allPhasesList.filter (fun p => !decide (p ∈ skip))

/-- the first non-skipped phase in which an error-type violation is counted -/
def firstFailing (skip : List Nat) (rs : List CRule) (f : List Tok) : Option Nat :=
  (activePhases skip).find? (fun p => errIn rs f p > 0)

/-- `phase ≤ p*` (everything when no phase fails) -/
def uptoFirstFailing (pstar : Option Nat) (phase : Int) : Bool :=
  match pstar with
  | none => true
  | some p => phase ≤ (p : Int)

/-! ### instrumented fix run: which `_fix_violation`s are invoked -/

/-- one `Rule.fix` call that reached the `for oViolation in self.violations[::-1]` loop -/
structure FixEv where
  rule  : Rule
  seen  : List Tok      -- the token list the rule analysed
  fixed : List Viol     -- violations whose `_fix_violation` is invoked (after the fix_only filter)

def traceFrom (fo : Option FixOnly) (post : List Tok → List Tok) : List (Option Rule) → List Tok → List FixEv
  | [], _ => []
  | none :: l, g => traceFrom fo post l (post g)
  | some r :: l, g =>
    if r.1.sevError && r.1.fixable then
      ⟨r, g, filterFixOnly fo r.1.id (sortByStart (r.2.analyze g))⟩ :: traceFrom fo post l (ruleFix r.1 r.2 fo g).1
    else traceFrom fo post l g

/-- the `Rule.fix` calls of `rule_list.fix(iFixPhase, lSkipPhase, dFixOnly)` that got past `if self.fixable` -/
def fixTrace (rs : List Rule) (fixPhase : Nat) (skip : List Nat) (fo : Option FixOnly)
    (post : List Tok → List Tok) (f : List Tok) : List FixEv :=
  traceFrom fo post (schedule rs fixPhase skip) f

/-! ### the `--fix_only` dictionary as parsed from JSON -/

/-- an element of the list `dFixOnly["fix"]["rule"][id]` -/
inductive FOItem where
  | all                 -- the string "all"
  | line (n : Nat)      -- an integer
  | other               -- anything else (another string, null …): never equal to a line number
  deriving DecidableEq, Repr

def FOItem.line? : FOItem → Option Nat
  | .line n => some n
  | _ => none

/-- `none` = the key is missing (KeyError) at that level -/
structure FODict where
  fix : Option (Option (List (String × List FOItem)))   -- d["fix"], then ["rule"], then the id ↦ list map

/-- `dFixOnly["fix"]["rule"][id]` with every KeyError collapsed to `none`;
    `"all" in l` and the listed integers otherwise -/
def FODict.toFixOnly (d : FODict) : FixOnly := fun id =>
  match d.fix with
  | none => none
  | some none => none
  | some (some m) => (m.lookup id).map fun items => (items.contains FOItem.all, items.filterMap FOItem.line?)

end Vsgm
