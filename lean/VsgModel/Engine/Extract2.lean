/-
  `vsg/vhdlFile/extract/*.py`, second batch (work package WP3): the line-below / line-above
  families with hierarchy and comment skipping, `get_tokens_bounded_by_unless_between`,
  `get_tokens_between_tokens_inclusive_while_storing_value_from_token`,
  `get_interface_elements_between_tokens`, `get_tokens_between_non_whitespace_token_and_token`,
  `get_tokens_from_line`, `get_n_tokens_before_and_after_tokens`,
  `get_tokens_bounded_by_token_when_between_tokens` — transcribed as they are (Python index
  semantics, `None` positions, what can raise).
-/
import VsgModel.Engine.TokenMap
import VsgModel.Engine.Extract
namespace Vsgm.TM.X
open Vsgm Vsgm.TM

variable {α : Type}

/-- class numbers (for `isinstance`) of the `parser` classes the extractors test -/
structure PCls where
  ws : Nat
  cr : Nat
  comment : Nat
  blank : Nat
  preproc : Nat
  deriving Repr, DecidableEq

/-! ### plumbing -/

/-- a `for` loop that threads local state and may raise -/
def foldlE {σ β : Type} (g : σ → β → Except PyErr σ) : σ → List β → Except PyErr σ
  | s, [] => .ok s
  | s, b :: bs =>
    match g s b with
    | .error e => .error e
    | .ok s' => foldlE g s' bs

/-- a loop that threads local state and appends one result per iteration -/
def scanE {σ β γ : Type} (g : σ → β → Except PyErr (σ × γ)) : σ → List β → Except PyErr (List γ)
  | _, [] => .ok []
  | s, b :: bs =>
    match g s b with
    | .error e => .error e
    | .ok (s', c) =>
      match scanE g s' bs with
      | .error e => .error e
      | .ok cs => .ok (c :: cs)

/-- `utils.filter_tokens_between_tokens`: the RAW position lists of `oStart` / `oEnd` are zipped
    (no pairing), the class loop is the outer one -/
def filterBetween (ix : Index) (cs : List Cls) (a b : Option Key) : List Nat :=
  cs.flatMap fun c => ((ix.get a).zip (ix.get b)).flatMap fun se => ix.getBetween c.uid se.1 se.2

/-- `utils.get_indexes_of_token_pairs` -/
def unlessPairs (ix : Index) (un : List (Option Key × Option Key)) : List (Nat × Nat) :=
  un.flatMap fun p => (ix.pairIndexes p.1 p.2).1.zip (ix.pairIndexes p.1 p.2).2

/-- `utils.filter_indexes_in_unless_regions` (with no region the same list is returned) -/
def filterUnless (ix : Index) (idxs : List Nat) (un : List (Option Key × Option Key)) : List Nat :=
  idxs.filter fun i => !(unlessPairs ix un).any fun p => decide (p.1 ≤ i) && decide (i ≤ p.2)

/-- `utils.is_index_between_indexes` -/
def isBetween (i : Nat) (ls le : List Nat) (incl : Bool) : Bool :=
  (ls.zip le).any fun se =>
    if incl then decide (se.1 ≤ i) && decide (i ≤ se.2) else decide (se.1 < i) && decide (i < se.2)

/-- `oToken.get_hierarchy() in lHierarchy` (`None in [ints]` is `False`) -/
def hierIn (hier : α → Option Int) (lh : List Int) (t : α) : Bool :=
  match hier t with
  | some h => lh.contains h
  | none => false

/-! ### get_line_succeeding_line -/

/-- `lCarriageReturns[iLine - 1]` is outside the `try`; an `IndexError` of the second look-up
    makes the function return `None` -/
def lineSucceeding (f : List α) (ix : Index) (line num : Nat) : Except PyErr (Option (Toi α)) :=
  let crs := ix.get (some crKey)
  pyIdx crs ((line : Int) - 1) >>= fun s =>
  match pyIdx crs ((line : Int) + (num : Int) - 1) with
  | .error _ => pure none
  | .ok e => pure (some { start := some ((s : Int) + 1), line := line + 1, toks := pySlice f ((s : Int) + 1) e })

/-! ### get_line_below_line_ending_with_token (36 rules) -/

def lineBelowLineEndingWith (f : List α) (ix : Index) (cs : List Cls) : Except PyErr (List (Toi α)) :=
  mapE (fun (i : Nat) => ix.lineOf i) ((idxsOfList ix cs).filter fun (i : Nat) => isEndOfLine ix i) >>= fun lines =>
  filterMapE (fun l => lineSucceeding f ix l 1) (sortNat lines)

/-! ### get_line_below_line_ending_with_token_with_hierarchy (36 rules): `None` is appended too -/

def hierIdxs (f : List α) (hier : α → Option Int) (lh : List Int) (p : Int → Bool) (idxs : List Nat) :
    Except PyErr (List Nat) :=
  filterMapE (fun (i : Nat) =>
    pyIdx f i >>= fun t => pure (if hierIn hier lh t && p i then some i else none)) idxs

def lineBelowLineEndingWithHier (f : List α) (ix : Index) (hier : α → Option Int) (cs : List Cls) (lh : List Int) :
    Except PyErr (List (Option (Toi α))) :=
  hierIdxs f hier lh (isEndOfLine ix) (idxsOfList ix cs) >>= fun idxs =>
  mapE (fun (i : Nat) => ix.lineOf i) idxs >>= fun lines =>
  mapE (fun l => lineSucceeding f ix l 1) (sortNat lines)

/-! ### get_line_preceding_line with `bSkipComments` -/

/-- `for i in range(iTempIndex, -1, -1): if lTemp[i] != iCurrent - 1: break; iCurrent = lTemp[i]` -/
def walkBack (l : List Nat) : Nat → Int → Except PyErr Int
  | 0, cur => .ok cur
  | i + 1, cur =>
    match l[i]? with
    | none => .error .indexError
    | some x => if (x : Int) ≠ cur - 1 then .ok cur else walkBack l i (x : Int)

/-- `_get_start_index`: `list.index` raises `ValueError` -/
def skipStartIndex (ix : Index) (crs : List Nat) (line : Nat) : Except PyErr Nat :=
  let tmp := sortNat (ix.get (some commentKey) ++ ix.get (some wsKey) ++ ix.get (some crKey))
  pyIdx crs ((line : Int) - 2) >>= fun cur =>
  if tmp.contains cur then
    walkBack tmp (tmp.idxOf cur) (cur : Int) >>= fun c => pure (bisectLeft crs c)
  else .error .valueError

def linePrecedingSkip (f : List α) (ix : Index) (line : Nat) : Except PyErr (Toi α) :=
  let crs := ix.get (some crKey)
  skipStartIndex ix crs line >>= fun si =>
  if si = 0 then
    pyIdx crs 0 >>= fun e => pure { start := some 0, line := 2, toks := pySlice f 0 e }
  else
    pyIdx crs ((si : Int) - 1) >>= fun s =>
    pyIdx crs (si : Int) >>= fun e =>
    pure { start := some ((s : Int) + 1), line := si + 2, toks := pySlice f ((s : Int) + 1) e }

/-- `get_line_preceding_line(iLine, lAllTokens, iNumLines, oTokenMap, bSkipComments)` -/
def linePreceding2 (f : List α) (ix : Index) (line num : Nat) (skip : Bool) : Except PyErr (Toi α) :=
  if skip then linePrecedingSkip f ix line else linePreceding f ix line num

/-! ### get_line_above_line_starting_with_token, both modes -/

def lineAbove (f : List α) (ix : Index) (cs : List Cls) (incl : Bool) : Except PyErr (List (Toi α)) :=
  mapE (fun (i : Nat) => ix.lineOf i) ((idxsOfList ix cs).filter fun (i : Nat) => isStartOfLine ix i) >>= fun lines =>
  mapE (fun l => linePreceding2 f ix l 1 incl) (sortNat lines)

/-! ### get_line_above_line_starting_with_token_with_hierarchy (25 rules) -/

def lineAboveHier (f : List α) (ix : Index) (hier : α → Option Int) (cs : List Cls) (lh : List Int) (incl : Bool) :
    Except PyErr (List (Toi α)) :=
  hierIdxs f hier lh (isStartOfLine ix) (idxsOfList ix cs) >>= fun idxs =>
  mapE (fun (i : Nat) => ix.lineOf i) idxs >>= fun lines =>
  mapE (fun l => linePreceding2 f ix l 1 incl) (sortNat lines)

/-! ### get_tokens_bounded_by_unless_between (27 rules): the value is computed against the
    UNFILTERED list of ends (`zip(lNewStart, lNewEnd, lEnd)`) -/

def boundedByUnless (f : List α) (ix : Index) (a b : Option Key) (un : List (Option Key × Option Key)) :
    Except PyErr (List (Toi α)) :=
  let lStart := (ix.pairIndexes a b).1
  let lEnd := (ix.pairIndexes a b).2
  let unS := un.flatMap fun p => (ix.pairIndexes p.1 p.2).1
  let unE := un.flatMap fun p => (ix.pairIndexes p.1 p.2).2
  let kept := (lStart.zip lEnd).filter fun se =>
    !(unS.zip unE).any fun u => decide (u.1 < se.1) && decide (se.1 < u.2) && decide (u.1 < se.2) && decide (se.2 < u.2)
  mapE (fun (x : (Nat × Nat) × Nat) =>
    ix.lineOf x.1.1 >>= fun line =>
    pure { start := some (x.1.1 : Int), line := line, toks := pySlice f x.1.1 ((x.1.2 : Int) + 1),
           value := some ((x.2 : Int) - (x.1.1 : Int)) }) (kept.zip lEnd)

/-! ### get_tokens_between_tokens_inclusive_while_storing_value_from_token (14 rules).
    `value` is the POSITION of the token whose `get_value()` the code stores (`None` when there
    is none or the position is out of range: both `IndexError`s are caught) -/

structure SvState where
  values : List Nat := []
  popped : List Nat := []
  deriving Repr

def svStep (f : List α) (ix : Index) (valIdxs : List Nat) (st : SvState) (se : Nat × Nat) :
    Except PyErr (SvState × Toi α) :=
  let values := valIdxs.foldl (fun vs v =>
    if decide (v ≤ se.1) && !st.popped.contains v && !vs.contains v then vs ++ [v] else vs) st.values
  ix.lineOf se.1 >>= fun line =>
  let value : Option Int :=
    match values.getLast? with
    | none => none
    | some v => (match pyIdx f (v : Int) with | .ok _ => some (v : Int) | .error _ => none)
  pure ({ values := values.dropLast,
          popped := match values.getLast? with | some v => st.popped ++ [v] | none => st.popped },
        { start := some (se.1 : Int), line := line, toks := pySlice f se.1 ((se.2 : Int) + 1), value := value })

def storingValue (f : List α) (ix : Index) (l r v : Option Key) : Except PyErr (List (Toi α)) :=
  scanE (svStep f ix (ix.get v)) {} ((ix.pairIndexes l r).1.zip (ix.pairIndexes l r).2)

/-! ### get_interface_elements_between_tokens (13 rules) -/

structure IeState (α : Type) where
  store : Bool := false
  start : Option Int := none     -- `iStartIndex`: a function local, it survives the outer loop
  lineNo : Nat := 0              -- `iLineNumber` (set whenever `bStore` is set)
  line : Nat
  tmp : List α := []
  out : List (Toi α) := []

/-- one iteration of the inner loop; `kt.1` is the position of the token in the file -/
def ieStep (V : View α) (P : PCls) (semi : Nat) (st : IeState α) (kt : Nat × α) : Except PyErr (IeState α) :=
  let t := kt.2
  let st1 : IeState α :=
    if !V.inst t P.ws && !V.inst t P.cr && !V.inst t P.comment && !st.store
    then { st with store := true, start := some (kt.1 : Int), lineNo := st.line } else st
  let st2 : IeState α := if st1.store then { st1 with tmp := st1.tmp ++ [t] } else st1
  (if V.inst t semi then
    (if st2.tmp.isEmpty then .error .indexError       -- `lTemp.pop()`
     else .ok { st2 with out := st2.out ++ [{ start := st2.start, line := st2.lineNo, toks := st2.tmp.dropLast }],
                         tmp := [], store := false })
   else .ok st2) >>= fun st3 =>
  pure (if V.inst t P.cr then { st3 with line := st3.line + 1 } else st3)

/-- `for i in range(1, 5)`: up to four trailing whitespace / line break / comment tokens go -/
def stripTrail (V : View α) (P : PCls) : Nat → List α → Except PyErr (List α)
  | 0, l => .ok l
  | n + 1, l =>
    match l.getLast? with
    | none => .error .indexError
    | some t =>
      if V.inst t P.ws || V.inst t P.cr || V.inst t P.comment then stripTrail V P n l.dropLast
      else stripTrail V P n l

def ieOuter (V : View α) (P : PCls) (semi : Nat) (f : List α) (ix : Index)
    (acc : Option Int × List (Toi α)) (se : Nat × Nat) : Except PyErr (Option Int × List (Toi α)) :=
  ix.lineOf se.1 >>= fun line =>
  foldlE (ieStep V P semi) { start := acc.1, line := line, out := acc.2 }
    (enumFrom (se.1 + 1) (pySlice f ((se.1 : Int) + 1) se.2)) >>= fun st =>
  if st.tmp.length > 0 then
    stripTrail V P 4 st.tmp >>= fun tmp =>
    pure (st.start, st.out ++ [{ start := st.start, line := st.lineNo, toks := tmp }])
  else pure (st.start, st.out)

def interfaceElements (V : View α) (P : PCls) (semi : Nat) (f : List α) (ix : Index) (a b : Option Key) :
    Except PyErr (List (Toi α)) :=
  foldlE (ieOuter V P semi f ix) (none, []) ((ix.pairIndexes a b).1.zip (ix.pairIndexes a b).2) >>= fun r =>
  pure r.2

/-! ### get_tokens_between_non_whitespace_token_and_token (11 rules): a `None` start fails in
    `get_line_number_of_index` (`KeyError` if there is no line break, else `TypeError` in `bisect`) -/

def betweenNonWsAndToken (f : List α) (ix : Index) (right : Option Key) : Except PyErr (List (Toi α)) :=
  filterMapE (fun (e : Nat) =>
    match ix.prevNonWs e with
    | none => ix.crs >>= fun _ => .error .typeError
    | some s =>
      if (s : Int) = (e : Int) - 1 then pure none
      else ix.lineOf s >>= fun line =>
        pure (some { start := some (s : Int), line := line, toks := pySlice f s ((e : Int) + 1) })) (ix.get right)

/-! ### get_tokens_from_line (9 rules) -/

def tokensFromLine (f : List α) (ix : Index) (line : Nat) : Except PyErr (Toi α) :=
  let crs := ix.get (some crKey)
  pyIdx crs ((line : Int) - 2) >>= fun s =>
  pyIdx crs ((line : Int) - 2 + 1) >>= fun e =>
  pure { start := some ((s : Int) + 1), line := line, toks := pySlice f ((s : Int) + 1) ((e : Int) + 1) }

/-! ### get_n_tokens_before_and_after_tokens (7 rules): a matched token with fewer than `iToken`
    tokens in front of it gets no region (`if iStart >= 0`, as in `get_token_and_n_tokens_before_it`;
    the line is looked up first) -/

def nBeforeAndAfter (f : List α) (ix : Index) (n : Nat) (cs : List Cls) : Except PyErr (List (Toi α)) :=
  filterMapE (fun (i : Nat) =>
    ix.lineOf i >>= fun line =>
    let s : Int := (i : Int) - (n : Int)
    if s ≥ 0 then pure (some { start := some s, line := line, toks := pySlice f s ((i : Int) + (n : Int) + 1) })
    else pure none) (idxsOfList ix cs)

/-! ### get_tokens_bounded_by_token_when_between_tokens (7 rules).  The code asks
    `oTokenMap.is_token_at_index(iRight + 1, parser.whitespace)` — arguments swapped — which is
    always `False` (`extract_unique_id(int)` is `(None, None)`, `KeyError` caught): the flag
    `include_trailing_whitespace` has no effect -/

def dedupGo {β : Type} [BEq β] : List β → List β → List β
  | acc, [] => acc
  | acc, x :: xs => if acc.contains x then dedupGo acc xs else dedupGo (acc ++ [x]) xs

def boundedWhenBetween (f : List α) (ix : Index) (l r a b : Option Key) (_trailingWs : Bool) :
    Except PyErr (List (Toi α)) :=
  let inner := (ix.pairIndexes l r).1.zip (ix.pairIndexes l r).2
  let outer := (ix.pairIndexes a b).1.zip (ix.pairIndexes a b).2
  let pairs := outer.flatMap fun o => inner.filter fun p => decide (o.1 < p.1) && decide (p.2 < o.2)
  mapE (fun (p : Nat × Nat) =>
    ix.lineOf p.1 >>= fun line =>
    pure { start := some (p.1 : Int), line := line, toks := pySlice f p.1 ((p.2 : Int) + 1) }) (dedupGo [] pairs)

end Vsgm.TM.X
