/-
  `driver engine`: line protocol for the engine model (check_rules / reports / fix with the
  stub rule kinds of Stub.lean).  Executable glue only.

  requests (fields separated by TAB, free strings as code points joined by '.'):
    FILE <tokens> <blank_line class>        token = serial:class:value, list joined by ' '
    SEVS <name> <name> …                    severity list names (in order)
    RULES                                   forget all rules
    RULE id kind cls arg phase sub disabled fixable sevName sevErr prereq userMsg
                                            kind S (arg = value) | I (arg = whitespace class) | D
    FO NONE | NOFIX | NORULE | MAP id=item,item;id=…      item A | L<n> | O
    FIX fixPhase skip…                      → FIXLOG / TOKS / HAD
    CHECK allPhases clear skip…             → CHK / RV
    REPORT                                  → VSG / SYN / SUM / JUN / JSON / QR / EXIT
    MAIN outcome…                           c0 c1 (checked) K (classify) G (config) L (local rules) → MAINEXIT
  every request that produces output ends it with a line `END`
-/
import VsgModel.Wire
import VsgModel.Engine.CheckRules
import VsgModel.Engine.Report
import VsgModel.Engine.Stub
import VsgModel.Engine.Post
namespace Vsgm.EngineCli
open Vsgm Vsgm.Wire

structure St where
  toks   : List Tok := []
  blank  : Tok := ⟨0, .blank, []⟩
  sevs   : List String := []
  rules  : List CRule := []
  kinds  : List StubKind := []
  fo     : Option FODict := none
  last   : Nat := 0
  nran   : Nat := 0
  viol   : Bool := false

def dS (s : String) : String := String.ofList (decStr s)
def eS (s : String) : String := encStr s.toList
def b (x : Bool) : String := if x then "1" else "0"
def pb (s : String) : Bool := s == "1"
def nats (s : String) : List Nat := if s.isEmpty then [] else (s.splitOn " ").map (·.toNat!)

def mkRule (id kind cls arg phase sub dis fx sevName sevErr prereq msg : String) : CRule :=
  let k : StubKind :=
    if kind == "S" then .setVal cls.toNat! (decStr arg)
    else if kind == "I" then .insertAfter cls.toNat! arg.toNat!
    else .delete cls.toNat!
  { cfg := { id := dS id, phase := phase.toInt!, subphase := sub.toInt!, disabled := pb dis, fixable := pb fx,
             sevError := pb sevErr, prereq := pb prereq },
    sem := k.sem, sevName := dS sevName, userMsg := dS msg, sol := k.sol, viols := [] }

def parseItem (s : String) : FOItem :=
  if s == "A" then .all
  else if s.startsWith "L" then .line (s.drop 1).toString.toNat!
  else .other

def parseFo (fields : List String) : Option FODict :=
  match fields with
  | ["NONE"] => none
  | ["NOFIX"] => some ⟨none⟩
  | ["NORULE"] => some ⟨some none⟩
  | ["MAP"] => some ⟨some (some [])⟩
  | ["MAP", m] =>
    let ents := if m.isEmpty then [] else (m.splitOn ";").map fun e =>
      match e.splitOn "=" with
      | [id, items] => (dS id, if items.isEmpty then [] else (items.splitOn ",").map parseItem)
      | _ => ("", [])
    some ⟨some (some ents)⟩
  | _ => none

def encTokPlain (t : Tok) : String := s!"{t.cls}:{encStr t.val}"

def vrecs (l : List VRec) : String := " ".intercalate (l.map fun v => s!"{v.line}:{eS v.sol}")
def sevCounts (l : List (String × Nat)) : String := " ".intercalate (l.map fun (n, c) => s!"{eS n}={c}")

partial def loop (h out : IO.FS.Stream) (st : St) : IO Unit := do
  let line ← h.getLine
  if line.isEmpty then return ()
  let line := if line.endsWith "\n" then (line.dropEnd 1).toString else line
  match line.splitOn "\t" with
  | ["FILE", ts, bl] =>
    loop h out { st with toks := (decToks ts).map (·.tok), blank := ⟨bl.toNat!, kindOfCls bl.toNat!, []⟩ }
  | "SEVS" :: names =>
    loop h out { st with sevs := (names.filter (!·.isEmpty)).map dS }
  | ["SEVS0"] => loop h out { st with sevs := [] }
  | ["RULES"] => loop h out { st with rules := [], last := 0, nran := 0, viol := false }
  | ["RULE", id, kind, cls, arg, phase, sub, dis, fx, sevName, sevErr, prereq, msg] =>
    loop h out { st with rules := st.rules ++ [mkRule id kind cls arg phase sub dis fx sevName sevErr prereq msg] }
  | "FO" :: fields => loop h out { st with fo := parseFo fields }
  | ["FIX", fp, skip] =>
    let rs := st.rules.map CRule.toRule
    let fo := st.fo.map FODict.toFixOnly
    let post := postPhase1 st.blank
    let (toks, had) := fixRun rs fp.toNat! (nats skip) fo post st.toks
    let tr := fixTrace rs fp.toNat! (nats skip) fo post st.toks
    -- `for oViolation in self.violations[::-1]`: invocation order inside one rule is reversed
    let log := tr.flatMap fun ev => ev.fixed.reverse.map fun v => s!"{eS ev.rule.1.id}:{v.line}:{v.start}"
    out.putStrLn ("FIXLOG\t" ++ " ".intercalate log)
    out.putStrLn ("TOKS\t" ++ " ".intercalate (toks.map encTokPlain))
    out.putStrLn ("HAD\t" ++ b had)
    out.putStrLn "END"; out.flush
    loop h out { st with toks := toks }
  | ["CHECK", ap, clear, skip] =>
    let rs := if pb clear then clearViolations st.rules else st.rules
    let cs := checkRules (pb ap) (nats skip) rs st.toks st.last
    out.putStrLn s!"CHK\t{cs.nran}\t{cs.lastPhase}\t{b cs.viol}"
    for r in cs.rules do
      out.putStrLn s!"RV\t{eS r.cfg.id}\t{vrecs r.viols}"
    out.putStrLn "END"; out.flush
    loop h out { st with rules := cs.rules, last := cs.lastPhase, nran := cs.nran, viol := cs.viol }
  | ["REPORT"] =>
    let cs : CheckState := { rules := st.rules, nran := st.nran, failures := 0, lastPhase := st.last, viol := st.viol }
    match reportViolations cs st.sevs with
    | none => out.putStrLn "RI\tKeyError"
    | some ri =>
      let v := vsgOut ri
      out.putStrLn ("VSG\t" ++ s!"{v.stopPhase}\t{v.numRules}\t{v.total}\t{sevCounts v.severities}\t" ++
        " ".intercalate (v.rows.map fun (r, s, l, so) => s!"{eS r}:{eS s}:{l}:{eS so}"))
      out.putStrLn ("SYN\t" ++ " ".intercalate ((synOut ri).map fun (e, r, l, so) => s!"{b e}:{eS r}:{l}:{eS so}"))
      match sumOut ri with
      | none => out.putStrLn "SUM\tKeyError"
      | some s => out.putStrLn s!"SUM\t{b s.ok}\t{s.numRules}\t{sevCounts s.severities}\t{b s.onStderr}"
    out.putStrLn ("JUN\t" ++ " ".intercalate ((junitLines st.rules).map fun c => s!"{eS c.rule}:{c.line}:{eS c.sol}"))
    let js := jsonRecs st.rules
    out.putStrLn ("JSON\t" ++ " ".intercalate (js.map fun j => s!"{eS j.rule}:{j.line}:{eS j.severity}:{eS j.sol}"))
    out.putStrLn ("QR\t" ++ " ".intercalate ((qualityRecs js).map fun q => s!"{eS q.description}:{b q.critical}:{q.line}"))
    out.putStrLn s!"EXIT\t{b st.viol}"
    out.putStrLn "END"; out.flush
    loop h out st
  | ["MAIN", os] =>
    let outcomes : List FileOutcome := (if os.isEmpty then [] else os.splitOn " ").map fun o =>
      if o == "c0" then .checked false else if o == "c1" then .checked true
      else if o == "K" then .classifyError else if o == "G" then .configError else .localRulesError
    out.putStrLn s!"MAINEXIT\t{b (mainExit outcomes)}\t{(processed outcomes).length}"
    out.putStrLn "END"; out.flush
    loop h out st
  | _ =>
    out.putStrLn ("error bad line " ++ (line.take 60).toString); out.putStrLn "END"; out.flush
    loop h out st

def engineMain (stdin stdout : IO.FS.Stream) : IO Unit := loop stdin stdout {}

end Vsgm.EngineCli
