/-
  `vsg/vhdlFile/extract/*.py`, sixth batch (work package WP3b):
  `get_line_below_line_ending_with_several_possible_tokens`,
  `get_blank_lines_below_line_ending_with_several_possible_tokens` (with
  `utils.get_indexes_of_tokens_between`), `get_column_of_token_index` (returns an int),
  `get_consecutive_lines_starting_with_token` and
  `get_consecutive_lines_starting_with_token_and_stopping_when_token_starting_line_is_found`.
-/
import VsgModel.Engine.TokenMap
import VsgModel.Engine.Extract
import VsgModel.Engine.Extract2
import VsgModel.Engine.Extract4
namespace Vsgm.TM.X
open Vsgm Vsgm.TM

variable {α : Type}

/-! ### utils.get_indexes_of_tokens_between -/

/-- the inner loop: the LAST end position strictly between the start and the next start, the
    scan stopping at the first end position beyond the next start -/
def pickEnd (s nx : Nat) : Nat → List Nat → Nat
  | cur, [] => cur
  | cur, e :: es =>
    let cur' := if decide (s < e) && decide (e < nx) then e else cur
    if e > nx then cur' else pickEnd s nx cur' es

/-- for the last start the bound is one past the last end position; with no end position at all the
    ENUMERATION INDEX of that start is appended (`lReturn.append(iStartIndex)`) and the loop ends -/
def idxBetweenGo (ends : List Nat) : Nat → List Nat → List Nat
  | _, [] => []
  | k, s :: rest =>
    match rest.head?, ends.getLast? with
    | some nx, _ => pickEnd s nx s ends :: idxBetweenGo ends (k + 1) rest
    | none, some l => [pickEnd s (l + 1) s ends]
    | none, none => [k]

def idxsOfTokensBetween (ix : Index) (start : Option Key) (endCs : List Cls) : List Nat :=
  idxBetweenGo (idxsOfList ix endCs) 0 (ix.get start)

/-! ### get_line_below_line_ending_with_several_possible_tokens (block_201) -/

def lineBelowSeveral (f : List α) (ix : Index) (start : Option Key) (endCs : List Cls) : Except PyErr (List (Toi α)) :=
  mapE (fun (i : Nat) => ix.lineOf i) ((idxsOfTokensBetween ix start endCs).filter fun (i : Nat) => isEndOfLine ix i) >>= fun lines =>
  filterMapE (fun l => lineSucceeding f ix l 1) (sortNat lines)

/-! ### get_blank_lines_below_line_ending_with_several_possible_tokens (block_201) -/

def blankBelowSeveral (f : List α) (ix : Index) (start : Option Key) (endCs : List Cls) : Except PyErr (List (Toi α)) :=
  blankBelowIdx f ix (idxsOfTokensBetween ix start endCs)

/-! ### get_column_of_token_index (17 rules): the summed value lengths of the tokens from the token
    after `lCarriageReturns[line - 2]` up to the token.  On the FIRST line that is
    `lCarriageReturns[-1]`, the last line break of the file: the slice is empty and the column 0 -/

def columnOf (V : View α) (f : List α) (ix : Index) (i : Int) : Except PyErr Nat :=
  pyIdx f i >>= fun _ =>
  ix.lineOf i >>= fun line =>
  pyIdx (ix.get (some crKey)) ((line : Int) - 1 - 1) >>= fun c =>
  pure ((pySlice f ((c : Int) + 1) i).map V.len).sum

/-! ### get_consecutive_lines_starting_with_token -/

/-- `group_lines` -/
def groupLines : List Nat → List Nat → List (List Nat)
  | [], _ => []          -- only for an empty input (`cur` is then empty)
  | [x], cur => [cur ++ [x]]
  | x :: y :: rest, cur =>
    if y = x + 1 then groupLines (y :: rest) (cur ++ [x])
    else (cur ++ [x]) :: groupLines (y :: rest) []

def consecutiveLines (f : List α) (ix : Index) (tok : Option Key) (minLines : Nat) : Except PyErr (List (Toi α)) :=
  mapE (fun (i : Nat) => ix.lineOf i) ((ix.get tok).filter fun (i : Nat) => isStartOfLine ix i) >>= fun lines =>
  mapE (fun (g : List Nat) =>
    match g.head?, g.getLast? with
    | some sl, some el =>
      ix.indexOfLine sl >>= fun st =>
      ix.indexOfLine el >>= fun e0 =>
      ix.crAfter e0 >>= fun et =>
      pure { start := some st, line := sl, toks := pySlice f st et }
    | _, _ => .error .indexError) ((groupLines lines []).filter fun g => decide (g.length ≥ minLines))

/-! ### get_consecutive_lines_starting_with_token_and_stopping_when_token_starting_line_is_found
    (library_009) -/

structure ClState (α : Type) where
  start : Option Nat := none
  out : List (Toi α) := []

def clStep (f : List α) (ix : Index) (searchLines stopLines stopIdx : List Nat) (st : ClState α) (v : Nat) :
    Except PyErr (ClState α) :=
  (if stopLines.contains v then
    match st.start with
    | some s =>
      ix.lineOf s >>= fun line =>
      pyIdx stopIdx (stopLines.idxOf v) >>= fun e =>
      pure ({ start := none, out := st.out ++ [{ start := some (s : Int), line := line, toks := pySlice f s ((e : Int) + 1) }] } : ClState α)
    | none => pure st
   else pure st) >>= fun st1 =>
  pure (if searchLines.contains v then (match st1.start with | none => { st1 with start := some (v + 1) } | some _ => st1)
        else { st1 with start := none })

def consecutiveLinesStopping (f : List α) (ix : Index) (search stop : Option Key) : Except PyErr (List (Toi α)) :=
  let crs := ix.get (some crKey)
  let sIdx := (ix.get search).filter fun (i : Nat) => isStartOfLine ix i
  let tIdx := (ix.get stop).filter fun (i : Nat) => isStartOfLine ix i
  let lineCr := fun (i : Nat) => ix.lineOf i >>= fun l => pyIdx crs ((l : Int) - 2)
  mapE lineCr sIdx >>= fun searchLines =>
  mapE lineCr tIdx >>= fun stopLines =>
  foldlE (clStep f ix searchLines stopLines tIdx) {} crs >>= fun st => pure st.out

end Vsgm.TM.X
