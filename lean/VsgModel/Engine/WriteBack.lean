/-
  C16 — write-back of a fixed file: a small file-system state machine.

  Transcribes, OS call by OS call, `vsg/apply_rules.py`:

      def create_backup_file(sFileName):
          shutil.copy2(sFileName, sFileName + ".bak")                      -- op copy2

      def apply_rules(...):
          read + parse            (ClassifyError      -> return)            -- no FS op
          rule_list, configure    (ConfigurationError -> return)            -- no FS op
          if cla.fix:
              if cla.backup: create_backup_file(sFileName)
              oRules.fix(...)                                               -- in memory; may raise
              if oRules.had_violations: write_vhdl_file(oVhdlFile, dConfig)

      def write_vhdl_file(oVhdlFile, dConfig):
          tmpfile = f"{oVhdlFile.filename}.tmp"
          myStat = os.stat(oVhdlFile.filename)                              -- op stat   (outside `try`)
          try:
              with open(tmpfile, "w", ...) as oFile:                        -- op openTmp
                  oFile.write("\n".join(oVhdlFile.get_lines()[1:]))         -- op writeBody
                  oFile.write("\n")                                         -- op writeNl
                                                                            -- op close  (`__exit__`, always)
              os.chmod(tmpfile, myStat.st_mode)                             -- op chmod
              os.replace(tmpfile, oVhdlFile.filename)                       -- op replace
          except PermissionError as err:
              print(err, "Could not write fixes back to file.")
          finally:
              try:
                  os.remove(tmpfile)                                        -- op remove
              except FileNotFoundError:
                  pass

  Every OS call consults a fault schedule at its call index: it succeeds, raises
  PermissionError, raises another OSError, or is the crash point (the process dies before the
  call takes effect, or — for writes, close and copy2 — after a partial effect).

  Modelling assumptions (they are how the operations are defined):
    * `replace` is atomic: the target gets the temporary file's content and mode in one step;
    * modes are the permission bits (`st_mode & 0o7777`); `stat` returns them, `chmod` sets them;
    * a file object may buffer (`buffered = true`: data reaches the disk at `close`) or not
      (`buffered = false`: every `write` reaches the disk); a failing `close` still hands the
      buffered data to the OS before the error is raised.
-/
namespace Vsgm.WB

/-- file contents: bytes -/
abbrev Content := List Nat

structure File where
  content : Content
  mode : Nat
  deriving DecidableEq, Repr, Inhabited

/-- the three paths `<name>`, `<name>.tmp`, `<name>.bak` -/
structure FS where
  target : File
  tmp : Option File
  bak : Option File
  deriving DecidableEq, Repr, Inhabited

inductive Op where
  | copy2 | stat | openTmp | writeBody | writeNl | close | chmod | replace | remove
  deriving DecidableEq, Repr, Inhabited

/-- what happens at one OS call -/
inductive Outcome where
  | ok            -- succeeds
  | perm          -- raises PermissionError (no effect)
  | oserr         -- raises another OSError, e.g. ENOSPC (no effect)
  | crash         -- the process dies before the call takes effect
  | crashPartial  -- the process dies after a partial effect (write / close / copy2; else = crash)
  deriving DecidableEq, Repr, Inhabited

/-- fault schedule: outcome of the k-th OS call of the run -/
abbrev Schedule := Nat → Outcome

inductive Exc where
  | perm      -- PermissionError
  | oserr     -- any other OSError
  | notFound  -- FileNotFoundError
  | rule      -- an exception raised by a rule during `oRules.fix`
  deriving DecidableEq, Repr, Inhabited

structure St where
  fs : FS
  /-- data written to the open file object that has not reached the disk yet -/
  buf : Content
  /-- OS calls made so far with the outcome the schedule gave them -/
  trace : List (Op × Outcome)
  /-- the file system after each OS call made so far (oldest first): every crash point -/
  hist : List FS
  /-- "Could not write fixes back to file." was printed -/
  msg : Bool
  deriving DecidableEq, Repr, Inhabited

inductive Res (α : Type) where
  | ok (a : α) (s : St)    -- returned normally
  | exc (e : Exc) (s : St) -- an exception propagates
  | dead (s : St)          -- the process was killed
  deriving Repr, DecidableEq

def Res.st : Res α → St
  | .ok _ s => s
  | .exc _ s => s
  | .dead s => s

def Res.alive : Res α → Bool
  | .dead _ => false
  | _ => true

/-- computations of the modelled process -/
def M (α : Type) := St → Res α

def M.pure (a : α) : M α := fun s => .ok a s

def M.bind (m : M α) (f : α → M β) : M β := fun s =>
  match m s with
  | .ok a s' => f a s'
  | .exc e s' => .exc e s'
  | .dead s' => .dead s'

instance : Monad M where
  pure := M.pure
  bind := M.bind

def raise (e : Exc) : M α := fun s => .exc e s

/-- `try: m  except <handles>: h` -/
def tryExcept (m : M α) (handles : Exc → Bool) (h : M α) : M α := fun s =>
  match m s with
  | .ok a s' => .ok a s'
  | .exc e s' => if handles e then h s' else .exc e s'
  | .dead s' => .dead s'

/-- `try: m  finally: fin` — also the `with` statement (`fin` = `__exit__`): `fin` runs on
    the normal and on the exceptional exit; an exception of `fin` replaces the pending one -/
def tryFinally (m : M α) (fin : M Unit) : M α := fun s =>
  match m s with
  | .ok a s' =>
    match fin s' with
    | .ok _ s'' => .ok a s''
    | .exc e s'' => .exc e s''
    | .dead s'' => .dead s''
  | .exc e s' =>
    match fin s' with
    | .ok _ s'' => .exc e s''
    | .exc e' s'' => .exc e' s''
    | .dead s'' => .dead s''
  | .dead s' => .dead s'

def St.log (s : St) (op : Op) (o : Outcome) : St :=
  { s with trace := s.trace ++ [(op, o)], hist := s.hist ++ [s.fs] }

/-- one OS call: its outcome is looked up at the current call index.
    `eff` = effect of a successful call (may fail for a reason of its own, e.g. ENOENT),
    `errEff` = effect that remains when the call raises, `part` = effect that remains when
    the process dies in the middle of the call -/
def oscall (sch : Schedule) (op : Op) (eff : St → Except Exc (α × St)) (errEff : St → St) (part : St → St) : M α := fun s =>
  match sch s.trace.length with
  | .ok =>
    match eff s with
    | .ok (a, s') => .ok a (s'.log op .ok)
    | .error e => .exc e (s.log op .ok)
  | .perm => .exc .perm ((errEff s).log op .perm)
  | .oserr => .exc .oserr ((errEff s).log op .oserr)
  | .crash => .dead (s.log op .crash)
  | .crashPartial => .dead ((part s).log op .crashPartial)

/-! ### effects on the file system -/

def St.setTmp (s : St) (t : Option File) : St := { s with fs := { s.fs with tmp := t } }

/-- bytes reach `<name>.tmp` through the open file descriptor (if the path has been unlinked
    meanwhile the bytes go to the orphaned inode: no path changes) -/
def St.appendTmp (s : St) (d : Content) : St :=
  match s.fs.tmp with
  | some f => s.setTmp (some { f with content := f.content ++ d })
  | none => s

/-- the buffered data reaches the disk -/
def St.flush (s : St) : St := { s.appendTmp s.buf with buf := [] }

def half (d : Content) : Content := d.take (d.length / 2)

/-! ### the OS calls of `apply_rules.py` -/

/-- `os.stat(filename)`: the permission bits of the target -/
def statTarget (sch : Schedule) : M Nat :=
  oscall sch .stat (fun s => .ok (s.fs.target.mode, s)) id id

/-- `open(tmpfile, "w")`: creates the file with the creation mode (0o666 & ~umask) or truncates an
    existing one (its mode stays) -/
def openTmp (sch : Schedule) (createMode : Nat) : M Unit :=
  oscall sch .openTmp
    (fun s => .ok ((), { s.setTmp (some ⟨[], match s.fs.tmp with | some f => f.mode | none => createMode⟩) with buf := [] }))
    id id

/-- data handed to the file object -/
def St.push (s : St) (d : Content) : St := { s with buf := s.buf ++ d }

/-- `oFile.write(data)`: into the buffer; an unbuffered file object flushes at once -/
def fileWrite (sch : Schedule) (buffered : Bool) (op : Op) (d : Content) : M Unit :=
  oscall sch op
    (fun s => .ok ((), if buffered then s.push d else (s.push d).flush))
    id
    (fun s => if buffered then s else (s.push (half d)).flush)

/-- `oFile.close()` through `__exit__`: flush, close -/
def fileClose (sch : Schedule) : M Unit :=
  oscall sch .close (fun s => .ok ((), s.flush)) St.flush (fun s => { s.appendTmp (half s.buf) with buf := [] })

/-- `os.chmod(tmpfile, mode)` -/
def chmodTmp (sch : Schedule) (mode : Nat) : M Unit :=
  oscall sch .chmod
    (fun s => match s.fs.tmp with
      | some f => .ok ((), s.setTmp (some { f with mode := mode }))
      | none => .error .notFound)
    id id

/-- `os.replace(tmpfile, filename)`: atomic rename -/
def replaceTmp (sch : Schedule) : M Unit :=
  oscall sch .replace
    (fun s => match s.fs.tmp with
      | some f => .ok ((), { s with fs := { s.fs with target := f, tmp := none } })
      | none => .error .notFound)
    id id

/-- `os.remove(tmpfile)` -/
def removeTmp (sch : Schedule) : M Unit :=
  oscall sch .remove
    (fun s => match s.fs.tmp with
      | some _ => .ok ((), s.setTmp none)
      | none => .error .notFound)
    id id

/-- `shutil.copy2(filename, filename + ".bak")`: content, then mode (`copystat`); dying in the
    middle leaves a created / truncated file with part of the content -/
def copy2Bak (sch : Schedule) (createMode : Nat) : M Unit :=
  oscall sch .copy2
    (fun s => .ok ((), { s with fs := { s.fs with bak := some ⟨s.fs.target.content, s.fs.target.mode⟩ } }))
    id
    (fun s => { s with fs := { s.fs with bak := some ⟨half s.fs.target.content, match s.fs.bak with | some b => b.mode | none => createMode⟩ } })

/-! ### the program -/

structure Scenario where
  /-- the target file when the run starts -/
  orig : File
  /-- `"\n".join(lines[1:])` of the fixed file, as bytes -/
  body : Content
  /-- the final `"\n"`, as bytes (after newline translation) -/
  nl : Content
  /-- stale `<name>.tmp` / `<name>.bak` that may already exist -/
  tmp0 : Option File
  bak0 : Option File
  /-- mode a newly created file gets (0o666 & ~umask) -/
  createMode : Nat
  parseOk : Bool
  configOk : Bool
  fix : Bool
  backup : Bool
  hadViolations : Bool
  /-- a rule raises during `oRules.fix` -/
  fixRaises : Bool
  buffered : Bool
  deriving DecidableEq, Repr, Inhabited

/-- the complete fixed content -/
def Scenario.fixed (sc : Scenario) : Content := sc.body ++ sc.nl

def Scenario.fs0 (sc : Scenario) : FS := { target := sc.orig, tmp := sc.tmp0, bak := sc.bak0 }

def St.init (sc : Scenario) : St := { fs := sc.fs0, buf := [], trace := [], hist := [], msg := false }

/-- the `with open(tmpfile, "w") as oFile:` block -/
def writeBlock (sch : Schedule) (sc : Scenario) : M Unit := do
  openTmp sch sc.createMode
  tryFinally
    (do fileWrite sch sc.buffered .writeBody sc.body
        fileWrite sch sc.buffered .writeNl sc.nl)
    (fileClose sch)

/-- the body of the `try` of `write_vhdl_file` -/
def tryBlock (sch : Schedule) (sc : Scenario) (mode : Nat) : M Unit := do
  writeBlock sch sc
  chmodTmp sch mode
  replaceTmp sch

/-- the `finally` of `write_vhdl_file` -/
def finallyBlock (sch : Schedule) : M Unit :=
  tryExcept (removeTmp sch) (fun e => e == .notFound) (pure ())

def writeVhdlFile (sch : Schedule) (sc : Scenario) : M Unit := do
  let mode ← statTarget sch
  tryFinally
    (tryExcept (tryBlock sch sc mode) (fun e => e == .perm) (fun s => .ok () { s with msg := true }))
    (finallyBlock sch)

/-- the part of `apply_rules` after reading the file -/
def applyRules (sch : Schedule) (sc : Scenario) : M Unit :=
  if !sc.parseOk then pure ()            -- ClassifyError: return
  else if !sc.configOk then pure ()      -- ConfigurationError: return
  else if sc.fix then
    (if sc.backup then copy2Bak sch sc.createMode else pure ()) >>= fun _ =>   -- create_backup_file
    (if sc.fixRaises then raise .rule else pure ()) >>= fun _ =>               -- oRules.fix
    (if sc.hadViolations then writeVhdlFile sch sc else pure ())               -- write_vhdl_file
  else pure ()

def run (sch : Schedule) (sc : Scenario) : Res Unit := applyRules sch sc (St.init sc)

/-! ### the property, as a decidable predicate on a file system -/

/-- target holds the complete original or the complete fixed content, with the original mode -/
def Safe (sc : Scenario) (fs : FS) : Prop :=
  (fs.target.content = sc.orig.content ∨ fs.target.content = sc.fixed) ∧ fs.target.mode = sc.orig.mode

instance (sc : Scenario) (fs : FS) : Decidable (Safe sc fs) := by unfold Safe; exact inferInstance

/-- schedule given as a finite list of (call index, outcome); every other call succeeds -/
def scheduleOf (l : List (Nat × Outcome)) : Schedule := fun i =>
  match l.find? (fun p => p.1 == i) with
  | some p => p.2
  | none => .ok

end Vsgm.WB
