/-
  Small parametric rule kinds with EXACTLY the semantics of the stub rule classes of
  harness/props_engine.py (subclasses of vsg.rule.Rule run by the real engine): they are the
  `RuleSem` instances through which the engine model is compared with the real engine.
-/
import VsgModel.Engine.CheckRules
namespace Vsgm

inductive StubKind where
  | setVal (cls : Nat) (v : Str)          -- every token of class `cls` whose value ≠ v; fix sets the value
  | insertAfter (cls : Nat) (wsCls : Nat) -- every token of class `cls` not followed by whitespace; fix appends " "
  | delete (cls : Nat)                    -- every token of class `cls`; fix removes it
  deriving Repr

/-- line number of the token at index `i`: 1 + carriage returns before it -/
def lineAt (f : List Tok) (i : Nat) : Nat := 1 + ((f.take i).filter Tok.isCr).length

def StubKind.analyze (k : StubKind) (f : List Tok) : List Viol :=
  match k with
  | .setVal c v =>
    f.zipIdx.filterMap fun (t, i) =>
      if t.cls == c && t.val != v then some ⟨lineAt f i, i, [t], 0⟩ else none
  | .insertAfter c _ =>
    f.zipIdx.filterMap fun (t, i) =>
      if t.cls == c && !(match f[i + 1]? with | some n => n.kind == Kind.ws | none => false)
      then some ⟨lineAt f i, i, [t], 1⟩ else none
  | .delete c =>
    f.zipIdx.filterMap fun (t, i) =>
      if t.cls == c then some ⟨lineAt f i, i, [t], 2⟩ else none

def StubKind.fixV (k : StubKind) (v : Viol) : List Tok :=
  match k with
  | .setVal _ val => v.toks.map fun t => { t with val := val }
  | .insertAfter _ ws => v.toks ++ [⟨ws, Kind.ws, [' ']⟩]
  | .delete _ => []

def StubKind.sem (k : StubKind) : RuleSem := ⟨k.analyze, k.fixV⟩

def firstVal (v : Viol) : Str := match v.toks with | t :: _ => t.val | [] => []

def StubKind.sol (k : StubKind) (v : Viol) : String :=
  match k with
  | .setVal _ val => "Change \"" ++ String.ofList (firstVal v) ++ "\" to \"" ++ String.ofList val ++ "\""
  | .insertAfter _ _ => "Add space after \"" ++ String.ofList (firstVal v) ++ "\""
  | .delete _ => "Remove token on line " ++ toString v.line

end Vsgm
