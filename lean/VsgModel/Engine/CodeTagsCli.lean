/-
  Driver mode `ct` (executable glue only).  One request per line, fields separated by TAB.

  token list  = tokens joined by ' ':   r  (carriage_return) |  o  (other) |  c:<text>  (comment)
  text / id   = code points joined by '.'  (empty text = empty string)
  id list     = ids joined by ' '

  T <tokens> <ids>             reply  T <per token, joined by ' '>   each  <tags>/<pinned>/<fixed>/<spec>/<specScan>
                                 tags   = stamped list, ids joined by ',' ('-' if empty)
                                 pinned = one 0/1 per queried id: hasCodeTagPinned
                                 fixed  = … hasCodeTagFixed
                                 spec   = … specSuppressed (one-pass form `specAll`)
                                 specScan = … specSuppressed by definition (backwards scans); only when the
                                            request is  TS  instead of  T  (quadratic), otherwise '-'
  V                            reply  V pinned | V fixed   (the model's switch `hasCodeTag`)
  S <text>                     reply  S <words of str.split() joined by ' '>
  R <tokens> <id> <violations> reply  R <kept pinned>/<kept fixed>/<kept spec>
                                 violations joined by ' ', each = token positions joined by ',' ('-' = none)
                                 kept = one 0/1 per offered violation: is it in `report` / `specReport`
-/
import VsgModel.Engine.CodeTags
import VsgModel.Wire
namespace Vsgm.CT
open Vsgm Vsgm.Wire

def decTTok (s : String) : TTok :=
  match s.splitOn ":" with
  | ["r"] => .cr
  | ["o"] => .other
  | ["c", t] => .comment (decStr t)
  | _ => .other

def decTToks (s : String) : List TTok := if s.isEmpty then [] else (s.splitOn " ").map decTTok

def decIds (s : String) : List Tag := if s.isEmpty then [] else (s.splitOn " ").map decStr

def bits (l : List Bool) : String := if l.isEmpty then "-" else String.join (l.map fun b => if b then "1" else "0")

def encTags (l : List Tag) : String := if l.isEmpty then "-" else ",".intercalate (l.map encStr)

def decViol (s : String) : List Nat := if s == "-" then [] else (s.splitOn ",").map String.toNat!

def replyT (toks : List TTok) (ids : List Tag) (scan : Bool) : String :=
  let stamped := setCodeTags toks
  let spec := specAll toks ids
  let rows := (List.range toks.length).map fun i =>
    let tags := stamped.getD i []
    let sp := spec.getD i []
    let sc := if scan then bits (ids.map fun id => specSuppressed toks i id) else "-"
    encTags tags ++ "/" ++ bits (ids.map (hasCodeTagPinned tags)) ++ "/" ++ bits (ids.map (hasCodeTagFixed tags))
      ++ "/" ++ bits sp ++ "/" ++ sc
  "T " ++ " ".intercalate rows

def replyR (toks : List TTok) (id : Tag) (offered : List (List Nat)) : String :=
  let stamped := setCodeTags toks
  -- violations are compared by position in the offered list: tag each with its index
  let kept (f : List (List Nat) → List (List Nat)) : String :=
    -- `report` keeps order and only drops: walk both lists
    let rec go : List (List Nat) → List (List Nat) → List Bool
      | [], _ => []
      | _ :: os, [] => false :: go os []
      | o :: os, k :: ks => if o == k then true :: go os ks else false :: go os (k :: ks)
    bits (go offered (f offered))
  "R " ++ kept (report hasCodeTagPinned stamped id) ++ "/" ++ kept (report hasCodeTagFixed stamped id)
    ++ "/" ++ kept (specReport toks id)

partial def ctLoop (h : IO.FS.Stream) (out : IO.FS.Stream) : IO Unit := do
  let line ← h.getLine
  if line.isEmpty then return ()
  let line := if line.endsWith "\n" then (line.dropEnd 1).toString else line
  match line.splitOn "\t" with
  | ["T", ts, ids] => out.putStrLn (replyT (decTToks ts) (decIds ids) false)
  | ["TS", ts, ids] => out.putStrLn (replyT (decTToks ts) (decIds ids) true)
  | ["V"] => out.putStrLn (if hasCodeTag [kAll, ['x']] ['y'] then "V fixed" else "V pinned")
  | ["S", t] => out.putStrLn ("S " ++ " ".intercalate ((pySplit (decStr t)).map encStr))
  | ["R", ts, id, vs] =>
    out.putStrLn (replyR (decTToks ts) (decStr id) (if vs.isEmpty then [] else (vs.splitOn " ").map decViol))
  | _ => out.putStrLn ("error bad line " ++ (line.take 40).toString)
  out.flush
  ctLoop h out

def ctMain (stdin stdout : IO.FS.Stream) : IO Unit := ctLoop stdin stdout

end Vsgm.CT
