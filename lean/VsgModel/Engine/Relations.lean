/-
  The effect relations of properties C01–C03 / C07 on token lists, as projections
  (monoid homomorphisms `List Tok → List β`) so that `update_hom` applies, with
  executable deciders used by the trace checker.
-/
import VsgModel.Tok
import VsgModel.Engine.Splice
namespace Vsgm

/-- value based "compare exactly" test of C01: string literals, character literals and
    extended identifiers keep their spelling -/
def isExact (v : Str) : Bool :=
  match v with
  | '"' :: _ => true
  | '\'' :: _ => true
  | '\\' :: _ => true
  | _ => false

/-- exactness of a token: bit-string value strings (`x"ff"`) are quoted but not string literals -/
def Tok.exact (t : Tok) : Bool := isExact t.val && t.kind != .codeCI

section proj
variable (fold : Str → Str)

/-- what a token contributes to the code sequence of C01 -/
def codeOf (t : Tok) : List Str :=
  if t.isCode then [if t.exact then t.val else fold t.val] else []

/-- C01: the folded sequence of code tokens -/
def codeSeq (l : List Tok) : List Str := l.flatMap (codeOf fold)

/-- C02: comments, pragmas, preprocessor lines, verbatim and in order -/
def commentSeq (l : List Tok) : List Str := l.flatMap (fun t => if t.isCommentLike then [t.val] else [])

/-- C03 (phases 2–5): everything that is not whitespace / carriage return / blank line -/
def nonLayout (l : List Tok) : List Tok := l.filter (fun t => !t.isLayout)

/-- C07: number of line breaks -/
def crSeq (l : List Tok) : List Unit := l.flatMap (fun t => if t.isCr then [()] else [])

theorem codeSeq_append (a b : List Tok) : codeSeq fold (a ++ b) = codeSeq fold a ++ codeSeq fold b := by
  simp [codeSeq]
theorem commentSeq_append (a b : List Tok) : commentSeq (a ++ b) = commentSeq a ++ commentSeq b := by
  simp [commentSeq]
theorem nonLayout_append (a b : List Tok) : nonLayout (a ++ b) = nonLayout a ++ nonLayout b := by
  simp [nonLayout]
theorem crSeq_append (a b : List Tok) : crSeq (a ++ b) = crSeq a ++ crSeq b := by
  simp [crSeq]

/-- layout tokens contribute nothing to the code and comment sequences:
    a layout-only change preserves both -/
theorem codeSeq_nonLayout (l : List Tok) : codeSeq fold (nonLayout l) = codeSeq fold l := by
  induction l with
  | nil => rfl
  | cons t l ih =>
    by_cases h : t.isLayout
    · have hc : t.isCode = false := by
        unfold Tok.isLayout Kind.isLayout at h; unfold Tok.isCode
        cases hk : t.kind <;> simp_all
      simp [nonLayout, h, codeSeq, codeOf, hc] at ih ⊢
      exact ih
    · simp [nonLayout, h, codeSeq] at ih ⊢
      exact ih

theorem commentSeq_nonLayout (l : List Tok) : commentSeq (nonLayout l) = commentSeq l := by
  induction l with
  | nil => rfl
  | cons t l ih =>
    by_cases h : t.isLayout
    · have hc : t.isCommentLike = false := by
        unfold Tok.isLayout Kind.isLayout at h; unfold Tok.isCommentLike Kind.isCommentLike
        cases hk : t.kind <;> simp_all
      simp [nonLayout, h, commentSeq, hc] at ih ⊢
      exact ih
    · simp [nonLayout, h, commentSeq] at ih ⊢
      exact ih

/-- `LayoutOnly a b`: `b` differs from `a` only in whitespace / CR / blank-line tokens -/
def LayoutOnly (a b : List Tok) : Prop := nonLayout a = nonLayout b

instance (a b : List Tok) : Decidable (LayoutOnly a b) := by unfold LayoutOnly; exact inferInstance

theorem LayoutOnly.codeSeq {a b : List Tok} (h : LayoutOnly a b) : codeSeq fold a = codeSeq fold b := by
  rw [← codeSeq_nonLayout fold a, ← codeSeq_nonLayout fold b, h]

theorem LayoutOnly.commentSeq {a b : List Tok} (h : LayoutOnly a b) : commentSeq a = commentSeq b := by
  rw [← commentSeq_nonLayout a, ← commentSeq_nonLayout b, h]

/-- one token differs from another in letter case only -/
def tokCaseEq (s t : Tok) : Bool :=
  s.cls == t.cls && s.kind == t.kind && s.val.length == t.val.length &&
    (if s.exact || !s.isCode then s.val == t.val else fold s.val == fold t.val && !t.exact)

/-- `CaseOnly a b`: same tokens position by position, values of equal length that agree after
    case folding, literals and all non-code tokens identical -/
def caseOnlyB : List Tok → List Tok → Bool
  | [], [] => true
  | s :: a, t :: b => tokCaseEq fold s t && caseOnlyB a b
  | _, _ => false

def CaseOnly (a b : List Tok) : Prop := caseOnlyB fold a b = true

theorem tokCaseEq_codeOf {s t : Tok} (h : tokCaseEq fold s t = true) : codeOf fold s = codeOf fold t := by
  unfold tokCaseEq at h
  simp only [Bool.and_eq_true, beq_iff_eq] at h
  obtain ⟨⟨⟨_, hk⟩, _⟩, hv⟩ := h
  have hcode : s.isCode = t.isCode := by unfold Tok.isCode; rw [hk]
  unfold codeOf
  rw [hcode]
  by_cases hc : t.isCode = true
  · simp only [hc, if_true]
    by_cases he : s.exact = true
    · simp only [he, Bool.true_or, if_true, beq_iff_eq] at hv
      have het : t.exact = true := by
        unfold Tok.exact at he ⊢; rw [← hv, ← hk]; exact he
      simp [he, het, hv]
    · have he' : s.exact = false := by simpa using he
      have hsc : s.isCode = true := by rw [hcode]; exact hc
      simp only [he', hsc, Bool.not_true, Bool.or_false, Bool.false_eq_true, if_false, Bool.and_eq_true,
        beq_iff_eq, Bool.not_eq_true'] at hv
      simp [he', hv.2, hv.1]
  · simp [hc]

theorem CaseOnly.codeSeq {a b : List Tok} (h : CaseOnly fold a b) : codeSeq fold a = codeSeq fold b := by
  unfold CaseOnly at h
  induction a generalizing b with
  | nil => cases b <;> simp_all [caseOnlyB]
  | cons s a ih =>
    cases b with
    | nil => simp [caseOnlyB] at h
    | cons t b =>
      simp only [caseOnlyB, Bool.and_eq_true] at h
      simp only [Vsgm.codeSeq, List.flatMap_cons]
      rw [tokCaseEq_codeOf fold h.1]
      have := ih h.2
      simp only [Vsgm.codeSeq] at this
      rw [this]

theorem tokCaseEq_comment {s t : Tok} (h : tokCaseEq fold s t = true) :
    (if s.isCommentLike then [s.val] else []) = (if t.isCommentLike then [t.val] else []) := by
  unfold tokCaseEq at h
  simp only [Bool.and_eq_true, beq_iff_eq] at h
  obtain ⟨⟨⟨_, hk⟩, _⟩, hv⟩ := h
  unfold Tok.isCommentLike
  rw [hk]
  by_cases hc : t.kind.isCommentLike = true
  · have hnc : s.isCode = false := by
      unfold Tok.isCode; rw [hk]; unfold Kind.isCommentLike at hc
      cases hk2 : t.kind <;> simp_all
    simp [hnc] at hv
    simp [hc, hv]
  · simp [hc]

theorem CaseOnly.commentSeq {a b : List Tok} (h : CaseOnly fold a b) : commentSeq a = commentSeq b := by
  unfold CaseOnly at h
  induction a generalizing b with
  | nil => cases b <;> simp_all [caseOnlyB]
  | cons s a ih =>
    cases b with
    | nil => simp [caseOnlyB] at h
    | cons t b =>
      simp only [caseOnlyB, Bool.and_eq_true] at h
      simp only [Vsgm.commentSeq, List.flatMap_cons]
      rw [tokCaseEq_comment fold h.1]
      have := ih h.2
      simp only [Vsgm.commentSeq] at this
      rw [this]

theorem CaseOnly.length {a b : List Tok} (h : CaseOnly fold a b) : a.length = b.length := by
  unfold CaseOnly at h
  induction a generalizing b with
  | nil => cases b <;> simp_all [caseOnlyB]
  | cons s a ih =>
    cases b with
    | nil => simp [caseOnlyB] at h
    | cons t b =>
      simp only [caseOnlyB, Bool.and_eq_true] at h
      simp [ih h.2]

end proj

/-- a run `a₀, a₁ … aₙ` all of whose consecutive steps satisfy `R` -/
def StepsAll {α : Type} (R : α → α → Prop) : α → List α → Prop
  | _, [] => True
  | a, b :: r => R a b ∧ StepsAll R b r

/-- the last state of a run -/
def lastOf {α : Type} : α → List α → α
  | a, [] => a
  | _, b :: r => lastOf b r

/-- every `--` comment is directly followed by a carriage return (or ends the list):
    the token-list meaning of "a comment never absorbs the code that followed it" -/
def commentEndsLine : List Tok → Bool
  | [] => true
  | [_] => true
  | s :: t :: rest =>
    (if s.kind == .comment || s.kind == .pragma then t.kind == .cr else true) && commentEndsLine (t :: rest)

end Vsgm
