/-
  `vhdlFile.update` — Python slice assignment applied last-violation-first — and the
  two theorems every "fix preserves π" property rests on.
  Source: vsg/vhdlFile/vhdlFile.py:172-182, vsg/rule.py:103-115.
-/
namespace Vsgm

variable {α : Type}

/-- one `lAllObjects[iStart:iEnd] = lMyTokens` -/
structure Edit (α : Type) where
  start : Nat
  stop  : Nat
  new   : List α
  deriving Repr

/-- Python `l[a:b] = x` for `0 ≤ a, b` (when `b < a` Python inserts at `a`) -/
def splice (f : List α) (e : Edit α) : List α :=
  f.take e.start ++ e.new ++ f.drop (max e.start e.stop)

/-- `vhdlFile.update`: `for oUpdate in lUpdates[::-1]` -/
def update (f : List α) (es : List (Edit α)) : List α :=
  es.foldr (fun e acc => splice acc e) f

/-- the slice an edit overwrites -/
def old (f : List α) (e : Edit α) : List α := (f.drop e.start).take (e.stop - e.start)

/-- sorted by start, pairwise disjoint, in range, starting at or after `lo` -/
def Chain (n : Nat) : Nat → List (Edit α) → Prop
  | _, [] => True
  | lo, e :: es => lo ≤ e.start ∧ e.start ≤ e.stop ∧ e.stop ≤ n ∧ Chain n e.stop es

def Chain.dec (n : Nat) : (lo : Nat) → (es : List (Edit α)) → Decidable (Chain n lo es)
  | _, [] => isTrue trivial
  | lo, e :: es =>
    have := Chain.dec n e.stop es
    (inferInstance : Decidable (lo ≤ e.start ∧ e.start ≤ e.stop ∧ e.stop ≤ n ∧ Chain n e.stop es))

instance (n lo : Nat) (es : List (Edit α)) : Decidable (Chain n lo es) := Chain.dec n lo es

/-- expected result: gaps of `f` interleaved with the replacements -/
def segs (f : List α) : Nat → List (Edit α) → List α
  | lo, [] => f.drop lo
  | lo, e :: es => (f.drop lo).take (e.start - lo) ++ e.new ++ segs f e.stop es

theorem splice_take (g : List α) (e : Edit α) (lo : Nat) (h1 : lo ≤ e.start) (h2 : e.start ≤ g.length) :
    (splice g e).take lo = g.take lo := by
  unfold splice
  have hl : (g.take e.start).length = e.start := by simp; omega
  rw [List.append_assoc, List.take_append_of_le_length (by omega)]
  simp [List.take_take, Nat.min_eq_left h1]

theorem splice_drop (g : List α) (e : Edit α) (lo : Nat) (h1 : lo ≤ e.start) (h2 : e.start ≤ e.stop)
    (h3 : e.start ≤ g.length) :
    (splice g e).drop lo = (g.drop lo).take (e.start - lo) ++ e.new ++ g.drop e.stop := by
  unfold splice
  have hl : (g.take e.start).length = e.start := by simp; omega
  rw [Nat.max_eq_right h2, List.append_assoc, List.drop_append_of_le_length (by omega), List.drop_take,
    List.append_assoc]

theorem length_update_ge (f : List α) (es : List (Edit α)) (lo : Nat)
    (h : Chain f.length lo es) : lo ≤ f.length → (update f es).take lo = f.take lo ∧ lo ≤ (update f es).length := by
  induction es generalizing lo with
  | nil => intro h; exact ⟨rfl, h⟩
  | cons e es ih =>
    intro hlo
    obtain ⟨h1, h2, h3, h4⟩ := h
    obtain ⟨iht, ihl⟩ := ih e.stop h4 h3
    show (splice (update f es) e).take lo = f.take lo ∧ lo ≤ (splice (update f es) e).length
    have hge : e.start ≤ (update f es).length := by omega
    constructor
    · rw [splice_take _ e lo h1 hge]
      have := congrArg (List.take lo) iht
      simpa [List.take_take, Nat.min_eq_left (by omega : lo ≤ e.stop)] using this
    · have := congrArg List.length (splice_take (update f es) e lo h1 hge)
      simp at this; omega

theorem take_update (f : List α) (es : List (Edit α)) (lo : Nat)
    (h : Chain f.length lo es) (hlo : lo ≤ f.length) : (update f es).take lo = f.take lo :=
  (length_update_ge f es lo h hlo).1

theorem drop_update (f : List α) (es : List (Edit α)) (lo : Nat)
    (h : Chain f.length lo es) (hlo : lo ≤ f.length) : (update f es).drop lo = segs f lo es := by
  induction es generalizing lo with
  | nil => rfl
  | cons e es ih =>
    obtain ⟨h1, h2, h3, h4⟩ := h
    have ihd := ih e.stop h4 h3
    obtain ⟨iht, ihl⟩ := length_update_ge f es e.stop h4 h3
    show (splice (update f es) e).drop lo = _
    rw [splice_drop _ e lo h1 h2 (by omega), ihd]
    simp only [segs]
    congr 2
    have a : (update f es).take e.start = f.take e.start := by
      have := congrArg (List.take e.start) iht
      simpa [List.take_take, Nat.min_eq_left h2] using this
    have : ((update f es).take e.start).drop lo = (f.take e.start).drop lo := by rw [a]
    simpa [List.drop_take] using this

/-- **update = gaps interleaved with replacements** for sorted disjoint in-range edits -/
theorem update_segments (f : List α) (es : List (Edit α)) (h : Chain f.length 0 es) :
    update f es = segs f 0 es := by
  simpa using drop_update f es 0 h (Nat.zero_le _)

theorem drop_split (f : List α) (lo a b : Nat) (h1 : lo ≤ a) (h2 : a ≤ b) :
    f.drop lo = (f.drop lo).take (a - lo) ++ ((f.drop a).take (b - a) ++ f.drop b) := by
  have a1 : f.drop lo = (f.drop lo).take (a - lo) ++ (f.drop lo).drop (a - lo) := (List.take_append_drop _ _).symm
  have a2 : (f.drop lo).drop (a - lo) = f.drop a := by simp [List.drop_drop]; congr 1; omega
  have a3 : f.drop a = (f.drop a).take (b - a) ++ (f.drop a).drop (b - a) := (List.take_append_drop _ _).symm
  have a4 : (f.drop a).drop (b - a) = f.drop b := by simp [List.drop_drop]; congr 1; omega
  rw [a4] at a3; rw [a2] at a1; rw [← a3]; exact a1

/-- any monoid homomorphism preserved by each edit is preserved by the whole update -/
theorem segs_hom {β : Type} (π : List α → List β) (hπ : ∀ a b, π (a ++ b) = π a ++ π b)
    (f : List α) (es : List (Edit α)) (lo : Nat) (h : Chain f.length lo es)
    (hp : ∀ e ∈ es, π e.new = π (old f e)) : π (segs f lo es) = π (f.drop lo) := by
  induction es generalizing lo with
  | nil => rfl
  | cons e es ih =>
    obtain ⟨h1, h2, h3, h4⟩ := h
    simp only [segs, hπ]
    rw [ih e.stop h4 (fun e' he' => hp e' (List.mem_cons_of_mem _ he')), hp e (List.mem_cons_self ..)]
    rw [← hπ, ← hπ]
    congr 1
    unfold old
    rw [List.append_assoc]; exact (drop_split f lo e.start e.stop h1 h2).symm

theorem update_hom {β : Type} (π : List α → List β) (hπ : ∀ a b, π (a ++ b) = π a ++ π b)
    (f : List α) (es : List (Edit α)) (h : Chain f.length 0 es)
    (hp : ∀ e ∈ es, π e.new = π (old f e)) : π (update f es) = π f := by
  rw [update_segments f es h]; simpa using segs_hom π hπ f es 0 h hp

/-- relational version: a congruence `R` on projections (reflexive, compatible with `++`)
    that each edit respects is respected by the whole update.  Used with `R` = "equal up
    to the allowed structural edits". -/
theorem segs_rel {β : Type} (π : List α → List β) (hπ : ∀ a b, π (a ++ b) = π a ++ π b)
    (R : List β → List β → Prop) (hrefl : ∀ x, R x x)
    (happ : ∀ a a' b b', R a a' → R b b' → R (a ++ b) (a' ++ b'))
    (f : List α) (es : List (Edit α)) (lo : Nat) (h : Chain f.length lo es)
    (hp : ∀ e ∈ es, R (π (old f e)) (π e.new)) : R (π (f.drop lo)) (π (segs f lo es)) := by
  induction es generalizing lo with
  | nil => exact hrefl _
  | cons e es ih =>
    obtain ⟨h1, h2, h3, h4⟩ := h
    have hs := drop_split f lo e.start e.stop h1 h2
    have key : R (π ((f.drop lo).take (e.start - lo) ++ ((f.drop e.start).take (e.stop - e.start) ++ f.drop e.stop)))
        (π ((f.drop lo).take (e.start - lo) ++ e.new ++ segs f e.stop es)) := by
      rw [List.append_assoc, hπ, hπ, hπ, hπ]
      apply happ
      · exact hrefl _
      · apply happ
        · exact hp e (List.mem_cons_self ..)
        · exact ih e.stop h4 (fun e' he' => hp e' (List.mem_cons_of_mem _ he'))
    rw [← hs] at key
    exact key

theorem update_rel {β : Type} (π : List α → List β) (hπ : ∀ a b, π (a ++ b) = π a ++ π b)
    (R : List β → List β → Prop) (hrefl : ∀ x, R x x)
    (happ : ∀ a a' b b', R a a' → R b b' → R (a ++ b) (a' ++ b'))
    (f : List α) (es : List (Edit α)) (h : Chain f.length 0 es)
    (hp : ∀ e ∈ es, R (π (old f e)) (π e.new)) : R (π f) (π (update f es)) := by
  rw [update_segments f es h]; simpa using segs_rel π hπ R hrefl happ f es 0 h hp

end Vsgm
