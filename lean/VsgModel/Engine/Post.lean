/-
  The post-phase-1 normalisation of `rule_list.fix`: `vhdlFile.utils.fix_blank_lines` then
  `fix_trailing_whitespace` (vsg/vhdlFile/utils.py:769-806), index arithmetic as in Python:
  `lTokens[iToken - 1]` at index 0 is the LAST token, `lTokens[iToken + 1]` past the end raises
  IndexError which is swallowed, `lReturn.pop()` on an empty list likewise.
-/
import VsgModel.Tok
namespace Vsgm

def Tok.isWs (t : Tok) : Bool := t.kind == Kind.ws

/-- `lTokens[iToken - 1]` for `0 ≤ iToken < len` -/
def pyPrev (l : List Tok) (i : Nat) : Option Tok := if i == 0 then l.getLast? else l[i - 1]?

def isCrOpt : Option Tok → Bool
  | some t => t.isCr
  | none => false

def isWsOpt : Option Tok → Bool
  | some t => t.isWs
  | none => false

/-- `fix_blank_lines`; `blank` is a fresh `parser.blank_line()` -/
def fixBlankLines (blank : Tok) (l : List Tok) : List Tok :=
  l.zipIdx.flatMap fun (t, i) =>
    if t.isCr && isCrOpt l[i + 1]? then [t, blank]
    else if isCrOpt (pyPrev l i) && t.isWs && isCrOpt l[i + 1]? then [blank]
    else [t]

/-- `fix_trailing_whitespace`: the accumulator is `lReturn`; popping the empty list raises
    IndexError, which falls through to the plain append -/
def fixTrailingWhitespace (l : List Tok) : List Tok :=
  (l.zipIdx.foldl (fun (acc : List Tok) (ti : Tok × Nat) =>
    if ti.1.isCr && isWsOpt (pyPrev l ti.2) then
      (if acc.isEmpty then acc ++ [ti.1] else acc.dropLast ++ [ti.1])
    else acc ++ [ti.1]) [])

/-- what `rule_list.fix` does to the token list after phase 1 -/
def postPhase1 (blank : Tok) (l : List Tok) : List Tok := fixTrailingWhitespace (fixBlankLines blank l)

end Vsgm
