/-
  Frame models for C06 and C15.

  * `check_rules` (vsg/rule_list.py:204-238) with analyses that may read AND write a state `σ`
    (the file object: tokens with every attribute, the rule objects' own attributes, module
    globals).  In `RuleRun.lean` analyses are functions `List Tok → List Viol`; here that is
    not assumed, it is the frame hypothesis of the C06 theorems.
  * the scheduler of `vsg/__main__.py:127-162` (`main`): the serial loop and
    `multiprocessing.Pool.imap` over `(index, filename)`, with `apply_rules` reading and
    writing the module state `G` of the process it runs in, and the sixth component of its
    result (`bStopProcessingFiles` / `bKeepProcessingFiles`, vsg/apply_rules.py:70-71).
-/
import VsgModel.Engine.RuleRun
namespace Vsgm.Frame
open Vsgm

/-! ## check_rules -/

/-- a rule object as `check_rules` uses it -/
structure SRule (σ : Type) where
  cfg     : RuleCfg
  analyze : σ → σ × List Viol

/-- `get_rules_in_phase`, `get_rules_in_subphase`, `filter_out_disabled_rules` (in this order) -/
def subphaseRulesS (rs : List (SRule σ)) (p s : Nat) : List (SRule σ) :=
  ((rs.filter (fun r => r.cfg.phase == (p : Int))).filter (fun r => r.cfg.subphase == (s : Int))).filter
    (fun r => !r.cfg.disabled)

/-- the attributes of the rule list and of the rules that `check_rules` writes -/
structure CState (σ : Type) where
  st         : σ
  log        : List (String × List Viol)   -- (unique_id, rule.violations) in analysis order
  ran        : Nat                          -- iNumberRulesRan
  failures   : Nat                          -- iFailures (local)
  lastPhase  : Nat                          -- lastPhaseRan
  violations : Bool                         -- self.violations

/-- body of `for oRule in lRules` -/
def analyzeOne (c : CState σ) (r : SRule σ) : CState σ :=
  let res := r.analyze c.st
  { c with
    st := res.1
    log := c.log ++ [(r.cfg.id, res.2)]
    ran := c.ran + 1
    failures := if r.cfg.sevError then c.failures + res.2.length else c.failures }

/-- body of `for subphase in range(0, 6)` -/
def subphaseStep (rs : List (SRule σ)) (p : Nat) (c : CState σ) (s : Nat) : CState σ :=
  let c' := (subphaseRulesS rs p s).foldl analyzeOne c
  { c' with lastPhase := p, violations := c'.violations || decide (0 < c'.failures) }

def phaseStep (rs : List (SRule σ)) (p : Nat) (c : CState σ) : CState σ :=
  (List.range 6).foldl (subphaseStep rs p) c

/-- `for phase in range(1, 8)` with `continue` on skipped phases and the `break` after a phase
    with error-type violations unless `bAllPhases` -/
def checkLoop (allPhases : Bool) (skip : List Nat) (rs : List (SRule σ)) : List Nat → CState σ → CState σ
  | [], c => c
  | p :: ps, c =>
    if p ∈ skip then checkLoop allPhases skip rs ps c
    else
      let c' := phaseStep rs p c
      if c'.violations && !allPhases then c' else checkLoop allPhases skip rs ps c'

def phases : List Nat := (List.range 7).map (· + 1)

/-- `clear_violations(); check_rules(bAllPhases, lSkipPhase)`; `lp` is the value `lastPhaseRan`
    had before (it is not reset) -/
def checkRules (allPhases : Bool) (skip : List Nat) (rs : List (SRule σ)) (lp : Nat) (s : σ) : CState σ :=
  checkLoop allPhases skip rs phases
    { st := s, log := [], ran := 0, failures := 0, lastPhase := lp, violations := false }

/-- everything of a run but the state -/
def CState.obs (c : CState σ) : List (String × List Viol) × Nat × Nat × Nat × Bool :=
  (c.log, c.ran, c.failures, c.lastPhase, c.violations)

/-- the order in which an all-phases run analyses the rules -/
def checkOrder (skip : List Nat) (rs : List (SRule σ)) : List (SRule σ) :=
  (phases.filter (fun p => !(skip.contains p))).flatMap fun p => (List.range 6).flatMap fun s => subphaseRulesS rs p s

/-- what a rule reports on `s` when nothing ran before it -/
def entry (s : σ) (r : SRule σ) : String × List Viol := (r.cfg.id, (r.analyze s).2)

/-- configuration `c ∖ D`: `disable: True` for the rules named in `D` -/
def disable (D : List String) (rs : List (SRule σ)) : List (SRule σ) :=
  rs.map fun r => if r.cfg.id ∈ D then { r with cfg := { r.cfg with disabled := true } } else r

/-- `report_violations`: the violations of the rules in RULE-LIST order (not analysis order) … -/
def reportRaw (rs : List (SRule σ)) (log : List (String × List Viol)) : List (String × Viol) :=
  rs.flatMap fun r => (log.filter (fun e => e.1 == r.cfg.id)).flatMap fun e => e.2.map fun v => (e.1, v)

/-- insert `a` before the first element whose line is ≥ its own -/
def insertBefore (a : String × Viol) : List (String × Viol) → List (String × Viol)
  | [] => [a]
  | b :: l => if a.2.line ≤ b.2.line then a :: b :: l else b :: insertBefore a l

/-- … stably sorted by line (`sorted(..., key=lambda x: int(x["lineNumber"]))`): folding from
    the right with `insertBefore` keeps the original order among equal lines -/
def sortByLine (l : List (String × Viol)) : List (String × Viol) :=
  l.foldr insertBefore []

/-- pure rules of `RuleRun.lean` seen as state-passing rules over the token list -/
def ofPure (r : Rule) : SRule (List Tok) :=
  { cfg := r.1, analyze := fun f => (f, r.2.analyze f) }

/-! ## the scheduler -/

/-- result of `apply_rules` as `main` uses it: exit contribution, the rest of the tuple
    (testcase, JSON entry, stdout, stderr) as one opaque value, and the sixth component (`True`
    after a ConfigurationError or a local-rules OSError, `False` otherwise — also `False` for a
    file that failed to parse).  NOTE the naming: `apply_rules` returns the module constants
    `bStopProcessingFiles = True` / `bKeepProcessingFiles = False`, and `main` binds the value
    to a LOCAL called `bKeepProcessingFiles` and breaks when it is true.  So the code stops
    exactly when `apply_rules` said "stop"; only the local's name is inverted. -/
structure FileResult (ρ : Type) where
  status : Bool
  out    : ρ
  stop   : Bool
  deriving DecidableEq, Repr

/-- serial branch of `main` (`jobs == 1`): one process, state threaded through the files;
    returns the results appended to `lReturn` (each with what was printed) -/
def runSerial (apply : γ → φ → γ × FileResult ρ) : γ → List φ → List (FileResult ρ)
  | _, [] => []
  | g, f :: fs =>
    let (g', r) := apply g f
    if r.stop then [r] else r :: runSerial apply g' fs

/-- an execution of the pool: event `(w, i)` = worker `w` takes task `i` and runs it to the end
    (tasks of one worker are sequential; the interleaving between workers is the order of the
    events).  Worker states start at `g0` (a worker is forked from / spawned like the parent
    after `config.New`). -/
def poolStep (apply : γ → φ → γ × FileResult ρ) (fs : List φ)
    (acc : (Nat → γ) × List (Nat × FileResult ρ)) (e : Nat × Nat) : (Nat → γ) × List (Nat × FileResult ρ) :=
  match fs[e.2]? with
  | none => acc
  | some f =>
    let (g', r) := apply (acc.1 e.1) f
    (fun w => if w = e.1 then g' else acc.1 w, acc.2 ++ [(e.2, r)])

def poolExec (apply : γ → φ → γ × FileResult ρ) (fs : List φ) (g0 : γ) (evs : List (Nat × Nat)) :
    List (Nat × FileResult ρ) :=
  (evs.foldl (poolStep apply fs) (fun _ => g0, [])).2

/-- `for tResult in pool.imap(f, enumerate(filename))`: results are consumed in task order;
    the loop breaks after a result with `stop` (results of later tasks are dropped, even if a
    worker has already computed them) -/
def imapConsume (done : List (Nat × FileResult ρ)) : List Nat → List (FileResult ρ)
  | [] => []
  | i :: is =>
    match done.lookup i with
    | none => []          -- never produced: imap would block; no valid execution gets here
    | some r => if r.stop then [r] else r :: imapConsume done is

def runPool (apply : γ → φ → γ × FileResult ρ) (fs : List φ) (g0 : γ) (evs : List (Nat × Nat)) : List (FileResult ρ) :=
  imapConsume (poolExec apply fs g0 evs) (List.range fs.length)

/-- `fExitStatus = fExitStatus or fStatus` over `lReturn` -/
def exitOf (rs : List (FileResult ρ)) : Bool := rs.any (·.status)

/-- the prefix of a result list that `main` keeps: up to and including the first `stop` -/
def untilStop : List (FileResult ρ) → List (FileResult ρ)
  | [] => []
  | r :: rs => if r.stop then [r] else r :: untilStop rs

end Vsgm.Frame
