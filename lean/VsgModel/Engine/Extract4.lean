/-
  `vsg/vhdlFile/extract/*.py`, fourth batch (work package WP3): the blank-line families
  (`get_blank_lines_above_line_starting_with_token`, `…_when_between_tokens`,
  `get_blank_lines_below_line_ending_with_token`), the variants of
  `get_tokens_at_beginning_of_line_matching` and the subprogram bodies
  (`get_subprogram_body`, `get_function_subprogram_body`, `get_procedure_subprogram_body`).
-/
import VsgModel.Engine.TokenMap
import VsgModel.Engine.Extract
import VsgModel.Engine.Extract2
namespace Vsgm.TM.X
open Vsgm Vsgm.TM

variable {α : Type}

/-! ### utils.get_all_blank_lines_above_indexes: from the line break that ends the last non-blank
    line up to (not including) the line break before the matched line; the recorded line is the
    line of the MATCHED token.  `get_index_of_carriage_return_before_index(0)` is `None` and
    `None - 1` raises `TypeError` -/

def blankLinesAboveIdx (f : List α) (ix : Index) (idxs : List Nat) : Except PyErr (List (Toi α)) :=
  filterMapE (fun (i : Nat) =>
    ix.lineOf i >>= fun line =>
    ix.crBefore i >>= fun e0 =>
    match e0 with
    | none => .error .typeError
    | some e =>
      match ix.prevNonWsBefore e with
      | none => pure none
      | some p =>
        ix.crAfter p >>= fun s =>
        if (s : Int) ≠ e then pure (some { start := some (s : Int), line := line, toks := pySlice f s e })
        else pure none) idxs

/-- get_blank_lines_above_line_starting_with_token (46 rules) -/
def blankAbove (f : List α) (ix : Index) (cs : List Cls) : Except PyErr (List (Toi α)) :=
  blankLinesAboveIdx f ix ((idxsOfList ix cs).filter fun (i : Nat) => isStartOfLine ix i)

/-- get_blank_lines_above_line_starting_with_token_when_between_tokens (2 rules) -/
def blankAboveWhenBetween (f : List α) (ix : Index) (cs : List Cls) (a b : Option Key) : Except PyErr (List (Toi α)) :=
  blankLinesAboveIdx f ix ((filterBetween ix cs a b).filter fun (i : Nat) => isStartOfLine ix i)

/-! ### get_blank_lines_below_line_ending_with_token (40 rules): from the token after the line break
    of the matched line through the first line break that is not followed by a blank line -/

def blankBelowIdx (f : List α) (ix : Index) (idxs : List Nat) : Except PyErr (List (Toi α)) :=
  let crs := ix.get (some crKey)
  let blanks := ix.get (some blankKey)
  filterMapE (fun (i : Nat) =>
    if !isEndOfLine ix i then pure none
    else
      ix.lineOf i >>= fun line =>
      pyIdx crs ((line : Int) - 1) >>= fun c0 =>
      match (crs.drop (line - 1)).find? (fun c => !blanks.contains (c + 1)) with
      | none => pure none
      | some c =>
        if (pySlice f ((c0 : Int) + 1) ((c : Int) + 1)).length > 0 then
          pure (some { start := some ((c0 : Int) + 1), line := line, toks := pySlice f ((c0 : Int) + 1) ((c : Int) + 1) })
        else pure none) idxs

/-- `lh = none` is `lHierarchy is None` -/
def blankBelow (f : List α) (ix : Index) (hier : α → Option Int) (cs : List Cls) (lh : Option (List Int)) :
    Except PyErr (List (Toi α)) :=
  (match lh with
   | none => .ok (idxsOfList ix cs)
   | some l => hierIdxs f hier l (isEndOfLine ix) (idxsOfList ix cs)) >>= fun idxs =>
  blankBelowIdx f ix idxs

/-! ### get_tokens_at_beginning_of_line_matching_unless_between_tokens / _between_tokens /
    _between_tokens_unless_between_tokens: the loop body of get_tokens_at_beginning_of_line_matching
    over a filtered list of positions -/

def bolAt (f : List α) (ix : Index) (idxs : List Nat) : Except PyErr (List (Toi α)) :=
  filterMapE (fun (i : Nat) =>
    if ix.isAt (some crKey) ((i : Int) - 1) then
      ix.lineOf i >>= fun line =>
      pyIdx f i >>= fun t =>
      pure (some { start := some (i : Int), line := line, toks := [t] })
    else if ix.isAt (some crKey) ((i : Int) - 2) && ix.isAt (some wsKey) ((i : Int) - 1) then
      ix.lineOf i >>= fun line =>
      pure (some { start := some ((i : Int) - 1), line := line, toks := pySlice f ((i : Int) - 1) ((i : Int) + 1) })
    else pure none) idxs

def bolUnless (f : List α) (ix : Index) (cs : List Cls) (un : List (Option Key × Option Key)) : Except PyErr (List (Toi α)) :=
  bolAt f ix (filterUnless ix (idxsOfList ix cs) un)

def bolBetween (f : List α) (ix : Index) (cs : List Cls) (a b : Option Key) (incl : Bool) : Except PyErr (List (Toi α)) :=
  bolAt f ix ((idxsOfList ix cs).filter fun i => isBetween i (ix.pairIndexes a b).1 (ix.pairIndexes a b).2 incl)

def bolBetweenUnless (f : List α) (ix : Index) (cs : List Cls) (a b : Option Key) (un : List (Option Key × Option Key))
    (incl : Bool) : Except PyErr (List (Toi α)) :=
  bolAt f ix ((filterUnless ix (idxsOfList ix cs) un).filter fun i => isBetween i (ix.pairIndexes a b).1 (ix.pairIndexes a b).2 incl)

/-! ### get_subprogram_body and its function / procedure filters.  `extract_inner_pair` starts its
    minimum search from `lEndIndexes[-1]` (a POSITION, compared with differences): when no pair
    beats it `lPair` is unbound — `UnboundLocalError`, outside this model (`none`) -/

def innerPair (ss es : List Nat) : Except PyErr (Option (Nat × Nat)) :=
  match es.getLast? with
  | none => .error .indexError
  | some last =>
    .ok (ss.foldl (fun (acc : Nat × Option (Nat × Nat)) s =>
      es.foldl (fun (acc : Nat × Option (Nat × Nat)) e =>
        if decide (e > s) && decide (e - s < acc.1) then (e - s, some (s, e)) else acc) acc) (last, none)).2

def innerPairs : Nat → List Nat → List Nat → Except PyErr (Option (List (Nat × Nat)))
  | 0, _, _ => .ok (some [])
  | n + 1, ss, es =>
    if ss.isEmpty then .ok (some [])
    else
      innerPair ss es >>= fun p? =>
      match p? with
      | none => .ok none
      | some p => innerPairs n (ss.erase p.1) (es.erase p.2) >>= fun r => .ok (r.map (p :: ·))

structure SubKeys where
  declSemi : Option Key
  bodySemi : Option Key
  procKw : Option Key
  funcKw : Option Key

def subprogramBody (f : List α) (ix : Index) (K : SubKeys) : Except PyErr (Option (List (Toi α))) :=
  let ss := sortNat (ix.get K.procKw ++ ix.get K.funcKw)
  let es := sortNat (ix.get K.declSemi ++ ix.get K.bodySemi)
  innerPairs ss.length ss es >>= fun r =>
  match r with
  | none => .ok none
  | some pairs =>
    let kept := pairs.filter fun p => !(ix.get K.declSemi).contains p.2
    let sorted := (sortNat (kept.map (·.1))).flatMap fun s => kept.filter fun p => p.1 == s
    mapE (fun (p : Nat × Nat) =>
      ix.lineOf p.1 >>= fun line =>
      pure { start := some (p.1 : Int), line := line, toks := pySlice f p.1 ((p.2 : Int) + 1) }) sorted >>= fun l =>
    .ok (some l)

/-- get_function_subprogram_body / get_procedure_subprogram_body: `value` = position of the
    designator token whose `get_value()` is stored -/
def subprogramBodyOf (V : View α) (f : List α) (ix : Index) (K : SubKeys) (kw desig : Nat) :
    Except PyErr (Option (List (Toi α))) :=
  subprogramBody f ix K >>= fun r =>
  match r with
  | none => .ok none
  | some l =>
    filterMapE (fun (t : Toi α) =>
      match t.toks.head? with
      | none => .error .indexError
      | some h =>
        if V.inst h kw then
          match t.toks.findIdx? (fun x => V.inst x desig) with
          | none => .error .attributeError
          | some k => pure (some { t with value := t.start.map (· + (k : Int)) })
        else pure none) l >>= fun l' => .ok (some l')

end Vsgm.TM.X
