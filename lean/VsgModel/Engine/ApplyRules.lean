/-
  The write decision of `apply_rules.apply_rules` (vsg/apply_rules.py:117-123):

      if commandLineArguments.fix:
          …
          oRules.fix(fix_phase, skip_phase, fix_only)
          if oRules.had_violations:
              write_vhdl_file(oVhdlFile, oConfig.dConfig)

  and an instrumented copy of the fix run that counts the `_fix_violation` invocations
  (`Rule.fix`: `for oViolation in self.violations[::-1]: self._fix_violation(oViolation);
  self.had_violations = True`).  Only this single decision is modelled here; what is written and
  how (`write_vhdl_file`) is the subject of C16.
-/
import VsgModel.Engine.RuleRun
import VsgModel.Lex.Lines
namespace Vsgm

/-- number of `_fix_violation` calls of one `Rule.fix` on the list `f` -/
def ruleFixCalls (r : RuleCfg) (sem : RuleSem) (fo : Option FixOnly) (f : List Tok) : Nat :=
  if r.fixable then (filterFixOnly fo r.id (sortByStart (sem.analyze f))).length else 0

/-- number of `_fix_violation` calls of one step of `rule_list.fix` -/
def stepCalls (fo : Option FixOnly) (f : List Tok) (o : Option Rule) : Nat :=
  match o with
  | some r => if r.1.sevError then ruleFixCalls r.1 r.2 fo f else 0
  | none => 0

/-- `stepOpt` with a counter of `_fix_violation` calls next to it -/
def stepOptCount (fo : Option FixOnly) (post : List Tok → List Tok) (st : (List Tok × Bool) × Nat)
    (o : Option Rule) : (List Tok × Bool) × Nat :=
  (stepOpt fo post st.1 o, st.2 + stepCalls fo st.1.1 o)

/-- `rule_list.fix` together with the total number of `_fix_violation` calls -/
def fixRunCount (rs : List Rule) (fixPhase : Nat) (skip : List Nat) (fo : Option FixOnly)
    (post : List Tok → List Tok) (f : List Tok) : (List Tok × Bool) × Nat :=
  (schedule rs fixPhase skip).foldl (stepOptCount fo post) ((f, false), 0)

/-- what `apply_rules` hands to `write_vhdl_file`: `none` = the file system is not touched
    (no `.tmp`, no `os.replace`); `some lines` = `get_lines()[1:]` of the fixed file -/
def applyRulesWrite (fix : Bool) (rs : List Rule) (fixPhase : Nat) (skip : List Nat) (fo : Option FixOnly)
    (post : List Tok → List Tok) (f : List Tok) : Option (List Str) :=
  if fix then
    let r := fixRun rs fixPhase skip fo post f
    if r.2 then some ((Lex.getLines r.1).drop 1) else none
  else none

end Vsgm
