/-
  `driver wb` — line protocol of the write-back model (executable glue only).

  request (one scenario per line, fields separated by TAB):
      S <origMode> <origContent> <body> <nl> <tmp0> <bak0> <createMode> <flags> <schedule>
        content   = byte values in decimal joined by '.', empty field = empty content
        tmp0/bak0 = "-" (does not exist) or <mode>:<content>
        flags     = letters of  p parse ok | c configuration ok | f --fix | b --backup |
                    v had_violations | x a rule raises during fix | u buffered file object
        schedule  = "-" or  <call index>:<outcome>,...   outcome = ok | perm | os | crash | part
  reply (one line):
      R ops=<op>:<outcome>,... result=<ok|ok_msg|exc_perm|exc_os|exc_notfound|exc_rule|dead>
        target=<mode>:<content> tmp=<-|mode:content> bak=<-|mode:content> safe=<0|1> hist=<n>
        (fields separated by TAB; safe = every file system state of the run satisfies `Safe`)
-/
import VsgModel.Engine.WriteBack
namespace Vsgm.WB.Cli
open Vsgm.WB

def decContent (s : String) : Content :=
  if s.isEmpty then [] else (s.splitOn ".").map (fun p => p.toNat!)

def encContent (c : Content) : String := ".".intercalate (c.map toString)

def decFileOpt (s : String) : Option File :=
  if s == "-" then none
  else match s.splitOn ":" with
    | [m, c] => some ⟨decContent c, m.toNat!⟩
    | [m] => some ⟨[], m.toNat!⟩
    | _ => none

def encFile (f : File) : String := s!"{f.mode}:{encContent f.content}"

def encFileOpt : Option File → String
  | none => "-"
  | some f => encFile f

def decOutcome : String → Option Outcome
  | "ok" => some .ok
  | "perm" => some .perm
  | "os" => some .oserr
  | "crash" => some .crash
  | "part" => some .crashPartial
  | _ => none

def encOutcome : Outcome → String
  | .ok => "ok"
  | .perm => "perm"
  | .oserr => "os"
  | .crash => "crash"
  | .crashPartial => "part"

def encOp : Op → String
  | .copy2 => "copy2"
  | .stat => "stat"
  | .openTmp => "open"
  | .writeBody => "write_body"
  | .writeNl => "write_nl"
  | .close => "close"
  | .chmod => "chmod"
  | .replace => "replace"
  | .remove => "remove"

def decSchedule (s : String) : Option (List (Nat × Outcome)) :=
  if s == "-" || s.isEmpty then some []
  else (s.splitOn ",").mapM fun p =>
    match p.splitOn ":" with
    | [k, o] => (decOutcome o).map fun o => (k.toNat!, o)
    | _ => none

def encResult : Res Unit → String
  | .ok _ s => if s.msg then "ok_msg" else "ok"
  | .exc .perm _ => "exc_perm"
  | .exc .oserr _ => "exc_os"
  | .exc .notFound _ => "exc_notfound"
  | .exc .rule _ => "exc_rule"
  | .dead _ => "dead"

def answer (line : String) : String :=
  match line.splitOn "\t" with
  | ["S", om, oc, body, nl, tmp0, bak0, cm, flags, sched] =>
    match decSchedule sched with
    | none => "error bad schedule"
    | some l =>
      let has (c : Char) : Bool := flags.toList.contains c
      let sc : Scenario :=
        { orig := ⟨decContent oc, om.toNat!⟩, body := decContent body, nl := decContent nl,
          tmp0 := decFileOpt tmp0, bak0 := decFileOpt bak0, createMode := cm.toNat!,
          parseOk := has 'p', configOk := has 'c', fix := has 'f', backup := has 'b',
          hadViolations := has 'v', fixRaises := has 'x', buffered := has 'u' }
      let r := run (scheduleOf l) sc
      let s := r.st
      let safe : Bool := decide (Safe sc s.fs) && s.hist.all (fun fs => decide (Safe sc fs))
      "\t".intercalate
        [ "R",
          "ops=" ++ ",".intercalate (s.trace.map fun p => encOp p.1 ++ ":" ++ encOutcome p.2),
          "result=" ++ encResult r,
          "target=" ++ encFile s.fs.target,
          "tmp=" ++ encFileOpt s.fs.tmp,
          "bak=" ++ encFileOpt s.fs.bak,
          "safe=" ++ (if safe then "1" else "0"),
          s!"hist={s.hist.length}" ]
  | _ => "error bad line"

partial def wbLoop (h : IO.FS.Stream) (out : IO.FS.Stream) : IO Unit := do
  let line ← h.getLine
  if line.isEmpty then return ()
  let line := if line.endsWith "\n" then (line.dropEnd 1).toString else line
  out.putStrLn (answer line)
  out.flush
  wbLoop h out

end Vsgm.WB.Cli

namespace Vsgm.WB

/-- entry point of `driver wb` -/
def wbMain (stdin stdout : IO.FS.Stream) : IO Unit := Cli.wbLoop stdin stdout

end Vsgm.WB
