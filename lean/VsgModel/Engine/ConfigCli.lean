/-
  Line protocol of `driver cfg` (harness/props_c12.py is the other end).  Fields are separated by TAB,
  list items by U+001F, text is percent-escaped (`%`, TAB, LF, CR, U+001E, U+001F).

  session:   RULE id groups configuration deprecated sevName sevType     one per rule object, then
             D attr val | O name val                                        its __dict__ / option objects
  job:       JOB | FILE name | DEBUG 0/1 | GLOB name g1␟g2… | CLAF name | LOCAL dir
             STYLEDOC | DOC                                                 start the base / next document
             MAIN | RS | RGK | RG attr val | RPK | RPG group | RP group attr val | RRK id | RR id attr val
             FLK | FL name | FC name | FRK | FRN name | FR name             (FC / FR switch the target of R* lines)
             SVK | SV name type|- | IND text | PRA text | LR text
             Q id … | QALL
             RUN cfg | RUN oc | RUN rc id
  reply:     OUT ok | OUT err class kind detail ; DOMAIN 0/1 ; M / S / T / O / OCF / OCL lines ; END
  values:    s<text> | i<int> | bT | bF | n | l<count>␞item… | o<json>
-/
import VsgModel.Engine.Config
namespace Vsgm.Cfg.Cli
open Vsgm.Cfg

def us : Char := Char.ofNat 31
def rs : Char := Char.ofNat 30

def hexDigit (n : Nat) : Char := if n < 10 then Char.ofNat (48 + n) else Char.ofNat (55 + n)
def hexVal (c : Char) : Nat :=
  if '0' ≤ c ∧ c ≤ '9' then c.toNat - 48 else if 'A' ≤ c ∧ c ≤ 'F' then c.toNat - 55 else if 'a' ≤ c ∧ c ≤ 'f' then c.toNat - 87 else 0

def escChars : List Char → List Char
  | [] => []
  | c :: t =>
    if c = '%' ∨ c = '\t' ∨ c = '\n' ∨ c = '\r' ∨ c = us ∨ c = rs then
      '%' :: hexDigit (c.toNat / 16) :: hexDigit (c.toNat % 16) :: escChars t
    else c :: escChars t

def unescChars : List Char → List Char
  | '%' :: a :: b :: t => Char.ofNat (hexVal a * 16 + hexVal b) :: unescChars t
  | c :: t => c :: unescChars t
  | [] => []

def esc (s : String) : String := String.ofList (escChars s.toList)
def unesc (s : String) : String := String.ofList (unescChars s.toList)

def splitC (c : Char) (s : String) : List String := s.splitOn (String.ofList [c])

def listField (s : String) : List String := if s = "" then [] else (splitC us s).map unesc

def encVal : Val → String
  | .str s => "s" ++ esc s
  | .int i => "i" ++ toString i
  | .bool b => if b then "bT" else "bF"
  | .null => "n"
  | .list l => String.intercalate (String.ofList [rs]) (("l" ++ toString l.length) :: l.map esc)
  | .other j => "o" ++ esc j

def decVal (s : String) : Val :=
  match s.toList with
  | 's' :: t => .str (String.ofList (unescChars t))
  | 'i' :: t => .int ((String.ofList t).toInt?.getD 0)
  | 'b' :: 'T' :: _ => .bool true
  | 'b' :: _ => .bool false
  | 'l' :: t => .list (((splitC rs (String.ofList t)).drop 1).map unesc)
  | 'o' :: t => .other (String.ofList (unescChars t))
  | _ => .null

/-- where `R*` lines go -/
inductive Target where
  | main | fileList | fileRules
  deriving DecidableEq

structure Job where
  style : Option Doc := none
  docs : List Doc := []          -- reversed
  cur : Doc := {}
  inStyle : Bool := false
  started : Bool := false
  target : Target := .main
  fname : String := ""
  debug : Bool := false
  globs : Dict (List String) := []
  claf : List String := []
  localRules : Option String := none
  queries : List String := []
  qall : Bool := false

def updLastEntry (l : List FileEntry) (f : Option RuleSec → Option RuleSec) : List FileEntry :=
  match l.reverse with
  | .cfg ((k, pf) :: rest) :: before => (FileEntry.cfg ((k, { pf with rule := f pf.rule }) :: rest) :: before).reverse
  | _ => l

def updSec (j : Job) (f : Option RuleSec → Option RuleSec) : Job :=
  match j.target with
  | .main => { j with cur := { j.cur with rule := f j.cur.rule } }
  | .fileList => { j with cur := { j.cur with fileList := j.cur.fileList.map (updLastEntry · f) } }
  | .fileRules => { j with cur := { j.cur with fileRules := j.cur.fileRules.map (updLastEntry · f) } }

def secOf (o : Option RuleSec) : RuleSec := o.getD []

def ensureKey (sec : RuleSec) (k : String) (dflt : Entry) : RuleSec :=
  if dhas sec k then sec else dset sec k dflt

def setAttr (k : String) (a : String) (v : Val) (o : Option RuleSec) : Option RuleSec :=
  let sec := ensureKey (secOf o) k (.attrs [])
  match dget sec k with
  | some (.attrs at') => some (dset sec k (.attrs (dset at' a v)))
  | _ => some sec

def setGroupAttr (g : String) (a : Option (String × Val)) (o : Option RuleSec) : Option RuleSec :=
  let sec := ensureKey (secOf o) "group" (.groups [])
  match dget sec "group" with
  | some (.groups gs) =>
    let cur := (dget gs g).getD []
    let cur := match a with
      | some (k, v) => dset cur k v
      | none => cur
    some (dset sec "group" (.groups (dset gs g cur)))
  | _ => some sec

def flush (j : Job) : Job :=
  if !j.started then j
  else if j.inStyle then { j with style := some j.cur, cur := {}, started := false, inStyle := false, target := .main }
  else { j with docs := j.cur :: j.docs, cur := {}, started := false, target := .main }

def appendEntry (o : Option (List FileEntry)) (e : FileEntry) : Option (List FileEntry) := some (o.getD [] ++ [e])

def jobLine (j : Job) (fs : List String) : Job :=
  match fs with
  | ["FILE", n] => { j with fname := unesc n }
  | ["DEBUG", b] => { j with debug := b == "1" }
  | ["GLOB", n, gs] => { j with globs := dset j.globs (unesc n) (listField gs) }
  | ["GLOB", n] => { j with globs := dset j.globs (unesc n) [] }
  | ["CLAF", n] => { j with claf := j.claf ++ [unesc n] }
  | ["LOCAL", n] => { j with localRules := some (unesc n) }
  | ["STYLEDOC"] => { flush j with started := true, inStyle := true }
  | ["DOC"] => { flush j with started := true, inStyle := false }
  | ["MAIN"] => { j with target := .main }
  | ["RS"] => updSec j fun o => some (secOf o)
  | ["RGK"] => updSec j fun o => some (ensureKey (secOf o) "global" (.attrs []))
  | ["RG", a, v] => updSec j (setAttr "global" (unesc a) (decVal v))
  | ["RPK"] => updSec j fun o => some (ensureKey (secOf o) "group" (.groups []))
  | ["RPG", g] => updSec j (setGroupAttr (unesc g) none)
  | ["RP", g, a, v] => updSec j (setGroupAttr (unesc g) (some (unesc a, decVal v)))
  | ["RRK", id] => updSec j fun o => some (ensureKey (secOf o) (unesc id) (.attrs []))
  | ["RR", id, a, v] => updSec j (setAttr (unesc id) (unesc a) (decVal v))
  | ["FLK"] => { j with cur := { j.cur with fileList := some (j.cur.fileList.getD []) } }
  | ["FL", n] => { j with cur := { j.cur with fileList := appendEntry j.cur.fileList (.name (unesc n)) } }
  | ["FC", n] => { j with cur := { j.cur with fileList := appendEntry j.cur.fileList (.cfg [(unesc n, {})]) }, target := .fileList }
  | ["FRK"] => { j with cur := { j.cur with fileRules := some (j.cur.fileRules.getD []) } }
  | ["FRN", n] => { j with cur := { j.cur with fileRules := appendEntry j.cur.fileRules (.name (unesc n)) } }
  | ["FR", n] => { j with cur := { j.cur with fileRules := appendEntry j.cur.fileRules (.cfg [(unesc n, {})]) }, target := .fileRules }
  | ["SVK"] => { j with cur := { j.cur with severity := some (j.cur.severity.getD []) } }
  | ["SV", n, t] => { j with cur := { j.cur with severity := some (dset (j.cur.severity.getD []) (unesc n) (if t = "-" then none else some (unesc t))) } }
  | ["IND", t] => { j with cur := { j.cur with indent := some (unesc t) } }
  | ["PRA", t] => { j with cur := { j.cur with pragma := some (unesc t) } }
  | ["LR", t] => { j with cur := { j.cur with localRules := some (unesc t) } }
  | "Q" :: ids => { j with queries := j.queries ++ ids.map unesc }
  | ["QALL"] => { j with qall := true }
  | _ => j

def envOf (j : Job) : Env :=
  { glob := fun n => match dget j.globs n with
      | some gs => gs
      | none => [n]
    -- the opaque parts: the normalised value is the user value if given, a fixed default otherwise
    indentNorm := fun o => o.getD "<default indent>"
    pragmaNorm := fun o => o.getD "<default pragma>" }

def encSev (s : Option Sev) : String :=
  match s with
  | none => "-"
  | some s => esc s.name ++ String.ofList [us] ++ esc s.type

def encAttrs (a : Attrs) : String :=
  String.intercalate "\t" (a.map fun kv => esc kv.1 ++ String.ofList [us] ++ encVal kv.2)

def encErr (e : Err) : String :=
  match e with
  | .config k d => "OUT\terr\tconfig\t" ++ esc k ++ "\t" ++ esc d
  | .py k d => "OUT\terr\tpy\t" ++ esc k ++ "\t" ++ esc d
  | .exit c d => "OUT\terr\texit\t" ++ toString c ++ "\t" ++ esc d

/-- the property's chosen value with its provenance (level 0…8, index of the document in the stack;
    file_list levels come from the merged document: index = stack length) -/
def specProv (merged : Doc) (stack : List Doc) (fname : String) (r : RuleObj) (a : String) : Option (Nat × Nat × Val) :=
  let rows := stack.map fun d => Spec.docLevels d fname r a
  let mergedRow := Spec.docLevels merged fname r a
  let n := stack.length
  Spec.firstSome ((List.range 9).map fun i =>
    if 3 ≤ i ∧ i < 6 then ((mergedRow[i]?).getD none).map fun v => (i, n, v)
    else
      Spec.firstSome ((List.range n).reverse.map fun k =>
        (((rows[k]?).getD [])[i]?).getD none |>.map fun v => (i, k, v)))

def attrUniverse (r : RuleObj) : List String :=
  (r.configuration ++ dkeys r.dict).eraseDups.filter (· ≠ "severity")

def encSpec (merged : Doc) (stack : List Doc) (fname : String) (sl : List Sev) (r : RuleObj) : String :=
  let attrs := attrUniverse r
  let cells := attrs.filterMap fun a =>
    match specProv merged stack fname r a with
    | some (i, k, v) => some (esc a ++ String.ofList [us] ++ encVal v ++ String.ofList [us] ++ toString i ++ String.ofList [us] ++ toString k)
    | none => none
  let sev := match specProv merged stack fname r "severity" with
    | some (i, k, v) => encSev (getSeverityNamed sl v) ++ String.ofList [us] ++ toString i ++ String.ofList [us] ++ toString k ++ String.ofList [us] ++ encVal v
    | none => "="
  String.intercalate "\t" (("S" :: esc r.id :: sev :: cells))

/-- same under the "style default ranks lowest" reading: cells only where a user level or the style chooses -/
def encSpecStyleLowest (mergedUser : Doc) (style : Doc) (user : List Doc) (fname : String) (sl : List Sev) (r : RuleObj) : String :=
  let attrs := attrUniverse r
  let cells := attrs.filterMap fun a =>
    match Spec.specChosenStyleLowest mergedUser style user fname r a with
    | some v => some (esc a ++ String.ofList [us] ++ encVal v)
    | none => none
  let sev := match Spec.specChosenStyleLowest mergedUser style user fname r "severity" with
    | some v => encSev (getSeverityNamed sl v) ++ String.ofList [us] ++ encVal v
    | none => "="
  String.intercalate "\t" (("T" :: esc r.id :: sev :: cells))

def wanted (j : Job) (r : RuleObj) : Bool := j.qall || j.queries.contains r.id

def runCfg (out : IO.FS.Stream) (rules : List RuleObj) (j : Job) : IO Unit := do
  let env := envOf j
  let style := j.style.getD {}
  let docs := j.docs.reverse
  let stack := style :: docs
  let dom := stack.all Doc.inDomain
  match newConfig env style docs j.debug with
  | .error e => out.putStrLn (encErr e); out.putStrLn ("DOMAIN\t" ++ (if dom then "1" else "0"))
  | .ok c =>
    match configureRules c rules j.fname with
    | .error e => out.putStrLn (encErr e)
    | .ok rs' =>
      out.putStrLn "OUT\tok"
      for r in rs' do
        if wanted j r then
          out.putStrLn (String.intercalate "\t" ["M", esc r.id, encSev r.severity, encAttrs r.dict])
    out.putStrLn ("DOMAIN\t" ++ (if dom then "1" else "0"))
    -- the specification, evaluated on the DEFAULT rule objects and the stack of documents
    for r in rules do
      if wanted j r then
        out.putStrLn (encSpec c.doc stack j.fname c.sevs r)
    if j.style.isSome then
      match readConfigurationFiles env {} docs with
      | .ok mu =>
        for r in rules do
          if wanted j r then
            out.putStrLn (encSpecStyleLowest mu style docs j.fname c.sevs r)
      | .error _ => pure ()

def runOc (out : IO.FS.Stream) (rules : List RuleObj) (j : Job) : IO Unit := do
  let env := envOf j
  let style := j.style.getD {}
  let docs := j.docs.reverse
  match newConfig env style docs j.debug with
  | .error e => out.putStrLn (encErr e)
  | .ok c =>
    match generateOutputConfiguration env c rules j.claf j.localRules with
    | .error e => out.putStrLn (encErr e)
    | .ok oc =>
      out.putStrLn "OUT\tok"
      match oc.fileList with
      | some l => out.putStrLn (String.intercalate "\t" ("OCF" :: l.map esc))
      | none => pure ()
      match oc.localRules with
      | some l => out.putStrLn ("OCL\t" ++ esc l)
      | none => pure ()
      for ka in oc.rule do
        out.putStrLn (String.intercalate "\t" ["O", esc ka.1, encAttrs ka.2])

def runRc (out : IO.FS.Stream) (rules : List RuleObj) (j : Job) (id : String) : IO Unit := do
  let env := envOf j
  match newConfig env (j.style.getD {}) j.docs.reverse j.debug with
  | .error e => out.putStrLn (encErr e)
  | .ok c =>
    match displayRuleConfiguration c rules id with
    | .error e => out.putStrLn (encErr e)
    | .ok none => out.putStrLn "OUT\tok"; out.putStrLn "NOTFOUND"
    | .ok (some d) =>
      out.putStrLn "OUT\tok"
      for ka in d do
        out.putStrLn (String.intercalate "\t" ["O", esc ka.1, encAttrs ka.2])

def mkRule (id gs cf dep sn st : String) : RuleObj :=
  { id := unesc id, groups := listField gs, configuration := listField cf, dict := [],
    severity := if sn = "-" then none else some ⟨unesc sn, unesc st⟩, options := [], deprecated := dep == "1" }

def updLastRule (rules : List RuleObj) (f : RuleObj → RuleObj) : List RuleObj :=
  match rules with
  | [] => []
  | r :: t => f r :: t

partial def loop (h out : IO.FS.Stream) (rulesRev : List RuleObj) (rules : List RuleObj) (j : Job) : IO Unit := do
  let line ← h.getLine
  if line.isEmpty then return ()
  let line := if line.endsWith "\n" then (line.dropEnd 1).toString else line
  match line.splitOn "\t" with
  | ["RULE", id, gs, cf, dep, sn, st] => loop h out (mkRule id gs cf dep sn st :: rulesRev) [] j
  | ["D", a, v] => loop h out (updLastRule rulesRev fun r => { r with dict := r.dict ++ [(unesc a, decVal v)] }) [] j
  | ["O", a, v] => loop h out (updLastRule rulesRev fun r => { r with options := r.options ++ [(unesc a, decVal v)] }) [] j
  | ["JOB"] =>
    let rules := if rules.isEmpty then rulesRev.reverse else rules
    loop h out rulesRev rules {}
  | ["RUN", "cfg"] => runCfg out rules (flush j); out.putStrLn "END"; out.flush; loop h out rulesRev rules j
  | ["RUN", "oc"] => runOc out rules (flush j); out.putStrLn "END"; out.flush; loop h out rulesRev rules j
  | ["RUN", "rc", id] => runRc out rules (flush j) (unesc id); out.putStrLn "END"; out.flush; loop h out rulesRev rules j
  | fs => loop h out rulesRev rules (jobLine j fs)

end Vsgm.Cfg.Cli

namespace Vsgm.Cfg
def cfgMain (stdin stdout : IO.FS.Stream) : IO Unit := Cli.loop stdin stdout [] [] {}
end Vsgm.Cfg
