/-
  Outcome structure of `apply_rules.apply_rules` and of the file loop of `__main__.main`
  (vsg/apply_rules.py:74-131, vsg/__main__.py:127-185): which exceptions are caught, what is
  returned, whether the loop goes on.
-/
namespace Vsgm.Outcome

/-- what can happen while a file is processed -/
inductive Event where
  | classifyError (msg : String)         -- vhdlFile(...) raised ClassifyError
  | localRulesOSError                    -- rule_list(...) raised OSError (local rules directory)
  | configurationError (msg : String)    -- configure_rules raised ConfigurationError
  | checked (violations : Bool)          -- normal path; `oRules.violations` after check_rules
  | otherException (name : String)       -- anything else: NOT caught by apply_rules
  deriving Repr, DecidableEq

/-- the tuple apply_rules returns (exit status, stderr text, "stop processing" flag), or the
    exception that escapes -/
inductive Result where
  | ret (exit : Bool) (stderr : Option String) (stop : Bool)
  | raised (name : String)
  deriving Repr, DecidableEq

def applyRules (file : String) : Event → Result
  | .classifyError msg => .ret true (some s!"Error while processing {file}: {msg}") false
  | .localRulesOSError => .ret true none true
  | .configurationError msg => .ret true (some s!"Error while processing {file}: {msg}") true
  | .checked v => .ret v none false
  | .otherException n => .raised n

/-- the sequential loop of main (jobs == 1): processes files until one asks to stop; an escaping
    exception ends the run with a traceback (`none`) -/
def mainLoop : List (String × Event) → Option (List Result)
  | [] => some []
  | (f, e) :: rest =>
    match applyRules f e with
    | .raised _ => none
    | r@(.ret _ _ stop) => if stop then some [r] else (mainLoop rest).map (r :: ·)

def exitStatus (rs : List Result) : Bool :=
  rs.any fun r => match r with | .ret e _ _ => e | .raised _ => true

end Vsgm.Outcome
