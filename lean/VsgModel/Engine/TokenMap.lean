/-
  `vsg/token_map.py` — the index from token role `(base, sub)` to positions — transcribed as it
  is: `process_tokens` with its three alias rules and their `continue`s, the `bisect` look-ups,
  the start/end pairing used by every `*_bounded_by` extractor, the 4-slot "next non whitespace"
  search.  Everything Python can raise is an `Except PyErr`; Python ints that can be negative
  are `Int`; list indexing / slicing with negative numbers follows Python.
-/
namespace Vsgm.TM

inductive PyErr where
  | indexError | keyError | typeError | attributeError | valueError
  deriving DecidableEq, Repr, Inhabited

def PyErr.name : PyErr → String
  | .indexError => "IndexError" | .keyError => "KeyError" | .typeError => "TypeError"
  | .attributeError => "AttributeError" | .valueError => "ValueError"

/-! ### Python list access -/

variable {α : Type}

/-- `l[i]` for a Python int `i` (negative counts from the end, out of range raises) -/
def pyIdx (l : List α) (i : Int) : Except PyErr α :=
  let j : Int := if i < 0 then i + l.length else i
  if j < 0 then .error .indexError
  else match l[j.toNat]? with
    | some x => .ok x
    | none => .error .indexError

/-- normalisation of one slice bound -/
def pyNorm (n : Nat) (i : Int) : Nat := if i < 0 then (i + n).toNat else min i.toNat n

/-- `l[a:b]` for Python ints -/
def pySlice (l : List α) (a b : Int) : List α :=
  (l.drop (pyNorm l.length a)).take (pyNorm l.length b - pyNorm l.length a)

/-- `i in l` for a Python int and a list of positions -/
def memInt (i : Int) (l : List Nat) : Bool := decide (0 ≤ i) && l.contains i.toNat

/-- `bisect.bisect_left(l, x)` on a sorted list: the number of leading elements `< x` -/
def bisectLeft (l : List Nat) (x : Int) : Nat := (l.takeWhile (fun (e : Nat) => decide ((e : Int) < x))).length

/-- `bisect.bisect_right(l, x)` on a sorted list: the number of leading elements `≤ x` -/
def bisectRight (l : List Nat) (x : Int) : Nat := (l.takeWhile (fun (e : Nat) => decide ((e : Int) ≤ x))).length

/-! ### the map -/

/-- `(base, sub)` as in the `unique_id = base : sub` line of a token class docstring -/
abbrev Key := String × String

def kParser : String := "parser"
def kLogical : String := "logical_operator"
def kComma : String := "comma"
def kOpenParen : String := "open_parenthesis"
def crKey : Key := ("parser", "carriage_return")
def wsKey : Key := ("parser", "whitespace")
def blankKey : Key := ("parser", "blank_line")
def commentKey : Key := ("parser", "comment")
def pragmaKey : Key := ("pragma", "pragma")
def commaKey : Key := (kParser, kComma)
def openParenKey : Key := (kParser, kOpenParen)

/-- `dMap[base][sub]` flattened to one association list (insertion order of the keys is
    never observed by the code) -/
abbrev Map := List (Key × List Nat)

/-- `dMap[b][s]` — `none` is `KeyError` -/
def Map.find (m : Map) (k : Key) : Option (List Nat) := m.lookup k

/-- `get_token_indexes`: `KeyError ⇒ []` -/
def Map.get (m : Map) (k : Key) : List Nat := (m.find k).getD []

/-- `dMap[b][s].append(i)`, creating the entries on `KeyError` -/
def Map.push : Map → Key → Nat → Map
  | [], k, i => [(k, [i])]
  | (k', l) :: m, k, i => if k' = k then (k', l ++ [i]) :: m else (k', l) :: Map.push m k i

/-- `if i not in dMap[b][s]: dMap[b][s].append(i)` inside the same `try … except KeyError` -/
def Map.pushNew (m : Map) (k : Key) (i : Nat) : Map :=
  if (m.get k).contains i then m else m.push k i

/-- one iteration of the loop of `process_tokens` -/
def step (m : Map) (i : Nat) (u : Option Key) : Map :=
  match u with
  | none => m
  | some (b, s) =>
    let m := m.push (b, s) i
    if b = kLogical then m.push (b, b) i          -- … continue
    else if s = kComma then m.pushNew commaKey i      -- … continue
    else if s = kOpenParen then m.pushNew openParenKey i
    else m

def processFrom : Map → Nat → List (Option Key) → Map
  | m, _, [] => m
  | m, i, u :: us => processFrom (step m i u) (i + 1) us

/-- the object `process_tokens` returns: `dMap` and `iMaxToken` -/
structure Index where
  dmap : Map
  maxTok : Nat
  deriving Repr, DecidableEq

/-- `process_tokens(lTokens)`; `uid t` is `t.get_unique_id()` -/
def processTokens (uid : α → Option Key) (l : List α) : Index :=
  { dmap := processFrom [] 0 (l.map uid), maxTok := l.length }

/-- the positions a key is specified to hold, with multiplicity: what token `i` with unique id
    `u` contributes to the list of `k` -/
def contrib (k : Key) (u : Option Key) : Nat :=
  match u with
  | none => 0
  | some (b, s) =>
    (if (b, s) = k then 1 else 0) +
    (if b = kLogical then (if (b, b) = k then 1 else 0)
     else if s = kComma then (if commaKey = k ∧ (b, s) ≠ k then 1 else 0)
     else if s = kOpenParen then (if openParenKey = k ∧ (b, s) ≠ k then 1 else 0)
     else 0)

/-- specification of one entry: position `i` repeated `contrib k (uid l[i])` times, ascending -/
def specFrom (k : Key) : Nat → List (Option Key) → List Nat
  | _, [] => []
  | i, u :: us => List.replicate (contrib k u) i ++ specFrom k (i + 1) us

/-! ### look-ups -/

namespace Index

/-- `get_token_indexes(oToken)`; `u` is `extract_unique_id(oToken)` (`none` = no docstring id:
    `dMap[None]` raises `KeyError`, which the method turns into `[]`) -/
def get (ix : Index) (u : Option Key) : List Nat :=
  match u with
  | none => []
  | some k => ix.dmap.get k

/-- `self.dMap["parser"]["carriage_return"]` -/
def crs (ix : Index) : Except PyErr (List Nat) :=
  match ix.dmap.find crKey with
  | some l => .ok l
  | none => .error .keyError

def getBetween (ix : Index) (u : Option Key) (a b : Int) : List Nat :=
  (ix.get u).filter (fun i => decide ((i : Int) > a) && decide ((i : Int) < b))

/-- `get_line_number_of_index` -/
def lineOf (ix : Index) (i : Int) : Except PyErr Nat := do
  let c ← ix.crs
  pure (bisectLeft c i + 1)

/-- `get_index_of_carriage_return_after_index` -/
def crAfter (ix : Index) (i : Int) : Except PyErr Nat := do
  let c ← ix.crs
  match c[bisectRight c i]? with
  | some x => pure x
  | none => throw .indexError

/-- `get_index_of_carriage_return_before_index` (`none` is Python's `None`) -/
def crBefore (ix : Index) (i : Int) : Except PyErr (Option Int) :=
  if i = 0 then pure none
  else do
    let c ← ix.crs
    let k : Int := (bisectLeft c i : Int) - 1
    let x ← pyIdx c k
    if i < (x : Int) then pure (some i) else pure (some (x : Int))

/-- `get_index_of_token_after_index` (`IndexError` / `KeyError` ⇒ `None`) -/
def tokAfter (ix : Index) (u : Option Key) (i : Int) : Option Nat :=
  match u with
  | none => none
  | some k =>
    match ix.dmap.find k with
    | none => none
    | some l => l[bisectRight l i]?

/-- `is_token_at_index` -/
def isAt (ix : Index) (u : Option Key) (i : Int) : Bool :=
  match u with
  | none => false
  | some k =>
    match ix.dmap.find k with
    | none => false
    | some l => memInt i l

def isWsAt (ix : Index) (i : Int) : Bool :=
  ix.isAt (some wsKey) i || ix.isAt (some crKey) i || ix.isAt (some blankKey) i

def isWsOrCommentAt (ix : Index) (i : Int) : Bool :=
  ix.isAt (some wsKey) i || ix.isAt (some pragmaKey) i || ix.isAt (some commentKey) i ||
    ix.isAt (some crKey) i || ix.isAt (some blankKey) i

/-- keys skipped by the 4-slot search -/
def skipKey (exclComments : Bool) (k : Key) : Bool :=
  k.1 == "parser" && (k.2 == "whitespace" || k.2 == "carriage_return" || k.2 == "blank_line" ||
    (exclComments && k.2 == "comment"))

/-- `get_index_of_next_non_whitespace_token`: the first of the four positions after `i` that
    some non-skipped key lists; falls off the end (`None`) otherwise -/
def nextNonWs (ix : Index) (i : Int) (exclComments : Bool) : Option Int :=
  let slot (d : Nat) : Bool := ix.dmap.any (fun kl => !skipKey exclComments kl.1 && memInt (i + 1 + d) kl.2)
  ([0, 1, 2, 3].find? slot).map (fun d => i + 1 + (d : Nat))

/-- `for i in range(j, 0, -1): if p(i): return i` -/
def scanDown (p : Nat → Bool) : Nat → Option Nat
  | 0 => none
  | j + 1 => if p (j + 1) then some (j + 1) else scanDown p j

/-- `for i in range(j, j + fuel): if p(i): return i` -/
def scanUp (p : Nat → Bool) (j : Nat) : Nat → Option Nat
  | 0 => none
  | f + 1 => if p j then some j else scanUp p (j + 1) f

/-- `get_index_of_previous_non_whitespace_token_before_index` -/
def prevNonWsBefore (ix : Index) (i : Int) : Option Nat :=
  scanDown (fun j => !ix.isWsAt j) (i - 1).toNat

/-- `get_index_of_previous_non_whitespace_token` -/
def prevNonWs (ix : Index) (i : Int) : Option Nat :=
  scanDown (fun j => !ix.isWsOrCommentAt j) (i - 1).toNat

/-- `get_index_of_next_non_whitespace_token_after_index_ignoring_comments`:
    `range(i + 1, iMaxToken)`; a negative position is never in the index, so it is returned -/
def nextNonWsIgnoringComments (ix : Index) (i : Int) : Option Int :=
  let s := i + 1
  if s < 0 then (if s < (ix.maxTok : Int) then some s else none)
  else (scanUp (fun j => !ix.isWsOrCommentAt j) s.toNat (ix.maxTok - s.toNat)).map Int.ofNat

/-- `is_previous_non_whitespace_token` (`is_token_at_index(tok, None)` is `False`) -/
def isPrevNonWs (ix : Index) (i : Int) (u : Option Key) : Bool :=
  match ix.prevNonWsBefore i with
  | none => false
  | some j => ix.isAt u j

/-- `get_index_of_line`: `dMap["parser"]["carriage_return"][iLine - 2] + 1` -/
def indexOfLine (ix : Index) (line : Int) : Except PyErr Int := do
  let c ← ix.crs
  let x ← pyIdx c (line - 2)
  pure ((x : Int) + 1)

end Index

/-! ### start / end pairing -/

/-- `extract_closest_pair`: `iMin` is local to one call -/
def closestPair (s : Nat) : List Nat → Option (Nat × Nat) → Nat → Option (Nat × Nat)
  | [], p, _ => p
  | e :: es, p, mn =>
    if s > e then closestPair s es p mn
    else if e - s < mn then closestPair s es (some (s, e)) (e - s)
    else closestPair s es p mn

/-- `extract_pairs`: every round pairs the LAST start that still has an end at or after it with
    its closest such end, removes both, and repeats.  `fuel` = number of starts (each round
    removes one) -/
def extractPairsGo : Nat → List Nat → List Nat → List (Nat × Nat)
  | 0, _, _ => []
  | f + 1, ss, es =>
    match es.getLast?, ss with
    | none, _ => []
    | _, [] => []
    | some last, _ =>
      match ss.foldl (fun p s => closestPair s es p (last + 1)) none with
      | none => []
      | some (s, e) => (s, e) :: extractPairsGo f (ss.erase s) (es.erase e)

def extractPairs (ss es : List Nat) : List (Nat × Nat) := extractPairsGo ss.length ss es

/-- `extract_indexes_from_pairs` -/
def indexesFromPairs (ps : List (Nat × Nat)) : List Nat × List Nat :=
  let ss := (ps.map (·.1)).mergeSort (fun a b => decide (a ≤ b))
  (ss, ss.flatMap (fun s => (ps.filter (fun p => p.1 == s)).map (·.2)))

/-- `extract_start_end_indexes` -/
def startEndIndexes (ss es : List Nat) : List Nat × List Nat := indexesFromPairs (extractPairs ss es)

/-- `get_token_pair_indexes` -/
def Index.pairIndexes (ix : Index) (a b : Option Key) : List Nat × List Nat :=
  startEndIndexes (ix.get a) (ix.get b)

end Vsgm.TM
