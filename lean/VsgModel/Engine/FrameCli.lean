/-
  Driver mode `frame`: runs the `check_rules` model on a rule table whose analyses are the
  constant functions observed on the real code (C06 oracle: expected report after disabling a
  set of rules / permuting the rule list), and the scheduler model on a list of solo results
  (C15 oracle: what `main` collects for a given assignment of files to workers).

  Line protocol (fields separated by TAB):
    RULES                                   forget the rule table
    RULE  id phase sub dis sev viols        viols = "line:act line:act ..." (may be empty)
    CHECK ap skip D perm                    ap = 0|1; skip = "1 3"; D = ids; perm = indices (empty = identity)
        -> C ran=<n> last=<p> viol=<0|1> log=id=l:a,l:a;id=;...
    REPORT ap skip D perm
        -> P id:l:a id:l:a ...              (rule-list order, stably sorted by line)
    FILES r r r ...                         r = out:status:stop
    SERIAL        -> S out:status:stop ... exit=<0|1>
    POOL w:i w:i ... -> same
-/
import VsgModel.Engine.Frame
namespace Vsgm.FrameCli
open Vsgm Vsgm.Frame

def splitWords (s : String) : List String := (s.splitOn " ").filter (· ≠ "")

def parseViol (s : String) : Viol :=
  match s.splitOn ":" with
  | [l, a] => { line := l.toNat!, start := 0, toks := [], act := a.toNat! }
  | _ => { line := 0, start := 0, toks := [], act := 0 }

def mkRule (id ph sb di sv vs : String) : SRule Unit :=
  let viols := (splitWords vs).map parseViol
  { cfg := { id := id, phase := ph.toInt!, subphase := sb.toInt!, disabled := di == "1", fixable := true,
             sevError := sv == "1", prereq := false },
    analyze := fun s => (s, viols) }

def permute (rs : List α) (perm : List Nat) : List α :=
  if perm.isEmpty then rs else perm.filterMap fun i => rs[i]?

def showViols (vs : List Viol) : String := ",".intercalate (vs.map fun v => s!"{v.line}:{v.act}")

def runCheck (rs : List (SRule Unit)) (ap skip ds perm : String) : CState Unit × List (SRule Unit) :=
  let rs' := disable (splitWords ds) (permute rs ((splitWords perm).map String.toNat!))
  (checkRules (ap == "1") ((splitWords skip).map String.toNat!) rs' 0 (), rs')

def showResults (rs : List (FileResult Nat)) : String :=
  let b (x : Bool) := if x then "1" else "0"
  "S " ++ " ".intercalate (rs.map fun r => s!"{r.out}:{b r.status}:{b r.stop}") ++ s!" exit={b (exitOf rs)}"

def parseResult (s : String) : FileResult Nat :=
  match s.splitOn ":" with
  | [o, st, sp] => { out := o.toNat!, status := st == "1", stop := sp == "1" }
  | _ => { out := 0, status := false, stop := false }

partial def loop (h out : IO.FS.Stream) (rs : List (SRule Unit)) (files : List (FileResult Nat)) : IO Unit := do
  let line ← h.getLine
  if line.isEmpty then return ()
  let line := if line.endsWith "\n" then (line.dropEnd 1).toString else line
  match line.splitOn "\t" with
  | ["RULES"] => loop h out [] files
  | ["RULE", id, ph, sb, di, sv, vs] => loop h out (rs ++ [mkRule id ph sb di sv vs]) files
  | ["CHECK", ap, skip, ds, perm] =>
    let (c, _) := runCheck rs ap skip ds perm
    let lg := ";".intercalate (c.log.map fun e => e.1 ++ "=" ++ showViols e.2)
    out.putStrLn s!"C ran={c.ran} last={c.lastPhase} viol={if c.violations then 1 else 0} log={lg}"
    out.flush
    loop h out rs files
  | ["REPORT", ap, skip, ds, perm] =>
    let (c, rs') := runCheck rs ap skip ds perm
    let rep := sortByLine (reportRaw rs' c.log)
    out.putStrLn ("P " ++ " ".intercalate (rep.map fun e => s!"{e.1}:{e.2.line}:{e.2.act}"))
    out.flush
    loop h out rs files
  | ["FILES", fsS] => loop h out rs ((splitWords fsS).map parseResult)
  | ["SERIAL"] =>
    -- `apply` = the constant solo result of the file (frame-respecting by construction)
    let res := runSerial (fun (g : Unit) (r : FileResult Nat) => (g, r)) () files
    out.putStrLn (showResults res); out.flush
    loop h out rs files
  | ["POOL", evS] =>
    let evs := (splitWords evS).map fun e =>
      match e.splitOn ":" with
      | [w, i] => (w.toNat!, i.toNat!)
      | _ => (0, 0)
    let res := runPool (fun (g : Unit) (r : FileResult Nat) => (g, r)) files () evs
    out.putStrLn (showResults res); out.flush
    loop h out rs files
  | _ =>
    out.putStrLn ("error bad line " ++ line.take 40); out.flush
    loop h out rs files

def frameMain (stdin stdout : IO.FS.Stream) : IO Unit := loop stdin stdout [] []

end Vsgm.FrameCli
