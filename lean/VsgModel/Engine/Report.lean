/-
  Reports as functions to record lists: `Rule.get_violations`, `rule_list.report_violations`,
  `report/vsg_stdout.py`, `syntastic_stdout.py`, `summary_stdout.py`, `extract_junit_testcase`,
  `extract_violation_dictionary`, `report/quality_report.py`, `fExitStatus = oRules.violations`
  (apply_rules.py:117-146) and the OR of `__main__.main` (164-185).  Text layout is glue and is
  not modelled; the harness parses the real outputs back into these records.
-/
import VsgModel.Engine.CheckRules
namespace Vsgm

/-- `_build_violation_dict_from_violation_object`; `phase` is a ghost field (not printed by
    any format) that lets C13 speak about the phase of the reporting rule -/
structure Rec where
  rule    : String
  sevName : String
  sevErr  : Bool
  line    : Nat
  sol     : String
  phase   : Int
  deriving DecidableEq, Repr

/-- what every format must agree on -/
structure Core where
  rule : String
  line : Nat
  sol  : String
  deriving DecidableEq, Repr

def Rec.core (r : Rec) : Core := ⟨r.rule, r.line, r.sol⟩

/-- `Rule.get_violations` -/
def CRule.getViolations (r : CRule) : List Rec :=
  r.viols.map fun v => ⟨r.cfg.id, r.sevName, r.cfg.sevError, v.line, v.sol, r.cfg.phase⟩

/-- `Rule.has_violations()` -/
def CRule.hasViolations (r : CRule) : Bool := !r.viols.isEmpty

/-- every violation held by the rule objects, in rule-list order -/
def allRecs (rs : List CRule) : List Rec := rs.flatMap CRule.getViolations

/-! ### `sorted(..., key=lambda x: int(x["lineNumber"]))`: a stable sort by line -/

def insertByLine (x : Rec) : List Rec → List Rec
  | [] => [x]
  | y :: ys => if x.line ≤ y.line then x :: y :: ys else y :: insertByLine x ys

def sortByLine : List Rec → List Rec
  | [] => []
  | x :: xs => insertByLine x (sortByLine xs)

/-! ### `report_violations` -/

/-- `dRunInfo["violations"]`: rules with `has_violations()`, in rule-list order, then sorted -/
def reportRecs (rs : List CRule) : List Rec :=
  sortByLine ((rs.filter CRule.hasViolations).flatMap CRule.getViolations)

structure RunInfo where
  violations : List Rec
  stopPhase  : Nat
  numRules   : Nat                    -- num_rules_checked
  total      : Nat                    -- total_violations
  severities : List (String × Nat)    -- dRunInfo["severities"], insertion order
  deriving Repr

/-- `dRunInfo["severities"][name] += 1`; KeyError when the name is not a key -/
def bump (name : String) : List (String × Nat) → Option (List (String × Nat))
  | [] => none
  | (n, c) :: rest =>
    if n == name then some ((n, c + 1) :: rest)
    else (bump name rest).map ((n, c) :: ·)

def countSeverities (vs : List Rec) (init : List (String × Nat)) : Option (List (String × Nat)) :=
  vs.foldl (fun acc v => acc.bind (bump v.sevName)) (some init)

/-- the part of `report_violations` before the format dispatch; `sevNames` = names of
    `oSeverityList.get_severities()` in order (a dict: a repeated name is one key).
    `none` = KeyError (a rule whose severity name is not in the severity list) -/
def reportViolations (st : CheckState) (sevNames : List String) : Option RunInfo :=
  let vs := reportRecs st.rules
  (countSeverities vs (sevNames.eraseDups.map (·, 0))).map fun sev =>
    { violations := vs, stopPhase := st.lastPhase, numRules := st.nran, total := vs.length, severities := sev }

/-! ### the formats -/

/-- vsg_stdout: the statistics block and one table row per violation -/
structure VsgOut where
  stopPhase  : Nat
  numRules   : Nat
  total      : Nat
  severities : List (String × Nat)
  rows       : List (String × String × Nat × String)   -- rule, severity name, line, solution
  deriving Repr, DecidableEq

def vsgOut (ri : RunInfo) : VsgOut :=
  { stopPhase := ri.stopPhase, numRules := ri.numRules, total := ri.total, severities := ri.severities,
    rows := ri.violations.map fun v => (v.rule, v.sevName, v.line, v.sol) }

/-- syntastic_stdout: `ERROR: ` for error-type, `WARNING: ` for warning-type -/
def synOut (ri : RunInfo) : List (Bool × String × Nat × String) :=
  ri.violations.map fun v => (v.sevErr, v.rule, v.line, v.sol)

/-- summary_stdout: the status word and the output channel are keyed on the COUNT of the severity
    NAMED "Error" -/
structure SumOut where
  ok         : Bool                   -- prints "OK" (else "ERROR")
  numRules   : Nat
  severities : List (String × Nat)
  onStderr   : Bool
  deriving Repr, DecidableEq

def sumOut (ri : RunInfo) : Option SumOut :=
  (ri.severities.lookup "Error").map fun n =>
    { ok := n == 0, numRules := ri.numRules, severities := ri.severities, onStderr := n != 0 }

/-- `extract_junit_testcase`: the text lines of the failure element (`None` text = no failure
    element): rules with violations whose severity TYPE is error, in rule-list order -/
def junitLines (rs : List CRule) : List Core :=
  (rs.filter fun r => decide (r.viols.length > 0) && r.cfg.sevError).flatMap fun r =>
    r.viols.map fun v => ⟨r.cfg.id, v.line, v.sol⟩

/-- an entry of `extract_violation_dictionary()["violations"]` -/
structure JsonRec where
  rule     : String
  line     : Nat
  severity : String
  sol      : String
  deriving DecidableEq, Repr

/-- `if oRule.has_violations:` tests the bound method (always true): every rule is walked -/
def jsonRecs (rs : List CRule) : List JsonRec :=
  rs.flatMap fun r => r.viols.map fun v => ⟨r.cfg.id, v.line, r.sevName, v.sol⟩

/-- an entry of the GitLab quality report (fingerprint and path omitted) -/
structure QualRec where
  description : String
  critical    : Bool      -- "critical" (else "minor"): keyed on the severity NAME "Error"
  line        : Nat
  deriving DecidableEq, Repr

def qualityRecs (js : List JsonRec) : List QualRec :=
  js.map fun j => ⟨j.rule ++ " :: " ++ j.sol, j.severity == "Error", j.line⟩

/-- what the quality report says about (rule, line, solution) -/
def JsonRec.core (j : JsonRec) : Core := ⟨j.rule, j.line, j.sol⟩

/-! ### exit status -/

/-- what `apply_rules` returns for one file -/
inductive FileOutcome where
  | checked (violations : Bool)    -- fExitStatus = oRules.violations
  | classifyError                  -- status True, keep processing
  | configError                    -- status True, stop processing
  | localRulesError                -- status 1, stop processing
  deriving DecidableEq, Repr

def FileOutcome.status : FileOutcome → Bool
  | .checked v => v
  | _ => true

def FileOutcome.stops : FileOutcome → Bool
  | .configError | .localRulesError => true
  | _ => false

/-- the files `main` gets a result for: `if bKeepProcessingFiles: break` -/
def processed : List FileOutcome → List FileOutcome
  | [] => []
  | o :: os => if o.stops then [o] else o :: processed os

/-- `fExitStatus = fExitStatus or fStatus` over the processed files; `sys.exit(fExitStatus)`:
    `false` is exit code 0 -/
def mainExit (outcomes : List FileOutcome) : Bool :=
  (processed outcomes).foldl (fun acc o => acc || o.status) false

end Vsgm
