/-
  driver mode `post`: one token list per line (wire form `ser:cls:val …`, serial ignored)
  reply:  <fix_blank_lines l> \t <fix_trailing_whitespace l> \t <fix_trailing_whitespace (fix_blank_lines l)>
  each as `cls:val` tokens joined by ' '.
-/
import VsgModel.Engine.PostPhase1
import VsgModel.Wire
import VsgModel.Generated.Classes
namespace Vsgm.Post
open Vsgm Vsgm.Wire

def encPlain (l : List Tok) : String := " ".intercalate (l.map fun t => s!"{t.cls}:{encStr t.val}")

partial def postLoop (h out : IO.FS.Stream) : IO Unit := do
  let line ← h.getLine
  if line.isEmpty then return ()
  let line := if line.endsWith "\n" then (line.dropEnd 1).toString else line
  let l := (decToks line).map (·.tok)
  out.putStrLn (encPlain (fixBlankLines Gen.blankCls l) ++ "\t" ++ encPlain (fixTrailingWhitespace l) ++ "\t" ++
    encPlain (postPhase1 Gen.blankCls l))
  postLoop h out

def postMain (stdin stdout : IO.FS.Stream) : IO Unit := do
  postLoop stdin stdout
  stdout.flush

end Vsgm.Post
