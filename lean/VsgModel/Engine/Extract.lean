/-
  `vsg/vhdlFile/extract/*.py` — the helpers that hand a rule its tokens of interest — in the
  order of measured usage, each transcribed as it is (which position the line number is taken
  from, which list aliases which, what can raise), plus `tokens.New` / `calculate_end_index`
  and `vhdlFile.update` with its `bUpdateMap` switch.
-/
import VsgModel.Engine.TokenMap
import VsgModel.Engine.Splice
namespace Vsgm.TM

variable {α : Type}

/-- what the extractors read of a token object -/
structure View (α : Type) where
  uid   : α → Option Key        -- `oToken.get_unique_id()`
  inst  : α → Nat → Bool        -- `isinstance(oToken, <class #p>)`
  isCr  : α → Bool              -- `isinstance(oToken, parser.carriage_return)`
  isBof : α → Bool              -- `isinstance(oToken, parser.beginning_of_file)`
  len   : α → Nat               -- `len(oToken.get_value())`
  bof   : α                     -- `parser.beginning_of_file()`

/-- a token class as a rule passes it: `extract_unique_id(cls)` and its number for `isinstance` -/
structure Cls where
  uid : Option Key
  idx : Nat
  deriving Repr, DecidableEq

/-- `tokens.New(iStartIndex, iLine, lTokens)` (+ `sTokenValue` where an extractor sets it) -/
structure Toi (α : Type) where
  start : Option Int           -- `None` happens (length_003)
  line  : Nat
  toks  : List α
  value : Option Int := none
  deriving Repr, DecidableEq

def dropBofV (V : View α) (l : List α) : List α := l.filter (fun t => !V.isBof t)

/-- `calculate_end_index`: `None + 1` raises `TypeError`, caught ⇒ `None` -/
def Toi.endIndex (V : View α) (t : Toi α) : Option Int :=
  t.start.map (fun s => s + ((dropBofV V t.toks).length : Nat))

/-- what `vhdlFile.update` does with a region: `lAllObjects[iStartIndex:iEndIndex] = new` without
    beginning_of_file tokens (only used for regions that have a start) -/
def Toi.edit (V : View α) (t : Toi α) (new : List α) : Edit α :=
  { start := (t.start.getD 0).toNat, stop := ((t.endIndex V).getD 0).toNat, new := dropBofV V new }

/-- the tokens of interest are literally the slice of `f` that starts at the recorded position -/
def Toi.Exact (f : List α) (t : Toi α) : Prop :=
  ∃ s : Nat, t.start = some (s : Int) ∧ s + t.toks.length ≤ f.length ∧ t.toks = (f.drop s).take t.toks.length

/-- … modulo `beginning_of_file` pseudo tokens (what `vhdlFile.update` relies on) -/
def Toi.ExactModBof (V : View α) (f : List α) (t : Toi α) : Prop :=
  ∃ s : Nat, t.start = some (s : Int) ∧ s + (dropBofV V t.toks).length ≤ f.length ∧
    dropBofV V t.toks = (f.drop s).take (dropBofV V t.toks).length

/-- executable form of `ExactModBof` + `iEndIndex = start + len` (the driver's verdict) -/
def toiCheck [DecidableEq α] (V : View α) (f : List α) (start stop : Option Int) (toks : List α) : Bool :=
  match start with
  | none => false
  | some s =>
    let d := dropBofV V toks
    decide (0 ≤ s) && decide (s.toNat + d.length ≤ f.length) && (d == (f.drop s.toNat).take d.length) &&
      (stop == some (s + (d.length : Nat)))

/-! ### exception plumbing -/

def mapE {β γ : Type} (g : β → Except PyErr γ) : List β → Except PyErr (List γ)
  | [] => .ok []
  | b :: bs =>
    match g b with
    | .error e => .error e
    | .ok c =>
      match mapE g bs with
      | .error e => .error e
      | .ok cs => .ok (c :: cs)

/-- a loop body that may `continue` without appending -/
def filterMapE {β γ : Type} (g : β → Except PyErr (Option γ)) : List β → Except PyErr (List γ)
  | [] => .ok []
  | b :: bs =>
    match g b with
    | .error e => .error e
    | .ok c =>
      match filterMapE g bs with
      | .error e => .error e
      | .ok cs => .ok (match c with | some x => x :: cs | none => cs)

def ints (l : List Nat) : List Int := l.map Int.ofNat

def sortNat (l : List Nat) : List Nat := l.mergeSort (fun a b => decide (a ≤ b))

/-- `utils.get_indexes_of_token_list` -/
def idxsOfList (ix : Index) (cs : List Cls) : List Nat := sortNat (cs.flatMap (fun c => ix.get c.uid))

/-- `utils.is_token_at_start_of_line` -/
def isStartOfLine (ix : Index) (i : Int) : Bool :=
  ix.isAt (some crKey) (i - 1) || (ix.isAt (some crKey) (i - 2) && ix.isAt (some wsKey) (i - 1))

/-- `utils.is_token_at_end_of_line` -/
def isEndOfLine (ix : Index) (i : Int) : Bool :=
  ix.isAt (some crKey) (i + 1) || ix.isAt (some commentKey) (i + 1) ||
    (ix.isAt (some wsKey) (i + 1) && (ix.isAt (some crKey) (i + 2) || ix.isAt (some commentKey) (i + 2)))

/-- the common tail: one single-token region per position -/
def singles (f : List α) (ix : Index) (idxs : List Nat) : Except PyErr (List (Toi α)) :=
  mapE (fun (i : Nat) => do
    let line ← ix.lineOf i
    let t ← pyIdx f i
    pure { start := some (i : Int), line := line, toks := [t] }) idxs

/-! ### 1 — get_tokens_matching (260 rules) -/

def tokensMatching (f : List α) (ix : Index) (cs : List Cls) : Except PyErr (List (Toi α)) :=
  singles f ix (idxsOfList ix cs)

/-! ### 2 — get_tokens_bounded_by (109 rules) -/

structure BoundedFlags where
  trailingWs : Bool := false     -- include_trailing_whitespace
  exclLast   : Bool := false     -- bExcludeLastToken
  tillEol    : Bool := false     -- bIncludeTillEndOfLine
  tillBol    : Bool := false     -- bIncludeTillBeginningOfLine
  deriving Repr, DecidableEq

def zip3 {β γ δ : Type} : List β → List γ → List δ → List (β × γ × δ)
  | b :: bs, c :: cs, d :: ds => (b, c, d) :: zip3 bs cs ds
  | _, _, _ => []

/-- `lNewStart`: a start at position 0 has no line break before it: `None + 1` raises TypeError
    ⇒ `continue` (the list of starts becomes shorter than the list of ends and `zip` pairs them
    shifted) -/
def bbNewStart (ix : Index) (tillBol : Bool) (lStart : List Nat) : Except PyErr (List Int) :=
  if tillBol then
    filterMapE (fun (s : Nat) => ix.crBefore s >>= fun r => pure (r.map (· + 1))) lStart
  else .ok (ints lStart)

def bbNewEnd0 (ix : Index) (tillEol : Bool) (lEnd : List Nat) : Except PyErr (List Int) :=
  if tillEol then mapE (fun (e : Nat) => ix.crAfter e >>= fun x => pure (x : Int)) lEnd
  else .ok (ints lEnd)

def bbAdjust (ix : Index) (fl : BoundedFlags) (newEnd0 : List Int) : List Int :=
  let crs := ix.get (some crKey)
  let ws := ix.get (some wsKey)
  let newEnd1 := if fl.exclLast then newEnd0.map (· - 1) else newEnd0
  if fl.trailingWs then newEnd1.map (fun e => if memInt (e + 1) ws then e + 1 else e)
  else if !fl.tillEol then
    newEnd1.map (fun e =>
      let e' := if memInt e ws then e - 1 else e
      if memInt e' crs then e' - 1 else e')
  else newEnd1

def bbBody (f : List α) (ix : Index) (sei : Int × Int × Int) : Except PyErr (Toi α) :=
  ix.lineOf sei.1 >>= fun line =>
  pyIdx f sei.1 >>= fun _ =>           -- `oStart = lAllObjects[iStart]`
  pyIdx f sei.2.1 >>= fun _ =>         -- `oEnd = lAllObjects[iEnd]`
  pure { start := some sei.1, line := line, toks := pySlice f sei.1 (sei.2.1 + 1), value := some (sei.2.2 - sei.1) }

def tokensBoundedBy (f : List α) (ix : Index) (a b : Option Key) (fl : BoundedFlags) :
    Except PyErr (List (Toi α)) :=
  let lStart := (ix.pairIndexes a b).1
  let lEnd := (ix.pairIndexes a b).2
  bbNewStart ix fl.tillBol lStart >>= fun newStart =>
  bbNewEnd0 ix fl.tillEol lEnd >>= fun newEnd0 =>
  let newEnd2 := bbAdjust ix fl newEnd0
  -- `lNewEnd = lEnd` is the same list object unless one of the two flags rebuilt it, so the
  -- adjustments are seen through `lEnd` (the third component of the zip) as well
  let lEnd' : List Int := if !fl.tillEol && !fl.exclLast then newEnd2 else ints lEnd
  mapE (bbBody f ix) (zip3 newStart newEnd2 lEnd')

/-! ### 3 — get_tokens_at_beginning_of_line_matching (93 rules) -/

def tokensAtBolMatching (f : List α) (ix : Index) (cs : List Cls) : Except PyErr (List (Toi α)) :=
  filterMapE (fun (i : Nat) => do
    if ix.isAt (some crKey) ((i : Int) - 1) then
      let line ← ix.lineOf i
      let t ← pyIdx f i
      pure (some { start := some (i : Int), line := line, toks := [t] })
    else if ix.isAt (some crKey) ((i : Int) - 2) && ix.isAt (some wsKey) ((i : Int) - 1) then
      let line ← ix.lineOf i
      pure (some { start := some ((i : Int) - 1), line := line, toks := pySlice f ((i : Int) - 1) ((i : Int) + 1) })
    else pure none) (idxsOfList ix cs)

/-! ### 4 — get_sequence_of_tokens_matching (86 rules) -/

/-- the `for … else` over the classes: `isinstance(lAllTokens[iToken + iIndex], oToken)` -/
def seqMatches (V : View α) (f : List α) (i : Int) : Nat → List Cls → Except PyErr Bool
  | _, [] => .ok true
  | k, c :: cs => do
    let t ← pyIdx f ((k : Int) + i)
    if V.inst t c.idx then seqMatches V f i (k + 1) cs else pure false

/-- `get_token_indexes` of that module: positions of the first class or, if there are none,
    of the last class shifted left by `len - 1` (which can be negative) -/
def seqIndexes (ix : Index) (cs : List Cls) : Except PyErr (List Int) :=
  match cs.head?, cs.getLast? with
  | some c0, some cl =>
    let l0 := ix.get c0.uid
    if l0.length > 0 then .ok (ints l0)
    else .ok ((ix.get cl.uid).map (fun (i : Nat) => (i : Int) - ((cs.length : Int) - 1)))
  | _, _ => .error .indexError

def sequenceMatching (V : View α) (f : List α) (ix : Index) (cs : List Cls) (ignoreIfLineStart : Bool) :
    Except PyErr (List (Toi α)) := do
  let idxs ← seqIndexes ix cs
  filterMapE (fun (i : Int) => do
    let line ← ix.lineOf i
    if ignoreIfLineStart && isStartOfLine ix i then pure none
    else
      let ok ← seqMatches V f i 0 cs
      if ok then pure (some { start := some i, line := line, toks := pySlice f i (i + (cs.length : Int)) })
      else pure none) idxs

/-! ### 5 — get_token_and_n_tokens_before_it (70 rules) -/

def tokenAndNBefore (f : List α) (ix : Index) (cs : List Cls) (n : Nat) : Except PyErr (List (Toi α)) :=
  filterMapE (fun (i : Nat) => do
    let line ← ix.lineOf i
    let s : Int := (i : Int) - (n : Int)
    if s ≥ 0 then pure (some { start := some s, line := line, toks := pySlice f s ((i : Int) + 1) })
    else pure none) (idxsOfList ix cs)

/-! ### 6 — get_token_and_n_tokens_after_it (46 rules) -/

def tokenAndNAfter (f : List α) (ix : Index) (cs : List Cls) (n : Nat) : Except PyErr (List (Toi α)) :=
  mapE (fun (i : Nat) => do
    let line ← ix.lineOf i
    pure { start := some (i : Int), line := line, toks := pySlice f i ((i : Int) + (n : Int) + 1) }) (idxsOfList ix cs)

/-! ### 7 — get_m_tokens_before_and_n_tokens_after_token -/

def mBeforeNAfter (V : View α) (f : List α) (ix : Index) (m n : Nat) (cs : List Cls) : Except PyErr (List (Toi α)) :=
  mapE (fun (i : Nat) => do
    let line ← ix.lineOf i
    let s : Int := (i : Int) - (m : Int)
    let e : Int := (i : Int) + (n : Int)
    if s < 0 then pure { start := some 0, line := line, toks := V.bof :: pySlice f 0 (e + 1) }
    else pure { start := some s, line := line, toks := pySlice f s (e + 1) }) (idxsOfList ix cs)

/-! ### 8 — get_n_token_after_tokens -/

/-- `iCount` applications of the 4-slot search; `None + 1` raises TypeError, and a final `None`
    fails in `sort` / `bisect` / `lAllTokens[None]` -/
def iterNext (ix : Index) : Nat → Int → Except PyErr Int
  | 0, i => .ok i
  | k + 1, i =>
    match ix.nextNonWs i true with
    | none => .error .typeError
    | some j => iterNext ix k j

def nTokenAfterTokens (f : List α) (ix : Index) (n : Nat) (cs : List Cls) : Except PyErr (List (Toi α)) := do
  let raw ← mapE (fun (i : Nat) => iterNext ix n i) (cs.flatMap (fun c => ix.get c.uid))
  -- every element is a position ≥ 0 (either an index entry or one found in the index)
  singles f ix (sortNat (raw.map Int.toNat))

/-! ### 9 — get_tokens_matching_in_range_bounded_by_tokens -/

def matchingInRange (f : List α) (ix : Index) (cs : List Cls) (a b : Option Key) : Except PyErr (List (Toi α)) :=
  let (ls, le) := ix.pairIndexes a b
  singles f ix (sortNat ((ls.zip le).flatMap (fun se => cs.flatMap (fun c => ix.getBetween c.uid se.1 se.2))))

/-! ### get_line_preceding_line (bSkipComments = False) / get_line_above_line_starting_with_token -/

def linePrecedingStart (crs : List Nat) (si : Int) : Except PyErr Int :=
  if si < 0 then .ok 0 else pyIdx crs si >>= fun x => pure ((x : Int) + 1)

def linePreceding (f : List α) (ix : Index) (line : Nat) (numLines : Nat) : Except PyErr (Toi α) :=
  let crs := ix.get (some crKey)
  linePrecedingStart crs ((line : Int) - (numLines : Int) - 2) >>= fun s =>
  pyIdx crs ((line : Int) - 2) >>= fun e =>
  pure { start := some s, line := line, toks := pySlice f s e }

def lineAboveLineStartingWith (f : List α) (ix : Index) (cs : List Cls) : Except PyErr (List (Toi α)) := do
  let idxs := (idxsOfList ix cs).filter (fun (i : Nat) => isStartOfLine ix i)
  let lines ← mapE (fun (i : Nat) => ix.lineOf i) idxs
  mapE (fun l => linePreceding f ix l 1) (sortNat lines)

/-! ### get_line_count_between_tokens (length_003): the start position is `None` by construction -/

def lineCountBetween (f : List α) (ix : Index) (a b : Option Key) : Except PyErr (List (Toi α)) := do
  let (ls, le) := ix.pairIndexes a b
  let lines ← mapE (fun (se : Nat × Nat) => do
    let l1 ← ix.lineOf se.1
    let _ ← ix.lineOf se.2
    pure (se.1, l1)) (ls.zip le)
  mapE (fun (sl : Nat × Nat) => do
    let t ← pyIdx f sl.1
    pure { start := none, line := sl.2, toks := [t] }) lines

/-! ### get_all_tokens -/

def allTokens (f : List α) : Toi α := { start := some 0, line := 1, toks := f }

/-! ### get_lines_with_length_that_exceed_column (length_001): `bFirstTokenInLine` is never
    reset, so `iStart` follows every token of the line and ends on its LAST token; it is `None`
    on the first line -/

structure LenState (α : Type) where
  line : Nat := 1
  out : List (Toi α) := []
  tmp : List α := []
  start : Option Int := none
  first : Bool := false

def linesExceedingStep (V : View α) (col : Nat) (st : LenState α) (it : Nat × α) : LenState α :=
  if V.isCr it.2 then
    let out := if ((st.tmp.map V.len).sum > col) then st.out ++ [{ start := st.start, line := st.line, toks := st.tmp }] else st.out
    { st with out := out, line := st.line + 1, tmp := [], first := true }
  else
    { st with tmp := st.tmp ++ [it.2], start := if st.first then some (it.1 : Int) else st.start }

def enumFrom : Nat → List α → List (Nat × α)
  | _, [] => []
  | i, x :: xs => (i, x) :: enumFrom (i + 1) xs

def linesExceeding (V : View α) (f : List α) (col : Nat) : List (Toi α) :=
  ((enumFrom 0 f).foldl (linesExceedingStep V col) {}).out

/-! ### the file object: token list + stored index; `vhdlFile.update(lUpdates, bUpdateMap)` -/

structure FileState (α : Type) where
  toks : List α
  index : Index

/-- the stored index is what `process_tokens` returns for the current list -/
def FileState.Fresh (V : View α) (st : FileState α) : Prop := st.index = processTokens V.uid st.toks

/-- `update`: the splices of `Engine/Splice.lean` (replacement = tokens without bof); the index
    is rebuilt only when `bUpdateMap` (= `rule.remap`); an empty list of updates returns early -/
def FileState.update (V : View α) (st : FileState α) (es : List (Edit α)) (remap : Bool) : FileState α :=
  if es.isEmpty then st
  else
    let new := Vsgm.update st.toks (es.map fun e => { e with new := dropBofV V e.new })
    { toks := new, index := if remap then processTokens V.uid new else st.index }

/-- `update_token_map` -/
def FileState.remap (V : View α) (st : FileState α) : FileState α :=
  { st with index := processTokens V.uid st.toks }

end Vsgm.TM
