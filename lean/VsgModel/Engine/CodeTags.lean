/-
  C11 — code tags.  Model of the tag machinery of the pinned tree, transcribed function by function:

    vsg/vhdlFile/code_tags.py      class New (code_tags, next_line_code_tags, bIgnoreNextCarriageReturn),
                                   update, on/off/next_line_code_tag_detected, remove_code_tag_comment,
                                   remove_code_tags, add_code_tags, add_next_line_code_tags, bare_code_tag
    vsg/vhdlFile/vhdlFile.py:607   set_code_tags (order of stamp / update per comment shape)
    vsg/parser.py:70               item.has_code_tag          (pinned and repaired variant)
    vsg/violation.py:37            New.has_code_tag           (any token of the violation)
    vsg/rule.py:133                Rule.add_violation         (the filter)

  and, independently of the state machine, the documented meaning of the tags (docs/code_tags.rst)
  as a backwards scan from a token (`specSuppressed`).

  Tokens are abstracted to what the machinery reads: is it a `parser.carriage_return`, is it a
  `parser.comment` (then its text), or anything else.
-/
import VsgModel.Tok
import VsgModel.Generated.CharTables
namespace Vsgm.CT
open Vsgm

abbrev Tag := Str

inductive TTok where
  | cr                      -- isinstance(oToken, parser.carriage_return)
  | comment (text : Str)    -- isinstance(oToken, parser.comment), text = oToken.get_value()
  | other
  deriving DecidableEq, Repr, Inhabited

/-! ### Python string primitives -/

/-- `str.isspace()` of one character: CPython's table (regenerated on every run) -/
def isSpace (c : Char) : Bool := Gen.spaceRanges.any (fun r => r.1 ≤ c.toNat && c.toNat ≤ r.2)

/-- `str.split()` without argument: maximal runs of non-whitespace characters -/
def pySplitAux : Str → Str → List Str
  | cur, [] => if cur.isEmpty then [] else [cur.reverse]
  | cur, c :: cs =>
    if isSpace c then (if cur.isEmpty then pySplitAux [] cs else cur.reverse :: pySplitAux [] cs)
    else pySplitAux (c :: cur) cs

def pySplit (s : Str) : List Str := pySplitAux [] s

/-- `"-- vsg_on"`, `"-- vsg_off"`, `"-- vsg_disable_next_line"`, `"all"` -/
def kOn : Str := ['-', '-', ' ', 'v', 's', 'g', '_', 'o', 'n']
def kOff : Str := ['-', '-', ' ', 'v', 's', 'g', '_', 'o', 'f', 'f']
def kNext : Str := ['-', '-', ' ', 'v', 's', 'g', '_', 'd', 'i', 's', 'a', 'b', 'l', 'e', '_', 'n', 'e', 'x', 't', '_', 'l', 'i', 'n', 'e']
def kAll : Tag := ['a', 'l', 'l']

/-! ### code_tags.New -/

structure St where
  tags : List Tag      -- self.code_tags
  next : List Tag      -- self.next_line_code_tags
  ign  : Bool          -- self.bIgnoreNextCarriageReturn
  deriving DecidableEq, Repr

def St.new : St := ⟨[], [], false⟩

/-- `clear`: both lists (the flag is not touched) -/
def St.clear (s : St) : St := { s with tags := [], next := [] }

/-- `remove`: `list.remove` deletes the first occurrence -/
def St.remove (s : St) (t : Tag) : St := if t ∈ s.tags then { s with tags := s.tags.erase t } else s

def St.add (s : St) (t : Tag) : St := if t ∈ s.tags then s else { s with tags := s.tags ++ [t] }

/-- loop body of `add_next_line_code_tags` -/
def St.addNext (s : St) (t : Tag) : St := if t ∈ s.next then s else { s with next := s.next ++ [t] }

def St.getTags (s : St) : List Tag := s.tags ++ s.next

/-- `token_starts_with` behind the `isinstance(oToken, parser.comment)` guard -/
def startsWith (p : Str) : TTok → Bool
  | .comment v => p.isPrefixOf v
  | _ => false

/-- note: prefix tests — `-- vsg_offx` is an off tag, `-- vsg_only` an on tag -/
def onDetected (t : TTok) : Bool := startsWith kOn t
def offDetected (t : TTok) : Bool := startsWith kOff t
def nextDetected (t : TTok) : Bool := startsWith kNext t

/-- `remove_code_tag_comment`: `value.split(":")[0]` -/
def removeCodeTagComment (v : Str) : Str := v.takeWhile (fun c => c != ':')

/-- `lValues = remove_code_tag_comment(oToken).split()` -/
def values (v : Str) : List Str := pySplit (removeCodeTagComment v)

def bareCodeTag (l : List Str) : Bool := l.length == 2

def removeCodeTags (s : St) (v : Str) : St :=
  if bareCodeTag (values v) then s.clear else ((values v).drop 2).foldl St.remove s

def addCodeTags (s : St) (v : Str) : St :=
  if bareCodeTag (values v) then s.clear.add kAll else ((values v).drop 2).foldl St.add s

def addNextLineCodeTags (s : St) (v : Str) : St := ((values v).drop 2).foldl St.addNext s

/-- `New.update` -/
def update (s : St) : TTok → St
  | .cr => if s.ign then { s with ign := false } else { s with next := [] }
  | .comment v =>
    if onDetected (.comment v) then removeCodeTags s v
    else if offDetected (.comment v) then addCodeTags s v
    else if nextDetected (.comment v) then { addNextLineCodeTags s v with ign := true }
    else s
  | .other => s

/-- `vhdlFile.set_code_tags`: the list stamped on every token (`oToken.set_code_tags(get_tags())`);
    an on comment is stamped before the update, off / next-line comments after it -/
def setCodeTagsFrom : St → List TTok → List (List Tag)
  | _, [] => []
  | s, t :: ts =>
    if onDetected t then s.getTags :: setCodeTagsFrom (update s t) ts
    else if offDetected t then (update s t).getTags :: setCodeTagsFrom (update s t) ts
    else if nextDetected t then (update s t).getTags :: setCodeTagsFrom (update s t) ts
    else s.getTags :: setCodeTagsFrom (update s t) ts

def setCodeTags (toks : List TTok) : List (List Tag) := setCodeTagsFrom St.new toks

/-! ### parser.item.has_code_tag, violation.has_code_tag, Rule.add_violation -/

abbrev HasTagImpl := List Tag → Tag → Bool

/-- pinned tree: `self.code_tags == ["all"]` -/
def hasCodeTagPinned : HasTagImpl := fun tags id => tags == [kAll] || tags.contains id

/-- candidate repair: `"all" in self.code_tags` -/
def hasCodeTagFixed : HasTagImpl := fun tags id => tags.contains kAll || tags.contains id

/-- THE ONE-LINE SWITCH: which `has_code_tag` the tree under /repo has.  The harness asks the real
    function at run time and reports a proof break if this line says something else.
    (/repo commit e9a5219 "a bare vsg_off keeps suppressing all rules …" = the repaired variant) -/
def hasCodeTag : HasTagImpl := hasCodeTagFixed

/-- a violation as far as the filter is concerned: positions (in lAllObjects) of
    `oTokens.get_tokens()`.  `violation.has_code_tag`: any token; a position outside the list
    stands for the `IndexError` / `AttributeError` branches (False) -/
def suppressedAt (impl : HasTagImpl) (stamped : List (List Tag)) (i : Nat) (id : Tag) : Bool :=
  match stamped[i]? with
  | some tags => impl tags id
  | none => false

def violationHasCodeTag (impl : HasTagImpl) (stamped : List (List Tag)) (v : List Nat) (id : Tag) : Bool :=
  v.any (fun i => suppressedAt impl stamped i id)

/-- `Rule.add_violation` (the user_error_message suffix is not modelled) -/
def addViolation (impl : HasTagImpl) (stamped : List (List Tag)) (id : Tag) (vs : List (List Nat)) (v : List Nat) : List (List Nat) :=
  if violationHasCodeTag impl stamped v id then vs else vs ++ [v]

/-- the violations a rule `id` ends up with when its analysis offers `offered` in that order -/
def report (impl : HasTagImpl) (stamped : List (List Tag)) (id : Tag) (offered : List (List Nat)) : List (List Nat) :=
  offered.foldl (addViolation impl stamped id) []

/-! ### the documented meaning (docs/code_tags.rst), without the state machine

  A tag comment is read the way the docs describe it: the words after `vsg_on` / `vsg_off` /
  `vsg_disable_next_line` up to a `:` are rule identifiers; without identifiers the tag is bare.
  `all` is the name under which a bare `vsg_off` region is known (as in the code).            -/

inductive TagC where
  | cr
  | on (bare : Bool) (ids : List Tag)
  | off (bare : Bool) (ids : List Tag)
  | next (ids : List Tag)
  | plain
  deriving DecidableEq, Repr

def tagOf : TTok → TagC
  | .cr => .cr
  | .other => .plain
  | .comment v =>
    if onDetected (.comment v) then .on (bareCodeTag (values v)) ((values v).drop 2)
    else if offDetected (.comment v) then .off (bareCodeTag (values v)) ((values v).drop 2)
    else if nextDetected (.comment v) then .next ((values v).drop 2)
    else .plain

/-- the comment opens an off region named `t` -/
def TagC.opens : TagC → Tag → Bool
  | .off true _, t => t == kAll
  | .off false ids, t => ids.contains t
  | _, _ => false

/-- the comment ends an off region named `t`: its `vsg_on`, or any bare tag -/
def TagC.closes : TagC → Tag → Bool
  | .on true _, _ => true
  | .on false ids, t => ids.contains t
  | .off true _, _ => true
  | _, _ => false

def TagC.isBare : TagC → Bool
  | .on true _ => true
  | .off true _ => true
  | _ => false

/-- scanning backwards (nearest token first): the innermost comment that opens or ends the region
    named `t` decides -/
def offGov : List TTok → Tag → Bool
  | [], _ => false
  | c :: r, t =>
    if (tagOf c).opens t then true else if (tagOf c).closes t then false else offGov r t

/-- scanning backwards for a `vsg_disable_next_line` naming `t`: one line break may be crossed;
    a further one only if the line in between holds a next-line comment itself (sequential
    exclusions); a bare `vsg_on` / `vsg_off` ends every pending next-line tag.
    `crossed` = a line break has been crossed and no next-line comment has been met since -/
def nlGov : Bool → List TTok → Tag → Bool
  | _, [], _ => false
  | crossed, c :: r, t =>
    match tagOf c with
    | .cr => if crossed then false else nlGov true r t
    | .next ids => if ids.contains t then true else nlGov false r t
    | .on true _ => false
    | .off true _ => false
    | _ => nlGov crossed r t

/-- the tokens that can govern token `i`: everything before it; a `vsg_off` and a
    `vsg_disable_next_line` comment belong to the region they open (a `vsg_on` comment belongs
    to the region it ends because it is not yet counted) -/
def scope (toks : List TTok) (i : Nat) : List TTok :=
  match toks[i]? with
  | some c =>
    match tagOf c with
    | .off _ _ => toks.take (i + 1)
    | .next _ => toks.take (i + 1)
    | _ => toks.take i
  | none => []

/-- region / next-line tag named `t` is in force at token `i` -/
def specTag (toks : List TTok) (i : Nat) (t : Tag) : Bool :=
  offGov (scope toks i).reverse t || nlGov false (scope toks i).reverse t

/-- rule `id` is suppressed at token `i` -/
def specSuppressed (toks : List TTok) (i : Nat) (id : Tag) : Bool :=
  specTag toks i kAll || specTag toks i id

/-- what the property demands of the report of rule `id` -/
def specReport (toks : List TTok) (id : Tag) (offered : List (List Nat)) : List (List Nat) :=
  offered.filter (fun v => !(v.any (fun i => specSuppressed toks i id)))

/-! ### the specification in one forward pass (executable form used by the driver on whole files;
    proved equal to `specSuppressed` in VsgProofs/Lemmas/CodeTags.lean: `specPass_get`) -/

def isTagComment (c : TTok) : Bool :=
  match tagOf c with
  | .on _ _ => true
  | .off _ _ => true
  | .next _ => true
  | _ => false

def notPlain (c : TTok) : Bool :=
  match tagOf c with
  | .plain => false
  | _ => true

/-- `aT` = tag comments met so far, `aN` = tag comments and line breaks met so far (nearest first) -/
def specPass (ids : List Tag) : List TTok → List TTok → List TTok → List (List Bool)
  | _, _, [] => []
  | aT, aN, c :: ts =>
    let aT' := if isTagComment c then c :: aT else aT
    let aN' := if notPlain c then c :: aN else aN
    let sT := match tagOf c with | .off _ _ => aT' | .next _ => aT' | _ => aT
    let sN := match tagOf c with | .off _ _ => aN' | .next _ => aN' | _ => aN
    (ids.map fun id => (offGov sT kAll || nlGov false sN kAll) || (offGov sT id || nlGov false sN id))
      :: specPass ids aT' aN' ts

def specAll (toks : List TTok) (ids : List Tag) : List (List Bool) := specPass ids [] [] toks

end Vsgm.CT
