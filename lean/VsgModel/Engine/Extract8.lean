/-
  `vsg/vhdlFile/extract/get_blank_lines_above_line_starting_with_use_clause.py` (work package WP3b):
  the blank lines above a line that starts with one of the tokens, unless the previous code token
  closes a design unit / context reference, with the library names of the line before and the line
  after recorded as meta data (`previous_library`, `current_library`).
-/
import VsgModel.Engine.TokenMap
import VsgModel.Engine.Extract
import VsgModel.Engine.Extract2
import VsgModel.Engine.Extract4
namespace Vsgm.TM.X
open Vsgm Vsgm.TM

variable {α : Type}

/-- `update_previous_library`: position of the first `library_name` token between the beginning of
    the line the region starts on and the region (`None` if there is none) -/
def ucPrevious (f : List α) (ix : Index) (lib : Option Key) (t : Toi α) : Except PyErr (Option Nat) :=
  match t.start with
  | none => .error .typeError
  | some e =>
    ix.lineOf e >>= fun ln =>
    ix.indexOfLine ln >>= fun st =>
    match (ix.getBetween lib st e).head? with
    | none => pure none
    | some p => pyIdx f p >>= fun _ => pure (some p)

/-- `update_current_library`: position of the first `library_name` token on the recorded line
    (`lTokenIndex[0]` raises `IndexError` when there is none) -/
def ucCurrent (f : List α) (ix : Index) (lib : Option Key) (t : Toi α) : Except PyErr Nat :=
  ix.indexOfLine t.line >>= fun st =>
  ix.indexOfLine ((t.line : Int) + 1) >>= fun e =>
  match (ix.getBetween lib st e).head? with
  | none => .error .indexError
  | some p => pyIdx f p >>= fun _ => pure p

/-- every region with the positions of the tokens whose lower-cased values are stored as
    `previous_library` / `current_library` -/
def blankAboveUseClause (f : List α) (ix : Index) (cs : List Cls) (semis : List (Option Key)) (lib : Option Key) :
    Except PyErr (List (Toi α × Option Nat × Nat)) :=
  blankLinesAboveIdx f ix ((idxsOfList ix cs).filter fun (i : Nat) => isStartOfLine ix i) >>= fun tois =>
  mapE (fun (t : Toi α) =>
    ucPrevious f ix lib t >>= fun p =>
    ucCurrent f ix lib t >>= fun c => pure (t, p, c))
    (tois.filter fun t => !semis.any fun k => ix.isPrevNonWs (t.start.getD 0) k)

end Vsgm.TM.X
