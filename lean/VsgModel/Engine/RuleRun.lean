/-
  Model of the fix engine with rule semantics as a parameter:
  `Rule.fix`, `_filter_out_fix_only_violations` (vsg/rule.py:103-131),
  `rule_list.fix` (vsg/rule_list.py:127-168) and `check_rules` (204-238).
-/
import VsgModel.Tok
import VsgModel.Engine.Splice
namespace Vsgm

/-- a violation as `vhdlFile.update` sees it -/
structure Viol where
  line  : Nat
  start : Nat
  toks  : List Tok      -- tokens of interest at analysis time (may start with beginning_of_file)
  act   : Nat           -- opaque action / solution identifier
  deriving Repr, DecidableEq

/-- behaviour of one rule class: analysis (after the code-tag filter of add_violation) and
    `_fix_violation` as a function from the violation to the new tokens of interest -/
structure RuleSem where
  analyze : List Tok → List Viol
  fixV    : Viol → List Tok

/-- the attributes of a rule object the engine reads -/
structure RuleCfg where
  id       : String
  phase    : Int
  subphase : Int
  disabled : Bool
  fixable  : Bool
  sevError : Bool      -- severity.type == "error"
  prereq   : Bool      -- prerequisites ≠ []
  deriving Repr, DecidableEq

/-- `tokens.calculate_end_index` -/
def Viol.stop (v : Viol) : Nat := v.start + (dropBof v.toks).length

/-- the `--fix_only` dictionary: rule id ↦ (contains "all", listed line numbers);
    `none` models every KeyError of `dFixOnly["fix"]["rule"][id]` -/
abbrev FixOnly := String → Option (Bool × List Nat)

/-- `_filter_out_fix_only_violations` -/
def filterFixOnly (fo : Option FixOnly) (id : String) (vs : List Viol) : List Viol :=
  match fo with
  | none => vs
  | some d =>
    match d id with
    | none => []
    | some (true, _) => vs
    | some (false, lines) => vs.filter (fun v => v.line ∈ lines)

/-- `Rule._order_violations_by_position`: stable sort by start index (`list.sort(key=…)`) -/
def insertByStart (v : Viol) : List Viol → List Viol
  | [] => [v]
  | w :: r => if v.start ≤ w.start then v :: w :: r else w :: insertByStart v r

/-- stable insertion sort by start index (structural, so that concrete instances reduce) -/
def sortByStart : List Viol → List Viol
  | [] => []
  | v :: r => insertByStart v (sortByStart r)

def editOf (sem : RuleSem) (v : Viol) : Edit Tok := ⟨v.start, v.stop, dropBof (sem.fixV v)⟩

/-- `Rule.fix`: returns the new token list and whether `had_violations` was set -/
def ruleFix (r : RuleCfg) (sem : RuleSem) (fo : Option FixOnly) (f : List Tok) : List Tok × Bool :=
  if r.fixable then
    let vs := filterFixOnly fo r.id (sortByStart (sem.analyze f))
    (update f (vs.map (editOf sem)), !vs.isEmpty)
  else (f, false)

abbrev Rule := RuleCfg × RuleSem

/-- `enforce_prerequisites`: rules without prerequisites first, order otherwise kept -/
def enforcePrereq (rs : List Rule) : List Rule :=
  rs.filter (fun r => !r.1.prereq) ++ rs.filter (fun r => r.1.prereq)

/-- rules that run in sub-phase `(p, s)` of a fix run, in execution order -/
def subphaseRules (rs : List Rule) (p s : Nat) : List Rule :=
  enforcePrereq (((rs.filter (fun r => r.1.phase == (p : Int))).filter (fun r => r.1.subphase == (s : Int))).filter (fun r => !r.1.disabled))

/-- rules in the order `check_rules` analyses them in sub-phase `(p, s)` -/
def subphaseRulesCheck (rs : List Rule) (p s : Nat) : List Rule :=
  ((rs.filter (fun r => r.1.phase == (p : Int))).filter (fun r => r.1.subphase == (s : Int))).filter (fun r => !r.1.disabled)

/-- one rule inside `rule_list.fix`: error-type rules fix, others only analyse -/
def stepRule (fo : Option FixOnly) (st : List Tok × Bool) (r : Rule) : List Tok × Bool :=
  if r.1.sevError then
    let (f', had) := ruleFix r.1 r.2 fo st.1
    (f', st.2 || had)
  else st

def phaseRulesFix (rs : List Rule) (p : Nat) : List Rule :=
  (List.range 6).flatMap (fun s => subphaseRules rs p s)

/-- the sequence of rule invocations of `rule_list.fix(iFixPhase, lSkipPhase)`;
    `none` marks the post-phase-1 normalisation -/
def schedule (rs : List Rule) (fixPhase : Nat) (skip : List Nat) : List (Option Rule) :=
  (List.range fixPhase).flatMap fun i =>
    let p := i + 1
    if p ∈ skip then []
    else (phaseRulesFix rs p).map some ++ (if p == 1 then [none] else [])

def stepOpt (fo : Option FixOnly) (post : List Tok → List Tok) (st : List Tok × Bool) (o : Option Rule) : List Tok × Bool :=
  match o with
  | some r => stepRule fo st r
  | none => (post st.1, st.2)

/-- `rule_list.fix`: `post` is fix_blank_lines ∘ fix_trailing_whitespace -/
def fixRun (rs : List Rule) (fixPhase : Nat) (skip : List Nat) (fo : Option FixOnly)
    (post : List Tok → List Tok) (f : List Tok) : List Tok × Bool :=
  (schedule rs fixPhase skip).foldl (stepOpt fo post) (f, false)

end Vsgm
