/-
  Row types of the generated tables (layer G).  The tables themselves are in
  `Generated/*.lean`, rewritten from /repo by harness/gen_tables.py on every run.
-/
import VsgModel.Tok
namespace Vsgm

structure RuleRow where
  id : String
  phase : Int
  subphase : Int
  fixable : Bool
  disable : Bool
  sevError : Bool
  remap : Bool
  deprecated : Bool
  proposed : Bool
  groups : List String
  prereq : Bool
  overridesFix : Bool
  overridesAnalyze : Bool
  overridesAddViolation : Bool
  fixVOwner : String
  base : String
  configuration : List String
  configInDict : Bool
  documented : Bool
  docPhase : Option Nat
  docSeverity : Option String
  docLabels : List String
  deriving Repr, Inhabited

end Vsgm
