import VsgModel.Tok
import VsgModel.Engine.Splice
