import VsgModel
def main : IO Unit := IO.println "ok"
