import VsgModel
open Vsgm Vsgm.Wire

def parseBool (s : String) : Bool := s == "1"

def mkStep (rule kind fx se di rm he : String) : Trace.StepIn :=
  { rule := rule, kind := kind, fixable := parseBool fx, sevError := parseBool se,
    disabled := parseBool di, remap := parseBool rm, hasEdits := parseBool he,
    edits := [], lines := [], pre := 0, suf := 0, mid := [] }

def addEdit (s : Trace.StepIn) (a b ln ts : String) : Trace.StepIn :=
  { s with edits := s.edits ++ [{ start := a.toNat!, stop := b.toNat!, new := decToks ts }], lines := s.lines ++ [ln.toNat!] }

/-- trace mode: INIT / STEP / EDIT* / AFTER   (one reply line per AFTER) -/
partial def traceLoop (h : IO.FS.Stream) (out : IO.FS.Stream) (st : List STok) (cur : Option Trace.StepIn) : IO Unit := do
  let line ← h.getLine
  if line.isEmpty then return ()
  let line := if line.endsWith "\n" then (line.dropEnd 1).toString else line
  match line.splitOn "\t" with
  | ["INIT", ts] =>
    traceLoop h out (decToks ts) none
  | ["STEP", rule, kind, fx, se, di, rm, he] =>
    traceLoop h out st (some (mkStep rule kind fx se di rm he))
  | ["EDIT", a, b, ln, ts] =>
    match cur with
    | some s => traceLoop h out st (some (addEdit s a b ln ts))
    | none => out.putStrLn "error EDIT without STEP"; traceLoop h out st cur
  | ["AFTER", p, q, ts] =>
    match cur with
    | some s =>
      let s := { s with pre := p.toNat!, suf := q.toNat!, mid := decToks ts }
      let (o, after) := Trace.checkStep st s
      let v := Verdict.verdicts st after s o
      out.putStrLn ("R " ++ s.rule ++ " " ++ o.render ++ s!" c01={v.c01} c02={v.c02} c03={v.c03} c07={v.c07}")
      out.flush
      traceLoop h out after none
    | none => out.putStrLn "error AFTER without STEP"; traceLoop h out st cur
  | ["LEN"] =>
    out.putStrLn s!"L {st.length}"; out.flush
    traceLoop h out st cur
  | _ =>
    out.putStrLn ("error bad line " ++ line.take 40); out.flush
    traceLoop h out st cur

/-- lex mode: one string per line (code points joined by '.'), reply: the nine passes,
    passes separated by '|', tokens by ' ' -/
partial def lexLoop (h : IO.FS.Stream) (out : IO.FS.Stream) : IO Unit := do
  let line ← h.getLine
  if line.isEmpty then return ()
  let line := if line.endsWith "\n" then (line.dropEnd 1).toString else line
  let s := decStr line
  let ps := Lex.passes Lex.pyTables s
  out.putStrLn ("|".intercalate (ps.map fun p => " ".intercalate (p.map fun t => if t.isEmpty then "e" else encStr t)))
  lexLoop h out

/-- bfix mode: `owner \t params \t action \t old tokens`  →  `ok <tokens>` | `err <PyErr>` | `unmodelled` -/
partial def bfixLoop (h : IO.FS.Stream) (out : IO.FS.Stream) : IO Unit := do
  let line ← h.getLine
  if line.isEmpty then return ()
  let line := if line.endsWith "\n" then (line.dropEnd 1).toString else line
  match line.splitOn "\t" with
  | [owner, ps, ac, ts] =>
    let old := (decToks ts).map (·.tok)
    match Base.fixByOwner owner (Base.Dec.kv ps) (Base.Dec.kv ac) old with
    | none => out.putStrLn "unmodelled"
    | some (.error e) => out.putStrLn s!"err {Base.errName e}"
    | some (.ok new) => out.putStrLn ("ok " ++ " ".intercalate (new.map fun t => s!"{t.cls}:{encStr t.val}"))
  | _ => out.putStrLn "error bad line"
  bfixLoop h out

def main (args : List String) : IO UInt32 := do
  let stdin ← IO.getStdin
  let stdout ← IO.getStdout
  match args with
  | ["trace"] => traceLoop stdin stdout [] none; return 0
  | ["lex"] => lexLoop stdin stdout; stdout.flush; return 0
  | ["bfix"] => bfixLoop stdin stdout; stdout.flush; return 0
  | ["lines"] => Lex.linesMain stdin stdout; stdout.flush; return 0
  | ["engine"] => Vsgm.EngineCli.engineMain stdin stdout; stdout.flush; return 0
  | ["tokmap"] => Vsgm.TM.Cli.tokmapMain stdin stdout; stdout.flush; return 0
  | ["cfg"] => Cfg.cfgMain stdin stdout; stdout.flush; return 0
  | ["frame"] => Vsgm.FrameCli.frameMain stdin stdout; stdout.flush; return 0
  | ["retok"] => Lex.retokMain stdin stdout; return 0
  | ["ct"] => Vsgm.CT.ctMain stdin stdout; stdout.flush; return 0
  | ["c05"] => Vsgm.Classify.classifyMain stdin stdout; stdout.flush; return 0
  | ["ws"] => Vsgm.Base.wsMain stdin stdout; return 0
  | ["post"] => Vsgm.Post.postMain stdin stdout; return 0
  | ["caseu"] => Vsgm.Base.Case.Cli.caseuMain stdin stdout; stdout.flush; return 0
  | ["wb"] => Vsgm.WB.wbMain stdin stdout; return 0
  | ["setindent"] => Vsgm.Indent.Cli.setindentMain stdin stdout; return 0
  -- >>> WP1 layer P
  | ["prog"] => Vsgm.Prog.progMain stdin stdout; stdout.flush; return 0
  | ["bfull2"] => Vsgm.BFull2.Cli.bfull2Main stdin stdout; return 0   -- wp2_bfull2
  -- <<< WP1 layer P
  | _ => IO.eprintln "usage: driver <mode>"; return 2
