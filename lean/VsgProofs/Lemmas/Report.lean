/-
  Lemmas about the report model: the stable sort by line, the independent walks over the
  rule objects, the severity counters.
-/
import VsgModel.Engine.Report
namespace Vsgm.Lemmas
open Vsgm

/-! ### stable sort by line -/

def SortedByLine (l : List Rec) : Prop := l.Pairwise (fun a b => a.line ≤ b.line)

theorem insertByLine_perm (x : Rec) (l : List Rec) : (insertByLine x l).Perm (x :: l) := by
  induction l with
  | nil => exact List.Perm.refl _
  | cons y ys ih =>
    unfold insertByLine
    split
    · exact List.Perm.refl _
    · exact (List.Perm.cons y ih).trans (List.Perm.swap x y ys)

theorem sortByLine_perm (l : List Rec) : (sortByLine l).Perm l := by
  induction l with
  | nil => exact List.Perm.refl _
  | cons x xs ih => exact (insertByLine_perm x _).trans (List.Perm.cons x ih)

theorem mem_sortByLine (l : List Rec) (x : Rec) : x ∈ sortByLine l ↔ x ∈ l := (sortByLine_perm l).mem_iff

theorem length_sortByLine (l : List Rec) : (sortByLine l).length = l.length := (sortByLine_perm l).length_eq

theorem insertByLine_sorted (x : Rec) (l : List Rec) (h : SortedByLine l) : SortedByLine (insertByLine x l) := by
  induction l with
  | nil => simp [insertByLine, SortedByLine]
  | cons y ys ih =>
    unfold insertByLine
    have hy := List.pairwise_cons.mp h
    split
    · rename_i hle
      refine List.pairwise_cons.mpr ⟨?_, h⟩
      intro z hz
      rcases List.mem_cons.mp hz with rfl | hz
      · exact hle
      · exact Nat.le_trans hle (hy.1 z hz)
    · rename_i hnle
      refine List.pairwise_cons.mpr ⟨?_, ih hy.2⟩
      intro z hz
      rcases List.mem_cons.mp ((insertByLine_perm x ys).mem_iff.mp hz) with rfl | hz
      · omega
      · exact hy.1 z hz

theorem sortByLine_sorted (l : List Rec) : SortedByLine (sortByLine l) := by
  induction l with
  | nil => simp [sortByLine, SortedByLine]
  | cons x xs ih => exact insertByLine_sorted x _ ih

theorem insertByLine_cons_le (x y : Rec) (ys : List Rec) (h : x.line ≤ y.line) :
    insertByLine x (y :: ys) = x :: y :: ys := by simp [insertByLine, h]

theorem insertByLine_cons_gt (x y : Rec) (ys : List Rec) (h : ¬ x.line ≤ y.line) :
    insertByLine x (y :: ys) = y :: insertByLine x ys := by simp [insertByLine, h]

theorem filter_insertByLine (q : Rec → Bool) (x : Rec) (l : List Rec) (h : SortedByLine l) :
    (insertByLine x l).filter q = if q x then insertByLine x (l.filter q) else l.filter q := by
  induction l with
  | nil => by_cases hq : q x = true <;> simp [insertByLine, hq]
  | cons y ys ih =>
    have hy := List.pairwise_cons.mp h
    by_cases hle : x.line ≤ y.line
    · rw [insertByLine_cons_le x y ys hle]
      -- x goes to the front of the filtered list too: everything kept is ≥ y.line ≥ x.line
      have hfront : ∀ l' : List Rec, (∀ z ∈ l', x.line ≤ z.line) → insertByLine x l' = x :: l' := by
        intro l' hl'
        cases l' with
        | nil => rfl
        | cons z zs => exact insertByLine_cons_le x z zs (hl' z (List.mem_cons_self ..))
      have hall : ∀ z ∈ (y :: ys).filter q, x.line ≤ z.line := by
        intro z hz
        rcases List.mem_cons.mp (List.mem_filter.mp hz).1 with rfl | hz'
        · exact hle
        · exact Nat.le_trans hle (hy.1 z hz')
      rw [hfront _ hall]
      by_cases hq : q x = true <;> simp [hq]
    · rw [insertByLine_cons_gt x y ys hle, List.filter_cons, ih hy.2]
      by_cases hqy : q y = true
      · by_cases hq : q x = true
        · simp only [hqy, hq, if_true, List.filter_cons]
          rw [insertByLine_cons_gt x y _ hle]
        · simp [hq, hqy]
      · by_cases hq : q x = true <;> simp [hq, hqy]

/-- the stable sort commutes with every filter -/
theorem sortByLine_filter (q : Rec → Bool) (l : List Rec) : (sortByLine l).filter q = sortByLine (l.filter q) := by
  induction l with
  | nil => rfl
  | cons x xs ih =>
    simp only [sortByLine, List.filter_cons]
    rw [filter_insertByLine q x _ (sortByLine_sorted xs), ih]
    by_cases hq : q x = true <;> simp [hq, sortByLine]

/-! ### the walks over the rule objects -/

theorem filter_const_true {α : Type} (l : List α) : l.filter (fun _ => true) = l := by
  induction l with
  | nil => rfl
  | cons a l ih => simp [ih]

theorem getViolations_of_not_has (r : CRule) (h : r.hasViolations = false) : r.getViolations = [] := by
  unfold CRule.hasViolations at h
  have : r.viols = [] := by simpa using h
  simp [CRule.getViolations, this]

/-- the `has_violations()` guard of `report_violations` is a no-op -/
theorem flatMap_hasViolations (rs : List CRule) :
    (rs.filter CRule.hasViolations).flatMap CRule.getViolations = allRecs rs := by
  unfold allRecs
  induction rs with
  | nil => rfl
  | cons r rs ih =>
    rw [List.filter_cons]
    by_cases h : r.hasViolations = true
    · simp [h, ih]
    · have h' : r.hasViolations = false := by simpa using h
      simp [h', ih, getViolations_of_not_has r h']

theorem reportRecs_eq (rs : List CRule) : reportRecs rs = sortByLine (allRecs rs) := by
  unfold reportRecs; rw [flatMap_hasViolations]

theorem mem_reportRecs (rs : List CRule) (x : Rec) : x ∈ reportRecs rs ↔ x ∈ allRecs rs := by
  rw [reportRecs_eq, mem_sortByLine]

theorem mem_allRecs (rs : List CRule) (x : Rec) :
    x ∈ allRecs rs ↔ ∃ r ∈ rs, ∃ v ∈ r.viols, x = ⟨r.cfg.id, r.sevName, r.cfg.sevError, v.line, v.sol, r.cfg.phase⟩ := by
  simp only [allRecs, List.mem_flatMap, CRule.getViolations, List.mem_map]
  constructor
  · rintro ⟨r, hr, v, hv, rfl⟩; exact ⟨r, hr, v, hv, rfl⟩
  · rintro ⟨r, hr, v, hv, rfl⟩; exact ⟨r, hr, v, hv, rfl⟩

/-- the `len(violations) > 0 and type == error` guard of the JUnit walk selects exactly the
    records of error-type severities -/
theorem junitLines_eq (rs : List CRule) : junitLines rs = ((allRecs rs).filter (·.sevErr)).map Rec.core := by
  unfold junitLines allRecs
  induction rs with
  | nil => rfl
  | cons r rs ih =>
    rw [List.filter_cons, List.flatMap_cons, List.filter_append, List.map_append, ← ih]
    by_cases he : r.cfg.sevError = true
    · by_cases hv : r.viols = []
      · simp [he, hv, CRule.getViolations]
      · have : r.viols.length > 0 := List.length_pos_iff.mpr hv
        simp [he, this, CRule.getViolations, List.filter_map, Function.comp_def, Rec.core, filter_const_true]
    · have he' : r.cfg.sevError = false := by simpa using he
      simp [he', CRule.getViolations, List.filter_map, Function.comp_def]

theorem jsonRecs_core (rs : List CRule) : (jsonRecs rs).map JsonRec.core = (allRecs rs).map Rec.core := by
  unfold jsonRecs allRecs
  simp [List.map_flatMap, CRule.getViolations, JsonRec.core, Rec.core, Function.comp_def]

theorem jsonRecs_severity (rs : List CRule) : (jsonRecs rs).map (·.severity) = (allRecs rs).map (·.sevName) := by
  unfold jsonRecs allRecs
  simp [List.map_flatMap, CRule.getViolations, Function.comp_def]

/-! ### severity counters -/

def countSum (l : List (String × Nat)) : Nat := (l.map (·.2)).sum

theorem bump_sum (name : String) (l l' : List (String × Nat)) (h : bump name l = some l') :
    countSum l' = countSum l + 1 := by
  induction l generalizing l' with
  | nil => simp [bump] at h
  | cons e rest ih =>
    obtain ⟨n, c⟩ := e
    unfold bump at h
    by_cases hn : (n == name) = true
    · simp only [hn, if_true, Option.some.injEq] at h
      subst h
      simp [countSum]; omega
    · have hn' : (n == name) = false := by simpa using hn
      simp only [hn', Bool.false_eq_true, if_false] at h
      cases hb : bump name rest with
      | none => simp [hb] at h
      | some r =>
        simp only [hb, Option.map_some, Option.some.injEq] at h
        subst h
        have := ih r hb
        simp [countSum] at this ⊢; omega

theorem bump_lookup (name : String) (l l' : List (String × Nat)) (h : bump name l = some l') (k : String) :
    l'.lookup k = if k = name then (l.lookup k).map (· + 1) else l.lookup k := by
  induction l generalizing l' with
  | nil => simp [bump] at h
  | cons e rest ih =>
    obtain ⟨n, c⟩ := e
    unfold bump at h
    by_cases hn : (n == name) = true
    · simp only [hn, if_true, Option.some.injEq] at h
      subst h
      have hn' : n = name := by simpa using hn
      subst hn'
      by_cases hk : k = n
      · subst hk; simp
      · have : (k == n) = false := by simpa using hk
        simp [List.lookup_cons, this, hk]
    · have hn' : (n == name) = false := by simpa using hn
      simp only [hn', Bool.false_eq_true, if_false] at h
      cases hb : bump name rest with
      | none => simp [hb] at h
      | some r =>
        simp only [hb, Option.map_some, Option.some.injEq] at h
        subst h
        have hne : n ≠ name := by simpa using hn
        by_cases hkn : k = n
        · subst hkn
          simp [hne]
        · have : (k == n) = false := by simpa using hkn
          simp only [List.lookup_cons, this]
          exact ih r hb

theorem bump_keys (name : String) (l l' : List (String × Nat)) (h : bump name l = some l') :
    l'.map (·.1) = l.map (·.1) := by
  induction l generalizing l' with
  | nil => simp [bump] at h
  | cons e rest ih =>
    obtain ⟨n, c⟩ := e
    unfold bump at h
    by_cases hn : (n == name) = true
    · simp only [hn, if_true, Option.some.injEq] at h
      subst h; rfl
    · have hn' : (n == name) = false := by simpa using hn
      simp only [hn', Bool.false_eq_true, if_false] at h
      cases hb : bump name rest with
      | none => simp [hb] at h
      | some r =>
        simp only [hb, Option.map_some, Option.some.injEq] at h
        subst h
        simp [ih r hb]

theorem countSeverities_spec (vs : List Rec) (init sev : List (String × Nat))
    (h : countSeverities vs init = some sev) :
    countSum sev = countSum init + vs.length ∧
    sev.map (·.1) = init.map (·.1) ∧
    ∀ k, sev.lookup k = (init.lookup k).map (· + (vs.filter (fun v => v.sevName = k)).length) := by
  unfold countSeverities at h
  induction vs generalizing init with
  | nil =>
    simp only [List.foldl_nil, Option.some.injEq] at h
    subst h
    refine ⟨by simp, rfl, ?_⟩
    intro k; cases init.lookup k <;> simp
  | cons v vs ih =>
    simp only [List.foldl_cons, Option.bind_some] at h
    cases hb : bump v.sevName init with
    | none =>
      rw [hb] at h
      have : ∀ l : List Rec, l.foldl (fun acc v => acc.bind (bump v.sevName)) (none : Option (List (String × Nat))) = none := by
        intro l; induction l with
        | nil => rfl
        | cons a l ihl => simpa using ihl
      rw [this] at h; cases h
    | some i1 =>
      rw [hb] at h
      obtain ⟨h1, h2, h3⟩ := ih i1 h
      refine ⟨?_, ?_, ?_⟩
      · rw [h1, bump_sum _ _ _ hb]; simp; omega
      · rw [h2, bump_keys _ _ _ hb]
      · intro k
        rw [h3 k, bump_lookup _ _ _ hb k]
        by_cases hk : k = v.sevName
        · subst hk
          cases init.lookup v.sevName with
          | none => simp
          | some c => simp; omega
        · have hk' : ¬ v.sevName = k := fun e => hk e.symm
          simp [hk, hk']

theorem lookup_zero (names : List String) (k : String) (c : Nat)
    (h : (names.map (·, 0)).lookup k = some c) : c = 0 := by
  induction names with
  | nil => simp at h
  | cons n names ih =>
    simp only [List.map_cons, List.lookup_cons] at h
    by_cases hk : (k == n) = true
    · simp only [hk] at h; cases h; rfl
    · have : (k == n) = false := by simpa using hk
      simp only [this] at h; exact ih h

/-- counters starting from zero: they add up to the number of entries, the keys are kept, and the
    counter of a name is the number of entries with that severity name -/
theorem countSeverities_counts (vs : List Rec) (names : List String) (sev : List (String × Nat))
    (h : countSeverities vs (names.map (·, 0)) = some sev) :
    countSum sev = vs.length ∧ sev.map (·.1) = names ∧
    ∀ k c, sev.lookup k = some c → c = (vs.filter (fun v => v.sevName = k)).length := by
  obtain ⟨h1, h2, h3⟩ := countSeverities_spec vs _ sev h
  refine ⟨?_, ?_, ?_⟩
  · rw [h1]
    have : ∀ l : List String, (l.map fun _ => 0).sum = 0 := by
      intro l; induction l with
      | nil => rfl
      | cons a l ih => simp [ih]
    simp [countSum, Function.comp_def, this]
  · rw [h2]; simp [Function.comp_def]
  · intro k c hk
    rw [h3 k] at hk
    cases hl : (names.map (·, 0)).lookup k with
    | none => simp [hl] at hk
    | some c0 =>
      have := lookup_zero names k c0 hl
      subst this
      simp [hl] at hk
      omega

theorem reportViolations_some (st : CheckState) (names : List String) (ri : RunInfo)
    (h : reportViolations st names = some ri) :
    ri.violations = reportRecs st.rules ∧ ri.stopPhase = st.lastPhase ∧ ri.numRules = st.nran ∧
    ri.total = (reportRecs st.rules).length ∧
    countSeverities (reportRecs st.rules) (names.eraseDups.map (·, 0)) = some ri.severities := by
  unfold reportViolations at h
  cases hc : countSeverities (reportRecs st.rules) (names.eraseDups.map (·, 0)) with
  | none => simp [hc] at h
  | some sev =>
    simp only [hc, Option.map_some, Option.some.injEq] at h
    subst h
    exact ⟨rfl, rfl, rfl, rfl, rfl⟩

end Vsgm.Lemmas
