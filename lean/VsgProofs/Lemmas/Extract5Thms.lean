/-
  `get_tokens_starting_with_token_and_ending_with_one_of_possible_tokens` (WP3): a slice whenever the
  region holds anything but whitespace / line breaks / comments.
-/
import VsgModel.Engine.Extract5
import VsgProofs.Lemmas.Extract3If
namespace Vsgm.TM.X.Lemmas
open Vsgm Vsgm.TM Vsgm.TM.Lemmas Vsgm.TM.X

variable {α : Type}

theorem trimmed_exact (V : View α) (P : PCls) (f : List α) (s : Nat) (sl : List α) (line : Nat)
    (hsl : SliceAt f s sl)
    (hg : ∃ x ∈ removeTrailing V P (removeLeading V P s sl).2, isWsOrComment V P x = false) :
    Toi.Exact f ({ start := some ((removeLeading V P s sl).1 - 1), line := line,
                   toks := removeTrailing V P (removeLeading V P s sl).2 } : Toi α) := by
  unfold removeLeading at hg ⊢
  cases hf : sl.findIdx? (fun t => !isWsOrComment V P t) with
  | some k =>
    simp only [hf] at hg ⊢
    have hk : k < sl.length := (List.findIdx?_eq_some_iff_findIdx_eq.mp hf).1
    have hd := sliceAt_drop f s k sl hsl (Nat.le_of_lt hk)
    refine exact_of_sliceAt f _ (s + k) (by simp <;> omega) ?_
    exact removeTrailing_slice V P f _ _ hd hg
  | none =>
    simp only [hf] at hg
    exfalso
    obtain ⟨x, hxm, hxw⟩ := hg
    rw [List.findIdx?_eq_none_iff] at hf
    have hall : ∀ y ∈ sl, isWsOrComment V P y = true := by
      intro y hy; have := hf y hy; simpa using this
    unfold removeTrailing at hxm
    cases hf2 : sl.reverse.findIdx? (fun t => !isWsOrComment V P t) with
    | some k' =>
      simp only [hf2] at hxm
      rw [List.drop_reverse, List.reverse_reverse] at hxm
      have := hall x (List.mem_of_mem_take hxm)
      rw [this] at hxw; cases hxw
    | none =>
      simp only [hf2] at hxm
      have := hall x (List.mem_reverse.mp hxm)
      rw [this] at hxw; cases hxw

theorem seStarts_le (uid : α → Option Key) (f : List α) (startCs endCs : List Cls) (inclStart : Bool) :
    ∀ sn ∈ seStarts (processTokens uid f) startCs endCs inclStart, sn.1 ≤ f.length := by
  intro sn hsn
  unfold seStarts at hsn
  have h1 := (List.of_mem_zip hsn).1
  split at h1
  · exact Nat.le_of_lt (fresh_idxsOfList_lt uid f startCs _ h1)
  · obtain ⟨i, hi, he⟩ := List.mem_map.mp h1
    have := fresh_idxsOfList_lt uid f startCs i hi
    omega

theorem startingEnding_exact_partial (V : View α) (P : PCls) (f : List α) (startCs endCs : List Cls)
    (inclStart inclEnd earliest : Bool) (r : List (Toi α))
    (h : startingEnding V P f (processTokens V.uid f) startCs endCs inclStart inclEnd earliest = .ok r) :
    ∀ t ∈ r, (∃ x ∈ t.toks, isWsOrComment V P x = false) → t.Exact f := by
  intro t ht hg
  unfold startingEnding at h
  obtain ⟨sn, hsn, hb⟩ := mem_filterMapE _ _ _ h t ht
  have hle := seStarts_le V.uid f startCs endCs inclStart sn hsn
  split at hb
  · simp [pure, Except.pure] at hb
  · rename_i e _
    simp only [bind_ok, pure_ok, Option.some.injEq] at hb
    obtain ⟨line, _, rfl⟩ := hb
    refine trimmed_exact V P f sn.1 _ line ?_ hg
    split <;> exact sliceAt_pySlice f sn.1 _ hle

end Vsgm.TM.X.Lemmas
