/-
  `get_tokens_starting_with_token_and_ending_with_one_of_possible_tokens` (WP3): always a slice (an
  empty one, at the position after the trimmed tokens, when the region holds nothing but whitespace /
  line breaks / comments — since the repair of the two trimming helpers).
-/
import VsgModel.Engine.Extract5
import VsgProofs.Lemmas.Extract3If
namespace Vsgm.TM.X.Lemmas
open Vsgm Vsgm.TM Vsgm.TM.Lemmas Vsgm.TM.X

variable {α : Type}

theorem trimmed_exact (V : View α) (P : PCls) (f : List α) (s : Nat) (sl : List α) (line : Nat)
    (hsl : SliceAt f s sl) :
    Toi.Exact f ({ start := some ((removeLeading V P s sl).1 - 1), line := line,
                   toks := removeTrailing V P (removeLeading V P s sl).2 } : Toi α) := by
  obtain ⟨k, _, h1, h2⟩ := trimmed_slice V P f s sl (s : Int) hsl
  exact exact_of_sliceAt f _ (s + k) (by simp only [h1]; congr 1; omega) h2

theorem seStarts_le (uid : α → Option Key) (f : List α) (startCs endCs : List Cls) (inclStart : Bool) :
    ∀ sn ∈ seStarts (processTokens uid f) startCs endCs inclStart, sn.1 ≤ f.length := by
  intro sn hsn
  unfold seStarts at hsn
  have h1 := (List.of_mem_zip hsn).1
  split at h1
  · exact Nat.le_of_lt (fresh_idxsOfList_lt uid f startCs _ h1)
  · obtain ⟨i, hi, he⟩ := List.mem_map.mp h1
    have := fresh_idxsOfList_lt uid f startCs i hi
    omega

theorem startingEnding_exact (V : View α) (P : PCls) (f : List α) (startCs endCs : List Cls)
    (inclStart inclEnd earliest : Bool) (r : List (Toi α))
    (h : startingEnding V P f (processTokens V.uid f) startCs endCs inclStart inclEnd earliest = .ok r) :
    ∀ t ∈ r, t.Exact f := by
  intro t ht
  unfold startingEnding at h
  obtain ⟨sn, hsn, hb⟩ := mem_filterMapE _ _ _ h t ht
  have hle := seStarts_le V.uid f startCs endCs inclStart sn hsn
  split at hb
  · simp [pure, Except.pure] at hb
  · rename_i e _
    simp only [bind_ok, pure_ok, Option.some.injEq] at hb
    obtain ⟨line, _, rfl⟩ := hb
    refine trimmed_exact V P f sn.1 _ line ?_
    split <;> exact sliceAt_pySlice f sn.1 _ hle

end Vsgm.TM.X.Lemmas
