/-
  WP2c — `blank_line_below_line_ending_with_token` (style require_blank_line, no hierarchy limits) on a file of rows:
  the index-based extractor and analysis of `BFull2/ExtractV.lean` / `VSpace.lean` as a scan over the rows.
-/
import VsgModel.BFull2.VSpace
import VsgProofs.Lemmas.BFull2Rows
import VsgProofs.Lemmas.BFull2Bridge
import VsgProofs.Lemmas.BFull2Affix
import VsgProofs.Lemmas.BFull2Pieces
import VsgProofs.Lemmas.BFull2Indent
namespace Vsgm.BFull2.VSpace
open Vsgm Vsgm.TM Vsgm.TM.Lemmas Vsgm.BFull2 Vsgm.BFull2.Rows

variable (uid : Tok → Option Key)

theorem plain_comment : Plain commentKey := by
  unfold Plain commentKey commaKey openParenKey kLogical kParser kComma kOpenParen; decide

def isKo (k : Key) (o : Option Tok) : Bool := match o with | some t => uid t == some k | none => false

/-- `utils.is_token_at_end_of_line` in terms of the two tokens after the position -/
def eolO (a b : Option Tok) : Bool :=
  isKo uid crKey a || isKo uid commentKey a || (isKo uid wsKey a && (isKo uid crKey b || isKo uid commentKey b))

theorem isAt_eq (f : List Tok) (k : Key) (hk : Plain k) (j : Nat) :
    (processTokens uid f).isAt (some k) (j : Int) = isKo uid k f[j]? := by
  rw [Bool.eq_iff_iff, isAt_fresh_nat uid f k hk j]
  unfold isKo
  cases f[j]? with
  | none => simp
  | some t => simp

theorem isEndOfLine_fresh (f : List Tok) (i : Nat) :
    isEndOfLine (processTokens uid f) (i : Int) = eolO uid f[i + 1]? f[i + 2]? := by
  unfold isEndOfLine eolO
  have e1 : ((i : Int) + 1) = ((i + 1 : Nat) : Int) := by omega
  have e2 : ((i : Int) + 2) = ((i + 2 : Nat) : Int) := by omega
  rw [e1, e2, isAt_eq uid f crKey plain_cr, isAt_eq uid f commentKey plain_comment, isAt_eq uid f wsKey plain_ws,
    isAt_eq uid f crKey plain_cr, isAt_eq uid f commentKey plain_comment]

/-! ### positions of a file of rows -/

theorem getElem_join (rows : List (Row Tok)) (k j : Nat) (r : Row Tok) (hk : rows[k]? = some r) (hj : j ≤ r.1.length) :
    (join rows)[offs rows k + j]? = (r.1 ++ [r.2])[j]? := by
  have hkl : k < rows.length := by
    rcases Nat.lt_or_ge k rows.length with h' | h'
    · exact h'
    · rw [List.getElem?_eq_none h'] at hk; cases hk
  have hlen := join_length_take rows k (Nat.le_of_lt hkl)
  rw [join_split rows k r hk, List.append_assoc, List.getElem?_append_right (by omega), hlen, Nat.add_sub_cancel_left,
    List.getElem?_append_left (by simp; omega)]

theorem join_length (rows : List (Row Tok)) : (join rows).length = offs rows rows.length := by
  have := join_length_take rows rows.length (Nat.le_refl _)
  rwa [List.take_length] at this

/-- every position of the file lies in exactly one row -/
theorem pos_decomp (rows : List (Row Tok)) (i : Nat) (hi : i < (join rows).length) :
    ∃ k j r, rows[k]? = some r ∧ j ≤ r.1.length ∧ i = offs rows k + j := by
  induction rows generalizing i with
  | nil => simp [join] at hi
  | cons r0 rs ih =>
    by_cases h0 : i ≤ r0.1.length
    · exact ⟨0, i, r0, rfl, h0, by simp [offs]⟩
    · rw [join_cons] at hi
      simp only [List.length_append, List.length_singleton] at hi
      obtain ⟨k, j, r, hk, hj, he⟩ := ih (i - (r0.1.length + 1)) (by omega)
      refine ⟨k + 1, j, r, by simpa using hk, hj, ?_⟩
      simp only [offs]; omega


/-! ### the rows that end with a listed token -/

variable (cs : List Cls)

def rowEol (r : Row Tok) (j : Nat) : Bool := eolO uid (r.1 ++ [r.2])[j + 1]? (r.1 ++ [r.2])[j + 2]?

/-- positions inside the row's content whose token is listed and ends the line -/
def trigIdx (r : Row Tok) : List Nat :=
  (List.range r.1.length).filter fun j => (match r.1[j]? with | some t => matchB uid cs t | none => false) && rowEol uid r j

def trigRow (r : Row Tok) : Bool := !(trigIdx uid cs r).isEmpty

/-- **the guard**: no line has two end-of-line candidates (possible only with a comment token among `lTokens`) -/
def NoDupRows (rows : List (Row Tok)) : Prop := ∀ r ∈ rows, (trigIdx uid cs r).length ≤ 1

theorem eol_local (rows : List (Row Tok)) (h : RowsOk uid rows) (k j : Nat) (r : Row Tok) (hk : rows[k]? = some r)
    (hj : j < r.1.length) :
    eolO uid (join rows)[offs rows k + j + 1]? (join rows)[offs rows k + j + 2]? = rowEol uid r j := by
  unfold rowEol
  have e1 : offs rows k + j + 1 = offs rows k + (j + 1) := by omega
  have e2 : offs rows k + j + 2 = offs rows k + (j + 2) := by omega
  rw [e1, e2, getElem_join rows k (j + 1) r hk (by omega)]
  by_cases h2 : j + 2 ≤ r.1.length
  · rw [getElem_join rows k (j + 2) r hk h2]
  · have hj1 : j + 1 = r.1.length := by omega
    have hc : (r.1 ++ [r.2])[j + 1]? = some r.2 := by
      rw [hj1, List.getElem?_append_right (Nat.le_refl _)]; simp
    have hr : r ∈ rows := List.mem_of_getElem? hk
    unfold eolO
    rw [hc]
    simp [isKo, h.cr r hr]

theorem cr_not_match (hcs : CsOk cs) (t : Tok) (ht : uid t = some crKey) : matchB uid cs t = false := by
  unfold matchB
  rw [Bool.eq_false_iff]
  intro hm
  simp only [List.any_eq_true, beq_iff_eq] at hm
  obtain ⟨c, hc, he⟩ := hm
  obtain ⟨k, hk, _, _, hncr⟩ := hcs.plain c hc
  rw [hk, ht] at he
  exact hncr (Option.some.inj he)

theorem hasCr_of_row (rows : List (Row Tok)) (h : RowsOk uid rows) (k : Nat) (r : Row Tok) (hk : rows[k]? = some r) :
    Affix.HasCr uid (join rows) := by
  refine ⟨offs rows k + r.1.length, r.2, ?_, h.cr r (List.mem_of_getElem? hk)⟩
  rw [getElem_join rows k r.1.length r hk (Nat.le_refl _), List.getElem?_append_right (Nat.le_refl _)]
  simp

/-- the end-of-line candidates of the file, row by row -/
theorem mem_eolIdxs (rows : List (Row Tok)) (h : RowsOk uid rows) (hcs : CsOk cs) (i : Nat) :
    i ∈ eolIdxs (processTokens uid (join rows)) cs ↔
      ∃ k j r, rows[k]? = some r ∧ j ∈ trigIdx uid cs r ∧ i = offs rows k + j := by
  unfold eolIdxs
  rw [idxsOfList_fresh uid (join rows) cs hcs, List.mem_filter, List.mem_filter, List.mem_range, isEndOfLine_fresh]
  constructor
  · rintro ⟨⟨hi, hc⟩, he⟩
    obtain ⟨k, j, r, hk, hj, rfl⟩ := pos_decomp rows i hi
    unfold candB at hc
    rw [getElem_join rows k j r hk hj] at hc
    have hjl : j < r.1.length := by
      rcases Nat.lt_or_eq_of_le hj with h' | h'
      · exact h'
      · exfalso
        rw [h', List.getElem?_append_right (Nat.le_refl _)] at hc
        simp at hc
        rw [cr_not_match uid cs hcs r.2 (h.cr r (List.mem_of_getElem? hk))] at hc
        cases hc
    rw [List.getElem?_append_left hjl] at hc
    rw [eol_local uid rows h k j r hk hjl] at he
    refine ⟨k, j, r, hk, ?_, rfl⟩
    unfold trigIdx
    rw [List.mem_filter, List.mem_range]
    exact ⟨hjl, by rw [Bool.and_eq_true]; exact ⟨hc, he⟩⟩
  · rintro ⟨k, j, r, hk, hj, rfl⟩
    unfold trigIdx at hj
    rw [List.mem_filter, List.mem_range, Bool.and_eq_true] at hj
    obtain ⟨hjl, hc, he⟩ := hj
    have hkl : k < rows.length := by
      rcases Nat.lt_or_ge k rows.length with h' | h'
      · exact h'
      · rw [List.getElem?_eq_none h'] at hk; cases hk
    have hlt : offs rows k + j < (join rows).length := by
      rw [join_split rows k r hk]
      have := join_length_take rows k (Nat.le_of_lt hkl)
      simp only [List.length_append, this, List.length_singleton]; omega
    refine ⟨⟨hlt, ?_⟩, ?_⟩
    · unfold candB
      rw [getElem_join rows k j r hk (Nat.le_of_lt hjl), List.getElem?_append_left hjl]
      exact hc
    · rw [eol_local uid rows h k j r hk hjl]; exact he


/-! ### the line numbers of the trigger rows -/

def isTrig (rows : List (Row Tok)) (k : Nat) : Bool :=
  match rows[k]? with
  | some r => trigRow uid cs r
  | none => false

def trigLines (rows : List (Row Tok)) : List Nat :=
  ((List.range rows.length).filter (isTrig uid cs rows)).map (· + 1)

theorem strict_of_le_nodup : ∀ (l : List Nat), l.Pairwise (fun a b => decide (a ≤ b) = true) → l.Nodup → l.Pairwise (· < ·)
  | [], _, _ => List.Pairwise.nil
  | a :: l, hle, hnd => by
    rw [List.pairwise_cons] at hle ⊢
    rw [List.nodup_cons] at hnd
    refine ⟨?_, strict_of_le_nodup l hle.2 hnd.2⟩
    intro b hb
    have h1 := hle.1 b hb
    simp at h1
    have : a ≠ b := by intro e; subst e; exact hnd.1 hb
    omega

theorem mem_le_one {β : Type} (l : List β) (h : l.length ≤ 1) (a b : β) (ha : a ∈ l) (hb : b ∈ l) : a = b := by
  match l, h with
  | [], _ => cases ha
  | [x], _ => simp at ha hb; rw [ha, hb]

theorem eolIdxs_sorted (f : List Tok) (hcs : CsOk cs) : (eolIdxs (processTokens uid f) cs).Pairwise (· < ·) := by
  unfold eolIdxs
  rw [idxsOfList_fresh uid f cs hcs]
  exact (List.pairwise_lt_range.filter _).filter _

theorem lineNo_inj (rows : List (Row Tok)) (h : RowsOk uid rows) (hcs : CsOk cs) (hnd : NoDupRows uid cs rows) (i i' : Nat)
    (hi : i ∈ eolIdxs (processTokens uid (join rows)) cs) (hi' : i' ∈ eolIdxs (processTokens uid (join rows)) cs)
    (he : lineNo uid (join rows) i = lineNo uid (join rows) i') : i = i' := by
  obtain ⟨k, j, r, hk, hj, rfl⟩ := (mem_eolIdxs uid cs rows h hcs i).mp hi
  obtain ⟨k', j', r', hk', hj', rfl⟩ := (mem_eolIdxs uid cs rows h hcs i').mp hi'
  have hjl : j < r.1.length := by
    unfold trigIdx at hj; rw [List.mem_filter, List.mem_range] at hj; exact hj.1
  have hjl' : j' < r'.1.length := by
    unfold trigIdx at hj'; rw [List.mem_filter, List.mem_range] at hj'; exact hj'.1
  rw [lineNo_join uid rows h k j r hk (Nat.le_of_lt hjl), lineNo_join uid rows h k' j' r' hk' (Nat.le_of_lt hjl')] at he
  have hkk : k = k' := by omega
  subst hkk
  rw [hk] at hk'; cases hk'
  rw [mem_le_one _ (hnd r (List.mem_of_getElem? hk)) j j' hj hj']

theorem lineNumbers_join (rows : List (Row Tok)) (h : RowsOk uid rows) (hcs : CsOk cs) (hnd : NoDupRows uid cs rows) :
    lineNumbersOf (processTokens uid (join rows)) (eolIdxs (processTokens uid (join rows)) cs) =
      .ok (trigLines uid cs rows) := by
  unfold lineNumbersOf
  have hm : mapE (fun (i : Nat) => (processTokens uid (join rows)).lineOf (i : Int)) (eolIdxs (processTokens uid (join rows)) cs) =
      .ok ((eolIdxs (processTokens uid (join rows)) cs).map (lineNo uid (join rows))) := by
    apply Affix.mapE_ok
    intro i hi
    obtain ⟨k, j, r, hk, _, _⟩ := (mem_eolIdxs uid cs rows h hcs i).mp hi
    exact Affix.lineOf_ok uid (join rows) (hasCr_of_row uid rows h k r hk) i
  rw [hm]
  simp only [bind, Except.bind, pure, Except.pure]
  congr 1
  apply eq_of_strict_of_mem
  · apply strict_of_le_nodup
    · unfold sortNat
      exact List.pairwise_mergeSort (by intro a b c; simp; omega) (by intro a b; simp; omega) _
    · unfold sortNat
      rw [(List.mergeSort_perm _ _).nodup_iff]
      unfold List.Nodup
      rw [List.pairwise_map]
      refine (eolIdxs_sorted uid cs (join rows) hcs).imp_of_mem ?_
      intro a b ha hb hab he
      have := lineNo_inj uid cs rows h hcs hnd a b ha hb he
      omega
  · unfold trigLines
    rw [List.pairwise_map]
    exact (List.pairwise_lt_range.filter _).imp (by intro a b hab; omega)
  · intro l
    unfold sortNat trigLines
    rw [List.mem_mergeSort, List.mem_map, List.mem_map]
    constructor
    · rintro ⟨i, hi, rfl⟩
      obtain ⟨k, j, r, hk, hj, rfl⟩ := (mem_eolIdxs uid cs rows h hcs i).mp hi
      have hjl : j < r.1.length := by
        unfold trigIdx at hj; rw [List.mem_filter, List.mem_range] at hj; exact hj.1
      have hkl : k < rows.length := by
        rcases Nat.lt_or_ge k rows.length with h' | h'
        · exact h'
        · rw [List.getElem?_eq_none h'] at hk; cases hk
      refine ⟨k, ?_, (lineNo_join uid rows h k j r hk (Nat.le_of_lt hjl)).symm⟩
      rw [List.mem_filter, List.mem_range]
      refine ⟨hkl, ?_⟩
      unfold isTrig trigRow
      rw [hk]
      cases ht : trigIdx uid cs r with
      | nil => rw [ht] at hj; cases hj
      | cons a t => simp [ht]
    · rintro ⟨k, hk, rfl⟩
      rw [List.mem_filter, List.mem_range] at hk
      obtain ⟨hkl, ht⟩ := hk
      unfold isTrig at ht
      cases hr : rows[k]? with
      | none => rw [hr] at ht; cases ht
      | some r =>
        rw [hr] at ht
        unfold trigRow at ht
        cases hti : trigIdx uid cs r with
        | nil => simp [hti] at ht
        | cons j t =>
          have hj : j ∈ trigIdx uid cs r := by rw [hti]; exact List.mem_cons_self ..
          have hjl : j < r.1.length := by
            unfold trigIdx at hj; rw [List.mem_filter, List.mem_range] at hj; exact hj.1
          exact ⟨offs rows k + j, (mem_eolIdxs uid cs rows h hcs _).mpr ⟨k, j, r, hr, hj, rfl⟩,
            lineNo_join uid rows h k j r hr (Nat.le_of_lt hjl)⟩


/-! ### the regions and the analysis -/

def regionAfter (rows : List (Row Tok)) (k : Nat) : Option (Toi Tok) :=
  match rows[k + 1]? with
  | some r' => some { start := some ((offs rows (k + 1) : Nat) : Int), line := k + 2, toks := r'.1 }
  | none => none

/-- **get_line_below_line_ending_with_token on a file of rows**: for every trigger row that is not the last one, the
    content of the next row -/
theorem lineBelow_join (rows : List (Row Tok)) (h : RowsOk uid rows) (hcs : CsOk cs) (hnd : NoDupRows uid cs rows) :
    lineBelowLineEndingWith (join rows) (processTokens uid (join rows)) cs =
      .ok ((((List.range rows.length).filter (isTrig uid cs rows)).map (regionAfter rows)).filterMap id) := by
  unfold lineBelowLineEndingWith lineBelowOfIdxs
  rw [lineNumbers_join uid cs rows h hcs hnd]
  simp only [bind, Except.bind]
  have hm : mapE (fun l => lineSucceeding (join rows) (processTokens uid (join rows)) l 1) (trigLines uid cs rows) =
      .ok ((trigLines uid cs rows).map fun l => regionAfter rows (l - 1)) := by
    apply Affix.mapE_ok
    intro l hl
    unfold trigLines at hl
    obtain ⟨k, hk, rfl⟩ := List.mem_map.mp hl
    rw [List.mem_filter, List.mem_range] at hk
    have hr : rows[k]? = some rows[k] := List.getElem?_eq_getElem hk.1
    rw [lineSucceeding_join uid rows h k rows[k] hr]
    simp only [Nat.add_sub_cancel, regionAfter]
    cases rows[k + 1]? with
    | none => rfl
    | some r' => simp
  rw [hm]
  simp only [pure, Except.pure]
  unfold trigLines
  rw [List.map_map]
  congr 2

variable (inst : Tok → Nat → Bool) (P : Params)

/-- the rule this file is about -/
structure BelowRequire : Prop where
  fam : P.family = .below
  style : P.style = sRequire
  hier : P.hier = none

def violAfter (rows : List (Row Tok)) (k : Nat) : Option Viol :=
  match rows[k + 1]? with
  | some r' =>
    if cleanRequire inst P P.allow r'.1 then none
    else some { line := k + 1, start := offs rows (k + 1), toks := r'.1, act := Act.insert.code }
  | none => none

theorem sRequire_prefix : sRequire.isPrefixOf sRequire = true := by decide

/-- **the analysis on a file of rows**: one violation per trigger row whose next row exists and is neither a blank
    line nor allowed — the next row's content, at its first position, reported on the trigger line -/
theorem analyze_join (hP : BelowRequire P) (hO : HOracle) (rows : List (Row Tok)) (h : RowsOk uid rows)
    (hcs : CsOk P.cs) (hnd : NoDupRows uid P.cs rows) :
    (sem uid inst P hO).analyze (join rows) =
      ((List.range rows.length).filter (isTrig uid P.cs rows)).filterMap (violAfter inst P rows) := by
  unfold sem
  simp only
  unfold analyzeE analyzeWith toisWith
  rw [hP.fam]
  simp only [hP.style, sRequire_prefix, if_true, hP.hier, lineBelow_join uid P.cs rows h hcs hnd, bind, Except.bind,
    pure, Except.pure]
  unfold analyzeRegions
  have hj : ∀ r ∈ ones ((((List.range rows.length).filter (isTrig uid P.cs rows)).map (regionAfter rows)).filterMap id),
      judge inst P r = .ok (match r with
        | .one (some t) => if cleanRequire inst P P.allow t.toks then none
            else some ({ line := t.line - 1, start := (t.start.getD 0).toNat, toks := t.toks, act := Act.insert.code }, solBelowInsert)
        | _ => none) := by
    intro r hr
    unfold ones at hr
    obtain ⟨t, ht, rfl⟩ := List.mem_map.mp hr
    rw [List.mem_filterMap] at ht
    obtain ⟨o, ho, hid⟩ := ht
    obtain ⟨k, _, rfl⟩ := List.mem_map.mp ho
    simp only [id] at hid
    unfold regionAfter at hid
    cases hr1 : rows[k + 1]? with
    | none => rw [hr1] at hid; cases hid
    | some r' =>
      rw [hr1] at hid
      simp only [Option.some.injEq] at hid
      subst hid
      unfold judge
      rw [hP.fam]
      simp only [hP.style, beq_self_eq_true, if_true, judgeRequire, mkViol]
      split <;> rfl
  rw [filterMapE_ok _ _ _ hj]
  simp only
  unfold ones
  rw [List.map_filterMap, List.filterMap_map, List.filterMap_filterMap, List.filterMap_map]
  apply filterMap_ext_mem
  intro k _
  simp only [Function.comp, violAfter, regionAfter, id]
  cases rows[k + 1]? with
  | none => rfl
  | some r' =>
    simp only [Option.bind_some]
    by_cases hc : cleanRequire inst P P.allow r'.1 = true
    · simp [hc]
    · simp [hc]


/-! ### the analysis as a scan with one bit of state (the previous row is a trigger) -/

open Vsgm.Base.BlankLine

def hitRow (prev : Bool) (r : Row Tok) : Bool := prev && !cleanRequire inst P P.allow r.1

def violOfRow (off line : Nat) (r : Row Tok) : Viol := { line := line, start := off, toks := r.1, act := Act.insert.code }

def violsP (off line : Nat) (prev : Bool) : List (Row Tok) → List Viol
  | [] => []
  | r :: rs =>
    (if hitRow inst P prev r then [violOfRow off line r] else []) ++
      violsP (off + r.1.length + 1) (line + 1) (trigRow uid P.cs r) rs

theorem violsP_prev (off line : Nat) (prev : Bool) (r : Row Tok) (rs : List (Row Tok)) :
    violsP uid inst P off line prev (r :: rs) =
      (if hitRow inst P prev r then [violOfRow off line r] else []) ++ violsP uid inst P off line false (r :: rs) := by
  simp [violsP, hitRow]

/-- the range form with an offset and a line base -/
def gAfter (off line : Nat) (rows : List (Row Tok)) (k : Nat) : Option Viol :=
  if isTrig uid P.cs rows k then
    match rows[k + 1]? with
    | some r' => if cleanRequire inst P P.allow r'.1 then none else some (violOfRow (off + offs rows (k + 1)) (line + k + 1) r')
    | none => none
  else none

theorem range_form (off line : Nat) (rows : List (Row Tok)) :
    (List.range rows.length).filterMap (gAfter uid inst P off line rows) = violsP uid inst P off line false rows := by
  induction rows generalizing off line with
  | nil => rfl
  | cons r rs ih =>
    rw [List.length_cons, List.range_succ_eq_map, List.filterMap_cons, List.filterMap_map]
    have hshift : (gAfter uid inst P off line (r :: rs)) ∘ Nat.succ = gAfter uid inst P (off + r.1.length + 1) (line + 1) rs := by
      funext k
      simp only [Function.comp, gAfter, isTrig, List.getElem?_cons_succ, offs]
      have e1 : off + (r.1.length + 1 + offs rs (k + 1)) = off + r.1.length + 1 + offs rs (k + 1) := by omega
      have e2 : line + k.succ + 1 = line + 1 + k + 1 := by omega
      rw [e1, e2]
      rfl
    rw [hshift, ih]
    cases rs with
    | nil =>
      simp [gAfter, violsP, hitRow]
    | cons r1 rs' =>
      have hv : violsP uid inst P off line false (r :: r1 :: rs') =
          (if hitRow inst P (trigRow uid P.cs r) r1 then [violOfRow (off + r.1.length + 1) (line + 1) r1] else []) ++
            violsP uid inst P (off + r.1.length + 1) (line + 1) false (r1 :: rs') := by
        rw [violsP, violsP_prev]
        simp [hitRow]
      rw [hv]
      have hg : gAfter uid inst P off line (r :: r1 :: rs') 0 =
          if hitRow inst P (trigRow uid P.cs r) r1 then some (violOfRow (off + r.1.length + 1) (line + 1) r1) else none := by
        simp only [gAfter, isTrig, List.getElem?_cons_zero, List.getElem?_cons_succ, offs, hitRow, Nat.add_zero,
          Nat.zero_add]
        by_cases ht : trigRow uid P.cs r = true
        · by_cases hc : cleanRequire inst P P.allow r1.1 = true
          · simp [ht, hc]
          · simp [ht, hc, Nat.add_assoc]
        · simp [ht]
      rw [hg]
      by_cases hh : hitRow inst P (trigRow uid P.cs r) r1 = true
      · simp [hh]
      · simp [hh]

/-- **the whole analysis = the scan** -/
theorem analyze_scan (hP : BelowRequire P) (hO : HOracle) (rows : List (Row Tok)) (h : RowsOk uid rows)
    (hcs : CsOk P.cs) (hnd : NoDupRows uid P.cs rows) :
    (sem uid inst P hO).analyze (join rows) = violsP uid inst P 0 0 false rows := by
  rw [analyze_join uid inst P hP hO rows h hcs hnd, ← range_form, List.filterMap_filter]
  apply filterMap_ext_mem
  intro k _
  simp only [gAfter, violAfter, violOfRow, Nat.zero_add]

/-! ### the fix -/

/-- what the fix makes of the rows: a new row holding a blank line in front of every reported row -/
def expand (prev : Bool) : List (Row Tok) → List (Row Tok)
  | [] => []
  | r :: rs =>
    (if hitRow inst P prev r then [([blankTok P.blCls], crTok P.crCls), r] else [r]) ++ expand (trigRow uid P.cs r) rs

def piecesP (prev : Bool) : List (Row Tok) → List (Piece Tok)
  | [] => []
  | r :: rs =>
    ⟨r.1, if hitRow inst P prev r then blankTok P.blCls :: crTok P.crCls :: r.1 else r.1, hitRow inst P prev r⟩ ::
      ⟨[r.2], [r.2], false⟩ :: piecesP (trigRow uid P.cs r) rs

theorem piecesP_olds (prev : Bool) (rows : List (Row Tok)) : olds (piecesP uid inst P prev rows) = join rows := by
  induction rows generalizing prev with
  | nil => rfl
  | cons r rs ih => rw [piecesP, olds_cons, olds_cons, ih, join_cons]; simp

theorem piecesP_news (prev : Bool) (rows : List (Row Tok)) :
    news (piecesP uid inst P prev rows) = join (expand uid inst P prev rows) := by
  induction rows generalizing prev with
  | nil => rfl
  | cons r rs ih =>
    rw [piecesP, news_cons, news_cons, ih, expand]
    by_cases hh : hitRow inst P prev r = true
    · simp [hh, join, List.flatMap_cons]
    · simp [hh, join, List.flatMap_cons]

theorem piecesP_hit (prev : Bool) (rows : List (Row Tok)) :
    ∀ p ∈ piecesP uid inst P prev rows, p.hit = false → p.new = p.old := by
  induction rows generalizing prev with
  | nil => intro p hp; cases hp
  | cons r rs ih =>
    intro p hp hh
    rw [piecesP, List.mem_cons, List.mem_cons] at hp
    rcases hp with rfl | rfl | hp
    · simp only at hh ⊢; simp [hh]
    · rfl
    · exact ih _ p hp hh

/-- the guards about the tokens: no pseudo tokens, no empty row -/
structure RowsFine (rows : List (Row Tok)) : Prop where
  nobof : ∀ r ∈ rows, ∀ t ∈ r.1, t.isBof = false
  nonempty : ∀ r ∈ rows, r.1 ≠ []

theorem fixTok_insert_row (hP : BelowRequire P) (off line : Nat) (r : Row Tok) (hne : r.1 ≠ []) :
    fixTok P (violOfRow off line r) = blankTok P.blCls :: crTok P.crCls :: r.1 := by
  unfold fixTok fixE violOfRow
  rw [hP.fam]
  simp only
  cases ht : r.1 with
  | nil => exact absurd ht hne
  | cons x xs =>
    simp [Act.ofCode, Act.code, Act.str, belowFixV, Base.insertToken, Base.pyInsert, bind, Except.bind]
    rfl

theorem dropBof_id' (l : List Tok) (h : ∀ t ∈ l, t.isBof = false) : dropBof l = l := by
  unfold dropBof
  rw [List.filter_eq_self]
  intro t ht; simp [h t ht]

theorem violsP_edits (hP : BelowRequire P) (hO : HOracle) (off line : Nat) (prev : Bool) (rows : List (Row Tok))
    (hf : RowsFine rows) :
    (violsP uid inst P off line prev rows).map (editOf (sem uid inst P hO)) = editsFrom off (piecesP uid inst P prev rows) := by
  induction rows generalizing off line prev with
  | nil => rfl
  | cons r rs ih =>
    have hf' : RowsFine rs := ⟨fun x hx => hf.nobof x (List.mem_cons_of_mem _ hx), fun x hx => hf.nonempty x (List.mem_cons_of_mem _ hx)⟩
    have hb := hf.nobof r (List.mem_cons_self ..)
    have hne := hf.nonempty r (List.mem_cons_self ..)
    rw [violsP, piecesP, editsFrom, editsFrom]
    have ih' := ih (off + r.1.length + 1) (line + 1) (trigRow uid P.cs r) hf'
    simp only [List.length_singleton, Bool.false_eq_true, if_false]
    rw [← ih']
    by_cases hh : hitRow inst P prev r = true
    · simp only [hh, if_true, List.map_append, List.map_cons, List.map_nil, List.singleton_append]
      congr 1
      unfold editOf Viol.stop
      have hfix : (sem uid inst P hO).fixV (violOfRow off line r) = blankTok P.blCls :: crTok P.crCls :: r.1 :=
        fixTok_insert_row P hP off line r hne
      rw [hfix]
      simp only [violOfRow, dropBof_id' r.1 hb]
      rw [dropBof_id' _ (by
        intro t ht
        simp at ht
        rcases ht with rfl | rfl | ht
        · rfl
        · rfl
        · exact hb t ht)]
    · simp only [hh, Bool.false_eq_true, if_false, List.nil_append]

/-- **the file after `Rule.fix`**: the rows with a blank-line row in front of every reported row -/
theorem fixAll_join (hP : BelowRequire P) (hO : HOracle) (rows : List (Row Tok)) (h : RowsOk uid rows)
    (hcs : CsOk P.cs) (hnd : NoDupRows uid P.cs rows) (hf : RowsFine rows) :
    fixAll uid inst P hO (join rows) = join (expand uid inst P false rows) := by
  unfold fixAll
  rw [analyze_scan uid inst P hP hO rows h hcs hnd]
  have he := violsP_edits uid inst P hP hO 0 0 false rows hf
  have hc := pieces_chain ([] : List Tok) (piecesP uid inst P false rows) []
  simp only [List.nil_append, List.append_nil, List.length_nil] at hc
  rw [← he] at hc
  rw [sortByStart_of_chain _ _ _ _ hc, he]
  have hu := pieces_update (piecesP uid inst P false rows) (piecesP_hit uid inst P false rows)
  rw [piecesP_olds, piecesP_news] at hu
  exact hu


/-! ### whole-file theorems -/

/-- what the theorems assume about the two tokens the fix creates -/
structure NewTokOk : Prop where
  crU : uid (crTok P.crCls) = some crKey
  blU : uid (blankTok P.blCls) ≠ some crKey
  blInst : inst (blankTok P.blCls) P.blCls = true
  blNoMatch : matchB uid P.cs (blankTok P.blCls) = false

theorem trig_blankRow (hn : NewTokOk uid inst P) : trigIdx uid P.cs ([blankTok P.blCls], crTok P.crCls) = [] := by
  unfold trigIdx
  simp [List.range_succ, hn.blNoMatch]

theorem clean_blankRow (hn : NewTokOk uid inst P) : cleanRequire inst P P.allow [blankTok P.blCls] = true := by
  unfold cleanRequire
  simp [hn.blInst]

theorem violsP_expand (hn : NewTokOk uid inst P) (rows : List (Row Tok)) :
    ∀ (off line : Nat) (prev : Bool), violsP uid inst P off line prev (expand uid inst P prev rows) = [] := by
  induction rows with
  | nil => intro _ _ _; rfl
  | cons r rs ih =>
    intro off line prev
    rw [expand]
    by_cases hh : hitRow inst P prev r = true
    · have htb : trigRow uid P.cs ([blankTok P.blCls], crTok P.crCls) = false := by
        unfold trigRow; rw [trig_blankRow uid inst P hn]; rfl
      simp only [hh, if_true, List.cons_append, List.nil_append, violsP, htb]
      simp only [hitRow, clean_blankRow uid inst P hn, Bool.not_true, Bool.and_false, Bool.false_and, Bool.false_eq_true,
        if_false, List.nil_append]
      exact ih _ _ _
    · simp only [hh, Bool.false_eq_true, if_false, List.cons_append, List.nil_append, violsP]
      exact ih _ _ _

theorem rowsOk_expand (hn : NewTokOk uid inst P) (rows : List (Row Tok)) (h : RowsOk uid rows) (prev : Bool) :
    RowsOk uid (expand uid inst P prev rows) := by
  induction rows generalizing prev with
  | nil => exact ⟨fun r hr => by simp [expand] at hr, fun r hr => by simp [expand] at hr⟩
  | cons r rs ih =>
    have hr : RowsOk uid rs := ⟨fun x hx => h.cr x (List.mem_cons_of_mem _ hx), fun x hx => h.nocr x (List.mem_cons_of_mem _ hx)⟩
    have ih' := ih hr (trigRow uid P.cs r)
    rw [expand]
    constructor
    · intro x hx
      rw [List.mem_append] at hx
      rcases hx with hx | hx
      · split at hx
        · simp at hx; rcases hx with rfl | rfl
          · exact hn.crU
          · exact h.cr _ (List.mem_cons_self ..)
        · simp at hx; subst hx; exact h.cr _ (List.mem_cons_self ..)
      · exact ih'.cr x hx
    · intro x hx
      rw [List.mem_append] at hx
      rcases hx with hx | hx
      · split at hx
        · simp at hx; rcases hx with rfl | rfl
          · intro t ht; simp at ht; subst ht; exact hn.blU
          · exact h.nocr _ (List.mem_cons_self ..)
        · simp at hx; subst hx; exact h.nocr _ (List.mem_cons_self ..)
      · exact ih'.nocr x hx

theorem noDup_expand (hn : NewTokOk uid inst P) (rows : List (Row Tok)) (h : NoDupRows uid P.cs rows) (prev : Bool) :
    NoDupRows uid P.cs (expand uid inst P prev rows) := by
  induction rows generalizing prev with
  | nil => intro r hr; cases hr
  | cons r rs ih =>
    have ih' := ih (fun x hx => h x (List.mem_cons_of_mem _ hx)) (trigRow uid P.cs r)
    rw [expand]
    intro x hx
    rw [List.mem_append] at hx
    rcases hx with hx | hx
    · split at hx
      · simp at hx; rcases hx with rfl | rfl
        · rw [trig_blankRow uid inst P hn]; simp
        · exact h _ (List.mem_cons_self ..)
      · simp at hx; subst hx; exact h _ (List.mem_cons_self ..)
    · exact ih' x hx

/-- **whole-rule idempotence of blank_line_below_line_ending_with_token** (style require_blank_line) on every file of
    rows: after its own fix the rule reports nothing -/
theorem analyze_fixAll_below (hP : BelowRequire P) (hO : HOracle) (rows : List (Row Tok)) (h : RowsOk uid rows)
    (hcs : CsOk P.cs) (hnd : NoDupRows uid P.cs rows) (hf : RowsFine rows) (hn : NewTokOk uid inst P) :
    (sem uid inst P hO).analyze (fixAll uid inst P hO (join rows)) = [] := by
  rw [fixAll_join uid inst P hP hO rows h hcs hnd hf,
    analyze_scan uid inst P hP hO _ (rowsOk_expand uid inst P hn rows h false) hcs (noDup_expand uid inst P hn rows hnd false)]
  exact violsP_expand uid inst P hn rows 0 0 false

theorem expand_cons_hit (prev : Bool) (r : Row Tok) (rs : List (Row Tok)) (hh : hitRow inst P prev r = true) :
    join (expand uid inst P prev (r :: rs)) =
      [blankTok P.blCls, crTok P.crCls] ++ (r.1 ++ [r.2] ++ join (expand uid inst P (trigRow uid P.cs r) rs)) := by
  rw [expand]
  simp only [hh, if_true, List.cons_append, List.nil_append, join_cons]

theorem expand_cons_nohit (prev : Bool) (r : Row Tok) (rs : List (Row Tok)) (hh : hitRow inst P prev r = false) :
    join (expand uid inst P prev (r :: rs)) = r.1 ++ [r.2] ++ join (expand uid inst P (trigRow uid P.cs r) rs) := by
  rw [expand]
  simp only [hh, Bool.false_eq_true, if_false, List.cons_append, List.nil_append, join_cons]

theorem nonLayout_expand (rows : List (Row Tok)) (prev : Bool) :
    nonLayout (join (expand uid inst P prev rows)) = nonLayout (join rows) := by
  induction rows generalizing prev with
  | nil => rfl
  | cons r rs ih =>
    by_cases hh : hitRow inst P prev r = true
    · have hb : nonLayout [blankTok P.blCls, crTok P.crCls] = [] := rfl
      rw [expand_cons_hit uid inst P prev r rs hh]
      simp only [join_cons, nonLayout_append, ih, hb, List.nil_append, List.append_assoc]
    · have hh' : hitRow inst P prev r = false := by simpa using hh
      rw [expand_cons_nohit uid inst P prev r rs hh']
      simp only [join_cons, nonLayout_append, ih, List.append_assoc]

theorem crSeq_expand (rows : List (Row Tok)) (off line : Nat) (prev : Bool) :
    (crSeq (join (expand uid inst P prev rows))).length =
      (crSeq (join rows)).length + (violsP uid inst P off line prev rows).length := by
  induction rows generalizing off line prev with
  | nil => rfl
  | cons r rs ih =>
    have := ih (off + r.1.length + 1) (line + 1) (trigRow uid P.cs r)
    rw [violsP]
    by_cases hh : hitRow inst P prev r = true
    · have hb : crSeq [blankTok P.blCls, crTok P.crCls] = [()] := rfl
      rw [expand_cons_hit uid inst P prev r rs hh]
      simp only [join_cons, crSeq_append, hb, hh, if_true, List.length_append, List.length_cons, List.length_nil, this]
      omega
    · have hh' : hitRow inst P prev r = false := by simpa using hh
      rw [expand_cons_nohit uid inst P prev r rs hh']
      simp only [join_cons, crSeq_append, hh', Bool.false_eq_true, if_false, List.length_append, List.length_nil, this]
      omega

/-- **whole rule: layout-only, and exactly one line break more per violation** -/
theorem fixAll_below_effect (hP : BelowRequire P) (hO : HOracle) (rows : List (Row Tok)) (h : RowsOk uid rows)
    (hcs : CsOk P.cs) (hnd : NoDupRows uid P.cs rows) (hf : RowsFine rows) :
    LayoutOnly (join rows) (fixAll uid inst P hO (join rows)) ∧
    (crSeq (fixAll uid inst P hO (join rows))).length =
      (crSeq (join rows)).length + ((sem uid inst P hO).analyze (join rows)).length := by
  rw [fixAll_join uid inst P hP hO rows h hcs hnd hf, analyze_scan uid inst P hP hO rows h hcs hnd]
  exact ⟨(nonLayout_expand uid inst P rows false).symm, crSeq_expand uid inst P rows 0 0 false⟩

end Vsgm.BFull2.VSpace
