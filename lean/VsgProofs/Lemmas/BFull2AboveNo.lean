/-
  WP2d — `blank_line_above_line_starting_with_token` / `previous_line`, style no_blank_line, on a file of rows:
  get_blank_lines_above_line_starting_with_token (utils.get_all_blank_lines_above_indexes) through the row structure.
-/
import VsgProofs.Lemmas.BFull2Above
import VsgProofs.Lemmas.BFull2BelowNo
namespace Vsgm.BFull2.VSpace
open Vsgm Vsgm.TM Vsgm.TM.Lemmas Vsgm.BFull2 Vsgm.BFull2.Rows

variable (uid : Tok → Option Key)

/-! ### the three look-ups of the loop body on a file of rows -/

theorem crsE_join (rows : List (Row Tok)) (h : RowsOk uid rows) (hne : rows ≠ []) :
    (processTokens uid (join rows)).crs = .ok (crPosFrom 0 rows) := by
  unfold Index.crs
  rw [processTokens_find, specFrom_join uid rows h 0]
  cases rows with
  | nil => exact absurd rfl hne
  | cons r rs => simp [crPosFrom]

theorem bisectLeft_join (rows : List (Row Tok)) (h : RowsOk uid rows) (i : Nat) :
    bisectLeft (crPosFrom 0 rows) (i : Int) = lineNo uid (join rows) i - 1 := by
  have := bisectLeft_specFrom crKey plain_cr ((join rows).map uid) 0 i
  rw [specFrom_join uid rows h 0, Nat.zero_add] at this
  rw [this]
  unfold lineNo
  omega

/-- **get_index_of_carriage_return_before_index** for a position of row `k + 1`: the line break of row `k` -/
theorem crBefore_join (rows : List (Row Tok)) (h : RowsOk uid rows) (k j : Nat) (r0 r : Row Tok)
    (hk0 : rows[k]? = some r0) (hk : rows[k + 1]? = some r) (hj : j ≤ r.1.length) :
    (processTokens uid (join rows)).crBefore ((offs rows (k + 1) + j : Nat) : Int) =
      .ok (some ((offs rows k + r0.1.length : Nat) : Int)) := by
  have ho := offs_succ rows k r0 hk0
  have hne : rows ≠ [] := by intro e; rw [e] at hk0; simp at hk0
  unfold Index.crBefore
  have hi0 : ¬ (((offs rows (k + 1) + j : Nat) : Int) = 0) := by omega
  simp only [hi0, if_false, crsE_join uid rows h hne, bind, Except.bind]
  rw [bisectLeft_join uid rows h, lineNo_join uid rows h (k + 1) j r hk hj]
  have e1 : (((k + 1 + 1 - 1 : Nat) : Int) - 1) = ((k : Nat) : Int) := by omega
  rw [e1, pyIdx_crPos, hk0]
  simp only [Nat.zero_add]
  have hlt : ¬ (((offs rows (k + 1) + j : Nat) : Int) < ((offs rows k + r0.1.length : Nat) : Int)) := by omega
  rw [if_neg hlt]
  rfl

theorem bisectRight_eq (l : List Nat) (p : Nat) : bisectRight l (p : Int) = bisectLeft l ((p + 1 : Nat) : Int) := by
  unfold bisectRight bisectLeft
  congr 2
  funext e
  have : ((e : Int) ≤ (p : Int)) ↔ ((e : Int) < ((p + 1 : Nat) : Int)) := by omega
  simp [this]

/-- **get_index_of_carriage_return_after_index** for a position inside the content of row `m`: its line break -/
theorem crAfter_join (rows : List (Row Tok)) (h : RowsOk uid rows) (m idx : Nat) (r : Row Tok)
    (hm : rows[m]? = some r) (hidx : idx < r.1.length) :
    (processTokens uid (join rows)).crAfter ((offs rows m + idx : Nat) : Int) = .ok (offs rows m + r.1.length) := by
  have hne : rows ≠ [] := by intro e; rw [e] at hm; simp at hm
  unfold Index.crAfter
  simp only [crsE_join uid rows h hne, bind, Except.bind]
  rw [bisectRight_eq, bisectLeft_join uid rows h]
  have e1 : offs rows m + idx + 1 = offs rows m + (idx + 1) := by omega
  rw [e1, lineNo_join uid rows h m (idx + 1) r hm (by omega)]
  have hp := pyIdx_crPos rows 0 m
  rw [hm, pyIdx_nat'] at hp
  simp only [Nat.add_sub_cancel]
  cases hc : (crPosFrom 0 rows)[m]? with
  | none => rw [hc] at hp; cases hp
  | some x =>
    rw [hc] at hp
    simp only [Except.ok.injEq] at hp
    simp [hp, pure, Except.pure]

theorem plain_blank' : Plain blankKey := plain_blank

def wsLike (o : Option Tok) : Bool := isKo uid wsKey o || isKo uid crKey o || isKo uid blankKey o

theorem isWsAt_fresh (f : List Tok) (j : Nat) : (processTokens uid f).isWsAt (j : Int) = wsLike uid f[j]? := by
  unfold Index.isWsAt wsLike
  rw [isAt_eq uid f wsKey plain_ws, isAt_eq uid f crKey plain_cr, isAt_eq uid f blankKey plain_blank]

theorem scanDown_spec (p : Nat → Bool) : ∀ n : Nat,
    match Index.scanDown p n with
    | some j => 1 ≤ j ∧ j ≤ n ∧ p j = true ∧ ∀ j', j < j' → j' ≤ n → p j' = false
    | none => ∀ j', 1 ≤ j' → j' ≤ n → p j' = false
  | 0 => by simp [Index.scanDown]; intro j' h1 h2; omega
  | n + 1 => by
    unfold Index.scanDown
    by_cases hp : p (n + 1) = true
    · rw [if_pos hp]
      exact ⟨by omega, Nat.le_refl _, hp, by intro j' h1 h2; omega⟩
    · rw [if_neg hp]
      have ih := scanDown_spec p n
      cases hs : Index.scanDown p n with
      | none =>
        rw [hs] at ih
        intro j' h1 h2
        rcases Nat.lt_or_eq_of_le h2 with h3 | h3
        · exact ih j' h1 (by omega)
        · subst h3; simpa using hp
      | some j =>
        rw [hs] at ih
        obtain ⟨a, b, c, d⟩ := ih
        refine ⟨a, by omega, c, ?_⟩
        intro j' h1 h2
        rcases Nat.lt_or_eq_of_le h2 with h3 | h3
        · exact d j' h1 (by omega)
        · subst h3; simpa using hp


/-! ### the last token above that is not whitespace, row by row -/

def softTok (t : Tok) : Bool := isKo uid wsKey (some t) || isKo uid blankKey (some t)

/-- local index of the last token of a row's content that is neither whitespace nor a blank_line token -/
def lastSolid : List Tok → Option Nat
  | [] => none
  | t :: L =>
    match lastSolid L with
    | some i => some (i + 1)
    | none => if softTok uid t then none else some 0

theorem lastSolid_none (L : List Tok) (h : lastSolid uid L = none) : ∀ (i : Nat) (t : Tok), L[i]? = some t → softTok uid t = true := by
  induction L with
  | nil => intro i t ht; simp at ht
  | cons b M ih =>
    intro i t ht
    unfold lastSolid at h
    cases hlM : lastSolid uid M with
    | some x => rw [hlM] at h; cases h
    | none =>
      rw [hlM] at h
      simp only at h
      by_cases hb : softTok uid b = true
      · cases i with
        | zero => simp at ht; subst ht; exact hb
        | succ i => exact ih hlM i t (by simpa using ht)
      · simp [hb] at h

theorem lastSolid_some (L : List Tok) (idx : Nat) (h : lastSolid uid L = some idx) :
    idx < L.length ∧ (∃ t, L[idx]? = some t ∧ softTok uid t = false) ∧
      ∀ (i : Nat) (t : Tok), idx < i → L[i]? = some t → softTok uid t = true := by
  induction L generalizing idx with
  | nil => simp [lastSolid] at h
  | cons a L ih =>
    unfold lastSolid at h
    cases hl : lastSolid uid L with
    | some i =>
      rw [hl] at h
      simp only [Option.some.injEq] at h
      subst h
      obtain ⟨h1, ⟨t, ht, hs⟩, h3⟩ := ih i hl
      refine ⟨by simp; omega, ⟨t, by simpa using ht, hs⟩, ?_⟩
      intro i' t' hi' ht'
      cases i' with
      | zero => omega
      | succ i'' => exact h3 i'' t' (by omega) (by simpa using ht')
    | none =>
      rw [hl] at h
      simp only at h
      by_cases hs : softTok uid a = true
      · simp [hs] at h
      · simp only [hs, Bool.false_eq_true, if_false, Option.some.injEq] at h
        subst h
        refine ⟨by simp, ⟨a, by simp, by simpa using hs⟩, ?_⟩
        intro i' t' hi' ht'
        cases i' with
        | zero => omega
        | succ i'' =>
          exact lastSolid_none uid L hl i'' t' (by simpa using ht')


def lastSolidAt (rows : List (Row Tok)) (k : Nat) : Option Nat :=
  match rows[k]? with
  | some r => lastSolid uid r.1
  | none => none

/-- row and local index of the token `get_index_of_previous_non_whitespace_token_before_index` finds when it starts at
    the line break of row `k`; the loop `range(iIndex - 1, 0, -1)` never looks at position 0 of the file -/
def anchorOf (rows : List (Row Tok)) : Nat → Option (Nat × Nat)
  | 0 =>
    match lastSolidAt uid rows 0 with
    | some idx => if 1 ≤ idx then some (0, idx) else none
    | none => none
  | k + 1 =>
    match lastSolidAt uid rows (k + 1) with
    | some idx => some (k + 1, idx)
    | none => anchorOf rows k

theorem offs_pos' (rows : List (Row Tok)) (m : Nat) (hm : m + 1 ≤ rows.length) : 1 ≤ offs rows (m + 1) := by
  have := offs_succ rows m rows[m] (List.getElem?_eq_getElem (by omega))
  omega

theorem anchorOf_some (rows : List (Row Tok)) : ∀ (k m idx : Nat), k < rows.length → anchorOf uid rows k = some (m, idx) →
    m ≤ k ∧ lastSolidAt uid rows m = some idx ∧ 1 ≤ offs rows m + idx ∧
      ∀ k', m < k' → k' ≤ k → lastSolidAt uid rows k' = none
  | 0, m, idx, _, h => by
    unfold anchorOf at h
    cases hl : lastSolidAt uid rows 0 with
    | none => rw [hl] at h; cases h
    | some i =>
      rw [hl] at h
      simp only at h
      by_cases h1 : 1 ≤ i
      · simp only [h1, if_true, Option.some.injEq, Prod.mk.injEq] at h
        obtain ⟨rfl, rfl⟩ := h
        exact ⟨Nat.le_refl _, hl, by omega, by intro k' a b; omega⟩
      · simp [h1] at h
  | k + 1, m, idx, hk, h => by
    unfold anchorOf at h
    cases hl : lastSolidAt uid rows (k + 1) with
    | some i =>
      rw [hl] at h
      simp only [Option.some.injEq, Prod.mk.injEq] at h
      obtain ⟨rfl, rfl⟩ := h
      exact ⟨Nat.le_refl _, hl, by have := offs_pos' rows k (by omega); omega, by intro k' a b; omega⟩
    | none =>
      rw [hl] at h
      simp only at h
      obtain ⟨a, b, c, d⟩ := anchorOf_some rows k m idx (by omega) h
      refine ⟨by omega, b, c, ?_⟩
      intro k' h1 h2
      rcases Nat.lt_or_eq_of_le h2 with h3 | h3
      · exact d k' h1 (by omega)
      · subst h3; exact hl

theorem anchorOf_none (rows : List (Row Tok)) : ∀ (k : Nat), anchorOf uid rows k = none →
    ∀ k', k' ≤ k → lastSolidAt uid rows k' = none ∨ (k' = 0 ∧ lastSolidAt uid rows 0 = some 0)
  | 0, h => by
    intro k' hk'
    have : k' = 0 := by omega
    subst this
    unfold anchorOf at h
    cases hl : lastSolidAt uid rows 0 with
    | none => exact Or.inl rfl
    | some i =>
      rw [hl] at h
      simp only at h
      by_cases h1 : 1 ≤ i
      · simp [h1] at h
      · have : i = 0 := by omega
        subst this
        exact Or.inr ⟨rfl, rfl⟩
  | k + 1, h => by
    intro k' hk'
    unfold anchorOf at h
    cases hl : lastSolidAt uid rows (k + 1) with
    | some i => rw [hl] at h; cases h
    | none =>
      rw [hl] at h
      simp only at h
      rcases Nat.lt_or_eq_of_le hk' with h3 | h3
      · exact anchorOf_none rows k h k' (by omega)
      · subst h3; exact Or.inl hl

theorem scanDown_eq_some (p : Nat → Bool) (n j0 : Nat) (h1 : 1 ≤ j0) (h2 : j0 ≤ n) (h3 : p j0 = true)
    (h4 : ∀ j', j0 < j' → j' ≤ n → p j' = false) : Index.scanDown p n = some j0 := by
  have hs := scanDown_spec p n
  cases hr : Index.scanDown p n with
  | none =>
    rw [hr] at hs
    have := hs j0 h1 h2
    rw [h3] at this; cases this
  | some j =>
    rw [hr] at hs
    obtain ⟨a, b, c, d⟩ := hs
    rcases Nat.lt_trichotomy j j0 with h | h | h
    · have := d j0 h h2; rw [h3] at this; cases this
    · rw [h]
    · have := h4 j h b; rw [c] at this; cases this

theorem scanDown_eq_none (p : Nat → Bool) (n : Nat) (h : ∀ j', 1 ≤ j' → j' ≤ n → p j' = false) : Index.scanDown p n = none := by
  have hs := scanDown_spec p n
  cases hr : Index.scanDown p n with
  | none => rfl
  | some j =>
    rw [hr] at hs
    obtain ⟨a, b, c, _⟩ := hs
    have := h j a b; rw [c] at this; cases this

/-- a position of the file that is a line break, or a soft token of a row's content, is whitespace for the search -/
theorem wsLike_pos (rows : List (Row Tok)) (h : RowsOk uid rows) (k' jj : Nat) (r : Row Tok) (hk : rows[k']? = some r)
    (hjj : jj ≤ r.1.length) (hs : ∀ t, r.1[jj]? = some t → softTok uid t = true) :
    wsLike uid (join rows)[offs rows k' + jj]? = true := by
  rw [getElem_join rows k' jj r hk hjj]
  rcases Nat.lt_or_eq_of_le hjj with h1 | h1
  · rw [List.getElem?_append_left h1, List.getElem?_eq_getElem h1]
    have := hs r.1[jj] (List.getElem?_eq_getElem h1)
    unfold softTok at this
    unfold wsLike
    rw [Bool.or_eq_true] at this
    rcases this with h2 | h2
    · simp [h2]
    · simp [h2]
  · rw [h1, List.getElem?_append_right (Nat.le_refl _)]
    simp only [Nat.sub_self, List.getElem?_cons_zero]
    unfold wsLike isKo
    simp [h.cr r (List.mem_of_getElem? hk)]


theorem row_of_pos_le (rows : List (Row Tok)) (k k' jj : Nat) (r r' : Row Tok) (hk : rows[k]? = some r) (hk' : rows[k']? = some r')
    (hjj : jj ≤ r'.1.length) (hle : offs rows k' + jj < offs rows k + r.1.length) : k' ≤ k := by
  rcases Nat.lt_or_ge k k' with h | h
  · exfalso
    have hkl : k' < rows.length := by
      rcases Nat.lt_or_ge k' rows.length with h' | h'
      · exact h'
      · rw [List.getElem?_eq_none h'] at hk'; cases hk'
    have h1 := offs_succ rows k r hk
    have h2 := offs_mono rows (k + 1) k' (by omega) (by omega)
    omega
  · exact h

theorem row_of_pos_ge (rows : List (Row Tok)) (m k' jj : Nat) (r' : Row Tok) (hk' : rows[k']? = some r')
    (hjj : jj ≤ r'.1.length) (hm : m ≤ rows.length) (hgt : offs rows m ≤ offs rows k' + jj) : m ≤ k' := by
  rcases Nat.lt_or_ge k' m with h | h
  · exfalso
    have h1 := offs_succ rows k' r' hk'
    have h2 := offs_mono rows (k' + 1) m (by omega) hm
    omega
  · exact h

/-- **get_index_of_previous_non_whitespace_token_before_index**, started at the line break of row `k` -/
theorem prevNonWs_join (rows : List (Row Tok)) (h : RowsOk uid rows) (k : Nat) (r : Row Tok) (hk : rows[k]? = some r) :
    (processTokens uid (join rows)).prevNonWsBefore ((offs rows k + r.1.length : Nat) : Int) =
      (anchorOf uid rows k).map fun a => offs rows a.1 + a.2 := by
  have hkl : k < rows.length := by
    rcases Nat.lt_or_ge k rows.length with h' | h'
    · exact h'
    · rw [List.getElem?_eq_none h'] at hk; cases hk
  unfold Index.prevNonWsBefore
  have e0 : (((offs rows k + r.1.length : Nat) : Int) - 1).toNat = offs rows k + r.1.length - 1 := by omega
  rw [e0]
  have hflen : (join rows).length = offs rows rows.length := join_length rows
  have hend := offs_succ rows k r hk
  have hmono := offs_mono rows (k + 1) rows.length (by omega) (Nat.le_refl _)
  -- every position up to the line break of row k, classified
  have hsoft : ∀ j', j' ≤ offs rows k + r.1.length - 1 → 1 ≤ j' →
      (∀ k' jj r', rows[k']? = some r' → jj ≤ r'.1.length → j' = offs rows k' + jj → k' ≤ k →
        (∀ t, r'.1[jj]? = some t → softTok uid t = true)) →
      (!(processTokens uid (join rows)).isWsAt (j' : Int)) = false := by
    intro j' hj' _ hcls
    obtain ⟨k', jj, r', hk', hjj, rfl⟩ := pos_decomp rows j' (by omega)
    rw [isWsAt_fresh, wsLike_pos uid rows h k' jj r' hk' hjj
      (hcls k' jj r' hk' hjj rfl (row_of_pos_le rows k k' jj r r' hk hk' hjj (by omega)))]
    rfl
  cases ha : anchorOf uid rows k with
  | none =>
    simp only [Option.map_none]
    apply scanDown_eq_none
    intro j' h1 h2
    apply hsoft j' h2 h1
    intro k' jj r' hk' hjj he hle t ht
    rcases anchorOf_none uid rows k ha k' hle with hn | ⟨h0, hz⟩
    · unfold lastSolidAt at hn; rw [hk'] at hn
      exact lastSolid_none uid r'.1 hn jj t ht
    · subst h0
      unfold lastSolidAt at hz; rw [hk'] at hz
      obtain ⟨_, _, h3⟩ := lastSolid_some uid r'.1 0 hz
      have ho : offs rows 0 = 0 := by cases rows <;> rfl
      exact h3 jj t (by omega) ht
  | some a =>
    obtain ⟨m, idx⟩ := a
    obtain ⟨hmk, hls, hpos, hbetween⟩ := anchorOf_some uid rows k m idx hkl ha
    simp only [Option.map_some]
    have hrm : rows[m]? = some rows[m] := List.getElem?_eq_getElem (by omega)
    unfold lastSolidAt at hls; rw [hrm] at hls
    obtain ⟨hidx, ⟨t0, ht0, hs0⟩, hafter⟩ := lastSolid_some uid rows[m].1 idx hls
    have hmono2 := offs_mono rows m k hmk (by omega)
    have hsm := offs_succ rows m rows[m] hrm
    have hmk2 : offs rows m + rows[m].1.length ≤ offs rows k + r.1.length := by
      rcases Nat.lt_or_eq_of_le hmk with h1 | h1
      · have := offs_mono rows (m + 1) k (by omega) (by omega); omega
      · subst h1
        have e : r = rows[m] := by rw [hrm] at hk; exact (Option.some.inj hk).symm
        rw [e]; exact Nat.le_refl _
    apply scanDown_eq_some
    · exact hpos
    · omega
    · rw [isWsAt_fresh, getElem_join rows m idx rows[m] hrm (Nat.le_of_lt hidx), List.getElem?_append_left hidx, ht0]
      unfold wsLike isKo
      unfold softTok isKo at hs0
      have hncr := h.nocr rows[m] (List.getElem_mem _) t0 (List.mem_of_getElem? ht0)
      simp only [Bool.or_eq_false_iff] at hs0
      simp [hs0.1, hs0.2, hncr]
    · intro j' hgt hle
      apply hsoft j' hle (by omega)
      intro k' jj r' hk' hjj he hkle t ht
      have hge : m ≤ k' := row_of_pos_ge rows m k' jj r' hk' hjj (by omega) (by omega)
      rcases Nat.lt_or_eq_of_le hge with h1 | h1
      · have := hbetween k' h1 hkle
        unfold lastSolidAt at this; rw [hk'] at this
        exact lastSolid_none uid r'.1 this jj t ht
      · subst h1
        have e : r' = rows[m] := by rw [hrm] at hk'; exact (Option.some.inj hk').symm
        rw [e] at ht
        exact hafter jj t (by omega) ht


/-- the region `get_all_blank_lines_above_indexes` cuts for a start-of-line candidate of row `k + 1`: from the line break
    of the anchor row `m` (inclusive) to the line break of row `k` (exclusive) — nothing if the anchor is row `k` itself or
    there is no anchor -/
def regionAN (rows : List (Row Tok)) (k : Nat) : Option (Toi Tok) :=
  match anchorOf uid rows k, rows[k]? with
  | some (m, _), some r =>
    if m = k then none
    else
      let s := offs rows m + ((rows[m]?).map (·.1.length)).getD 0
      some { start := some ((s : Nat) : Int), line := k + 2,
             toks := pySlice (join rows) ((s : Nat) : Int) ((offs rows k + r.1.length : Nat) : Int) }
  | _, _ => none

/-- **one iteration of utils.get_all_blank_lines_above_indexes** for a start-of-line candidate of row `k + 1` -/
theorem blankAboveBody_join (rows : List (Row Tok)) (h : RowsOk uid rows) (k j : Nat) (r0 r : Row Tok)
    (hk0 : rows[k]? = some r0) (hk : rows[k + 1]? = some r) (hj : j ≤ r.1.length) :
    blankAboveBody (join rows) (processTokens uid (join rows)) (offs rows (k + 1) + j) = .ok (regionAN uid rows k) := by
  have hkl : k < rows.length := by
    rcases Nat.lt_or_ge k rows.length with h' | h'
    · exact h'
    · rw [List.getElem?_eq_none h'] at hk0; cases hk0
  unfold blankAboveBody
  rw [Affix.lineOf_ok uid (join rows) (hasCr_of_row uid rows h k r0 hk0), lineNo_join uid rows h (k + 1) j r hk hj,
    crBefore_join uid rows h k j r0 r hk0 hk hj]
  simp only [bind, Except.bind]
  rw [prevNonWs_join uid rows h k r0 hk0]
  unfold regionAN
  rw [hk0]
  cases ha : anchorOf uid rows k with
  | none => rfl
  | some a =>
    obtain ⟨m, idx⟩ := a
    obtain ⟨hmk, hls, _, _⟩ := anchorOf_some uid rows k m idx hkl ha
    have hrm : rows[m]? = some rows[m] := List.getElem?_eq_getElem (by omega)
    unfold lastSolidAt at hls; rw [hrm] at hls
    obtain ⟨hidx, _, _⟩ := lastSolid_some uid rows[m].1 idx hls
    simp only [Option.map_some]
    rw [crAfter_join uid rows h m idx rows[m] hrm hidx]
    simp only [hrm, Option.map_some, Option.getD_some]
    by_cases hmk' : m = k
    · subst hmk'
      have e : r0 = rows[m] := by rw [hrm] at hk0; exact (Option.some.inj hk0).symm
      subst e
      simp [pure, Except.pure]
    · have hlt : m < k := by omega
      have h1 := offs_succ rows m rows[m] hrm
      have h2 := offs_mono rows (m + 1) k (by omega) (by omega)
      have hne : (((offs rows m + rows[m].1.length : Nat) : Int) != ((offs rows k + r0.1.length : Nat) : Int)) = true := by
        simp; omega
      simp only [hne, if_true, hmk', if_false, pure, Except.pure]


/-! ### the regions of the whole file -/

variable (cs : List Cls)

theorem lineListA_join (rows : List (Row Tok)) (h : RowsOk uid rows) (hcs : CsOk cs) :
    (solIdxs (processTokens uid (join rows)) cs).map (lineNo uid (join rows)) = trigLinesA uid cs rows := by
  have hdec : ∀ i ∈ solIdxs (processTokens uid (join rows)) cs, ∃ k j r, rows[k + 1]? = some r ∧ j < r.1.length ∧
      bolIdx uid cs r = some j ∧ i = offs rows (k + 1) + j ∧ lineNo uid (join rows) i = k + 2 := by
    intro i hi
    obtain ⟨k, r, j, hk, hj, rfl⟩ := (mem_solIdxs uid cs rows h hcs i).mp hi
    have hjl := bolIdx_lt uid cs r j hj
    exact ⟨k, j, r, hk, hjl, hj, rfl, lineNo_join uid rows h (k + 1) j r hk (Nat.le_of_lt hjl)⟩
  apply eq_of_strict_of_mem
  · rw [List.pairwise_map]
    refine (solIdxs_sorted uid cs (join rows) hcs).imp_of_mem ?_
    intro a b ha hb hab
    obtain ⟨k, j, r, hk, hj, hbi, rfl, hl⟩ := hdec a ha
    obtain ⟨k', j', r', hk', hj', hbi', rfl, hl'⟩ := hdec b hb
    rw [hl, hl']
    have hne : k ≠ k' := by
      intro e
      subst e
      rw [hk] at hk'; cases hk'
      rw [hbi] at hbi'; cases hbi'
      omega
    have hkl : k + 1 < rows.length := by
      rcases Nat.lt_or_ge (k + 1) rows.length with h' | h'
      · exact h'
      · rw [List.getElem?_eq_none h'] at hk; cases hk
    rcases Nat.lt_or_ge k k' with h1 | h1
    · omega
    · exfalso
      have h2 : k' < k := by omega
      have := offs_succ rows (k' + 1) r' hk'
      have := offs_mono rows (k' + 1 + 1) (k + 1) (by omega) (by omega)
      omega
  · unfold trigLinesA
    rw [List.pairwise_map]
    exact (List.pairwise_lt_range.filter _).imp (by intro a b hab; omega)
  · intro l
    have := (lineNumbersA_join uid cs rows h hcs).2
    rw [← this]
    unfold sortNat
    rw [List.mem_mergeSort]

/-- **get_blank_lines_above_line_starting_with_token on a file of rows** -/
theorem blankAbove_join (rows : List (Row Tok)) (h : RowsOk uid rows) (hcs : CsOk cs) :
    blankLinesAboveLineStartingWith (join rows) (processTokens uid (join rows)) cs =
      .ok (((List.range rows.length).filter (nextTrigAt uid cs rows)).filterMap (regionAN uid rows)) := by
  unfold blankLinesAboveLineStartingWith
  have hb : ∀ i ∈ solIdxs (processTokens uid (join rows)) cs,
      blankAboveBody (join rows) (processTokens uid (join rows)) i = .ok (regionAN uid rows (lineNo uid (join rows) i - 2)) := by
    intro i hi
    obtain ⟨k, r, j, hk, hj, rfl⟩ := (mem_solIdxs uid cs rows h hcs i).mp hi
    have hjl := bolIdx_lt uid cs r j hj
    have hkl : k + 1 < rows.length := by
      rcases Nat.lt_or_ge (k + 1) rows.length with h' | h'
      · exact h'
      · rw [List.getElem?_eq_none h'] at hk; cases hk
    have hk0 : rows[k]? = some rows[k] := List.getElem?_eq_getElem (by omega)
    rw [blankAboveBody_join uid rows h k j rows[k] r hk0 hk (Nat.le_of_lt hjl),
      lineNo_join uid rows h (k + 1) j r hk (Nat.le_of_lt hjl)]
    rfl
  rw [filterMapE_ok _ _ _ hb]
  congr 1
  have e : (solIdxs (processTokens uid (join rows)) cs).filterMap (fun i => regionAN uid rows (lineNo uid (join rows) i - 2)) =
      ((solIdxs (processTokens uid (join rows)) cs).map (lineNo uid (join rows))).filterMap (fun l => regionAN uid rows (l - 2)) := by
    rw [List.filterMap_map]; rfl
  rw [e, lineListA_join uid cs rows h hcs]
  unfold trigLinesA
  rw [List.filterMap_map]
  rfl


/-! ### the analysis (range form) -/

variable (inst : Tok → Nat → Bool) (P : Params)

/-- blank_line_above_line_starting_with_token or previous_line, style no_blank_line -/
structure AboveNoBlank : Prop where
  fam : P.family = .above ∨ P.family = .previous
  style : P.style = sNoBlank

theorem sNoBlank_ne_sRequireComment : (sNoBlank == sRequireComment) = false := by decide

/-- position of the line break of row `j` -/
def crpos (rows : List (Row Tok)) (j : Nat) : Nat := offs rows j + ((rows[j]?).map (·.1.length)).getD 0

def violAN (rows : List (Row Tok)) (m k : Nat) : Viol :=
  { line := k + 2, start := crpos rows m,
    toks := pySlice (join rows) ((crpos rows m : Nat) : Int) ((crpos rows k : Nat) : Int), act := Act.remove.code }

def gAN (rows : List (Row Tok)) (k : Nat) : Option Viol :=
  match anchorOf uid rows k with
  | some (m, _) => if m = k then none else some (violAN rows m k)
  | none => none

theorem analyzeAN_join (hP : AboveNoBlank P) (hO : HOracle) (rows : List (Row Tok)) (h : RowsOk uid rows) (hcs : CsOk P.cs) :
    (sem uid inst P hO).analyze (join rows) =
      ((List.range rows.length).filter (nextTrigAt uid P.cs rows)).filterMap (gAN uid rows) := by
  unfold sem
  simp only
  unfold analyzeE analyzeWith
  have htois : toisWith P (hierAt uid hO (join rows)) (join rows) (processTokens uid (join rows)) =
      .ok (ones (((List.range rows.length).filter (nextTrigAt uid P.cs rows)).filterMap (regionAN uid rows))) := by
    unfold toisWith
    rcases hP.fam with hf | hf
    · rw [hf]
      simp only [hP.style, sNoBlank_ne_sRequire, Bool.false_eq_true, if_false, beq_self_eq_true, if_true,
        blankAbove_join uid P.cs rows h hcs, bind, Except.bind, pure, Except.pure]
    · rw [hf]
      simp only [hP.style, sNoBlank_ne_sRequireComment, Bool.false_eq_true, if_false, beq_self_eq_true, if_true,
        blankAbove_join uid P.cs rows h hcs, bind, Except.bind, pure, Except.pure]
  rw [htois]
  simp only
  unfold analyzeRegions
  have hj : ∀ r ∈ ones (((List.range rows.length).filter (nextTrigAt uid P.cs rows)).filterMap (regionAN uid rows)),
      judge inst P r = .ok (match r with
        | .one (some t) => some ({ line := t.line, start := (t.start.getD 0).toNat, toks := t.toks, act := Act.remove.code }, solRemove)
        | _ => none) := by
    intro r hr
    unfold ones at hr
    obtain ⟨t, ht, rfl⟩ := List.mem_map.mp hr
    obtain ⟨k, _, hk⟩ := List.mem_filterMap.mp ht
    have hst : ∃ s : Nat, t.start = some ((s : Nat) : Int) := by
      unfold regionAN at hk
      split at hk
      · split at hk
        · cases hk
        · simp only [Option.some.injEq] at hk; subst hk; exact ⟨_, rfl⟩
      · cases hk
    obtain ⟨s0, hs0⟩ := hst
    unfold judge
    rcases hP.fam with hf | hf
    · rw [hf]
      simp only [hP.style, sNoBlank_ne_sRequire, Bool.false_eq_true, if_false, beq_self_eq_true, if_true, judgeNoBlank, mkViol, hs0,
        pure, Except.pure]
      rfl
    · rw [hf]
      simp only [hP.style, beq_self_eq_true, if_true, judgeNoBlank, mkViol, hs0, pure, Except.pure]
      rfl
  rw [filterMapE_ok _ _ _ hj]
  simp only
  unfold ones
  rw [List.map_filterMap, List.filterMap_map, List.filterMap_filterMap]
  apply filterMap_ext_mem
  intro k hk
  rw [List.mem_filter, List.mem_range] at hk
  have hr : rows[k]? = some rows[k] := List.getElem?_eq_getElem hk.1
  simp only [Function.comp, gAN, regionAN, hr, violAN, crpos]
  cases ha : anchorOf uid rows k with
  | none => rfl
  | some a =>
    obtain ⟨m, idx⟩ := a
    simp only
    by_cases hmk : m = k
    · simp [hmk]
    · simp only [hmk, if_false, Option.bind_some, Option.getD_some, Option.map_some]
      show some _ = some _
      simp only [Option.getD_some, Int.toNat_natCast]


/-! ### soft runs, forward form -/

def softRow (r : Row Tok) : Bool := (lastSolid uid r.1).isNone

def softAt (rows : List (Row Tok)) (j : Nat) : Bool :=
  match rows[j]? with
  | some r => softRow uid r
  | none => false

theorem softAt_iff (rows : List (Row Tok)) (j : Nat) (hj : j < rows.length) :
    softAt uid rows j = true ↔ lastSolidAt uid rows j = none := by
  unfold softAt lastSolidAt softRow
  rw [List.getElem?_eq_getElem hj]
  simp

def runLenS (rows : List (Row Tok)) (j : Nat) : Nat := ((rows.drop j).takeWhile (softRow uid)).length

theorem runLenS_step (rows : List (Row Tok)) (j : Nat) :
    runLenS uid rows j = if softAt uid rows j then runLenS uid rows (j + 1) + 1 else 0 := by
  unfold runLenS softAt
  rcases Nat.lt_or_ge j rows.length with hm | hm
  · rw [List.drop_eq_getElem_cons hm, List.takeWhile_cons, List.getElem?_eq_getElem hm]
    simp only
    split <;> simp
  · rw [List.drop_eq_nil_of_le hm, List.getElem?_eq_none hm]
    simp

theorem runLenS_soft (rows : List (Row Tok)) : ∀ (t j : Nat), runLenS uid rows j = t →
    (∀ i, i < t → softAt uid rows (j + i) = true) ∧ softAt uid rows (j + t) = false
  | 0, j, h => by
    refine ⟨by intro i hi; omega, ?_⟩
    rw [runLenS_step] at h
    by_cases hs : softAt uid rows j = true
    · simp [hs] at h
    · simpa using hs
  | t + 1, j, h => by
    rw [runLenS_step] at h
    by_cases hs : softAt uid rows j = true
    · simp only [hs, if_true, Nat.add_right_cancel_iff] at h
      obtain ⟨h1, h2⟩ := runLenS_soft rows t (j + 1) h
      constructor
      · intro i hi
        cases i with
        | zero => exact hs
        | succ i => have := h1 i (by omega); rwa [show j + 1 + i = j + (i + 1) by omega] at this
      · rwa [show j + 1 + t = j + (t + 1) by omega] at h2
    · simp [hs] at h

theorem runLenS_of (rows : List (Row Tok)) : ∀ (t j : Nat), (∀ i, i < t → softAt uid rows (j + i) = true) →
    softAt uid rows (j + t) = false → runLenS uid rows j = t
  | 0, j, _, h2 => by
    rw [runLenS_step]; simp at h2; simp [h2]
  | t + 1, j, h1, h2 => by
    have h0 : softAt uid rows j = true := by have := h1 0 (by omega); simpa using this
    rw [runLenS_step, h0]
    simp only [if_true, Nat.add_right_cancel_iff]
    apply runLenS_of rows t (j + 1)
    · intro i hi; have := h1 (i + 1) (by omega); rwa [show j + (i + 1) = j + 1 + i by omega] at this
    · rwa [show j + (t + 1) = j + 1 + t by omega] at h2

/-- the anchor of row `k` is row `m` as soon as rows `m+1 … k` are soft and row `m` has a solid token at a position ≥ 1 -/
theorem anchorOf_of (rows : List (Row Tok)) (m idx : Nat) (hls : lastSolidAt uid rows m = some idx)
    (hpos : 1 ≤ offs rows m + idx) : ∀ (d : Nat), (∀ i, 1 ≤ i → i ≤ d → lastSolidAt uid rows (m + i) = none) →
      anchorOf uid rows (m + d) = some (m, idx)
  | 0, _ => by
    cases m with
    | zero =>
      unfold anchorOf
      rw [hls]
      have ho : offs rows 0 = 0 := by cases rows <;> rfl
      have : 1 ≤ idx := by omega
      simp [this]
    | succ m' => unfold anchorOf; rw [hls]
  | d + 1, h => by
    have := anchorOf_of rows m idx hls hpos d (fun i h1 h2 => h i h1 (by omega))
    rw [show m + (d + 1) = (m + d) + 1 by omega]
    unfold anchorOf
    rw [show m + d + 1 = m + (d + 1) by omega, h (d + 1) (by omega) (Nat.le_refl _)]
    exact this


theorem eq_of_start_sorted : ∀ (a b : List Viol), a.Pairwise (fun x y => x.start < y.start) →
    b.Pairwise (fun x y => x.start < y.start) → (∀ v, v ∈ a ↔ v ∈ b) → a = b
  | [], [], _, _, _ => rfl
  | [], y :: b, _, _, h => by have := (h y).mpr (List.mem_cons_self ..); cases this
  | x :: a, [], _, _, h => by have := (h x).mp (List.mem_cons_self ..); cases this
  | x :: a, y :: b, ha, hb, h => by
    rw [List.pairwise_cons] at ha hb
    have hxy : x = y := by
      have h1 := (h x).mp (List.mem_cons_self ..)
      have h2 := (h y).mpr (List.mem_cons_self ..)
      rw [List.mem_cons] at h1 h2
      rcases h1 with h1 | h1
      · exact h1
      · rcases h2 with h2 | h2
        · exact h2.symm
        · have := hb.1 x h1; have := ha.1 y h2; omega
    subst hxy
    congr 1
    apply eq_of_start_sorted a b ha.2 hb.2
    intro z
    constructor
    · intro hz
      have := (h z).mp (List.mem_cons_of_mem _ hz)
      rw [List.mem_cons] at this
      rcases this with e | e
      · subst e; have := ha.1 z hz; omega
      · exact e
    · intro hz
      have := (h z).mpr (List.mem_cons_of_mem _ hz)
      rw [List.mem_cons] at this
      rcases this with e | e
      · subst e; have := hb.1 z hz; omega
      · exact e

theorem crpos_lt (rows : List (Row Tok)) (j j' : Nat) (h : j < j') (hj' : j' < rows.length) : crpos rows j < crpos rows j' := by
  unfold crpos
  have hj : rows[j]? = some rows[j] := List.getElem?_eq_getElem (by omega)
  have h1 := offs_succ rows j rows[j] hj
  have h2 := offs_mono rows (j + 1) j' (by omega) (by omega)
  simp only [hj, Option.map_some, Option.getD_some]
  omega

/-- a row that starts with a listed token holds a solid token (the listed token itself: not whitespace by `CsOk`; the
    guard says it is no blank_line token either) -/
def TrigSolid (rows : List (Row Tok)) : Prop := ∀ r ∈ rows, bolTrig uid P.cs r = true → softRow uid r = false

theorem anchorOf_ge (rows : List (Row Tok)) (j0 : Nat) (hj0 : 1 ≤ j0) (hs : softAt uid rows j0 = false) (hl : j0 < rows.length) :
    ∀ d, j0 + d < rows.length → ∃ m idx, anchorOf uid rows (j0 + d) = some (m, idx) ∧ j0 ≤ m
  | 0, _ => by
    have hne : lastSolidAt uid rows j0 ≠ none := by
      intro e; rw [(softAt_iff uid rows j0 hl).mpr e] at hs; cases hs
    cases hls : lastSolidAt uid rows j0 with
    | none => exact absurd hls hne
    | some idx =>
      obtain ⟨j1, rfl⟩ : ∃ j1, j0 = j1 + 1 := ⟨j0 - 1, by omega⟩
      refine ⟨j1 + 1, idx, ?_, Nat.le_refl _⟩
      show anchorOf uid rows (j1 + 1) = _
      unfold anchorOf; rw [hls]
  | d + 1, hd => by
    obtain ⟨m, idx, ha, hm⟩ := anchorOf_ge rows j0 hj0 hs hl d (by omega)
    rw [show j0 + (d + 1) = (j0 + d) + 1 by omega]
    unfold anchorOf
    cases hls : lastSolidAt uid rows (j0 + d + 1) with
    | some i => exact ⟨j0 + d + 1, i, rfl, by omega⟩
    | none => exact ⟨m, idx, ha, hm⟩

def reportAt (rows : List (Row Tok)) (m : Nat) : Bool :=
  match lastSolidAt uid rows m with
  | some idx => decide (1 ≤ offs rows m + idx)
  | none => false

def hitF (rows : List (Row Tok)) (m : Nat) : Bool :=
  reportAt uid rows m && decide (1 ≤ runLenS uid rows (m + 1)) && nextTrigAt uid P.cs rows (m + runLenS uid rows (m + 1))

def fwdG (rows : List (Row Tok)) (m : Nat) : Option Viol :=
  if hitF uid P rows m then some (violAN rows m (m + runLenS uid rows (m + 1))) else none

theorem violAN_start (rows : List (Row Tok)) (m k : Nat) : (violAN rows m k).start = crpos rows m := rfl

/-- **the analysis, indexed by the anchor row instead of the trigger row** -/
theorem range_eq_fwd (rows : List (Row Tok)) (hts : TrigSolid uid P rows) :
    ((List.range rows.length).filter (nextTrigAt uid P.cs rows)).filterMap (gAN uid rows) =
      (List.range rows.length).filterMap (fwdG uid P rows) := by
  have htrig_solid : ∀ k, nextTrigAt uid P.cs rows k = true → k + 1 < rows.length ∧ softAt uid rows (k + 1) = false := by
    intro k hk
    unfold nextTrigAt at hk
    cases hr : rows[k + 1]? with
    | none => rw [hr] at hk; cases hk
    | some r =>
      rw [hr] at hk
      have hkl : k + 1 < rows.length := by
        rcases Nat.lt_or_ge (k + 1) rows.length with h' | h'
        · exact h'
        · rw [List.getElem?_eq_none h'] at hr; cases hr
      refine ⟨hkl, ?_⟩
      unfold softAt; rw [hr]
      exact hts r (List.mem_of_getElem? hr) hk
  -- membership on the left
  have hL : ∀ v, v ∈ ((List.range rows.length).filter (nextTrigAt uid P.cs rows)).filterMap (gAN uid rows) ↔
      ∃ k m idx, k < rows.length ∧ nextTrigAt uid P.cs rows k = true ∧ anchorOf uid rows k = some (m, idx) ∧ m ≠ k ∧
        v = violAN rows m k := by
    intro v
    rw [List.mem_filterMap]
    constructor
    · rintro ⟨k, hk, hg⟩
      rw [List.mem_filter, List.mem_range] at hk
      unfold gAN at hg
      cases ha : anchorOf uid rows k with
      | none => rw [ha] at hg; cases hg
      | some a =>
        obtain ⟨m, idx⟩ := a
        rw [ha] at hg
        simp only at hg
        by_cases hmk : m = k
        · simp [hmk] at hg
        · simp only [hmk, if_false, Option.some.injEq] at hg
          exact ⟨k, m, idx, hk.1, hk.2, ha, hmk, hg.symm⟩
    · rintro ⟨k, m, idx, hk, ht, ha, hmk, rfl⟩
      refine ⟨k, by rw [List.mem_filter, List.mem_range]; exact ⟨hk, ht⟩, ?_⟩
      unfold gAN; rw [ha]; simp [hmk]
  have hR : ∀ v, v ∈ (List.range rows.length).filterMap (fwdG uid P rows) ↔
      ∃ m, m < rows.length ∧ hitF uid P rows m = true ∧ v = violAN rows m (m + runLenS uid rows (m + 1)) := by
    intro v
    rw [List.mem_filterMap]
    constructor
    · rintro ⟨m, hm, hg⟩
      rw [List.mem_range] at hm
      unfold fwdG at hg
      by_cases hh : hitF uid P rows m = true
      · simp only [hh, if_true, Option.some.injEq] at hg
        exact ⟨m, hm, hh, hg.symm⟩
      · simp [hh] at hg
    · rintro ⟨m, hm, hh, rfl⟩
      exact ⟨m, by rw [List.mem_range]; exact hm, by unfold fwdG; simp [hh]⟩
  -- the two descriptions coincide
  have hLR : ∀ k m idx, k < rows.length → nextTrigAt uid P.cs rows k = true → anchorOf uid rows k = some (m, idx) → m ≠ k →
      hitF uid P rows m = true ∧ m + runLenS uid rows (m + 1) = k := by
    intro k m idx hk ht ha hmk
    obtain ⟨hmk', hls, hpos, hbetween⟩ := anchorOf_some uid rows k m idx hk ha
    obtain ⟨hk1, hsolid⟩ := htrig_solid k ht
    have hrun : runLenS uid rows (m + 1) = k - m := by
      apply runLenS_of
      · intro i hi
        rw [softAt_iff uid rows _ (by omega)]
        exact hbetween (m + 1 + i) (by omega) (by omega)
      · rw [show m + 1 + (k - m) = k + 1 by omega]; exact hsolid
    refine ⟨?_, by omega⟩
    unfold hitF reportAt
    rw [hls, hrun, show m + (k - m) = k by omega, ht]
    have : 1 ≤ k - m := by omega
    simp [hpos, this]
  have hRL : ∀ m, m < rows.length → hitF uid P rows m = true →
      ∃ idx, nextTrigAt uid P.cs rows (m + runLenS uid rows (m + 1)) = true ∧
        anchorOf uid rows (m + runLenS uid rows (m + 1)) = some (m, idx) ∧ m ≠ m + runLenS uid rows (m + 1) ∧
        m + runLenS uid rows (m + 1) < rows.length := by
    intro m hm hh
    unfold hitF reportAt at hh
    cases hls : lastSolidAt uid rows m with
    | none => rw [hls] at hh; simp at hh
    | some idx =>
      rw [hls] at hh
      simp only [Bool.and_eq_true, decide_eq_true_eq] at hh
      obtain ⟨⟨hpos, hrun1⟩, ht⟩ := hh
      obtain ⟨hk1, _⟩ := htrig_solid _ ht
      obtain ⟨hsoft, _⟩ := runLenS_soft uid rows (runLenS uid rows (m + 1)) (m + 1) rfl
      refine ⟨idx, ht, ?_, by omega, by omega⟩
      apply anchorOf_of uid rows m idx hls hpos
      intro i h1 h2
      have := hsoft (i - 1) (by omega)
      rw [show m + 1 + (i - 1) = m + i by omega] at this
      exact (softAt_iff uid rows (m + i) (by omega)).mp this
  apply eq_of_start_sorted
  · -- sorted by start: later triggers have later anchors
    rw [List.filterMap_filter]
    refine List.Pairwise.filterMap _ ?_ (List.pairwise_lt_range (n := rows.length))
    intro k k' hkk v hv v' hv'
    by_cases ht : nextTrigAt uid P.cs rows k = true
    · by_cases ht' : nextTrigAt uid P.cs rows k' = true
      · simp only [ht, ht', if_true] at hv hv'
        unfold gAN at hv hv'
        cases ha : anchorOf uid rows k with
        | none => rw [ha] at hv; cases hv
        | some a =>
          obtain ⟨m, idx⟩ := a
          cases ha' : anchorOf uid rows k' with
          | none => rw [ha'] at hv'; cases hv'
          | some a' =>
            obtain ⟨m', idx'⟩ := a'
            rw [ha] at hv; rw [ha'] at hv'
            simp only at hv hv'
            by_cases hmk : m = k
            · simp [hmk] at hv
            · by_cases hmk' : m' = k'
              · simp [hmk'] at hv'
              · simp only [hmk, hmk', if_false, Option.some.injEq] at hv hv'
                subst hv; subst hv'
                obtain ⟨hk1, hsolid⟩ := htrig_solid k ht
                obtain ⟨hk1', _⟩ := htrig_solid k' ht'
                have hk'l : k' < rows.length := by omega
                obtain ⟨hle, _, _, _⟩ := anchorOf_some uid rows k m idx (by omega) ha
                obtain ⟨hle', _, _, _⟩ := anchorOf_some uid rows k' m' idx' hk'l ha'
                obtain ⟨m2, idx2, ha2, hge⟩ := anchorOf_ge uid rows (k + 1) (by omega) hsolid hk1 (k' - (k + 1)) (by omega)
                rw [show k + 1 + (k' - (k + 1)) = k' by omega, ha'] at ha2
                simp only [Option.some.injEq, Prod.mk.injEq] at ha2
                rw [violAN_start, violAN_start]
                exact crpos_lt rows m m' (by omega) (by omega)
      · simp [ht'] at hv'
    · simp [ht] at hv
  · refine List.Pairwise.filterMap _ ?_ (List.pairwise_lt_range (n := rows.length))
    intro m m' hmm v hv v' hv'
    unfold fwdG at hv hv'
    by_cases hh : hitF uid P rows m = true
    · by_cases hh' : hitF uid P rows m' = true
      · simp only [hh, hh', if_true, Option.some.injEq] at hv hv'
        subst hv; subst hv'
        rw [violAN_start, violAN_start]
        have hm'l : m' < rows.length := by
          unfold hitF reportAt lastSolidAt at hh'
          rcases Nat.lt_or_ge m' rows.length with h' | h'
          · exact h'
          · rw [List.getElem?_eq_none h'] at hh'; simp at hh'
        exact crpos_lt rows m m' hmm hm'l
      · simp [hh'] at hv'
    · simp [hh] at hv
  · intro v
    rw [hL, hR]
    constructor
    · rintro ⟨k, m, idx, hk, ht, ha, hmk, rfl⟩
      obtain ⟨hh, he⟩ := hLR k m idx hk ht ha hmk
      exact ⟨m, by have := (anchorOf_some uid rows k m idx hk ha).1; omega, hh, by rw [he]⟩
    · rintro ⟨m, hm, hh, rfl⟩
      obtain ⟨idx, ht, ha, hne, hlt⟩ := hRL m hm hh
      exact ⟨_, m, idx, hlt, ht, ha, hne, rfl⟩

/-! ### the analysis as a forward scan over the rows -/

theorem drop_take_cons {β : Type} (f : List β) (a b : Nat) (x : β) (ha : f[a]? = some x) (hab : a + 1 ≤ b) (hb : b + 1 ≤ f.length) :
    (f.drop a).take (b - a) = x :: ((f.drop (a + 1)).take (b + 1 - (a + 1))).dropLast := by
  have hal : a < f.length := by omega
  have hx : f[a] = x := by
    rw [List.getElem?_eq_getElem hal] at ha; exact Option.some.inj ha
  rw [List.drop_eq_getElem_cons hal, hx]
  have e : b - a = (b - a - 1) + 1 := by omega
  rw [e, List.take_succ_cons, List.dropLast_eq_take, List.take_take]
  congr 2
  simp only [List.length_take, List.length_drop]
  omega

theorem join_at_cr (rows : List (Row Tok)) (m : Nat) (r : Row Tok) (hk : rows[m]? = some r) :
    (join rows)[offs rows m + r.1.length]? = some r.2 := by
  have hkl : m < rows.length := by
    rcases Nat.lt_or_ge m rows.length with h' | h'
    · exact h'
    · rw [List.getElem?_eq_none h'] at hk; cases hk
  have hlen := join_length_take rows m (Nat.le_of_lt hkl)
  rw [join_split rows m r hk]
  have e : join (rows.take m) ++ (r.1 ++ [r.2]) ++ join (rows.drop (m + 1)) =
      (join (rows.take m) ++ r.1) ++ (r.2 :: join (rows.drop (m + 1))) := by simp
  rw [e, List.getElem?_append_right (by simp [hlen])]
  simp [hlen]

theorem crpos_eq (rows : List (Row Tok)) (m : Nat) (r : Row Tok) (hk : rows[m]? = some r) :
    crpos rows m = offs rows m + r.1.length := by
  unfold crpos; rw [hk]; rfl

/-- the reported tokens: the line break of the anchor row and the rows in between without their last line break -/
theorem slice_anchor (rows : List (Row Tok)) (m k : Nat) (r : Row Tok) (hm : rows[m]? = some r) (hmk : m < k) (hk : k < rows.length) :
    pySlice (join rows) ((crpos rows m : Nat) : Int) ((crpos rows k : Nat) : Int) =
      r.2 :: (join ((rows.drop (m + 1)).take (k - m))).dropLast := by
  have hrk : rows[k]? = some rows[k] := List.getElem?_eq_getElem hk
  have hlen : (join rows).length = offs rows rows.length := join_length rows
  have h1 := offs_succ rows m r hm
  have h2 := offs_succ rows k rows[k] hrk
  have hmono := offs_mono rows (m + 1) k (by omega) (by omega)
  have hmono2 := offs_mono rows (k + 1) rows.length (by omega) (Nat.le_refl _)
  have hS := slice_rows rows (m + 1) (k + 1) (by omega) (by omega)
  rw [pySlice_nat _ _ _ (by omega) (by omega)] at hS
  rw [crpos_eq rows m r hm, crpos_eq rows k rows[k] hrk, pySlice_nat _ _ _ (by omega) (by omega)]
  have hx := join_at_cr rows m r hm
  rw [drop_take_cons (join rows) _ _ r.2 hx (by omega) (by omega)]
  have e1 : offs rows m + r.1.length + 1 = offs rows (m + 1) := by omega
  have e2 : offs rows k + rows[k].1.length + 1 = offs rows (k + 1) := by omega
  have e3 : k + 1 - (m + 1) = k - m := by omega
  rw [e1, e2, hS, e3]

def runS (rs : List (Row Tok)) : List (Row Tok) := rs.takeWhile (softRow uid)

theorem take_runS (rs : List (Row Tok)) : rs.take (runS uid rs).length = runS uid rs := by
  unfold runS
  induction rs with
  | nil => rfl
  | cons r rs ih =>
    rw [List.takeWhile_cons]
    split
    · simp [ih]
    · rfl

def repR (off : Nat) (r : Row Tok) : Bool :=
  match lastSolid uid r.1 with
  | some idx => decide (1 ≤ off + idx)
  | none => false

def hitR (off : Nat) (r : Row Tok) (rs : List (Row Tok)) : Bool :=
  repR uid off r && !(runS uid rs).isEmpty && nextTrig uid P (rs.drop (runS uid rs).length)

def violR (off line : Nat) (r : Row Tok) (rs : List (Row Tok)) : Viol :=
  { line := line + (runS uid rs).length, start := off + r.1.length,
    toks := r.2 :: (join (runS uid rs)).dropLast, act := Act.remove.code }

/-- **the scan**: a row whose content has a token that is neither whitespace nor blank_line (and that is not token 0 of the
    file), followed by a non-empty run of rows without such a token, followed by a row that starts with a listed token -/
def violsAN (off line : Nat) : List (Row Tok) → List Viol
  | [] => []
  | r :: rs =>
    (if hitR uid P off r rs then [violR uid off line r rs] else []) ++ violsAN (off + r.1.length + 1) (line + 1) rs

def fwdO (off line : Nat) (rows : List (Row Tok)) (m : Nat) : Option Viol :=
  match rows[m]? with
  | none => none
  | some r =>
    if hitR uid P (off + offs rows m) r (rows.drop (m + 1)) then
      some (violR uid (off + offs rows m) (line + m) r (rows.drop (m + 1)))
    else none

theorem range_formAN (off line : Nat) (rows : List (Row Tok)) :
    (List.range rows.length).filterMap (fwdO uid P off line rows) = violsAN uid P off line rows := by
  induction rows generalizing off line with
  | nil => rfl
  | cons r rs ih =>
    rw [List.length_cons, List.range_succ_eq_map, List.filterMap_cons, List.filterMap_map]
    have hshift : (fwdO uid P off line (r :: rs)) ∘ Nat.succ = fwdO uid P (off + r.1.length + 1) (line + 1) rs := by
      funext k
      simp only [Function.comp, fwdO, List.getElem?_cons_succ, List.drop_succ_cons, offs]
      have e1 : off + (r.1.length + 1 + offs rs k) = off + r.1.length + 1 + offs rs k := by omega
      have e2 : line + k.succ = line + 1 + k := by omega
      rw [e1, e2]
    rw [hshift, ih, violsAN]
    have hg : fwdO uid P off line (r :: rs) 0 = if hitR uid P off r rs then some (violR uid off line r rs) else none := by
      have ho : offs (r :: rs) 0 = 0 := rfl
      simp only [fwdO, List.getElem?_cons_zero, ho, Nat.add_zero, List.drop_succ_cons, List.drop_zero]
    rw [hg]
    by_cases hh : hitR uid P off r rs = true
    · simp [hh]
    · simp [hh]

theorem nextTrig_drop (rows : List (Row Tok)) (k : Nat) : nextTrig uid P (rows.drop (k + 1)) = nextTrigAt uid P.cs rows k := by
  unfold nextTrig nextTrigAt
  rcases Nat.lt_or_ge (k + 1) rows.length with h' | h'
  · rw [List.drop_eq_getElem_cons h', List.getElem?_eq_getElem h']
  · rw [List.drop_eq_nil_of_le h', List.getElem?_eq_none h']

theorem fwdG_eq_fwdO (rows : List (Row Tok)) (m : Nat) (hm : m < rows.length) :
    fwdG uid P rows m = fwdO uid P 0 2 rows m := by
  have hr : rows[m]? = some rows[m] := List.getElem?_eq_getElem hm
  unfold fwdG fwdO hitF
  rw [hr]
  simp only
  have hrep : reportAt uid rows m = repR uid (0 + offs rows m) rows[m] := by
    unfold reportAt repR lastSolidAt
    rw [hr, Nat.zero_add]
  have hlen : runLenS uid rows (m + 1) = (runS uid (rows.drop (m + 1))).length := rfl
  have hnt : nextTrigAt uid P.cs rows (m + runLenS uid rows (m + 1)) =
      nextTrig uid P ((rows.drop (m + 1)).drop (runS uid (rows.drop (m + 1))).length) := by
    rw [List.drop_drop, ← hlen, ← nextTrig_drop]
    congr 2
    omega
  have hemp : decide (1 ≤ runLenS uid rows (m + 1)) = !(runS uid (rows.drop (m + 1))).isEmpty := by
    rw [hlen]
    cases runS uid (rows.drop (m + 1)) <;> simp
  have hhit : (reportAt uid rows m && decide (1 ≤ runLenS uid rows (m + 1)) &&
      nextTrigAt uid P.cs rows (m + runLenS uid rows (m + 1))) = hitR uid P (0 + offs rows m) rows[m] (rows.drop (m + 1)) := by
    unfold hitR
    rw [hrep, hemp, hnt]
  rw [hhit]
  by_cases hh : hitR uid P (0 + offs rows m) rows[m] (rows.drop (m + 1)) = true
  · rw [if_pos hh, if_pos hh]
    congr 1
    rw [← hhit] at hh
    simp only [Bool.and_eq_true, decide_eq_true_eq] at hh
    obtain ⟨⟨_, h1⟩, h3⟩ := hh
    have hkl : m + runLenS uid rows (m + 1) + 1 < rows.length := by
      unfold nextTrigAt at h3
      rcases Nat.lt_or_ge (m + runLenS uid rows (m + 1) + 1) rows.length with h' | h'
      · exact h'
      · rw [List.getElem?_eq_none h'] at h3; cases h3
    unfold violAN violR
    rw [slice_anchor rows m _ rows[m] hr (by omega) (by omega), crpos_eq rows m rows[m] hr]
    have et : (rows.drop (m + 1)).take (m + runLenS uid rows (m + 1) - m) = runS uid (rows.drop (m + 1)) := by
      have : m + runLenS uid rows (m + 1) - m = (runS uid (rows.drop (m + 1))).length := by rw [← hlen]; omega
      rw [this]
      exact take_runS uid _
    rw [et, ← hlen]
    have el : m + runLenS uid rows (m + 1) + 2 = 2 + m + runLenS uid rows (m + 1) := by omega
    rw [el, Nat.zero_add]
  · rw [if_neg hh, if_neg hh]

theorem analyzeAN_scan (hP : AboveNoBlank P) (hO : HOracle) (rows : List (Row Tok)) (h : RowsOk uid rows) (hcs : CsOk P.cs)
    (hts : TrigSolid uid P rows) :
    (sem uid inst P hO).analyze (join rows) = violsAN uid P 0 2 rows := by
  rw [analyzeAN_join uid inst P hP hO rows h hcs, range_eq_fwd uid P rows hts, ← range_formAN]
  apply filterMap_ext_mem
  intro k hk
  exact fwdG_eq_fwdO uid P rows k (List.mem_range.mp hk)

/-! ### the fix: the run of soft rows goes, the anchor row keeps the last line break of the run -/

theorem dropLast_getLastD {β : Type} (l : List β) (d : β) (h : l ≠ []) : l.dropLast ++ [l.getLastD d] = l := by
  rw [List.getLastD_eq_getLast?, List.getLast?_eq_some_getLast h]
  exact List.dropLast_concat_getLast h

def lastCr (r : Row Tok) (rs : List (Row Tok)) : Tok := (join (runS uid rs)).getLastD r.2

def skipA (off : Nat) (r : Row Tok) (rs : List (Row Tok)) : Nat := if hitR uid P off r rs then (runS uid rs).length else 0

def piecesAN (off : Nat) (skip : Nat) : List (Row Tok) → List (Piece Tok)
  | [] => []
  | r :: rs =>
    match skip with
    | s + 1 => piecesAN (off + r.1.length + 1) s rs
    | 0 =>
      (if hitR uid P off r rs then
        [⟨r.1, r.1, false⟩, ⟨r.2 :: (join (runS uid rs)).dropLast, [], true⟩,
          ⟨[lastCr uid r rs], [lastCr uid r rs], false⟩]
       else [⟨r.1 ++ [r.2], r.1 ++ [r.2], false⟩]) ++ piecesAN (off + r.1.length + 1) (skipA uid P off r rs) rs

def shrinkA (off : Nat) (skip : Nat) : List (Row Tok) → List (Row Tok)
  | [] => []
  | r :: rs =>
    match skip with
    | s + 1 => shrinkA (off + r.1.length + 1) s rs
    | 0 => (if hitR uid P off r rs then (r.1, lastCr uid r rs) else r) :: shrinkA (off + r.1.length + 1) (skipA uid P off r rs) rs

theorem join_runS_drop (rs : List (Row Tok)) : join (runS uid rs) ++ join (rs.drop (runS uid rs).length) = join rs := by
  rw [← join_append]
  have : runS uid rs ++ rs.drop (runS uid rs).length = rs := by
    have h := take_runS uid rs
    calc runS uid rs ++ rs.drop (runS uid rs).length
        = rs.take (runS uid rs).length ++ rs.drop (runS uid rs).length := by rw [h]
      _ = rs := List.take_append_drop _ _
  rw [this]

theorem hitR_run_ne (off : Nat) (r : Row Tok) (rs : List (Row Tok)) (hh : hitR uid P off r rs = true) : runS uid rs ≠ [] := by
  unfold hitR at hh
  simp only [Bool.and_eq_true, Bool.not_eq_true'] at hh
  intro e; rw [e] at hh; simp at hh

theorem run_glue (r : Row Tok) (rs : List (Row Tok)) (hne : runS uid rs ≠ []) :
    (join (runS uid rs)).dropLast ++ [lastCr uid r rs] = join (runS uid rs) := by
  unfold lastCr
  apply dropLast_getLastD
  intro e
  have := join_pos (runS uid rs) hne
  rw [e] at this; simp at this

theorem piecesAN_olds (off skip : Nat) (rows : List (Row Tok)) : olds (piecesAN uid P off skip rows) = join (rows.drop skip) := by
  induction rows generalizing off skip with
  | nil => simp [piecesAN, olds, join]
  | cons r rs ih =>
    cases skip with
    | succ s => rw [piecesAN, ih]; rfl
    | zero =>
      rw [piecesAN, List.drop_zero, join_cons]
      unfold skipA
      by_cases hh : hitR uid P off r rs = true
      · have hg := run_glue uid r rs (hitR_run_ne uid P off r rs hh)
        simp only [hh, if_true, List.cons_append, List.nil_append, olds_cons, ih]
        rw [← join_runS_drop uid rs, ← hg]
        simp
      · simp only [hh, Bool.false_eq_true, if_false, List.cons_append, List.nil_append, olds_cons, ih, List.drop_zero]

theorem piecesAN_news (off skip : Nat) (rows : List (Row Tok)) :
    news (piecesAN uid P off skip rows) = join (shrinkA uid P off skip rows) := by
  induction rows generalizing off skip with
  | nil => simp [piecesAN, shrinkA, news, join]
  | cons r rs ih =>
    cases skip with
    | succ s => rw [piecesAN, shrinkA, ih]
    | zero =>
      rw [piecesAN, shrinkA, join_cons]
      by_cases hh : hitR uid P off r rs = true
      · simp only [hh, if_true, List.cons_append, List.nil_append, news_cons, ih]
        simp
      · simp only [hh, Bool.false_eq_true, if_false, List.cons_append, List.nil_append, news_cons, ih]

theorem piecesAN_hit (off skip : Nat) (rows : List (Row Tok)) :
    ∀ p ∈ piecesAN uid P off skip rows, p.hit = false → p.new = p.old := by
  induction rows generalizing off skip with
  | nil => intro p hp; simp [piecesAN] at hp
  | cons r rs ih =>
    cases skip with
    | succ s => rw [piecesAN]; exact ih _ s
    | zero =>
      intro p hp hh
      rw [piecesAN, List.mem_append] at hp
      rcases hp with hp | hp
      · split at hp
        · simp at hp
          rcases hp with rfl | rfl | rfl
          · rfl
          · simp at hh
          · rfl
        · simp at hp; subst hp; rfl
      · exact ih _ _ p hp hh

open Vsgm.Base.BlankLine in
theorem fixTok_remove_aboveNo (hP : AboveNoBlank P) (v : Viol) (ha : v.act = Act.remove.code) : fixTok P v = [] := by
  have hne : (sRemove == sInsert) = false := by decide
  unfold fixTok fixE
  rcases hP.fam with hf | hf <;> rw [hf, ha] <;>
    simp [Act.ofCode, Act.code, Act.str, aboveFixV, hne, pure, Except.pure]

theorem soft_no_hit (off : Nat) (r : Row Tok) (rs : List (Row Tok)) (hs : softRow uid r = true) : hitR uid P off r rs = false := by
  unfold hitR repR
  unfold softRow at hs
  cases hl : lastSolid uid r.1 with
  | none => rfl
  | some i => rw [hl] at hs; cases hs

theorem runS_soft (rs : List (Row Tok)) : ∀ r ∈ runS uid rs, softRow uid r = true := by
  intro r hr
  unfold runS at hr
  exact (takeWhile_mem _ rs r hr).2

theorem violsAN_edits (hP : AboveNoBlank P) (hO : HOracle) (rows : List (Row Tok))
    (hb : ∀ r ∈ rows, (∀ t ∈ r.1, t.isBof = false) ∧ r.2.isBof = false) :
    ∀ (skip off line : Nat), (∀ r ∈ rows.take skip, softRow uid r = true) →
      (violsAN uid P off line rows).map (editOf (sem uid inst P hO)) =
        editsFrom (off + (join (rows.take skip)).length) (piecesAN uid P off skip rows) := by
  induction rows with
  | nil => intro _ _ _ _; simp [violsAN, piecesAN, editsFrom]
  | cons r rs ih =>
    have hb' : ∀ x ∈ rs, (∀ t ∈ x.1, t.isBof = false) ∧ x.2.isBof = false := fun x hx => hb x (List.mem_cons_of_mem _ hx)
    intro skip off line hsk
    cases skip with
    | succ s =>
      have hsr : softRow uid r = true := hsk r (by simp)
      rw [violsAN, piecesAN]
      have hh : hitR uid P off r rs = false := soft_no_hit uid P off r rs hsr
      simp only [hh, Bool.false_eq_true, if_false, List.nil_append]
      rw [ih hb' s (off + r.1.length + 1) (line + 1) (fun x hx => hsk x (by simp [hx]))]
      congr 1
      simp only [List.take_succ_cons, join_cons, List.length_append, List.length_singleton]
      omega
    | zero =>
      rw [violsAN, piecesAN]
      simp only [List.take_zero, join, List.flatMap_nil, List.length_nil, Nat.add_zero]
      by_cases hh : hitR uid P off r rs = true
      · have hrun : ∀ x ∈ rs.take (runS uid rs).length, softRow uid x = true := by
          intro x hx
          rw [take_runS] at hx
          exact runS_soft uid rs x hx
        have := ih hb' (runS uid rs).length (off + r.1.length + 1) (line + 1) hrun
        rw [take_runS] at this
        have hg := run_glue uid r rs (hitR_run_ne uid P off r rs hh)
        have hlen : (join (runS uid rs)).length = (join (runS uid rs)).dropLast.length + 1 := by
          conv => lhs; rw [← hg]
          simp
        unfold skipA
        simp only [hh, if_true, List.singleton_append, List.map_cons, List.cons_append, List.nil_append, editsFrom, this,
          Bool.false_eq_true, if_false, List.length_cons, List.length_nil]
        congr 1
        · unfold editOf Viol.stop violR
          have hf : (sem uid inst P hO).fixV (violR uid off line r rs) = [] :=
            fixTok_remove_aboveNo P hP _ rfl
          unfold violR at hf
          rw [hf]
          have hnb : dropBof (r.2 :: (join (runS uid rs)).dropLast) = r.2 :: (join (runS uid rs)).dropLast := by
            apply dropBof_id'
            intro t ht
            rw [List.mem_cons] at ht
            rcases ht with rfl | ht
            · exact (hb r (List.mem_cons_self ..)).2
            · have ht' : t ∈ join (runS uid rs) := List.dropLast_subset _ ht
              unfold join at ht'
              rw [List.mem_flatMap] at ht'
              obtain ⟨x, hx, htx⟩ := ht'
              have hxm : x ∈ rs := (takeWhile_mem _ rs x hx).1
              rw [List.mem_append] at htx
              rcases htx with htx | htx
              · exact (hb' x hxm).1 t htx
              · simp at htx; subst htx; exact (hb' x hxm).2
          simp only [hnb]
          rfl
        · congr 1
          unfold join at hlen ⊢
          omega
      · have := ih hb' 0 (off + r.1.length + 1) (line + 1) (by intro x hx; simp at hx)
        simp only [List.take_zero, join, List.flatMap_nil, List.length_nil, Nat.add_zero] at this
        unfold skipA
        simp only [hh, Bool.false_eq_true, if_false, List.nil_append, this, List.singleton_append, editsFrom,
          List.length_append, List.length_singleton]
        rw [Nat.add_assoc]

/-- **the file after `Rule.fix`** -/
theorem fixAllAN_join (hP : AboveNoBlank P) (hO : HOracle) (rows : List (Row Tok)) (h : RowsOk uid rows)
    (hcs : CsOk P.cs) (hts : TrigSolid uid P rows) (hb : RowsNoBof rows) :
    fixAll uid inst P hO (join rows) = join (shrinkA uid P 0 0 rows) := by
  unfold fixAll
  rw [analyzeAN_scan uid inst P hP hO rows h hcs hts]
  have he := violsAN_edits uid inst P hP hO rows hb.nobof 0 0 2 (by intro x hx; simp at hx)
  simp only [List.take_zero, join, List.flatMap_nil, List.length_nil, Nat.add_zero] at he
  have hc := pieces_chain ([] : List Tok) (piecesAN uid P 0 0 rows) []
  simp only [List.nil_append, List.append_nil, List.length_nil] at hc
  rw [← he] at hc
  rw [sortByStart_of_chain _ _ _ _ hc, he]
  have hu := pieces_update (piecesAN uid P 0 0 rows) (piecesAN_hit uid P 0 0 rows)
  rw [piecesAN_olds, piecesAN_news, List.drop_zero] at hu
  exact hu

/-! ### the fixed rows are clean -/

theorem softRow_fst (r r' : Row Tok) (h : r.1 = r'.1) : softRow uid r = softRow uid r' := by unfold softRow; rw [h]

theorem bolTrig_fst (cs : List Cls) (r r' : Row Tok) (h : r.1 = r'.1) :
    bolTrig uid cs r = bolTrig uid cs r' := by unfold bolTrig bolIdx; rw [h]

theorem repR_fst (off : Nat) (r r' : Row Tok) (h : r.1 = r'.1) : repR uid off r = repR uid off r' := by unfold repR; rw [h]

theorem repR_same (off off' : Nat) (hs : 1 ≤ off ↔ 1 ≤ off') (r : Row Tok) : repR uid off r = repR uid off' r := by
  unfold repR
  cases lastSolid uid r.1 with
  | none => rfl
  | some i =>
    simp only [decide_eq_decide]
    omega

theorem hitR_fst (off : Nat) (r r' : Row Tok) (rs : List (Row Tok)) (h : r.1 = r'.1) :
    hitR uid P off r rs = hitR uid P off r' rs := by unfold hitR; rw [repR_fst uid off r r' h]

theorem hitR_same (off off' : Nat) (hs : 1 ≤ off ↔ 1 ≤ off') (r : Row Tok) (rs : List (Row Tok)) :
    hitR uid P off r rs = hitR uid P off' r rs := by unfold hitR; rw [repR_same uid off off' hs r]

theorem shrinkA_head (off skip : Nat) (rows : List (Row Tok)) :
    (shrinkA uid P off skip rows).head?.map (·.1) = (rows.drop skip).head?.map (·.1) := by
  induction rows generalizing off skip with
  | nil => simp [shrinkA]
  | cons r rs ih =>
    cases skip with
    | succ s => rw [shrinkA, List.drop_succ_cons, ih]
    | zero =>
      rw [shrinkA]
      simp only [List.head?_cons, List.drop_zero, Option.map_some]
      split <;> rfl

theorem runS_nil_of_head (a b : List (Row Tok)) (h : a.head?.map (·.1) = b.head?.map (·.1)) (hb : runS uid b = []) :
    runS uid a = [] := by
  unfold runS at hb ⊢
  cases a with
  | nil => rfl
  | cons x a' =>
    cases b with
    | nil => simp at h
    | cons y b' =>
      simp only [List.head?_cons, Option.map_some, Option.some.injEq] at h
      rw [List.takeWhile_cons] at hb ⊢
      split at hb
      · cases hb
      · rename_i hp
        rw [softRow_fst uid x y h]
        simp [hp]

theorem runS_drop_run (rs : List (Row Tok)) : runS uid (rs.drop (runS uid rs).length) = [] := by
  unfold runS
  induction rs with
  | nil => rfl
  | cons r rs ih =>
    rw [List.takeWhile_cons]
    split
    · simpa using ih
    · rename_i hp
      simp [List.takeWhile_cons, hp]

theorem nextTrig_of_head (a b : List (Row Tok)) (h : a.head?.map (·.1) = b.head?.map (·.1)) :
    nextTrig uid P a = nextTrig uid P b := by
  unfold nextTrig
  cases a with
  | nil =>
    cases b with
    | nil => rfl
    | cons y b' => simp at h
  | cons x a' =>
    cases b with
    | nil => simp at h
    | cons y b' =>
      simp only [List.head?_cons, Option.map_some, Option.some.injEq] at h
      exact bolTrig_fst uid P.cs x y h

theorem shrinkA_soft_prefix (rs : List (Row Tok)) : ∀ off : Nat, ∃ off2 : Nat,
    shrinkA uid P off 0 rs = runS uid rs ++ shrinkA uid P off2 0 (rs.drop (runS uid rs).length) := by
  induction rs with
  | nil => intro off; exact ⟨off, by simp [shrinkA, runS]⟩
  | cons r rs ih =>
    intro off
    by_cases hs : softRow uid r = true
    · have hh : hitR uid P off r rs = false := soft_no_hit uid P off r rs hs
      obtain ⟨off2, e⟩ := ih (off + r.1.length + 1)
      refine ⟨off2, ?_⟩
      have hr : runS uid (r :: rs) = r :: runS uid rs := by
        unfold runS; rw [List.takeWhile_cons]; simp [hs]
      rw [shrinkA, hr]
      unfold skipA
      simp only [hh, Bool.false_eq_true, if_false, e, List.cons_append, List.length_cons, List.drop_succ_cons]
    · refine ⟨off, ?_⟩
      have hr : runS uid (r :: rs) = [] := by
        unfold runS; rw [List.takeWhile_cons]; simp [hs]
      rw [hr]; rfl

theorem hitR_shrink_same (off offx : Nat) (r : Row Tok) (rs : List (Row Tok)) :
    hitR uid P off r (shrinkA uid P offx 0 rs) = hitR uid P off r rs := by
  obtain ⟨off2, e⟩ := shrinkA_soft_prefix uid P rs offx
  have hh := shrinkA_head uid P off2 0 (rs.drop (runS uid rs).length)
  rw [List.drop_zero] at hh
  have hY : runS uid (shrinkA uid P off2 0 (rs.drop (runS uid rs).length)) = [] :=
    runS_nil_of_head uid _ _ hh (runS_drop_run uid rs)
  have hrun : runS uid (runS uid rs ++ shrinkA uid P off2 0 (rs.drop (runS uid rs).length)) = runS uid rs := by
    have := @List.takeWhile_append_of_pos _ (softRow uid) (runS uid rs)
      (shrinkA uid P off2 0 (rs.drop (runS uid rs).length)) (runS_soft uid rs)
    unfold runS at this hY ⊢
    rw [this, hY, List.append_nil]
  unfold hitR
  rw [e, hrun, List.drop_left, nextTrig_of_head uid P _ _ hh]

/-- **the scan of the fixed rows reports nothing** -/
theorem violsAN_shrinkA (rows : List (Row Tok)) : ∀ (skip off off' line : Nat), (1 ≤ off ↔ 1 ≤ off') → (skip ≠ 0 → 1 ≤ off') →
    violsAN uid P off' line (shrinkA uid P off skip rows) = [] := by
  induction rows with
  | nil => intro _ _ _ _ _ _; simp [shrinkA, violsAN]
  | cons r rs ih =>
    intro skip off off' line hs hsk
    cases skip with
    | succ s =>
      rw [shrinkA]
      have := hsk (by omega)
      exact ih s _ off' line (by omega) (fun _ => this)
    | zero =>
      rw [shrinkA, violsAN]
      have hfst : (if hitR uid P off r rs = true then (r.1, lastCr uid r rs) else r).1 = r.1 := by
        split <;> rfl
      rw [hfst, ih _ _ _ _ (by omega) (fun _ => by omega), List.append_nil]
      have hh : hitR uid P off' (if hitR uid P off r rs = true then (r.1, lastCr uid r rs) else r)
          (shrinkA uid P (off + r.1.length + 1) (skipA uid P off r rs) rs) = false := by
        rw [hitR_fst uid P off' _ r _ hfst, ← hitR_same uid P off off' hs]
        unfold skipA
        by_cases hh : hitR uid P off r rs = true
        · simp only [hh, if_true]
          have hrun : runS uid (shrinkA uid P (off + r.1.length + 1) (runS uid rs).length rs) = [] :=
            runS_nil_of_head uid _ _ (shrinkA_head uid P _ _ rs) (runS_drop_run uid rs)
          unfold hitR
          rw [hrun]; simp
        · simp only [hh, Bool.false_eq_true, if_false]
          rw [hitR_shrink_same]
          simpa using hh
      simp [hh]

theorem join_getLastD (l : List (Row Tok)) (d : Tok) (h : l ≠ []) : (join l).getLastD d = (l.getLast h).2 := by
  conv => lhs; rw [← List.dropLast_concat_getLast h]
  rw [join_append, List.getLastD_eq_getLast?]
  simp [join, List.getLast?_append]

theorem shrinkA_mem (rows : List (Row Tok)) : ∀ (skip off : Nat) (x : Row Tok), x ∈ shrinkA uid P off skip rows →
    (∃ y ∈ rows, x.1 = y.1) ∧ (∃ z ∈ rows, x.2 = z.2) := by
  induction rows with
  | nil => intro _ _ x hx; simp [shrinkA] at hx
  | cons r rs ih =>
    intro skip off x hx
    cases skip with
    | succ s =>
      rw [shrinkA] at hx
      obtain ⟨⟨y, hy, e1⟩, ⟨z, hz, e2⟩⟩ := ih s _ x hx
      exact ⟨⟨y, List.mem_cons_of_mem _ hy, e1⟩, ⟨z, List.mem_cons_of_mem _ hz, e2⟩⟩
    | zero =>
      rw [shrinkA, List.mem_cons] at hx
      rcases hx with rfl | hx
      · by_cases hh : hitR uid P off r rs = true
        · simp only [hh, if_true]
          refine ⟨⟨r, List.mem_cons_self .., rfl⟩, ?_⟩
          have hne := hitR_run_ne uid P off r rs hh
          refine ⟨(runS uid rs).getLast hne, ?_, ?_⟩
          · have hm := List.getLast_mem hne
            exact List.mem_cons_of_mem _ (takeWhile_mem _ rs _ hm).1
          · unfold lastCr; exact join_getLastD _ _ hne
        · simp only [hh, Bool.false_eq_true, if_false]
          exact ⟨⟨r, List.mem_cons_self .., rfl⟩, ⟨r, List.mem_cons_self .., rfl⟩⟩
      · obtain ⟨⟨y, hy, e1⟩, ⟨z, hz, e2⟩⟩ := ih _ _ x hx
        exact ⟨⟨y, List.mem_cons_of_mem _ hy, e1⟩, ⟨z, List.mem_cons_of_mem _ hz, e2⟩⟩

theorem shrinkA_rowsOk (rows : List (Row Tok)) (h : RowsOk uid rows) (off skip : Nat) : RowsOk uid (shrinkA uid P off skip rows) := by
  constructor
  · intro x hx
    obtain ⟨_, ⟨z, hz, e2⟩⟩ := shrinkA_mem uid P rows skip off x hx
    rw [e2]; exact h.cr z hz
  · intro x hx
    obtain ⟨⟨y, hy, e1⟩, _⟩ := shrinkA_mem uid P rows skip off x hx
    rw [e1]; exact h.nocr y hy

theorem shrinkA_trigSolid (rows : List (Row Tok)) (h : TrigSolid uid P rows) (off skip : Nat) :
    TrigSolid uid P (shrinkA uid P off skip rows) := by
  intro x hx hb
  obtain ⟨⟨y, hy, e1⟩, _⟩ := shrinkA_mem uid P rows skip off x hx
  rw [softRow_fst uid x y e1]
  rw [bolTrig_fst uid P.cs x y e1] at hb
  exact h y hy hb

/-- **whole-rule idempotence of blank_line_above_line_starting_with_token / previous_line, style no_blank_line** -/
theorem analyze_fixAll_aboveNo (hP : AboveNoBlank P) (hO : HOracle) (rows : List (Row Tok)) (h : RowsOk uid rows)
    (hcs : CsOk P.cs) (hts : TrigSolid uid P rows) (hb : RowsNoBof rows) :
    (sem uid inst P hO).analyze (fixAll uid inst P hO (join rows)) = [] := by
  rw [fixAllAN_join uid inst P hP hO rows h hcs hts hb,
    analyzeAN_scan uid inst P hP hO _ (shrinkA_rowsOk uid P rows h 0 0) hcs (shrinkA_trigSolid uid P rows hts 0 0)]
  exact violsAN_shrinkA uid P rows 0 0 0 2 (by omega) (by intro h; exact absurd rfl h)

/-! ### effects -/

/-- line breaks are layout, and so are the tokens of a row without a token other than whitespace / blank_line -/
def SoftLayout (rows : List (Row Tok)) : Prop :=
  ∀ r ∈ rows, nonLayout [r.2] = [] ∧ (softRow uid r = true → nonLayout r.1 = [])

theorem lastCr_mem (off : Nat) (r : Row Tok) (rs : List (Row Tok)) (hh : hitR uid P off r rs = true) :
    ∃ z ∈ rs, lastCr uid r rs = z.2 := by
  have hne := hitR_run_ne uid P off r rs hh
  refine ⟨(runS uid rs).getLast hne, (takeWhile_mem _ rs _ (List.getLast_mem hne)).1, ?_⟩
  unfold lastCr; exact join_getLastD _ _ hne

theorem nonLayout_shrinkA (rows : List (Row Tok)) (hl : SoftLayout uid rows) :
    ∀ skip off, nonLayout (join (shrinkA uid P off skip rows)) = nonLayout (join (rows.drop skip)) := by
  induction rows with
  | nil => intro _ _; simp [shrinkA]
  | cons r rs ih =>
    have hl' : SoftLayout uid rs := fun x hx => hl x (List.mem_cons_of_mem _ hx)
    intro skip off
    cases skip with
    | succ s => rw [shrinkA, List.drop_succ_cons]; exact ih hl' s _
    | zero =>
      rw [shrinkA, List.drop_zero, join_cons, join_cons]
      unfold skipA
      by_cases hh : hitR uid P off r rs = true
      · obtain ⟨z, hz, ez⟩ := lastCr_mem uid P off r rs hh
        have h1 : nonLayout (join rs) = nonLayout (join (runS uid rs)) ++ nonLayout (join (rs.drop (runS uid rs).length)) := by
          rw [← nonLayout_append, join_runS_drop]
        have h2 : nonLayout (join (runS uid rs)) = [] := by
          apply nonLayout_join_nil
          intro x hx
          have hxm := (takeWhile_mem _ rs x hx).1
          rw [nonLayout_append, (hl' x hxm).1, (hl' x hxm).2 (runS_soft uid rs x hx)]
          rfl
        simp only [hh, if_true, nonLayout_append, ih hl', h1, h2, ez, (hl' z hz).1, (hl r (List.mem_cons_self ..)).1,
          List.nil_append]
      · simp only [hh, Bool.false_eq_true, if_false, nonLayout_append, ih hl', List.drop_zero]

theorem crSeq_shrinkA (rows : List (Row Tok)) :
    ∀ (skip off line : Nat), (∀ r ∈ rows.take skip, softRow uid r = true) →
      (crSeq (join (rows.drop skip))).length =
        (crSeq (join (shrinkA uid P off skip rows))).length + sumCr (violsAN uid P off line rows) := by
  induction rows with
  | nil => intro _ _ _ _; simp [shrinkA, violsAN, sumCr, join, crSeq]
  | cons r rs ih =>
    intro skip off line hsk
    cases skip with
    | succ s =>
      have hsr : softRow uid r = true := hsk r (by simp)
      have hh : hitR uid P off r rs = false := soft_no_hit uid P off r rs hsr
      rw [shrinkA, List.drop_succ_cons, violsAN]
      simp only [hh, Bool.false_eq_true, if_false, List.nil_append]
      exact ih s _ _ (fun x hx => hsk x (by simp [hx]))
    | zero =>
      rw [shrinkA, List.drop_zero, join_cons, join_cons, violsAN]
      simp only [crSeq_append, List.length_append]
      unfold skipA
      by_cases hh : hitR uid P off r rs = true
      · have hrun : ∀ x ∈ rs.take (runS uid rs).length, softRow uid x = true := by
          intro x hx
          rw [take_runS] at hx
          exact runS_soft uid rs x hx
        have := ih (runS uid rs).length (off + r.1.length + 1) (line + 1) hrun
        have hsplit : (crSeq (join rs)).length =
            (crSeq (join (runS uid rs))).length + (crSeq (join (rs.drop (runS uid rs).length))).length := by
          have h1 := congrArg (fun l => (crSeq l).length) (join_runS_drop uid rs)
          simp only [crSeq_append, List.length_append] at h1
          omega
        have hg := congrArg (fun l => (crSeq l).length) (run_glue uid r rs (hitR_run_ne uid P off r rs hh))
        simp only [crSeq_append, List.length_append] at hg
        have hv : (crSeq (r.2 :: (join (runS uid rs)).dropLast)).length =
            (crSeq [r.2]).length + (crSeq (join (runS uid rs)).dropLast).length := by
          rw [← List.singleton_append, crSeq_append, List.length_append]
        simp only [hh, if_true, sumCr, List.singleton_append, List.map_cons, List.sum_cons, violR, hv] at this ⊢
        omega
      · have := ih 0 (off + r.1.length + 1) (line + 1) (by intro x hx; simp at hx)
        simp only [List.drop_zero] at this
        simp only [hh, Bool.false_eq_true, if_false, List.nil_append]
        omega

/-- **whole rule: layout-only, and the line count drops by exactly the line breaks among the removed tokens** -/
theorem fixAll_aboveNo_effect (hP : AboveNoBlank P) (hO : HOracle) (rows : List (Row Tok)) (h : RowsOk uid rows)
    (hcs : CsOk P.cs) (hts : TrigSolid uid P rows) (hb : RowsNoBof rows) :
    (SoftLayout uid rows → LayoutOnly (join rows) (fixAll uid inst P hO (join rows))) ∧
    (crSeq (join rows)).length =
      (crSeq (fixAll uid inst P hO (join rows))).length + sumCr ((sem uid inst P hO).analyze (join rows)) := by
  rw [fixAllAN_join uid inst P hP hO rows h hcs hts hb, analyzeAN_scan uid inst P hP hO rows h hcs hts]
  constructor
  · intro hl
    have := nonLayout_shrinkA uid P rows hl 0 0
    rw [List.drop_zero] at this
    exact this.symm
  · have := crSeq_shrinkA uid P rows 0 0 2 (by intro x hx; simp at hx)
    rw [List.drop_zero] at this
    exact this

/-- a sufficient condition for `TrigSolid`: no listed token is a whitespace or blank_line token -/
theorem trigSolid_of (rows : List (Row Tok)) (hc : ∀ t, matchB uid P.cs t = true → softTok uid t = false) :
    TrigSolid uid P rows := by
  intro r _ hb
  unfold softRow
  cases hl : lastSolid uid r.1 with
  | some i => rfl
  | none =>
    exfalso
    have hall := lastSolid_none uid r.1 hl
    unfold bolTrig bolIdx at hb
    cases hr : r.1 with
    | nil => rw [hr] at hb; simp at hb
    | cons x rest =>
      rw [hr] at hb hall
      simp only at hb
      by_cases hx : matchB uid P.cs x = true
      · have := hall 0 x rfl
        rw [hc x hx] at this; cases this
      · rw [if_neg hx] at hb
        split at hb
        · cases rest with
          | nil => simp at hb
          | cons y rest' =>
            simp only at hb
            by_cases hy : matchB uid P.cs y = true
            · have := hall 1 y rfl
              rw [hc y hy] at this; cases this
            · rw [if_neg hy] at hb; simp at hb
        · simp at hb

/-! ### the line-count delta as a number of rows (rows whose kinds agree with their role) -/

def KindRows (rows : List (Row Tok)) : Prop := ∀ r ∈ rows, r.2.isCr = true ∧ ∀ t ∈ r.1, t.isCr = false

theorem crSeq_join_rows (l : List (Row Tok)) (h : KindRows l) : (crSeq (join l)).length = l.length := by
  induction l with
  | nil => rfl
  | cons r rs ih =>
    have h0 := h r (List.mem_cons_self ..)
    have e1 : crSeq r.1 = [] := by
      unfold crSeq
      rw [List.flatMap_eq_nil_iff]
      intro t ht
      rw [h0.2 t ht]; rfl
    have e2 : crSeq [r.2] = [()] := by
      unfold crSeq
      simp [h0.1]
    rw [join_cons, crSeq_append, crSeq_append, e1, e2, List.length_append, List.length_append,
      ih (fun x hx => h x (List.mem_cons_of_mem _ hx))]
    simp; omega

/-- below / no_blank_line: the number of rows drops by exactly the line breaks of the removed regions -/
theorem rows_belowNo (rows : List (Row Tok)) (hk : KindRows rows) (hbt : BlankNotTrig uid P rows) :
    rows.length = (shrink uid P 0 rows).length + sumCr (violsN uid P 0 2 rows) := by
  have h := crSeq_shrink uid P rows hbt 0 0 2 (by intro x hx; simp at hx)
  rw [List.drop_zero, crSeq_join_rows rows hk,
    crSeq_join_rows _ (fun x hx => hk x (shrink_mem uid P rows 0 x hx))] at h
  exact h

/-- above / previous, no_blank_line: the number of rows drops by exactly the line breaks among the removed tokens -/
theorem rows_aboveNo (rows : List (Row Tok)) (hk : KindRows rows) :
    rows.length = (shrinkA uid P 0 0 rows).length + sumCr (violsAN uid P 0 2 rows) := by
  have h := crSeq_shrinkA uid P rows 0 0 2 (by intro x hx; simp at hx)
  have hk' : KindRows (shrinkA uid P 0 0 rows) := by
    intro x hx
    obtain ⟨⟨y, hy, e1⟩, ⟨z, hz, e2⟩⟩ := shrinkA_mem uid P rows 0 0 x hx
    rw [e1, e2]
    exact ⟨(hk z hz).1, (hk y hy).2⟩
  rw [List.drop_zero, crSeq_join_rows rows hk, crSeq_join_rows _ hk'] at h
  exact h

end Vsgm.BFull2.VSpace
