/-
  Layer P, C05 (lifting, partial): detectors — `if utils.is_next_token("x", iToken, lObjects): return True` (repeated)
  `return False`.  The interpreted call computes `detectSpec` (a disjunction of the hand model `isNextToken`), hence the same
  Boolean at corresponding positions of two token lists with the same raw-item view.
-/
import VsgProofs.Lemmas.ProgIfChain
namespace Vsgm.Prog
open Vsgm Vsgm.Classify

def detectSpec (S : Sys) (T : ClassTables) : List Str → Nat → List CTok → Except PyErr Bool
  | [], _, _ => .ok false
  | s :: ss, n, l => match isNextToken T (S.lowerS s) n l with
    | .error x => .error x
    | .ok true => .ok true
    | .ok false => detectSpec S T ss n l

def detectFlow : Except PyErr Bool → Except Err Flow
  | .ok b => .ok (.ret (.bool b))
  | .error x => .error (.py x)

theorem detect_exec (S : Sys) (T : ClassTables) (kIs kF kO : Nat)
    (hIs : S.funs[kIs]? = some (isNextTokenDef kF kO)) (hF : S.funs[kF]? = some (findNextTokenDef T.item))
    (hO : S.funs[kO]? = some objectValueIsDef) (m N n : Nat) :
    ∀ (strs : List Str) (st : State),
      st.frame[0]? = some (.int n) → st.frame[1]? = some .toks → st.toks.size = N → N < m + 4 →
      st.steps + strs.length * (N + 5) + 1 < S.maxSteps → st.depth + 1 < S.maxDepth →
      ∃ st', execBlock (run S (m + 11)) (detectStmts kIs strs) st = (detectFlow (detectSpec S T strs n st.toks.toList), st')
        ∧ st'.toks = st.toks ∧ st'.frame = st.frame ∧ st'.depth = st.depth
        ∧ st.steps ≤ st'.steps ∧ st'.steps ≤ st.steps + strs.length * (N + 5) := by
  intro strs
  induction strs with
  | nil =>
    intro st _ _ _ _ _ _
    refine ⟨st, ?_, rfl, rfl, rfl, Nat.le_refl _, by simp⟩
    simp [detectStmts, execBlock, run_stmt_ret, run_expr, stepStmt, stepExpr, detectSpec, detectFlow, bind, M.bind, pure, M.pure]
  | cons s ss ih =>
    intro st h0 h1 hN hf hs hd
    have g0 := getVar_some h0 (by simp)
    have g1 := getVar_some h1 (by simp)
    have hmul : (ss.length + 1) * (N + 5) = ss.length * (N + 5) + (N + 5) := Nat.succ_mul _ _
    simp only [List.length_cons, hmul] at hs ⊢
    obtain ⟨st1, hcall, a, b, c, _, e, f⟩ := call_is_next_token S T kIs kF kO m n s st hIs hF hO (by omega) (by omega) hd
    cases hb : isNextToken T (S.lowerS s) n st.toks.toList with
    | error x =>
      rw [hb] at hcall
      refine ⟨st1, ?_, a, b, c, e, by omega⟩
      simp only [detectStmts, execBlock_cons, run_stmt_ite, run_expr, stepStmt, stepExpr, evalArgs, g0, g1, hcall, boolRes,
        detectSpec, hb, detectFlow, bind, M.bind, pure, M.pure]
    | ok bb =>
      rw [hb] at hcall
      cases bb with
      | true =>
        refine ⟨st1, ?_, a, b, c, e, by omega⟩
        simp [detectStmts, execBlock_cons, execBlock, run_stmt_ite, run_stmt_ret, run_expr, stepStmt, stepExpr, evalArgs, g0, g1,
          hcall, boolRes, truthy, detectSpec, hb, detectFlow, bind, M.bind, pure, M.pure]
      | false =>
        obtain ⟨st2, hrun, a2, b2, c2, e2, f2⟩ := ih st1 (by rw [b]; exact h0) (by rw [b]; exact h1) (by rw [a]; exact hN) hf
          (by omega) (by rw [c]; exact hd)
        refine ⟨st2, ?_, by rw [a2, a], by rw [b2, b], by rw [c2, c], by omega, by omega⟩
        rw [a] at hrun
        simp [detectStmts, execBlock_cons, execBlock, run_stmt_ite, run_expr, stepStmt, stepExpr, evalArgs, g0, g1,
          hcall, boolRes, truthy, detectSpec, hb, bind, M.bind, pure, M.pure]
        exact hrun

/-- **a call of ANY detector** = `detectSpec` -/
theorem call_detect (S : Sys) (T : ClassTables) (kIs kF kO : Nat)
    (hIs : S.funs[kIs]? = some (isNextTokenDef kF kO)) (hF : S.funs[kF]? = some (findNextTokenDef T.item))
    (hO : S.funs[kO]? = some objectValueIsDef) (k m : Nat) (strs : List Str)
    (hk : S.funs[k]? = some (detectDef kIs strs)) (i : Nat) (st : State)
    (hfuel : st.toks.size < m + 4) (hsteps : st.steps + strs.length * (st.toks.size + 5) + 2 < S.maxSteps)
    (hdepth : st.depth + 2 < S.maxDepth) :
    ∃ st', (run S (m + 12)).call k [.int i, .toks] st = (boolRes (detectSpec S T strs i st.toks.toList), st')
      ∧ st'.toks = st.toks ∧ st'.frame = st.frame ∧ st'.depth = st.depth := by
  show ∃ st', stepCall S (run S (m + 11)) k [.int i, .toks] st = _ ∧ _
  rw [stepCall_eq S _ k _ _ st hk rfl rfl rfl (by omega) (by omega)]
  generalize hst1 : callState st k (detectDef kIs strs) [.int i, .toks] = st1
  have hfr : st1.frame = #[.int i, .toks] := by rw [← hst1]; rfl
  have htoks : st1.toks = st.toks := by rw [← hst1]; rfl
  have hstp : st1.steps = st.steps + 1 := by rw [← hst1]; rfl
  have hdep : st1.depth = st.depth + 1 := by rw [← hst1]; rfl
  obtain ⟨st2, hrun, a, _, _, _, _⟩ := detect_exec S T kIs kF kO hIs hF hO m st.toks.size i strs st1
    (by rw [hfr]; rfl) (by rw [hfr]; rfl) (by rw [htoks]) hfuel (by rw [hstp]; omega) (by rw [hdep]; omega)
  have hbody : (detectDef kIs strs).body = detectStmts kIs strs := rfl
  rw [hbody, hrun, htoks]
  refine ⟨{ st2 with frame := st.frame, depth := st.depth }, ?_, by show st2.toks = _; rw [a, htoks], rfl, rfl⟩
  cases detectSpec S T strs i st.toks.toList with
  | error x => rfl
  | ok b => rfl

/-- **detectors are layout blind**: same answer at corresponding positions in front of a raw item -/
theorem detectSpec_layout (S : Sys) (T : ClassTables) (strs : List Str) (l l' : List CTok) (i j : Nat)
    (hv : view (isRaw T) l = view (isRaw T) l') (hr : rank (isRaw T) l i = rank (isRaw T) l' j)
    (hex : rank (isRaw T) l i < (view (isRaw T) l).length) :
    detectSpec S T strs i l = detectSpec S T strs j l' := by
  induction strs with
  | nil => rfl
  | cons s ss ih =>
    simp only [detectSpec, prims_isNextToken_eq T (S.lowerS s) l l' i j hv hr hex, ih]

theorem decodeDetect_sound (kIs : Nat) (body : List Stmt) :
    ∀ strs, decodeDetect kIs body = some strs → body = detectStmts kIs strs := by
  fun_induction decodeDetect kIs body with
  | case1 => intro strs h; cases h; rfl
  | case2 k s rest hk ih =>
    intro strs h
    simp only [Option.map_eq_some_iff] at h
    obtain ⟨ss, hss, rfl⟩ := h
    simp at hk
    subst hk
    rw [ih ss hss]; rfl
  | case3 => intro strs h; cases h
  | case4 => intro strs h; cases h

theorem decodeDetectFun_sound (kIs : Nat) (fd : FunDef) (strs : List Str) (h : decodeDetectFun kIs fd = some strs) :
    fd = detectDef kIs strs := by
  unfold decodeDetectFun at h
  split at h
  · rename_i hc
    simp only [Bool.and_eq_true, beq_iff_eq, Bool.not_eq_true', List.isEmpty_iff] at hc
    obtain ⟨⟨⟨h1, h2⟩, h3⟩, h4⟩ := hc
    have hb := decodeDetect_sound kIs fd.body strs h
    cases fd
    simp only at h1 h2 h3 h4 hb
    subst h1; subst h2; subst h3; subst h4; subst hb
    rfl
  · cases h

end Vsgm.Prog
