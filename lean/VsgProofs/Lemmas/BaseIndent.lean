/- effect theorems of `token_indent._fix_violation` — for every action string, indent style, indent
   size, indent oracle and token list -/
import VsgProofs.Lemmas.BaseCommon
import VsgModel.Base.Indent
namespace Vsgm.Base
open Vsgm

theorem pyIdx_natB (n k : Nat) (j : Nat) (h : pyIdx n (k : Int) = some j) : j = k ∧ k < n := by
  unfold pyIdx at h
  have hk : ¬ ((k : Int) < 0) := by omega
  simp only [hk, if_false] at h
  split at h
  · rename_i hh
    simp at h
    omega
  · cases h

theorem pyGet_nat {α : Type} (l : List α) (k : Nat) (x : α) (h : pyGet l (k : Int) = .ok x) : l[k]? = some x := by
  obtain ⟨j, hj, hx⟩ := pyGet_some l k x h
  have := (pyIdx_natB _ _ _ hj).1
  subst this
  exact hx

theorem pySet_nat {α : Type} (l : List α) (k : Nat) (x : α) (r : List α) (h : pySet l (k : Int) x = .ok r) :
    r = l.set k x := by
  obtain ⟨j, hj, hr⟩ := pySet_eq l k x r h
  have := (pyIdx_natB _ _ _ hj).1
  subst this
  exact hr

theorem insertToken_zero {α : Type} (l r : List α) (x : α) (h : insertToken l 0 x = .ok r) : r = x :: l ∧ l ≠ [] := by
  unfold insertToken at h
  split at h
  · cases h
  · rename_i hne
    cases h
    constructor
    · simp [pyInsert]
      have : (min (0 : Int) (l.length : Int)).toNat = 0 := by omega
      simp [this]
    · intro he; subst he; simp at hne

end Vsgm.Base

namespace Vsgm.Base.Indent
open Vsgm Vsgm.Base

/-- an indent string: only blanks or only tabs -/
def isIndentStr (v : Str) : Prop := (∃ n, v = List.replicate n ' ') ∨ (∃ n, v = List.replicate n '\t')

/-- the four things the function can do -/
inductive Shape (wsCls : Nat) (action : Str) (l r : List Tok) : Prop where
  | same (h : r = l)
  | remove (ha : action = sRemove) (t0 t1 : Tok) (rest : List Tok) (hl : l = t0 :: t1 :: rest) (hr : r = [t1])
  | adjust (ha : action = sAdjust) (t0 : Tok) (rest : List Tok) (v : Str) (hl : l = t0 :: rest)
      (hr : r = { t0 with val := v } :: rest) (hv : isIndentStr v)
  | add (v : Str) (hl : l ≠ []) (hr : r = { cls := wsCls, kind := .ws, val := v } :: l) (hv : isIndentStr v)

theorem isIndentStr_rep_sp (k : Int) : isIndentStr (rep ' ' k) := Or.inl ⟨_, rfl⟩
theorem isIndentStr_rep_tab (k : Int) : isIndentStr (rep '\t' k) := Or.inr ⟨_, rfl⟩

private theorem adjust_aux (wsCls : Nat) (action : Str) (ha : action = sAdjust) (l r : List Tok) (ind : Nat → Option Int) (f : Int → Str)
    (hf : ∀ k, isIndentStr (f k))
    (h : (do
      let t0 ← pyGet l 0
      let _ ← pyGet l 1
      let lvl ← needLevel (ind 1)
      pySet l 0 { t0 with val := f lvl }) = Except.ok r) : Shape wsCls action l r := by
  cases h0 : pyGet l 0 with
  | error e => simp [h0, bind, Except.bind] at h
  | ok t0 =>
    cases h1 : pyGet l 1 with
    | error e => simp [h0, h1, bind, Except.bind] at h
    | ok t1 =>
      cases h2 : needLevel (ind 1) with
      | error e => simp [h0, h1, h2, bind, Except.bind] at h
      | ok lvl =>
        simp only [h0, h1, h2, bind, Except.bind] at h
        have hs := pySet_nat l 0 _ r h
        have hg := pyGet_nat l 0 t0 h0
        cases l with
        | nil => simp at hg
        | cons a rest =>
          simp at hg; subst hg
          exact Shape.adjust ha a rest (f lvl) rfl (by simpa using hs) (hf lvl)

private theorem add_aux (wsCls : Nat) (action : Str) (l r : List Tok) (ind : Nat → Option Int) (f : Int → Str)
    (hf : ∀ k, isIndentStr (f k))
    (h : (do
      let _ ← pyGet l 0
      let lvl ← needLevel (ind 0)
      insertToken l 0 { cls := wsCls, kind := .ws, val := f lvl }) = Except.ok r) : Shape wsCls action l r := by
  cases h0 : pyGet l 0 with
  | error e => simp [h0, bind, Except.bind] at h
  | ok t0 =>
    cases h2 : needLevel (ind 0) with
    | error e => simp [h0, h2, bind, Except.bind] at h
    | ok lvl =>
      simp only [h0, h2, bind, Except.bind] at h
      obtain ⟨hr, hne⟩ := insertToken_zero l r _ h
      exact Shape.add (f lvl) hne hr (hf lvl)

/-- **shape**: whatever the action, style, size, indent levels and tokens of interest, if
    `_fix_violation` returns it did one of: nothing; keep only the second token; rewrite the VALUE of
    the first token to an indent string (class and kind kept, every other token untouched); put one new
    whitespace token holding an indent string in front -/
theorem fixV_shape (wsCls : Nat) (style : Str) (size : Int) (action : Str) (ind : Nat → Option Int)
    (l r : List Tok) (h : fixV wsCls style size action ind l = .ok r) : Shape wsCls action l r := by
  unfold fixV at h
  by_cases ha1 : (action == sRemove) = true
  · simp only [ha1, if_true] at h
    cases h1 : pyGet l 1 with
    | error e => simp [h1, bind, Except.bind] at h
    | ok t1 =>
      simp only [h1, bind, Except.bind, pure, Except.pure] at h
      cases h
      have hg := pyGet_nat l 1 t1 h1
      match l, hg with
      | t0 :: t1' :: rest, hg =>
        simp at hg; subst hg
        exact Shape.remove (by simpa using ha1) t0 t1' rest rfl rfl
  · simp only [ha1, Bool.false_eq_true, if_false] at h
    by_cases ha2 : (action == sAdjust) = true
    · have ha2' : action = sAdjust := by simpa using ha2
      simp only [ha2, if_true] at h
      split at h
      · exact adjust_aux wsCls action ha2' l r ind (fun k => rep ' ' (k * size)) (fun k => isIndentStr_rep_sp _) h
      · split at h
        · exact adjust_aux wsCls action ha2' l r ind (fun k => rep '\t' k) (fun k => isIndentStr_rep_tab _) h
        · cases h; exact Shape.same rfl
    · simp only [ha2, Bool.false_eq_true, if_false] at h
      split at h
      · split at h
        · exact add_aux wsCls action l r ind (fun k => rep ' ' (k * size)) (fun k => isIndentStr_rep_sp _) h
        · exact add_aux wsCls action l r ind (fun k => rep '\t' k) (fun k => isIndentStr_rep_tab _) h
      · cases h; exact Shape.same rfl

/-- when is a shape layout-only: the tokens that disappear / are rewritten are layout tokens -/
theorem Shape.layoutOnly {wsCls : Nat} {action : Str} {l r : List Tok} (s : Shape wsCls action l r)
    (hrem : ∀ t0 t1 rest, l = t0 :: t1 :: rest → r = [t1] → t0.isLayout = true ∧ nonLayout rest = [])
    (hadj : r.length = l.length → r ≠ l → ∀ t0 ∈ l.head?, t0.isLayout = true) : LayoutOnly l r := by
  unfold LayoutOnly
  cases s with
  | same h => rw [h]
  | remove ha t0 t1 rest hl hr =>
    obtain ⟨h0, hrest⟩ := hrem t0 t1 rest hl hr
    subst hl; subst hr
    simp only [nonLayout, List.filter_cons, h0] at hrest ⊢
    simp [hrest]
  | adjust ha t0 rest v hl hr hv =>
    by_cases he : r = l
    · rw [he]
    · have hlen : r.length = l.length := by rw [hl, hr]; simp
      have h0 := hadj hlen he t0 (by rw [hl]; simp)
      subst hl; subst hr
      have h0' : ({ t0 with val := v } : Tok).isLayout = true := h0
      simp [nonLayout, h0, h0']
  | add v hne hr hv =>
    subst hr
    simp [nonLayout, Tok.isLayout, Kind.isLayout]

/-- line breaks: adjusting and adding never touch a carriage return -/
theorem Shape.crSeq {wsCls : Nat} {action : Str} {l r : List Tok} (s : Shape wsCls action l r)
    (hrem : ∀ t0 t1 rest, l = t0 :: t1 :: rest → r = [t1] → t0.isCr = false ∧ crSeq rest = []) :
    crSeq l = crSeq r := by
  cases s with
  | same h => rw [h]
  | remove ha t0 t1 rest hl hr =>
    obtain ⟨h0, hrest⟩ := hrem t0 t1 rest hl hr
    subst hl; subst hr
    simp only [Vsgm.crSeq, List.flatMap_cons, h0] at hrest ⊢
    simp [hrest]
  | adjust ha t0 rest v hl hr hv =>
    subst hl; subst hr
    simp [Vsgm.crSeq, List.flatMap_cons, Tok.isCr]
  | add v hne hr hv =>
    subst hr
    simp [Vsgm.crSeq, List.flatMap_cons, Tok.isCr]

/-- what the extractor `get_tokens_at_beginning_of_line_matching*` hands over: `[token]` or
    `[whitespace, token]` — stated as: everything except the token at index 1 is whitespace when
    something is removed, and the first token is whitespace when its value is rewritten -/
def ToiOk (action : Str) (l : List Tok) : Prop :=
  (action = sRemove → ∀ t ∈ l.eraseIdx 1, t.kind = .ws) ∧
  (action = sAdjust → ∀ t ∈ l.head?, t.kind = .ws)

theorem ws_isLayout (t : Tok) (h : t.kind = .ws) : t.isLayout = true := by
  simp [Tok.isLayout, Kind.isLayout, h]
theorem ws_notCr (t : Tok) (h : t.kind = .ws) : t.isCr = false := by
  simp [Tok.isCr, h]


/-- a `--` comment that ended its line inside the tokens of interest still does after ANY action of
    the indent fix, on any token list: kinds are never changed, what is inserted is whitespace in front,
    what survives `remove_whitespace` is a single token -/
theorem Shape.commentEndsLine {wsCls : Nat} {action : Str} {l r : List Tok} (s : Shape wsCls action l r)
    (h : commentEndsLine l = true) : commentEndsLine r = true := by
  cases s with
  | same h' => rw [h']; exact h
  | remove ha t0 t1 rest hl hr => rw [hr]; rfl
  | adjust ha t0 rest v hl hr hv =>
    subst hl; subst hr
    cases rest with
    | nil => rfl
    | cons x xs => simpa [Vsgm.commentEndsLine] using h
  | add v hne hr hv =>
    subst hr
    cases l with
    | nil => rfl
    | cons x xs => simp [Vsgm.commentEndsLine, h]

theorem mem_eraseIdx_one (t0 t1 : Tok) (rest : List Tok) : (t0 :: t1 :: rest).eraseIdx 1 = t0 :: rest := rfl

/-- **layout-only** for every style, size, indent oracle and token list, under `ToiOk` -/
theorem fixV_layoutOnly (wsCls : Nat) (style : Str) (size : Int) (action : Str) (ind : Nat → Option Int)
    (l r : List Tok) (h : fixV wsCls style size action ind l = .ok r) (hok : ToiOk action l) : LayoutOnly l r := by
  have s := fixV_shape wsCls style size action ind l r h
  cases s with
  | same h => rw [h]; rfl
  | remove ha t0 t1 rest hl hr =>
    refine (Shape.remove ha t0 t1 rest hl hr : Shape wsCls action l r).layoutOnly ?_ ?_
    · intro a b c hl' hr'
      have hall := hok.1 ha
      rw [hl', mem_eraseIdx_one] at hall
      refine ⟨ws_isLayout a (hall a (by simp)), ?_⟩
      simp only [nonLayout, List.filter_eq_nil_iff]
      intro t ht
      simp [ws_isLayout t (hall t (by simp [ht]))]
    · intro hlen _
      rw [hl, hr] at hlen
      have hall := hok.1 ha
      rw [hl, mem_eraseIdx_one] at hall
      intro a ha'
      rw [hl] at ha'; simp at ha'; subst ha'
      exact ws_isLayout _ (hall _ (by simp))
  | adjust ha t0 rest v hl hr hv =>
    refine (Shape.adjust ha t0 rest v hl hr hv : Shape wsCls action l r).layoutOnly ?_ ?_
    · intro a b c hl' hr'
      have h0 := hok.2 ha a (by rw [hl']; simp)
      rw [hl] at hl'; rw [hr] at hr'
      simp at hl' hr'
      obtain ⟨_, h2⟩ := hl'
      obtain ⟨_, h3⟩ := hr'
      rw [h3] at h2; cases h2
    · intro _ _ a ha'
      exact ws_isLayout _ (hok.2 ha a ha')
  | add v hne hr hv =>
    refine (Shape.add v hne hr hv : Shape wsCls action l r).layoutOnly ?_ ?_
    · intro a b c hl' hr'
      rw [hl'] at hr; rw [hr'] at hr
      simp at hr
    · intro hlen _
      rw [hr] at hlen; simp at hlen

/-- **line breaks kept**: only `remove_whitespace` can lose one, and only if a carriage return sits
    outside index 1 of the tokens of interest -/
theorem fixV_crSeq (wsCls : Nat) (style : Str) (size : Int) (action : Str) (ind : Nat → Option Int)
    (l r : List Tok) (h : fixV wsCls style size action ind l = .ok r)
    (hok : action = sRemove → ∀ t ∈ l.eraseIdx 1, t.isCr = false) : crSeq l = crSeq r := by
  have s := fixV_shape wsCls style size action ind l r h
  refine s.crSeq ?_
  intro a b c hl hr
  cases s with
  | same h' =>
    rw [hl] at h'; rw [h'] at hr; simp at hr
  | remove ha t0 t1 rest hl' hr' =>
    have hall := hok ha
    rw [hl, mem_eraseIdx_one] at hall
    refine ⟨hall a (by simp), ?_⟩
    simp only [Vsgm.crSeq, List.flatMap_eq_nil_iff]
    intro t ht
    simp [hall t (by simp [ht])]
  | adjust ha t0 rest v hl' hr' hv =>
    rw [hl] at hl'; rw [hr] at hr'
    simp at hl' hr'
    obtain ⟨_, h2⟩ := hl'
    obtain ⟨_, h3⟩ := hr'
    rw [h3] at h2; cases h2
  | add v hne hr' hv =>
    rw [hl] at hr'; rw [hr] at hr'; simp at hr'

end Vsgm.Base.Indent
