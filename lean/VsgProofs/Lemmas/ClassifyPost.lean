/-
  Helper lemmas for C05: the post passes commute with dropping the tokens the navigation skips.
-/
import VsgProofs.Lemmas.Classify
namespace Vsgm.Classify
open Vsgm

/-! ### views and ranks of `done ++ t :: rest` -/

theorem rank_append_length (p : CTok → Bool) (d r : List CTok) :
    rank p (d ++ r) d.length = (d.filter p).length := by
  simp [rank]

theorem rank_append_length_succ (p : CTok → Bool) (d : List CTok) (t : CTok) (r : List CTok) :
    rank p (d ++ t :: r) (d.length + 1) = (d.filter p).length + (if p t then 1 else 0) := by
  have : d ++ t :: r = (d ++ [t]) ++ r := by simp
  rw [this, show d.length + 1 = (d ++ [t]).length by simp, rank_append_length]
  simp [List.filter_append, List.filter_cons]
  split <;> simp

theorem view_append_cons (p : CTok → Bool) (d : List CTok) (t : CTok) (r : List CTok) (ht : p t = true) :
    view p (d ++ t :: r) = d.filter p ++ t :: r.filter p := by
  simp [view, List.filter_append, ht]

theorem filter_all_id (p : CTok → Bool) (l : List CTok) : (l.filter p).filter p = l.filter p := by
  simp [List.filter_filter]

/-- in a list all of whose tokens are kept, the rank of an index is the index -/
theorem rank_all_kept (p : CTok → Bool) (v : List CTok) (hv : ∀ t ∈ v, p t = true) (k : Nat) (hk : k ≤ v.length) :
    rank p v k = k := by
  unfold rank
  rw [List.filter_eq_self.2 (fun t ht => hv t (List.mem_of_mem_take ht))]
  simp [hk]

theorem view_all_kept (p : CTok → Bool) (v : List CTok) (hv : ∀ t ∈ v, p t = true) : view p v = v :=
  List.filter_eq_self.2 hv

theorem filtered_all_kept (p : CTok → Bool) (d : List CTok) (t : CTok) (r : List CTok) (ht : p t = true) :
    ∀ x ∈ d.filter p ++ t :: r.filter p, p x = true := by
  intro x hx
  simp only [List.mem_append, List.mem_filter, List.mem_cons] at hx
  rcases hx with ⟨_, h⟩ | rfl | ⟨_, h⟩ <;> assumption

/-- `nextIs` at a kept token does not see the skipped tokens -/
theorem nextIs_filter (T : ClassTables) (ty : Ty) (d : List CTok) (t : CTok) (r : List CTok)
    (ht : keepNav T t = true) (hty : tyNoSkip T ty) :
    nextIs T ty (d ++ t :: r) d.length
      = nextIs T ty (d.filter (keepNav T) ++ t :: r.filter (keepNav T)) (d.filter (keepNav T)).length := by
  rw [nextIs_spec T ty _ _ hty, nextIs_spec T ty _ _ hty]
  have hk := filtered_all_kept (keepNav T) d t r ht
  rw [view_append_cons _ _ _ _ ht, view_all_kept _ _ hk, rank_append_length_succ,
    rank_all_kept _ _ hk _ (by simp)]
  simp [ht]

/-- `prevIs` at a kept token that has a kept token in front of it does not see the skipped tokens -/
theorem prevIs_filter (T : ClassTables) (ty : Ty) (d : List CTok) (t : CTok) (r : List CTok)
    (ht : keepNav T t = true) (hty : tyNoSkip T ty) (hd : d.filter (keepNav T) ≠ []) :
    prevIs T ty (d ++ t :: r) d.length
      = prevIs T ty (d.filter (keepNav T) ++ t :: r.filter (keepNav T)) (d.filter (keepNav T)).length := by
  have hdl : d.length ≠ 0 := by
    intro h; have : d = [] := List.length_eq_zero_iff.1 h; subst this; simp at hd
  have hfl : (d.filter (keepNav T)).length ≠ 0 := by
    intro h; exact hd (List.length_eq_zero_iff.1 h)
  obtain ⟨n, hn⟩ : ∃ n, d.length = n + 1 := ⟨d.length - 1, by omega⟩
  obtain ⟨m, hm⟩ : ∃ m, (d.filter (keepNav T)).length = m + 1 := ⟨(d.filter (keepNav T)).length - 1, by omega⟩
  have hk := filtered_all_kept (keepNav T) d t r ht
  rw [hn, hm, prevIs_spec T ty _ n (by simp; omega) hty, prevIs_spec T ty _ m (by simp; omega) hty]
  rw [view_append_cons _ _ _ _ ht, view_all_kept _ _ hk, ← hn, ← hm, rank_append_length,
    rank_all_kept _ _ hk _ (by simp)]

/-! ### writes commute with the filter -/

theorem filter_set_kept (p : CTok → Bool) (l : List CTok) (k : Nat) (old new : CTok)
    (hold : l[k]? = some old) (hpo : p old = true) (hpn : p new = true) :
    (l.set k new).filter p = (l.filter p).set (rank p l k) new := by
  induction l generalizing k with
  | nil => simp at hold
  | cons a l ih =>
    cases k with
    | zero =>
      simp at hold; subst hold
      simp [hpo, hpn, rank]
    | succ k =>
      simp at hold
      rw [List.set_cons_succ, rank_cons_succ]
      by_cases ha : p a = true
      · simp [ha, ih k hold]
      · have ha' : p a = false := by simpa using ha
        simp [ha', ih k hold]

end Vsgm.Classify

namespace Vsgm.Classify
open Vsgm

/-! ### hypotheses on the class tables (all decided for the generated tables of /repo) -/

/-- a class index that the navigation does not skip -/
def clsKept (T : ClassTables) (c : Nat) : Prop := T.wsOrCmt.contains c = false

theorem keepNav_of_cls (T : ClassTables) (t : CTok) (c : Nat) (h : t.cls = c) (hc : clsKept T c) :
    keepNav T t = true := by
  unfold clsKept at hc
  simp only [List.contains_eq_mem, decide_eq_false_iff_not] at hc
  simp [keepNav, isSkip, isInst, h, hc]

theorem keepNav_congr (T : ClassTables) (a b : CTok) (h : a.cls = b.cls) : keepNav T a = keepNav T b := by
  simp [keepNav, isSkip, isInst, h]

theorem cls_ne_of_skip (T : ClassTables) (t : CTok) (c : Nat) (hs : keepNav T t = false) (hc : clsKept T c) :
    (t.cls == c) = false := by
  cases h : t.cls == c with
  | false => rfl
  | true =>
    have : t.cls = c := by simpa using h
    rw [keepNav_of_cls T t c this hc] at hs; cases hs

theorem isInst_false_of_skip (T : ClassTables) (t : CTok) (ty : Ty) (hs : keepNav T t = false) (hty : tyNoSkip T ty) :
    isInst t ty = false := hty t (by simpa [keepNav] using hs)

/-- decidable form of `tyNoSkip` -/
def disjointTy (T : ClassTables) (ty : Ty) : Bool := T.wsOrCmt.all fun c => !ty.contains c

theorem tyNoSkip_of_disjoint (T : ClassTables) (ty : Ty) (h : disjointTy T ty = true) : tyNoSkip T ty := by
  intro t hs
  simp only [isSkip, isInst, List.contains_eq_mem, decide_eq_true_eq] at hs
  have := List.all_eq_true.1 h t.cls hs
  simpa [isInst] using this

structure PostHyps (T : ClassTables) (P : PostTables) : Prop where
  ifKw : tyNoSkip T P.ifKw
  elsifKw : tyNoSkip T P.elsifKw
  elseKw : tyNoSkip T P.elseKw
  ifSemicolon : tyNoSkip T P.ifSemicolon
  openParen : tyNoSkip T P.openParen
  keyword : tyNoSkip T P.keyword
  assignment : tyNoSkip T P.assignment
  comma : tyNoSkip T P.comma
  bar : tyNoSkip T P.bar
  logicalOperator : tyNoSkip T P.logicalOperator
  eKeyword : tyNoSkip T T.eKeyword
  todoName : tyNoSkip T P.todoName
  parserType : tyNoSkip T P.parserType
  parserFunction : tyNoSkip T P.parserFunction
  todo : tyNoSkip T P.todo
  groupA : tyNoSkip T P.groupA
  attrAttribute : tyNoSkip T P.attrAttribute
  aggOpen : tyNoSkip T P.aggOpen
  elemAssign : tyNoSkip T P.elemAssign
  item : clsKept T T.item
  todoExact : clsKept T P.todoExact
  openParenExact : clsKept T P.openParenExact
  closeParenExact : clsKept T P.closeParenExact
  commaExact : clsKept T P.commaExact
  cTodoName : clsKept T P.cTodoName
  cTodoOpen : clsKept T P.cTodoOpen
  cTodoClose : clsKept T P.cTodoClose
  cAggOpen : clsKept T P.cAggOpen
  cAggClose : clsKept T P.cAggClose
  cPredefKeyword : clsKept T P.cPredefKeyword
  cPredefEvent : clsKept T P.cPredefEvent
  cOpenParen : clsKept T P.cOpenParen
  cCloseParen : clsKept T P.cCloseParen
  cTic : clsKept T P.cTic
  cCharLit : clsKept T P.cCharLit
  cPlus : clsKept T P.cPlus
  cMinus : clsKept T P.cMinus
  cStar : clsKept T P.cStar
  cSlash : clsKept T P.cSlash
  cDoubleStar : clsKept T P.cDoubleStar
  todoMap : ∀ kv ∈ P.todoMap, clsKept T kv.2
  addMap : ∀ kv ∈ P.addMap, clsKept T kv.2.1 ∧ clsKept T kv.2.2
  logMap : ∀ kv ∈ P.logMap, clsKept T kv.2.1 ∧ clsKept T kv.2.2

/-! ### set_token_hierarchy_value -/

theorem hierGo_filter (T : ClassTables) (P : PostTables) (H : PostHyps T P) (l : List CTok) (h : Int) :
    (hierGo P l h).filter (keepNav T) = hierGo P (l.filter (keepNav T)) h := by
  induction l generalizing h with
  | nil => simp [hierGo]
  | cons t rest ih =>
    by_cases hk : keepNav T t = true
    · rw [List.filter_cons_of_pos hk]
      simp only [hierGo]
      rw [List.filter_cons_of_pos, ih]
      -- the token written has the class of `t`
      rw [keepNav_congr T _ t]; exact hk
      split <;> split <;> split <;> split <;> rfl
    · have hk' : keepNav T t = false := by simpa using hk
      rw [List.filter_cons_of_neg (by simpa using hk)]
      simp only [hierGo, isInst_false_of_skip T t _ hk' H.ifKw, isInst_false_of_skip T t _ hk' H.elsifKw,
        isInst_false_of_skip T t _ hk' H.elseKw, isInst_false_of_skip T t _ hk' H.ifSemicolon,
        Bool.false_eq_true, if_false]
      rw [List.filter_cons_of_neg (by simpa using hk), ih]

end Vsgm.Classify

namespace Vsgm.Classify
open Vsgm

/-! ### set_todo_tokens -/

/-- the first kept token (if any) is not a plain `parser.open_parenthesis` — otherwise
    `check_for_open_parenthesis` calls the backward search with index `-1`, which reads the
    LAST token of the list -/
def quietTodo (P : PostTables) (o : Option CTok) : Prop := ∀ t, o = some t → (t.cls == P.openParenExact) = false

theorem todoStep_skip (T : ClassTables) (P : PostTables) (H : PostHyps T P) (d : List CTok) (t : CTok)
    (r : List CTok) (opens : List (Option Nat)) (hs : keepNav T t = false) :
    todoStep T P d t r opens = (t, opens) := by
  simp [todoStep, cls_ne_of_skip T t _ hs H.todoExact, cls_ne_of_skip T t _ hs H.openParenExact,
    cls_ne_of_skip T t _ hs H.closeParenExact]

theorem todoStep_kept (T : ClassTables) (P : PostTables) (H : PostHyps T P) (d : List CTok) (t : CTok)
    (r : List CTok) (opens : List (Option Nat)) (hk : keepNav T t = true)
    (hq : d.filter (keepNav T) = [] → (t.cls == P.openParenExact) = false) :
    todoStep T P d t r opens
      = todoStep T P (d.filter (keepNav T)) t (r.filter (keepNav T)) opens := by
  unfold todoStep
  simp only [nextIs_filter T P.openParen d t r hk H.openParen]
  by_cases ho : (t.cls == P.openParenExact) = true
  · have hd : d.filter (keepNav T) ≠ [] := by
      intro h; rw [hq h] at ho; cases ho
    simp only [prevIs_filter T _ d t r hk H.todoName hd, prevIs_filter T _ d t r hk H.parserType hd,
      prevIs_filter T _ d t r hk H.parserFunction hd]
  · have ho' : (t.cls == P.openParenExact) = false := by simpa using ho
    simp only [ho', Bool.false_and]

theorem todoStep_cls (T : ClassTables) (P : PostTables) (H : PostHyps T P) (d : List CTok) (t : CTok)
    (r : List CTok) (opens : List (Option Nat)) (hk : keepNav T t = true) :
    keepNav T (todoStep T P d t r opens).1 = true := by
  have h1 := keepNav_of_cls T (converted P.cTodoName t) _ rfl H.cTodoName
  have h2 := keepNav_of_cls T (converted P.cTodoOpen t) _ rfl H.cTodoOpen
  have h3 := keepNav_of_cls T (converted P.cTodoClose t) _ rfl H.cTodoClose
  unfold todoStep
  simp only
  split
  · split
    · split <;> (try split) <;> (try split) <;> simp_all
    · split <;> (try split) <;> simp_all
  · split <;> (try split) <;> simp_all

theorem todoGo_filter (T : ClassTables) (P : PostTables) (H : PostHyps T P) (rest : List CTok) :
    ∀ (d : List CTok) (opens : List (Option Nat)),
      (d.filter (keepNav T) = [] → quietTodo P (rest.filter (keepNav T)).head?) →
      (todoGo T P d rest opens).filter (keepNav T)
        = todoGo T P (d.filter (keepNav T)) (rest.filter (keepNav T)) opens := by
  induction rest with
  | nil => intro d opens _; simp [todoGo]
  | cons t rest ih =>
    intro d opens hq
    by_cases hk : keepNav T t = true
    · rw [List.filter_cons_of_pos hk] at hq ⊢
      simp only [todoGo]
      have hq' : d.filter (keepNav T) = [] → (t.cls == P.openParenExact) = false :=
        fun h => hq h t (by simp)
      rw [← todoStep_kept T P H d t rest opens hk hq']
      have hc := todoStep_cls T P H d t rest opens hk
      rw [ih (d ++ [(todoStep T P d t rest opens).1]) _ (by
        intro h; simp [List.filter_append, hc] at h)]
      simp [List.filter_append, hc]
    · have hk' : keepNav T t = false := by simpa using hk
      rw [List.filter_cons_of_neg (by simpa using hk)] at hq ⊢
      simp only [todoGo, todoStep_skip T P H d t rest opens hk']
      rw [ih (d ++ [t]) opens (by
        intro h; apply hq; simpa [List.filter_append, hk'] using h)]
      simp [List.filter_append, hk']

/-- `set_todo_tokens` commutes with dropping the skipped tokens -/
theorem setTodoTokens_filter (T : ClassTables) (P : PostTables) (H : PostHyps T P) (l : List CTok)
    (hq : quietTodo P (l.filter (keepNav T)).head?) :
    (setTodoTokens T P l).filter (keepNav T) = setTodoTokens T P (l.filter (keepNav T)) := by
  unfold setTodoTokens
  have := todoGo_filter T P H l [] [] (fun _ => hq)
  simpa using this

end Vsgm.Classify

namespace Vsgm.Classify
open Vsgm

/-! ### set_aggregate_tokens -/

theorem rank_append_le (p : CTok → Bool) (d x : List CTok) (j : Nat) (hj : j ≤ d.length) :
    rank p (d ++ x) j = rank p d j := by
  simp [rank, List.take_append_of_le_length hj]

theorem rank_set_same (p : CTok → Bool) (l : List CTok) (k : Nat) (new : CTok)
    (h : ∀ old, l[k]? = some old → p old = p new) (j : Nat) : rank p (l.set k new) j = rank p l j := by
  induction l generalizing k j with
  | nil => simp
  | cons a l ih =>
    cases j with
    | zero => simp [rank]
    | succ j =>
      cases k with
      | zero =>
        have := h a (by simp)
        simp [List.set_cons_zero, rank_cons_succ, this]
      | succ k =>
        rw [List.set_cons_succ, rank_cons_succ, rank_cons_succ, ih k (by intro o ho; exact h o (by simpa using ho))]

/-- stack invariant: every stored index points at a kept token -/
def AggInv (T : ClassTables) (cur : List CTok) (opens : List Nat) : Prop :=
  ∀ j ∈ opens, ∃ t, cur[j]? = some t ∧ keepNav T t = true

theorem natGet_filter (T : ClassTables) (cur : List CTok) (j : Nat) (t : CTok)
    (h : cur[j]? = some t) (hk : keepNav T t = true) :
    natGet (cur.filter (keepNav T)) (rank (keepNav T) cur j) = .ok t := by
  have := view_get_of_keep (keepNav T) cur j t h hk
  simp [natGet, view] at this ⊢
  simp [this]

theorem aggClose_filter (T : ClassTables) (P : PostTables) (H : PostHyps T P) (cur : List CTok) (i : Nat)
    (t : CTok) (opens : List Nat) (hi : cur[i]? = some t) (hk : keepNav T t = true) (hinv : AggInv T cur opens) :
    match aggClose P cur i t opens with
    | .error e => aggClose P (cur.filter (keepNav T)) (rank (keepNav T) cur i) t (opens.map (rank (keepNav T) cur)) = .error e
    | .ok (c, o) =>
      aggClose P (cur.filter (keepNav T)) (rank (keepNav T) cur i) t (opens.map (rank (keepNav T) cur))
          = .ok (c.filter (keepNav T), o.map (rank (keepNav T) c))
        ∧ AggInv T c o ∧ (∀ j, rank (keepNav T) c j = rank (keepNav T) cur j)
        ∧ (∃ t', c[i]? = some t' ∧ keepNav T t' = true) := by
  unfold aggClose
  by_cases hc : (t.cls == P.closeParenExact) = true
  · simp only [hc, if_true]
    cases opens with
    | nil => simp
    | cons idx os =>
      obtain ⟨o, ho, hko⟩ := hinv idx (by simp)
      have hng : natGet cur idx = .ok o := by simp [natGet, ho]
      simp only [List.map_cons, hng, natGet_filter T cur idx o ho hko]
      have hinv' : AggInv T cur os := fun j hj => hinv j (List.mem_cons_of_mem _ hj)
      by_cases ha : isInst o P.aggOpen = true
      · simp only [ha, if_true]
        have hnew : keepNav T { fresh P.cAggClose [')'] with iId := t.iId } = true :=
          keepNav_of_cls T _ _ rfl H.cAggClose
        have hrk : ∀ j, rank (keepNav T) (cur.set i { fresh P.cAggClose [')'] with iId := t.iId }) j
            = rank (keepNav T) cur j :=
          rank_set_same _ _ _ _ (by intro old hold; rw [hi] at hold; cases hold; rw [hk, hnew])
        refine ⟨?_, ?_, hrk, ?_⟩
        · rw [filter_set_kept (keepNav T) cur i t _ hi hk hnew]
          congr 2
          exact List.map_congr_left (fun j _ => (hrk j).symm)
        · intro j hj
          obtain ⟨x, hx, hkx⟩ := hinv' j hj
          by_cases hji : i = j
          · subst hji
            exact ⟨_, by simp [(List.getElem?_eq_some_iff.1 hx).1], hnew⟩
          · exact ⟨x, by simp [hji, hx], hkx⟩
        · exact ⟨_, by simp [(List.getElem?_eq_some_iff.1 hi).1], hnew⟩
      · have ha' : isInst o P.aggOpen = false := by simpa using ha
        simp only [ha', Bool.false_eq_true, if_false]
        exact ⟨trivial, hinv', fun _ => trivial, t, hi, hk⟩
  · have hc' : (t.cls == P.closeParenExact) = false := by simpa using hc
    simp only [hc', Bool.false_eq_true, if_false]
    exact ⟨trivial, hinv, fun _ => trivial, t, hi, hk⟩

theorem aggMark_filter (T : ClassTables) (P : PostTables) (H : PostHyps T P) (cur : List CTok)
    (t : CTok) (opens : List Nat) (hinv : AggInv T cur opens) :
    match aggMark P cur t opens with
    | .error e => aggMark P (cur.filter (keepNav T)) t (opens.map (rank (keepNav T) cur)) = .error e
    | .ok (c, o) =>
      aggMark P (cur.filter (keepNav T)) t (opens.map (rank (keepNav T) cur))
          = .ok (c.filter (keepNav T), o.map (rank (keepNav T) c))
        ∧ AggInv T c o ∧ c.length = cur.length := by
  unfold aggMark
  cases opens with
  | nil => simp [AggInv]
  | cons top os =>
    simp only [List.map_cons]
    by_cases hm : (isInst t P.elemAssign || t.cls == P.commaExact) = true
    · simp only [hm, if_true]
      obtain ⟨o, ho, hko⟩ := hinv top (by simp)
      have hng : natGet cur top = .ok o := by simp [natGet, ho]
      simp only [hng, natGet_filter T cur top o ho hko]
      have hnew : keepNav T { fresh P.cAggOpen ['('] with iId := o.iId } = true :=
        keepNav_of_cls T _ _ rfl H.cAggOpen
      have hrk : ∀ j, rank (keepNav T) (cur.set top { fresh P.cAggOpen ['('] with iId := o.iId }) j
          = rank (keepNav T) cur j :=
        rank_set_same _ _ _ _ (by intro old hold; rw [ho] at hold; cases hold; rw [hko, hnew])
      refine ⟨?_, ?_, by simp⟩
      · rw [filter_set_kept (keepNav T) cur top o _ ho hko hnew]
        congr 2
        rw [← List.map_cons]
        exact List.map_congr_left (fun j _ => (hrk j).symm)
      · intro j hj
        obtain ⟨x, hx, hkx⟩ := hinv j hj
        by_cases hji : top = j
        · subst hji
          exact ⟨_, by simp [(List.getElem?_eq_some_iff.1 hx).1], hnew⟩
        · exact ⟨x, by simp [hji, hx], hkx⟩
    · have hm' : (isInst t P.elemAssign || t.cls == P.commaExact) = false := by simpa using hm
      simp only [hm', Bool.false_eq_true, if_false]
      exact ⟨by rw [← List.map_cons], hinv, trivial⟩

end Vsgm.Classify

namespace Vsgm.Classify
open Vsgm

theorem aggStep_skip (T : ClassTables) (P : PostTables) (H : PostHyps T P) (d : List CTok) (t : CTok)
    (opens : List Nat) (hs : keepNav T t = false) : aggStep P d t opens = .ok (d ++ [t], opens) := by
  have h1 := cls_ne_of_skip T t _ hs H.openParenExact
  have h2 := cls_ne_of_skip T t _ hs H.closeParenExact
  have h3 := cls_ne_of_skip T t _ hs H.commaExact
  have h4 := isInst_false_of_skip T t _ hs H.elemAssign
  unfold aggStep aggClose aggPush
  simp only [h1, h2, Bool.false_eq_true, if_false]
  unfold aggMark
  cases opens <;> simp [h3, h4]

theorem aggInv_append (T : ClassTables) (d : List CTok) (x : List CTok) (opens : List Nat)
    (h : AggInv T d opens) : AggInv T (d ++ x) opens := by
  intro j hj
  obtain ⟨t, ht, hk⟩ := h j hj
  have hlt : j < d.length := (List.getElem?_eq_some_iff.1 ht).1
  exact ⟨t, by rw [List.getElem?_append_left hlt]; exact ht, hk⟩

theorem aggStep_kept (T : ClassTables) (P : PostTables) (H : PostHyps T P) (d : List CTok) (t : CTok)
    (opens : List Nat) (hk : keepNav T t = true) (hinv : AggInv T d opens) :
    match aggStep P d t opens with
    | .error e => aggStep P (d.filter (keepNav T)) t (opens.map (rank (keepNav T) d)) = .error e
    | .ok (c, o) =>
      aggStep P (d.filter (keepNav T)) t (opens.map (rank (keepNav T) d))
          = .ok (c.filter (keepNav T), o.map (rank (keepNav T) c)) ∧ AggInv T c o := by
  have hcur : (d ++ [t])[d.length]? = some t := by simp
  have hfil : (d ++ [t]).filter (keepNav T) = d.filter (keepNav T) ++ [t] := by
    simp [List.filter_append, hk]
  have hri : rank (keepNav T) (d ++ [t]) d.length = (d.filter (keepNav T)).length := rank_append_length _ _ _
  have hmap : (aggPush P d.length t opens).map (rank (keepNav T) (d ++ [t]))
      = aggPush P (d.filter (keepNav T)).length t (opens.map (rank (keepNav T) d)) := by
    have hm : opens.map (rank (keepNav T) (d ++ [t])) = opens.map (rank (keepNav T) d) := by
      apply List.map_congr_left
      intro j hj
      obtain ⟨x, hx, _⟩ := hinv j hj
      exact rank_append_le _ _ _ _ (Nat.le_of_lt (List.getElem?_eq_some_iff.1 hx).1)
    unfold aggPush
    split <;> simp [hm, hri]
  have hinv1 : AggInv T (d ++ [t]) (aggPush P d.length t opens) := by
    have hbase := aggInv_append T d [t] opens hinv
    unfold aggPush
    split
    · intro j hj
      simp only [List.mem_cons] at hj
      rcases hj with rfl | hj
      · exact ⟨t, hcur, hk⟩
      · exact hbase j hj
    · exact hbase
  have hclose := aggClose_filter T P H (d ++ [t]) d.length t _ hcur hk hinv1
  unfold aggStep
  rw [hfil] at hclose
  rw [hri, hmap] at hclose
  cases hc : aggClose P (d ++ [t]) d.length t (aggPush P d.length t opens) with
  | error e =>
    simp only [hc] at hclose
    simp only [hclose]
  | ok co =>
    obtain ⟨c, o⟩ := co
    simp only [hc] at hclose
    obtain ⟨heq, hinv2, _, _⟩ := hclose
    simp only [heq]
    have hmark := aggMark_filter T P H c t o hinv2
    cases hm : aggMark P c t o with
    | error e => simp only [hm] at hmark; exact hmark
    | ok co2 =>
      obtain ⟨c2, o2⟩ := co2
      simp only [hm] at hmark
      exact ⟨hmark.1, hmark.2.1⟩

theorem aggGo_filter (T : ClassTables) (P : PostTables) (H : PostHyps T P) (rest : List CTok) :
    ∀ (d : List CTok) (opens : List Nat), AggInv T d opens →
      match aggGo P d rest opens with
      | .error e => aggGo P (d.filter (keepNav T)) (rest.filter (keepNav T)) (opens.map (rank (keepNav T) d)) = .error e
      | .ok r => aggGo P (d.filter (keepNav T)) (rest.filter (keepNav T)) (opens.map (rank (keepNav T) d))
          = .ok (r.filter (keepNav T)) := by
  induction rest with
  | nil => intro d opens _; simp [aggGo]
  | cons t rest ih =>
    intro d opens hinv
    by_cases hk : keepNav T t = true
    · rw [List.filter_cons_of_pos hk]
      have hs := aggStep_kept T P H d t opens hk hinv
      simp only [aggGo]
      cases hst : aggStep P d t opens with
      | error e => simp only [hst] at hs; simp only [hs]
      | ok co =>
        obtain ⟨c, o⟩ := co
        simp only [hst] at hs
        simp only [hs.1]
        exact ih c o hs.2
    · have hk' : keepNav T t = false := by simpa using hk
      rw [List.filter_cons_of_neg (by simpa using hk)]
      simp only [aggGo, aggStep_skip T P H d t opens hk']
      have := ih (d ++ [t]) opens (aggInv_append T d [t] opens hinv)
      have hf : (d ++ [t]).filter (keepNav T) = d.filter (keepNav T) := by simp [List.filter_append, hk']
      have hm : opens.map (rank (keepNav T) (d ++ [t])) = opens.map (rank (keepNav T) d) := by
        apply List.map_congr_left
        intro j hj
        obtain ⟨x, hx, _⟩ := hinv j hj
        exact rank_append_le _ _ _ _ (Nat.le_of_lt (List.getElem?_eq_some_iff.1 hx).1)
      rw [hf, hm] at this
      exact this

/-- `set_aggregate_tokens` commutes with dropping the skipped tokens (errors included) -/
theorem setAggregateTokens_filter (T : ClassTables) (P : PostTables) (H : PostHyps T P) (l : List CTok) :
    setAggregateTokens P (l.filter (keepNav T)) = (setAggregateTokens P l).map (·.filter (keepNav T)) := by
  unfold setAggregateTokens
  have := aggGo_filter T P H l [] [] (by intro j hj; simp at hj)
  cases h : aggGo P [] l [] with
  | error e => simp only [h] at this; simpa [Except.map] using this
  | ok r => simp only [h] at this; simpa [Except.map] using this

end Vsgm.Classify
