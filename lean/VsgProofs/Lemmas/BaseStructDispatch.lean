/-
  The effect lemmas of the structure family at the level of the dispatcher `fixS`
  (rule parameters and action decoded from their key/value form).
-/
import VsgProofs.Lemmas.BaseInsert
import VsgProofs.Lemmas.BaseRemove
import VsgProofs.Lemmas.BaseParens
import VsgProofs.Lemmas.BaseSplit
import VsgProofs.Lemmas.BaseAlignMulti
import VsgModel.Base.DispatchStruct
namespace Vsgm.Base
open Vsgm

/-- insert family, configured `action: add`, every action / token value / token list: the result is
    the input, or its projection is the input's projection with the projection of the DESIGNATED
    tokens inserted at one place -/
theorem fixS_insert_add {β : Type} (P : Proj β) (E : Env) (o : SOwner) (params action : KV) (old new : List Tok)
    (ho : o.isInsert = true) (hm : removeMode o params = false) (h : fixS E o params action old = .ok new) :
    new = old ∨ ∃ ins, designated E o params action = .ok (some ins) ∧ InsSeg (P.π ins) (P.π old) (P.π new) := by
  cases o <;> simp [SOwner.isInsert] at ho
  · -- nextTo
    unfold fixS at h
    simp only [hm] at h
    obtain ⟨insCls, h1, h⟩ := bind_ok _ _ _ h
    obtain ⟨anchor, h2, h⟩ := bind_ok _ _ _ h
    obtain ⟨v, h3, h⟩ := bind_ok _ _ _ h
    unfold Insert.fixNextTo at h
    simp only [Bool.false_eq_true, if_false] at h
    rcases Insert.addOptionalItem_proj P E _ _ _ _ old new h with h | ⟨s, hv, hs⟩
    · exact Or.inl h
    · refine Or.inr ⟨[E.inst insCls.toNat s], ?_, hs⟩
      simp [designated, h1, h3, hv, bind, Except.bind, pure, Except.pure]
  · -- rightOf
    unfold fixS at h
    simp only [hm] at h
    obtain ⟨tok, h1, h⟩ := bind_ok _ _ _ h
    exact Or.inr ⟨[tok], by simp [designated, h1, bind, Except.bind, pure, Except.pure],
      Insert.fixRightOf_add_proj P E tok old new h⟩
  · -- rightOfPossible
    unfold fixS at h
    simp only [hm] at h
    obtain ⟨tok, h1, h⟩ := bind_ok _ _ _ h
    exact Or.inr ⟨[tok], by simp [designated, h1, bind, Except.bind, pure, Except.pure],
      Insert.fixRightOfPossible_add_proj P E tok action old new h⟩
  · -- leftOf
    unfold fixS at h
    simp only [hm] at h
    obtain ⟨tok, h1, h⟩ := bind_ok _ _ _ h
    exact Or.inr ⟨[tok], by simp [designated, h1, bind, Except.bind, pure, Except.pure],
      Insert.fixLeftOf_add_proj P E tok action old new h⟩
  · -- tokensRightOf
    unfold fixS at h
    simp only [hm, Bool.not_false] at h
    obtain ⟨tv, h1, h⟩ := bind_ok _ _ _ h
    obtain ⟨toks, h2, h⟩ := bind_ok _ _ _ h
    exact Or.inr ⟨toks, by simp [designated, h1, h2, bind, Except.bind, pure, Except.pure],
      Insert.fixTokensRightOf_add_proj P E toks action old new h⟩
  · -- generate011
    unfold fixS at h
    simp only [hm] at h
    obtain ⟨lab, hl, _, hs⟩ := Insert.fixGenerate011_add_proj P E action old new h
    exact Or.inr ⟨[lab], by simp [designated, hl, bind, Except.bind, pure, Except.pure], hs⟩

/-- insert family configured `action: remove` (all owners but `insert_tokens_right_of…`): what is
    left of the tokens of interest is their first token, unless that is a whitespace token -/
theorem fixS_insert_remove (E : Env) (o : SOwner) (params action : KV) (old new : List Tok)
    (ho : o.isInsert = true) (hne : o ≠ .tokensRightOf) (hm : removeMode o params = true)
    (h : fixS E o params action old = .ok new) :
    ∃ t0 rest, old = t0 :: rest ∧ new = (if t0.kind == .ws then [] else [t0]) := by
  cases o <;> simp [SOwner.isInsert] at ho
  · unfold fixS at h
    simp only [hm] at h
    obtain ⟨insCls, h1, h⟩ := bind_ok _ _ _ h
    obtain ⟨anchor, h2, h⟩ := bind_ok _ _ _ h
    obtain ⟨v, h3, h⟩ := bind_ok _ _ _ h
    rw [Insert.fixNextTo_remove] at h
    exact removeOptionalItem_eq old new h
  · unfold fixS at h
    simp only [hm] at h
    obtain ⟨tok, h1, h⟩ := bind_ok _ _ _ h
    rw [Insert.fixRightOf_remove] at h
    exact removeOptionalItem_eq old new h
  · unfold fixS at h
    simp only [hm] at h
    obtain ⟨tok, h1, h⟩ := bind_ok _ _ _ h
    rw [Insert.fixRightOfPossible_remove] at h
    exact removeOptionalItem_eq old new h
  · unfold fixS at h
    simp only [hm] at h
    obtain ⟨tok, h1, h⟩ := bind_ok _ _ _ h
    rw [Insert.fixLeftOf_remove] at h
    exact removeOptionalItem_eq old new h
  · exact absurd rfl hne
  · unfold fixS at h
    simp only [hm] at h
    rw [Insert.fixGenerate011_remove] at h
    exact removeOptionalItem_eq old new h

/-- `insert_tokens_right_of…` configured to remove -/
theorem fixS_tokensRightOf_remove {β : Type} (P : Proj β) (E : Env) (params action : KV) (old new : List Tok)
    (hm : removeMode .tokensRightOf params = true) (h : fixS E .tokensRightOf params action old = .ok new) :
    ∃ s e, needIntS action "iStartIndex" = .ok s ∧ needIntS action "iEndIndex" = .ok e ∧
      P.π new = P.π (pyTo old s) ++ P.π (pyFrom old e) ∧
      (clampIdx old.length s ≤ clampIdx old.length e →
        InsSeg (P.π ((old.drop (clampIdx old.length s)).take (clampIdx old.length e - clampIdx old.length s)))
          (P.π new) (P.π old)) := by
  unfold fixS at h
  simp only [hm, Bool.not_true] at h
  obtain ⟨tv, h1, h⟩ := bind_ok _ _ _ h
  obtain ⟨toks, h2, h⟩ := bind_ok _ _ _ h
  exact Insert.fixTokensRightOf_remove_proj P E toks action old new h

/-- alignment fixers of the family: layout-only when the first token of interest is a layout token -/
theorem fixS_align_layoutOnly (E : Env) (o : SOwner) (params action : KV) (old new : List Tok)
    (ho : o.isAlign = true) (h : fixS E o params action old = .ok new)
    (hf : AlignMulti.firstIsLayout old = true) : LayoutOnly old new := by
  cases o <;> simp [SOwner.isAlign] at ho
  · exact AlignMulti.adjustOrInsert_layoutOnly E _ action old new h hf
  · exact AlignMulti.adjustOrInsert_layoutOnly E _ action old new h hf
  · exact AlignMulti.adjustOrInsert_layoutOnly E _ action old new h hf
  · exact AlignMulti.fixConditional_layoutOnly E action old new h hf

theorem fixS_align_crSeq (E : Env) (o : SOwner) (params action : KV) (old new : List Tok)
    (ho : o.isAlign = true) (h : fixS E o params action old = .ok new) : crSeq new = crSeq old := by
  cases o <;> simp [SOwner.isAlign] at ho
  · exact AlignMulti.adjustOrInsert_crSeq E _ action old new h
  · exact AlignMulti.adjustOrInsert_crSeq E _ action old new h
  · exact AlignMulti.adjustOrInsert_crSeq E _ action old new h
  · exact AlignMulti.fixConditional_crSeq E action old new h

end Vsgm.Base
