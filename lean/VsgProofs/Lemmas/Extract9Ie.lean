/-
  WP3b: `get_interface_elements_between_tokens` records the line of the first token of each element:
  the loop's line counter is the line of the current position as long as `isinstance(parser.carriage_return)`
  agrees with the index key of the token and the opening token is not itself a line break.
-/
import VsgProofs.Lemmas.Extract2Ie
import VsgProofs.Lemmas.Extract9Line
namespace Vsgm.TM.X.Lemmas
open Vsgm Vsgm.TM Vsgm.TM.Lemmas Vsgm.TM.X

variable {α : Type}

theorem lineNo_succ (uid : α → Option Key) (f : List α) (n : Nat) (t : α) (hf : f[n]? = some t) :
    lineNo uid f (n + 1) = lineNo uid f n + (if uid t = some crKey then 1 else 0) := by
  unfold lineNo countKey
  have : (f.map uid)[n]? = some (uid t) := by simp [hf]
  rw [List.take_add_one, this]
  simp only [Option.toList_some, List.filter_append, List.length_append]
  by_cases h : uid t = some crKey <;> simp [h] <;> omega

/-- the line half of the loop invariant at file position `n` -/
def IeL (uid : α → Option Key) (f : List α) (st : IeState α) (n : Nat) : Prop :=
  st.line = lineNo uid f n ∧
  (∀ t ∈ st.out, ∃ s : Nat, t.start = some (s : Int) ∧ t.line = lineNo uid f s) ∧
  (st.store = true → ∃ p : Nat, st.start = some (p : Int) ∧ st.lineNo = lineNo uid f p) ∧
  (st.store = false → st.tmp = [])

theorem ieStep_line (V : View α) (P : PCls) (semi : Nat) (f : List α) (st st' : IeState α) (n : Nat) (t : α)
    (hcr : ∀ x, V.inst x P.cr = decide (V.uid x = some crKey))
    (hf : f[n]? = some t) (hi : IeL V.uid f st n) (h : ieStep V P semi st (n, t) = .ok st') : IeL V.uid f st' (n + 1) := by
  obtain ⟨hline, hout, hstore, hnost⟩ := hi
  unfold ieStep at h
  simp only [bind_ok, pure_ok] at h
  obtain ⟨st3, h3, rfl⟩ := h
  generalize hst1 : (if (!V.inst t P.ws && !V.inst t P.cr && !V.inst t P.comment && !st.store) = true
      then ({ st with store := true, start := some ((n : Nat) : Int), lineNo := st.line } : IeState α) else st) = st1 at h3
  have inv1 : st1.line = lineNo V.uid f n ∧
      (∀ t ∈ st1.out, ∃ s : Nat, t.start = some (s : Int) ∧ t.line = lineNo V.uid f s) ∧
      (st1.store = true → ∃ p : Nat, st1.start = some (p : Int) ∧ st1.lineNo = lineNo V.uid f p) ∧
      (st1.store = false → st1.tmp = []) := by
    subst hst1
    split
    · exact ⟨hline, hout, fun _ => ⟨n, rfl, hline⟩, fun h' => by simp at h'⟩
    · exact ⟨hline, hout, hstore, hnost⟩
  clear hst1 hline hout hstore hnost
  obtain ⟨hline, hout, hstore, hnost⟩ := inv1
  generalize hst2 : (if st1.store = true then ({ st1 with tmp := st1.tmp ++ [t] } : IeState α) else st1) = st2 at h3
  have inv2 : st2.line = lineNo V.uid f n ∧
      (∀ t ∈ st2.out, ∃ s : Nat, t.start = some (s : Int) ∧ t.line = lineNo V.uid f s) ∧
      (st2.store = true → ∃ p : Nat, st2.start = some (p : Int) ∧ st2.lineNo = lineNo V.uid f p) ∧
      (st2.store = false → st2.tmp = []) := by
    subst hst2
    split
    · rename_i hs
      exact ⟨hline, hout, fun _ => hstore hs, fun h' => by simp [hs] at h'⟩
    · rename_i hs
      have hs' : st1.store = false := by simpa using hs
      exact ⟨hline, hout, fun h' => by simp [hs'] at h', hnost⟩
  clear hst2 hline hout hstore hnost
  obtain ⟨hline, hout, hstore, hnost⟩ := inv2
  have inv3 : st3.line = lineNo V.uid f n ∧
      (∀ t ∈ st3.out, ∃ s : Nat, t.start = some (s : Int) ∧ t.line = lineNo V.uid f s) ∧
      (st3.store = true → ∃ p : Nat, st3.start = some (p : Int) ∧ st3.lineNo = lineNo V.uid f p) ∧
      (st3.store = false → st3.tmp = []) := by
    split at h3
    · split at h3
      · cases h3
      · rename_i hne
        injection h3 with h3; subst h3
        refine ⟨hline, ?_, fun h' => by simp at h', fun _ => rfl⟩
        intro x hx
        rcases List.mem_append.mp hx with hx | hx
        · exact hout x hx
        · simp only [List.mem_singleton] at hx
          subst hx
          cases hs : st2.store with
          | false => exact absurd (hnost hs) (by intro e; simp [e] at hne)
          | true =>
            obtain ⟨p, hp, hl⟩ := hstore hs
            exact ⟨p, hp, hl⟩
    · injection h3 with h3; subst h3
      exact ⟨hline, hout, hstore, hnost⟩
  obtain ⟨h1, h2, h3', h4⟩ := inv3
  have hsucc := lineNo_succ V.uid f n t hf
  rw [hcr t]
  by_cases hu : V.uid t = some crKey
  · simp only [hu, decide_true, if_true] at hsucc ⊢
    exact ⟨by simp only; omega, h2, h3', h4⟩
  · simp only [hu, decide_false, if_false] at hsucc ⊢
    exact ⟨by simp at hsucc ⊢; omega, h2, h3', h4⟩

theorem ieInner_line (V : View α) (P : PCls) (semi : Nat) (f : List α) (toks : List α) (n : Nat) (st r : IeState α)
    (hcr : ∀ x, V.inst x P.cr = decide (V.uid x = some crKey))
    (hp : ∀ j, j < toks.length → f[n + j]? = toks[j]?) (hi : IeL V.uid f st n)
    (h : foldlE (ieStep V P semi) st (enumFrom n toks) = .ok r) : IeL V.uid f r (n + toks.length) := by
  induction toks generalizing n st with
  | nil => simp [enumFrom, foldlE] at h; subst h; simpa using hi
  | cons t toks ih =>
    simp only [enumFrom] at h
    unfold foldlE at h
    cases hg : ieStep V P semi st (n, t) with
    | error e => simp [hg] at h
    | ok st' =>
      simp only [hg] at h
      have h0 : f[n]? = some t := by simpa using hp 0 (by simp)
      have := ih (n + 1) st' (fun j hj => by
        have := hp (j + 1) (by simp; omega)
        simp only [List.getElem?_cons_succ] at this
        rw [← this]; congr 1; omega) (ieStep_line V P semi f st st' n t hcr h0 hi hg) h
      simp only [List.length_cons]
      rw [show n + (toks.length + 1) = n + 1 + toks.length by omega]
      exact this

theorem interfaceElements_lineOfStart (V : View α) (P : PCls) (semi : Nat) (f : List α) (a b : Option Key) (r : List (Toi α))
    (hcr : ∀ x, V.inst x P.cr = decide (V.uid x = some crKey))
    (hopen : ∀ s ∈ ((processTokens V.uid f).pairIndexes a b).1, ∀ x, f[s]? = some x → V.uid x ≠ some crKey)
    (h : interfaceElements V P semi f (processTokens V.uid f) a b = .ok r) :
    ∀ t ∈ r, ∃ s : Nat, t.start = some (s : Int) ∧ t.line = lineNo V.uid f s := by
  unfold interfaceElements at h
  simp only [bind_ok, pure_ok] at h
  obtain ⟨acc, h, rfl⟩ := h
  refine foldlE_inv (ieOuter V P semi f (processTokens V.uid f))
    (fun acc => ∀ t ∈ acc.2, ∃ s : Nat, t.start = some (s : Int) ∧ t.line = lineNo V.uid f s) _ _ _ ?_ (by simp) h
  intro acc se acc' hse hacc hstep
  have hlt := fresh_pair_lt V.uid f a b se hse
  have hs1 : se.1 ∈ ((processTokens V.uid f).pairIndexes a b).1 := (List.of_mem_zip (a := se.1) (b := se.2) (by simpa using hse)).1
  unfold ieOuter at hstep
  simp only [bind_ok] at hstep
  obtain ⟨line, hl, st, hfold, hstep⟩ := hstep
  have hline0 : line = lineNo V.uid f se.1 := by simpa using lineOf_fresh V.uid f se.1 line hl
  have hline1 : line = lineNo V.uid f (se.1 + 1) := by
    obtain ⟨x, hx⟩ : ∃ x, f[se.1]? = some x := ⟨f[se.1], by simp [hlt]⟩
    have := lineNo_succ V.uid f se.1 x hx
    have hne := hopen se.1 hs1 x hx
    simp only [hne, if_false] at this
    omega
  have e1 : ((se.1 : Int) + 1) = ((se.1 + 1 : Nat) : Int) := by omega
  rw [e1] at hfold
  have hinv := ieInner_line V P semi f _ (se.1 + 1) _ st hcr (pySlice_prefix f (se.1 + 1) se.2 (by omega))
    ⟨hline1, hacc, fun h' => by simp at h', fun _ => rfl⟩ hfold
  obtain ⟨_, hout, hstore, hnost⟩ := hinv
  split at hstep
  · rename_i hpos
    simp only [bind_ok, pure_ok] at hstep
    obtain ⟨tmp, _, rfl⟩ := hstep
    intro x hx
    rcases List.mem_append.mp hx with hx | hx
    · exact hout x hx
    · simp only [List.mem_singleton] at hx
      subst hx
      cases hs : st.store with
      | false => rw [hnost hs] at hpos; simp at hpos
      | true =>
        obtain ⟨p, hp, hl'⟩ := hstore hs
        exact ⟨p, hp, hl'⟩
  · simp only [pure_ok] at hstep
    subst hstep
    exact hout

end Vsgm.TM.X.Lemmas
