/-
  Helper lemmas about the tokenizer model (`VsgModel/Lex/Create.lean`): every pass keeps the
  concatenation of the tokens, no empty token survives `combineWords` and the later passes,
  and the quote indexes are in range.
-/
import VsgModel.Lex.Create
namespace Vsgm.Lex
open Vsgm

variable (T : LexTables)

/-- no token of the list is the empty string -/
def NoEmpty (l : List Str) : Prop := ∀ t ∈ l, t ≠ []

theorem NoEmpty.append {a b : List Str} (ha : NoEmpty a) (hb : NoEmpty b) : NoEmpty (a ++ b) := by
  intro t ht
  rcases List.mem_append.1 ht with h | h
  · exact ha t h
  · exact hb t h

theorem noEmpty_nil : NoEmpty [] := by intro t ht; cases ht

theorem noEmpty_single {t : Str} (h : t ≠ []) : NoEmpty [t] := by
  intro x hx
  rw [List.mem_singleton] at hx
  subst hx; exact h

/-! ### pass 0 — convert_string_to_chars -/

theorem toChars_flatten (s : Str) : (toChars s).flatten = s := by
  induction s with
  | nil => rfl
  | cons c cs ih =>
    simp only [toChars, List.map_cons, List.flatten_cons] at ih ⊢
    rw [ih]; rfl

/-! ### pass 1 — combine_whitespace -/

theorem cwGo_flatten (cs : List Str) (sp : Str) (acc : List Str) (hsp : sp.all T.isSpace = true) :
    (cwGo T cs sp acc).flatten = acc.flatten ++ sp ++ cs.flatten := by
  induction cs generalizing sp acc with
  | nil => simp [cwGo]
  | cons c cs ih =>
    simp only [cwGo]
    split
    · rename_i hc
      rw [ih]
      · simp
      · simp only [strIsSpace, Bool.and_eq_true] at hc
        simp [List.all_append, hsp, hc.2]
    · split
      · rw [ih _ _ (by rfl)]; simp
      · rename_i hn
        have : sp = [] := by
          cases sp with
          | nil => rfl
          | cons a as => simp [strIsSpace, hsp] at hn
        subst this
        rw [ih _ _ (by rfl)]; simp

theorem combineWhitespace_flatten (l : List Str) : (combineWhitespace T l).flatten = l.flatten := by
  simp [combineWhitespace, cwGo_flatten T l [] [] (by rfl)]

/-! ### pass 2 — combine_string_literals, combine_quote_pairs -/

theorem joinPair_flatten (l : List Str) (p : Nat × Nat) (h : p.1 ≤ p.2 + 1) :
    (joinPair l p).flatten = l.flatten := by
  unfold joinPair
  have e : l = l.take p.1 ++ ((l.drop p.1).take (p.2 + 1 - p.1) ++ l.drop (p.2 + 1)) := by
    have a1 : l = l.take p.1 ++ l.drop p.1 := (List.take_append_drop _ _).symm
    have a2 : l.drop p.1 = (l.drop p.1).take (p.2 + 1 - p.1) ++ (l.drop p.1).drop (p.2 + 1 - p.1) :=
      (List.take_append_drop _ _).symm
    have a3 : (l.drop p.1).drop (p.2 + 1 - p.1) = l.drop (p.2 + 1) := by
      rw [List.drop_drop]; congr 1; omega
    rw [a3] at a2
    rw [← a2]; exact a1
  conv => rhs; rw [e]
  simp

theorem combineQuotePairs_flatten (pairs : List (Nat × Nat)) (l : List Str)
    (h : ∀ p ∈ pairs, p.1 ≤ p.2 + 1) : (combineQuotePairs pairs l).flatten = l.flatten := by
  unfold combineQuotePairs
  induction pairs generalizing l with
  | nil => rfl
  | cons p ps ih =>
    simp only [List.foldl_cons]
    rw [ih _ (fun q hq => h q (List.mem_cons_of_mem _ hq)), joinPair_flatten _ _ (h p (List.mem_cons_self ..))]

/-- the indexes returned by `find_indexes_of_token_with_value` lie in `[i, i + len)` -/
theorem indexesOf_range (v : Str) (l : List Str) (i : Nat) :
    ∀ q ∈ indexesOf v l i, i ≤ q ∧ q < i + l.length := by
  induction l generalizing i with
  | nil => intro q hq; simp [indexesOf] at hq
  | cons t ts ih =>
    intro q hq
    simp only [indexesOf] at hq
    split at hq
    · rcases List.mem_cons.1 hq with h | h
      · subst h; simp
      · have := ih (i + 1) q h
        simp only [List.length_cons]; omega
    · have := ih (i + 1) q hq
      simp only [List.length_cons]; omega

/-- … and they are strictly increasing -/
theorem indexesOf_sorted (v : Str) (l : List Str) (i : Nat) :
    (indexesOf v l i).Pairwise (· < ·) := by
  induction l generalizing i with
  | nil => simp [indexesOf]
  | cons t ts ih =>
    simp only [indexesOf]
    split
    · refine List.Pairwise.cons ?_ (ih (i + 1))
      intro q hq
      have := indexesOf_range v ts (i + 1) q hq
      omega
    · exact ih (i + 1)

/-- … and each of them is the position of a token with the value looked for -/
theorem indexesOf_get (v : Str) (l : List Str) (i : Nat) :
    ∀ q ∈ indexesOf v l i, l[q - i]? = some v := by
  induction l generalizing i with
  | nil => intro q hq; simp [indexesOf] at hq
  | cons t ts ih =>
    intro q hq
    simp only [indexesOf] at hq
    have tail : ∀ q ∈ indexesOf v ts (i + 1), (t :: ts)[q - i]? = some v := by
      intro q hq
      have h1 := ih (i + 1) q hq
      have h2 := indexesOf_range v ts (i + 1) q hq
      have : q - i = (q - (i + 1)) + 1 := by omega
      rw [this, List.getElem?_cons_succ]; exact h1
    split at hq
    · rcases List.mem_cons.1 hq with h | h
      · subst h; simp [*]
      · exact tail q h
    · exact tail q hq

theorem pairUp_lt (qs : List Nat) (h : qs.Pairwise (· < ·)) : ∀ p ∈ pairUp qs, p.1 < p.2 := by
  fun_induction pairUp qs with
  | case1 a b rest ih =>
    intro p hp
    rcases List.mem_cons.1 hp with e | hp
    · subst e
      exact (List.pairwise_cons.1 h).1 b (List.mem_cons_self ..)
    · exact ih (List.pairwise_cons.1 (List.pairwise_cons.1 h).2).2 p hp
  | case2 l hl => intro p hp; cases hp

theorem combineStringLiterals_flatten (l : List Str) : (combineStringLiterals l).flatten = l.flatten := by
  unfold combineStringLiterals
  apply combineQuotePairs_flatten
  intro p hp
  have := pairUp_lt _ (indexesOf_sorted dq l 0) p (List.mem_reverse.1 hp)
  omega

/-! ### pass 3 — combine_backslash_characters_into_symbols -/

theorem bsGo_flatten (cs : List Str) (sym : Str) (b : Bool) (acc : List Str)
    (hb : b = false → sym = []) :
    (bsGo T cs sym b acc).flatten = acc.flatten ++ sym ++ cs.flatten := by
  induction cs generalizing sym b acc with
  | nil =>
    simp only [bsGo]
    split <;> simp
    rename_i h
    simp at h; exact h
  | cons c cs ih =>
    simp only [bsGo]
    rw [ih]
    · by_cases hstop : stopCharFound T c b = true <;> by_cases hc : c = ['\\'] <;>
        cases b <;> simp_all
    · by_cases hstop : stopCharFound T c b = true <;> by_cases hc : c = ['\\'] <;>
        cases b <;> simp_all

theorem combineBackslash_flatten (l : List Str) : (combineBackslash T l).flatten = l.flatten := by
  unfold combineBackslash
  rw [bsGo_flatten T l [] false [] (fun _ => rfl)]
  simp

/-! ### passes 4, 5 — combine_three/two_character_symbols -/

theorem combN_flatten (n : Nat) (syms : List Str) (l : List Str) :
    (combN n syms l).flatten = l.flatten := by
  fun_induction combN n syms l with
  | case1 => rfl
  | case2 a rest chunk h ih =>
    simp only [List.flatten_cons, ih]
    have : (a :: rest) = chunk ++ (a :: rest).drop (n + 1) := (List.take_append_drop (n + 1) _).symm
    conv => rhs; rw [← List.flatten_cons, this, List.flatten_append]
  | case3 a rest chunk h ih => simp [ih]

theorem combineThree_flatten (l : List Str) : (combineThree T l).flatten = l.flatten :=
  combN_flatten 2 T.three l

theorem combineTwo_flatten (l : List Str) : (combineTwo T l).flatten = l.flatten :=
  combN_flatten 1 T.two l

/-! ### pass 6 — combine_characters_into_words -/

theorem cwordsGo_flatten (cs : List Str) (tmp : Str) (acc : List Str) :
    (cwordsGo T cs tmp acc).flatten = acc.flatten ++ tmp ++ cs.flatten := by
  induction cs generalizing tmp acc with
  | nil =>
    simp only [cwordsGo]
    split
    · simp
    · rename_i h
      simp at h
      simp [h]
  | cons c cs ih =>
    simp only [cwordsGo]
    split
    · rw [ih]; simp
    · rw [ih]
      split
      · simp
      · rename_i h
        simp at h
        simp [h]

theorem combineWords_flatten (l : List Str) : (combineWords T l).flatten = l.flatten := by
  simp [combineWords, cwordsGo_flatten]

/-! ### pass 7 — combine_character_literals -/

theorem candidates_fst_sublist (l : List Str) (qs : List Nat) :
    ((candidates l qs).map Prod.fst).Sublist qs := by
  fun_induction candidates l qs with
  | case1 q q' rest ih =>
    split
    · simp only [List.singleton_append, List.map_cons]
      exact List.Sublist.cons_cons _ ih
    · simp only [List.nil_append]
      exact List.Sublist.cons _ ih
  | case2 qs h => simp

theorem candidates_snd (l : List Str) (qs : List Nat) : ∀ p ∈ candidates l qs, p.2 = p.1 + 2 := by
  fun_induction candidates l qs with
  | case1 q q' rest ih =>
    intro p hp
    rcases List.mem_append.1 hp with h | h
    · split at h
      · rw [List.mem_singleton] at h; subst h; rfl
      · cases h
    · exact ih p h
  | case2 qs h => intro p hp; cases hp

theorem filterMap_range_sublist {α : Type} (lits : List α) (f : Nat → Option α)
    (hf : ∀ i, f i = none ∨ f i = lits[i]?) (k : Nat) :
    ((List.range k).filterMap f).Sublist (lits.take k) := by
  induction k with
  | zero => simp
  | succ k ih =>
    rw [List.range_succ, List.filterMap_append, List.take_add_one]
    apply List.Sublist.append ih
    simp only [List.filterMap_cons, List.filterMap_nil]
    rcases hf k with h | h
    · rw [h]; simp
    · rw [h]; cases lits[k]? <;> simp

theorem filterCandidates_sublist (lits : List (Nat × Nat)) : (filterCandidates lits).Sublist lits := by
  unfold filterCandidates
  split
  · simp
  · rename_i last hlast
    have e : lits = lits.take (lits.length - 1) ++ [last] := by
      obtain ⟨ys, hys⟩ := List.getLast?_eq_some_iff.1 hlast
      subst hys; simp
    conv => rhs; rw [e]
    apply List.Sublist.append _ (List.Sublist.refl _)
    apply filterMap_range_sublist
    intro i
    split
    · rename_i cur nxt prv h1 h2 h3
      split
      · exact Or.inl rfl
      · exact Or.inr h1.symm
    · exact Or.inl rfl

theorem combineCharLiterals_flatten (l : List Str) : (combineCharLiterals l).flatten = l.flatten := by
  unfold combineCharLiterals
  simp only
  split
  · rfl
  · apply combineQuotePairs_flatten
    intro p hp
    have h1 := (filterCandidates_sublist _).subset (List.mem_reverse.1 hp)
    have := candidates_snd _ _ p h1
    omega

/-! ### pass 8 — split_natural_numbers -/

theorem pnGo_flatten (cs tmp : Str) (acc : List Str) :
    (pnGo T cs tmp acc).flatten = acc.flatten ++ tmp ++ cs := by
  induction cs generalizing tmp acc with
  | nil =>
    simp only [pnGo]
    split
    · simp
    · rename_i h
      simp at h
      simp [h]
  | cons c cs ih =>
    simp only [pnGo]
    split
    · rw [ih]; simp
    · rw [ih]; simp

theorem splitNaturalNumbers_flatten (l : List Str) : (splitNaturalNumbers T l).flatten = l.flatten := by
  unfold splitNaturalNumbers
  induction l with
  | nil => rfl
  | cons s l ih =>
    rw [List.flatMap_cons, List.flatten_append, ih, List.flatten_cons]
    congr 1
    split
    · simp [parseNaturalNumber, pnGo_flatten]
    · simp

/-! ### pass 9 — split_bit_string_literal_integer_and_base_specifier -/

theorem splitIndex_ne_none (s : Str) (i : Nat) (h : ∃ c ∈ s, T.isDigit c = false) :
    splitIndex T s i ≠ none := by
  induction s generalizing i with
  | nil => obtain ⟨c, hc, _⟩ := h; cases hc
  | cons a s ih =>
    simp only [splitIndex]
    split
    · simp
    · rename_i ha
      obtain ⟨c, hc, hd⟩ := h
      rcases List.mem_cons.1 hc with e | hc
      · subst e; simp [hd] at ha
      · exact ih (i + 1) ⟨c, hc, hd⟩

theorem filter_ne_nil_flatten (l : List Str) : (l.filter (· ≠ [])).flatten = l.flatten := by
  induction l with
  | nil => rfl
  | cons a l ih =>
    by_cases h : a = []
    · subst h; simpa using ih
    · simpa [List.filter_cons, h] using ih

theorem parseBitString_flatten (s : Str) (h : splitIndex T s 0 ≠ none) :
    (parseBitString T s).flatten = s := by
  unfold parseBitString
  simp only
  rw [filter_ne_nil_flatten]
  split
  · simp
  · rename_i hn; exact absurd hn h

theorem endsBoxd_splitIndex (hbd : ∀ c, T.lowerBoxd c = true → T.isDigit c = false) (s : Str)
    (h : endsBoxd T s = true) : splitIndex T s 0 ≠ none := by
  unfold endsBoxd at h
  split at h
  · rename_i c hc
    exact splitIndex_ne_none T s 0 ⟨c, List.mem_of_getLast? hc, hbd c h⟩
  · cases h

theorem splitBitStrings_flatten (hbd : ∀ c, T.lowerBoxd c = true → T.isDigit c = false)
    (l : List Str) : (splitBitStrings T l).flatten = l.flatten := by
  fun_induction splitBitStrings T l with
  | case1 => rfl
  | case2 s => rfl
  | case3 s n rest ih =>
    rw [List.flatten_append, ih, List.flatten_cons (l := s)]
    congr 1
    split
    · rename_i h
      simp only [Bool.and_eq_true] at h
      exact parseBitString_flatten T s (endsBoxd_splitIndex T hbd s h.1)
    · simp

/-! ### tokens.create keeps the characters -/

theorem create_flatten (hbd : ∀ c, T.lowerBoxd c = true → T.isDigit c = false) (s : Str) :
    (create T s).flatten = s := by
  unfold create
  rw [splitBitStrings_flatten T hbd, splitNaturalNumbers_flatten, combineCharLiterals_flatten,
    combineWords_flatten, combineTwo_flatten, combineThree_flatten, combineBackslash_flatten,
    combineStringLiterals_flatten, combineWhitespace_flatten, toChars_flatten]

/-! ### no empty token after combine_characters_into_words -/

theorem strIsSpace_ne_nil (c : Str) (h : strIsSpace T c = true) : c ≠ [] := by
  intro e; subst e; simp [strIsSpace] at h

theorem not_partOfWord_ne_nil (hs : [] ∉ T.single) (c : Str) (h : ¬ partOfWord T c = true) : c ≠ [] := by
  intro e; subst e
  apply h
  simp [partOfWord, strIsSpace, hs]

theorem cwordsGo_noEmpty (hs : [] ∉ T.single) (cs : List Str) (tmp : Str) (acc : List Str)
    (hacc : NoEmpty acc) : NoEmpty (cwordsGo T cs tmp acc) := by
  induction cs generalizing tmp acc with
  | nil =>
    simp only [cwordsGo]
    split
    · rename_i h
      refine hacc.append (noEmpty_single ?_)
      intro e; subst e; simp at h
    · exact hacc
  | cons c cs ih =>
    simp only [cwordsGo]
    split
    · exact ih _ _ hacc
    · rename_i hc
      apply ih
      refine NoEmpty.append ?_ (noEmpty_single (not_partOfWord_ne_nil T hs c hc))
      split
      · rename_i h
        refine hacc.append (noEmpty_single ?_)
        intro e; subst e; simp at h
      · exact hacc

theorem combineWords_noEmpty (hs : [] ∉ T.single) (l : List Str) : NoEmpty (combineWords T l) :=
  cwordsGo_noEmpty T hs l [] [] noEmpty_nil

/-! ### combine_quote_pairs, right to left, creates no empty token -/

theorem joinPair_noEmpty (l : List Str) (p : Nat × Nat) (hl : NoEmpty l) (h1 : p.1 < l.length)
    (h2 : p.1 ≤ p.2) : NoEmpty (joinPair l p) := by
  unfold joinPair
  refine NoEmpty.append (NoEmpty.append ?_ (noEmpty_single ?_)) ?_
  · intro t ht; exact hl t (List.mem_of_mem_take ht)
  · intro e
    rw [List.flatten_eq_nil_iff] at e
    have hlen : 0 < ((l.drop p.1).take (p.2 + 1 - p.1)).length := by
      simp only [List.length_take, List.length_drop]; omega
    obtain ⟨t, ht⟩ := List.exists_mem_of_length_pos hlen
    exact hl t (List.mem_of_mem_drop (List.mem_of_mem_take ht)) (e t ht)
  · intro t ht; exact hl t (List.mem_of_mem_drop ht)

theorem joinPair_length (l : List Str) (p : Nat × Nat) (h1 : p.1 ≤ l.length) :
    p.1 + 1 ≤ (joinPair l p).length := by
  unfold joinPair
  simp only [List.length_append, List.length_take, List.length_singleton]
  omega

/-- the pairs, in processing order, start further and further left, inside the list -/
def Desc : Nat → List (Nat × Nat) → Prop
  | _, [] => True
  | n, p :: ps => p.1 < n ∧ Desc (p.1 + 1) ps

theorem Desc.mono {n m : Nat} {ps : List (Nat × Nat)} (h : Desc n ps) (hnm : n ≤ m) : Desc m ps := by
  cases ps with
  | nil => trivial
  | cons p ps => exact ⟨by have := h.1; omega, h.2⟩

theorem desc_of_pairwise (n : Nat) (ps : List (Nat × Nat)) (hp : ps.Pairwise (fun a b => b.1 < a.1))
    (hn : ∀ p ∈ ps, p.1 < n) : Desc n ps := by
  induction ps generalizing n with
  | nil => trivial
  | cons p ps ih =>
    have hc := List.pairwise_cons.1 hp
    refine ⟨hn p (List.mem_cons_self ..), ih _ hc.2 ?_⟩
    intro q hq
    have := hc.1 q hq
    omega

theorem combineQuotePairs_noEmpty (pairs : List (Nat × Nat)) (l : List Str) (hl : NoEmpty l)
    (hd : Desc l.length pairs) (h2 : ∀ p ∈ pairs, p.1 ≤ p.2) :
    NoEmpty (combineQuotePairs pairs l) := by
  unfold combineQuotePairs
  induction pairs generalizing l with
  | nil => exact hl
  | cons p ps ih =>
    simp only [List.foldl_cons]
    have hp := h2 p (List.mem_cons_self ..)
    apply ih
    · exact joinPair_noEmpty l p hl hd.1 hp
    · exact hd.2.mono (joinPair_length l p (by have := hd.1; omega))
    · exact fun q hq => h2 q (List.mem_cons_of_mem _ hq)

theorem combineCharLiterals_noEmpty (l : List Str) (hl : NoEmpty l) : NoEmpty (combineCharLiterals l) := by
  unfold combineCharLiterals
  simp only
  split
  · exact hl
  · have hsub := filterCandidates_sublist (candidates l (indexesOf sq l 0))
    have hfst := candidates_fst_sublist l (indexesOf sq l 0)
    have hsorted : (candidates l (indexesOf sq l 0)).Pairwise (fun a b => a.1 < b.1) := by
      have := (indexesOf_sorted sq l 0).sublist hfst
      exact List.pairwise_map.1 this
    apply combineQuotePairs_noEmpty _ _ hl
    · apply desc_of_pairwise
      · rw [List.pairwise_reverse]
        exact hsorted.sublist hsub
      · intro p hp
        have h1 := hsub.subset (List.mem_reverse.1 hp)
        have h2 : p.1 ∈ indexesOf sq l 0 := hfst.subset (List.mem_map_of_mem h1)
        have := indexesOf_range sq l 0 p.1 h2
        omega
    · intro p hp
      have h1 := hsub.subset (List.mem_reverse.1 hp)
      have := candidates_snd _ _ p h1
      omega

/-! ### split_natural_numbers creates no empty token -/

theorem splitOnP_ne_nil (p : Char → Bool) (cs cur : Str) : splitOnP p cs cur ≠ [] := by
  induction cs generalizing cur with
  | nil => simp [splitOnP]
  | cons c cs ih =>
    simp only [splitOnP]
    split
    · simp
    · exact ih _

theorem pnGo_noEmpty (cs tmp : Str) (acc : List Str) (hacc : NoEmpty acc)
    (hseg : NoEmpty (splitOnP T.lowerIsE cs tmp).dropLast) : NoEmpty (pnGo T cs tmp acc) := by
  induction cs generalizing tmp acc with
  | nil =>
    simp only [pnGo]
    split
    · rename_i h
      refine hacc.append (noEmpty_single ?_)
      intro e; subst e; simp at h
    · exact hacc
  | cons c cs ih =>
    simp only [pnGo]
    split
    · rename_i hc
      simp only [splitOnP, hc, if_true] at hseg
      rw [List.dropLast_cons_of_ne_nil (splitOnP_ne_nil _ _ _)] at hseg
      apply ih
      · refine (hacc.append (noEmpty_single ?_)).append (noEmpty_single (by simp))
        exact hseg tmp (List.mem_cons_self ..)
      · exact fun t ht => hseg t (List.mem_cons_of_mem _ ht)
    · rename_i hc
      simp only [splitOnP, hc] at hseg
      exact ih _ _ hacc hseg

theorem isNaturalNumber_segments (s : Str) (h : isNaturalNumber T s = true) :
    NoEmpty (splitOnP T.lowerIsE s []).dropLast := by
  unfold isNaturalNumber at h
  simp only at h
  cases hl : splitOnP T.lowerIsE s [] with
  | nil => exact absurd hl (splitOnP_ne_nil _ _ _)
  | cons a tl =>
    rw [hl] at h
    simp only [List.headD_cons, List.tail_cons] at h
    cases tl with
    | nil => intro t ht; simp at ht
    | cons b tl =>
      rw [List.dropLast_append_of_ne_nil (by simp), List.all_append, Bool.and_eq_true] at h
      rw [List.dropLast_cons_of_ne_nil (by simp)]
      intro t ht
      rcases List.mem_cons.1 ht with e | ht
      · subst e
        intro e; subst e
        have := h.1
        simp [splitOnP, segIsDigit] at this
      · have := List.all_eq_true.1 h.2 t ht
        intro e; subst e
        simp [segIsDigit] at this

/-- unconditional: an empty token is itself a "natural number" (`"".split("e") = [""]`, nothing to
    check) and `parse_natural_number("")` returns no token at all, so pass 8 also drops every
    empty token it is given -/
theorem splitNaturalNumbers_noEmpty (l : List Str) : NoEmpty (splitNaturalNumbers T l) := by
  unfold splitNaturalNumbers
  intro t ht
  obtain ⟨s, hs, hts⟩ := List.mem_flatMap.1 ht
  split at hts
  · rename_i h
    exact pnGo_noEmpty T s [] [] noEmpty_nil (isNaturalNumber_segments T s h) t hts
  · rename_i h
    rw [List.mem_singleton] at hts; subst hts
    intro e; subst e
    exact h (by simp [isNaturalNumber, splitOnP])

/-! ### split_bit_string_… creates no empty token -/

theorem parseBitString_noEmpty (s : Str) : NoEmpty (parseBitString T s) := by
  unfold parseBitString
  intro t ht
  simp only [List.mem_filter, decide_eq_true_eq] at ht
  exact ht.2

theorem splitBitStrings_noEmpty (l : List Str) (hl : NoEmpty l) : NoEmpty (splitBitStrings T l) := by
  fun_induction splitBitStrings T l with
  | case1 => exact noEmpty_nil
  | case2 s => exact hl
  | case3 s n rest ih =>
    apply NoEmpty.append
    · split
      · exact parseBitString_noEmpty T s
      · exact noEmpty_single (hl s (List.mem_cons_self ..))
    · exact ih (fun t ht => hl t (List.mem_cons_of_mem _ ht))

theorem create_noEmpty (s : Str) : NoEmpty (create T s) := by
  unfold create
  exact splitBitStrings_noEmpty T _ (splitNaturalNumbers_noEmpty T _)

/-! ### the lookups of find_character_literal_candidates are in range -/

theorem indexesOf_consecutive (v : Str) (l : List Str) (pre post : List Nat) (q q' : Nat)
    (h : indexesOf v l 0 = pre ++ q :: q' :: post) : q < q' ∧ q' < l.length := by
  have hs := indexesOf_sorted v l 0
  rw [h] at hs
  have h1 := (List.pairwise_cons.1 (List.pairwise_append.1 hs).2.1).1 q' (List.mem_cons_self ..)
  have h2 := indexesOf_range v l 0 q' (by rw [h]; simp)
  omega

end Vsgm.Lex
