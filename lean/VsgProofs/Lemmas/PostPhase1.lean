/- the post-phase-1 normalisation: index-based transcriptions = recursive forms; layout-only,
   line breaks kept, idempotence -/
import VsgModel.Engine.PostPhase1
import VsgModel.Engine.Relations
import VsgProofs.Lemmas.BaseCommon
import VsgProofs.Lemmas.BaseIndent
namespace Vsgm.Post
open Vsgm Vsgm.Base

/-! ### Python indexing on `pre ++ t :: rest` -/

theorem pyGet_natIdx {α : Type} (l : List α) (k : Nat) :
    pyGet l (k : Int) = match l[k]? with | some x => .ok x | none => .error .indexError := by
  unfold pyGet pyIdx
  have hk : ¬ ((k : Int) < 0) := by omega
  simp only [hk, if_false]
  by_cases hlt : k < l.length
  · have : (0 : Int) ≤ k ∧ (k : Int) < l.length := by omega
    simp only [this, and_self, if_true, Int.toNat_natCast]
    cases hx : l[k]? <;> simp
  · have : ¬ ((0 : Int) ≤ k ∧ (k : Int) < l.length) := by omega
    simp only [this, if_false]
    have : l[k]? = none := by simp; omega
    rw [this]

theorem pyGet_next (pre : List Tok) (t : Tok) (rest : List Tok) :
    pyGet (pre ++ t :: rest) ((pre.length : Int) + 1) =
      match rest with | [] => .error .indexError | nx :: _ => .ok nx := by
  have : (pre.length : Int) + 1 = ((pre.length + 1 : Nat) : Int) := by omega
  rw [this, pyGet_natIdx]
  cases rest with
  | nil => simp
  | cons nx r => simp

theorem pyGet_prev_snoc (pre : List Tok) (p t : Tok) (rest : List Tok) :
    pyGet ((pre ++ [p]) ++ t :: rest) (((pre ++ [p]).length : Int) - 1) = .ok p := by
  have : (((pre ++ [p]).length : Int) - 1) = ((pre.length : Nat) : Int) := by simp
  rw [this, pyGet_natIdx]
  simp [List.append_assoc]

theorem pyGet_neg_one (l : List Tok) (x : Tok) (h : l.getLast? = some x) : pyGet l (-1) = .ok x := by
  unfold pyGet pyIdx
  have hne : l ≠ [] := by intro e; subst e; simp at h
  have hlen : 0 < l.length := by cases l with | nil => exact absurd rfl hne | cons a b => simp
  have h1 : ((-1 : Int) < 0) := by omega
  simp only [h1, if_true]
  have h2 : (0 : Int) ≤ -1 + (l.length : Int) ∧ -1 + (l.length : Int) < l.length := by omega
  simp only [h2, and_self, if_true]
  have h3 : (-1 + (l.length : Int)).toNat = l.length - 1 := by omega
  rw [h3]
  rw [List.getLast?_eq_getElem?] at h
  rw [h]

/-- the kind test on the token before position `|pre|` (index 0 wraps to the last token) -/
def prevFlag (l pre : List Tok) : Bool :=
  match pre.getLast? with
  | some p => p.kind == .cr
  | none => lastIsCr l

theorem pyGet_prev (pre : List Tok) (t : Tok) (rest : List Tok) :
    ∃ pv, pyGet (pre ++ t :: rest) ((pre.length : Int) - 1) = .ok pv ∧
      (pv.kind == .cr) = prevFlag (pre ++ t :: rest) pre := by
  rcases List.eq_nil_or_concat pre with h | ⟨pre', p, h⟩
  · subst h
    have hne : ([] ++ t :: rest) ≠ [] := by simp
    obtain ⟨x, hx⟩ : ∃ x, ([] ++ t :: rest).getLast? = some x := by
      cases hh : ([] ++ t :: rest).getLast? with
      | none => simp at hh
      | some x => exact ⟨x, rfl⟩
    refine ⟨x, ?_, ?_⟩
    · have := pyGet_neg_one _ x hx
      simpa using this
    · simp only [prevFlag, List.getLast?_nil, lastIsCr, hx]
  · rw [List.concat_eq_append] at h
    subst h
    refine ⟨p, ?_, ?_⟩
    · simpa using pyGet_prev_snoc pre' p t rest
    · simp [prevFlag]

/-! ### fix_blank_lines = fblGo -/

theorem fblStep_eq (blCls : Nat) (pre : List Tok) (t : Tok) (rest : List Tok) :
    fblStep blCls (pre ++ t :: rest) pre.length t =
      if t.kind == .cr && headIsCr rest then [t, blankTok blCls]
      else if prevFlag (pre ++ t :: rest) pre && t.kind == .ws && headIsCr rest then [blankTok blCls]
      else [t] := by
  obtain ⟨pv, hpv, hflag⟩ := pyGet_prev pre t rest
  unfold fblStep fblFirst fblSecond
  rw [pyGet_next, hpv]
  rw [← hflag]
  clear hflag hpv
  cases rest with
  | nil =>
    by_cases h1 : t.kind = .cr <;> by_cases h2 : t.kind = .ws <;> by_cases h3 : pv.kind = .cr <;>
      simp_all [headIsCr, bind, Except.bind, pure, Except.pure]
  | cons nx r =>
    by_cases h1 : t.kind = .cr <;> by_cases h2 : t.kind = .ws <;> by_cases h3 : pv.kind = .cr <;>
      by_cases h4 : nx.kind = .cr <;>
      simp_all [headIsCr, bind, Except.bind, pure, Except.pure]

theorem fbl_aux (blCls : Nat) (l : List Tok) : ∀ (suf pre : List Tok), l = pre ++ suf →
    (suf.zipIdx pre.length).flatMap (fun p => fblStep blCls l p.2 p.1) = fblGo blCls (prevFlag l pre) suf := by
  intro suf
  induction suf with
  | nil => intro pre _; simp [fblGo]
  | cons t rest ih =>
    intro pre hl
    have hl' : l = (pre ++ [t]) ++ rest := by simp [hl]
    have ih' := ih (pre ++ [t]) hl'
    simp only [List.length_append, List.length_cons, List.length_nil, Nat.zero_add] at ih'
    simp only [List.zipIdx_cons, List.flatMap_cons]
    rw [ih']
    have hpf : prevFlag l (pre ++ [t]) = (t.kind == .cr) := by simp [prevFlag]
    rw [hpf]
    subst hl
    rw [fblStep_eq]
    rw [fblGo]
    have hwc : (Kind.ws == Kind.cr) = false := rfl
    by_cases c1 : (t.kind == .cr && headIsCr rest) = true
    · simp only [c1, if_true]
      simp only [Bool.and_eq_true] at c1
      simp [c1.1]
    · simp only [c1, Bool.false_eq_true, if_false]
      by_cases c2 : (prevFlag (pre ++ t :: rest) pre && t.kind == .ws && headIsCr rest) = true
      · simp only [c2, if_true]
        simp only [Bool.and_eq_true, beq_iff_eq] at c2
        simp [c2.1.2, hwc]
      · simp only [c2, Bool.false_eq_true, if_false]
        simp

/-- the index-based transcription of `fix_blank_lines` equals its recursive form -/
theorem fixBlankLines_eq (blCls : Nat) (l : List Tok) : fixBlankLines blCls l = fblGo blCls (lastIsCr l) l := by
  unfold fixBlankLines
  have := fbl_aux blCls l l [] (by simp)
  simpa [prevFlag] using this

/-! ### fix_trailing_whitespace = ftwGo -/

theorem ftwGo_ne_nil (l : List Tok) (h : l ≠ []) : ftwGo l ≠ [] := by
  match l, h with
  | [a], _ => simp [ftwGo, headIsCr]
  | a :: b :: r, _ =>
    unfold ftwGo
    split
    · exact ftwGo_ne_nil (b :: r) (by simp)
    · simp

theorem ftwGo_snoc (pre : List Tok) (p t : Tok) :
    ftwGo ((pre ++ [p]) ++ [t]) =
      if p.kind == .ws && t.kind == .cr then (ftwGo (pre ++ [p])).dropLast ++ [t] else ftwGo (pre ++ [p]) ++ [t] := by
  induction pre with
  | nil =>
    by_cases h1 : (p.kind == .ws) = true <;> by_cases h2 : (t.kind == .cr) = true <;>
      simp [ftwGo, headIsCr, h1, h2]
  | cons a pre ih =>
    have hne : ftwGo (pre ++ [p]) ≠ [] := ftwGo_ne_nil _ (by simp)
    have hhead : headIsCr ((pre ++ [p]) ++ [t]) = headIsCr (pre ++ [p]) := by
      cases pre <;> simp [headIsCr]
    simp only [List.cons_append]
    rw [ftwGo, ftwGo, hhead, ih]
    by_cases c : (a.kind == .ws && headIsCr (pre ++ [p])) = true
    · simp [c]
    · simp only [c, Bool.false_eq_true, if_false]
      by_cases d : (p.kind == .ws && t.kind == .cr) = true
      · simp only [d, if_true]
        rw [List.dropLast_cons_of_ne_nil hne]; simp
      · simp [d]

theorem ftwStep_eq (pre : List Tok) (t : Tok) (rest : List Tok) :
    ftwStep (pre ++ t :: rest) (ftwGo pre) pre.length t = ftwGo (pre ++ [t]) := by
  rcases List.eq_nil_or_concat pre with h | ⟨pre', p, h⟩
  · subst h
    obtain ⟨pv, hpv, _⟩ := pyGet_prev [] t rest
    simp only [List.length_nil, List.nil_append] at hpv ⊢
    unfold ftwStep
    simp only [Int.natCast_zero] at hpv ⊢
    rw [hpv]
    by_cases h1 : (t.kind == .cr) = true <;> by_cases h2 : (pv.kind == .ws) = true <;>
      simp [ftwGo, headIsCr, h1, h2, bind, Except.bind, pure, Except.pure, throw, throwThe, MonadExceptOf.throw]
  · rw [List.concat_eq_append] at h
    subst h
    unfold ftwStep
    rw [pyGet_prev_snoc, ftwGo_snoc]
    have hne : ftwGo (pre' ++ [p]) ≠ [] := ftwGo_ne_nil _ (by simp)
    obtain ⟨x, hx⟩ : ∃ x, (ftwGo (pre' ++ [p])).getLast? = some x := by
      cases hh : (ftwGo (pre' ++ [p])).getLast? with
      | none => simp at hh; exact absurd hh hne
      | some x => exact ⟨x, rfl⟩
    by_cases h1 : (t.kind == .cr) = true <;> by_cases h2 : (p.kind == .ws) = true <;>
      simp [h1, h2, hx, bind, Except.bind, pure, Except.pure]

theorem ftw_aux (l : List Tok) : ∀ (suf pre : List Tok), l = pre ++ suf →
    (suf.zipIdx pre.length).foldl (fun acc p => ftwStep l acc p.2 p.1) (ftwGo pre) = ftwGo l := by
  intro suf
  induction suf with
  | nil => intro pre hl; simp [hl]
  | cons t rest ih =>
    intro pre hl
    have hl' : l = (pre ++ [t]) ++ rest := by simp [hl]
    have ih' := ih (pre ++ [t]) hl'
    simp only [List.length_append, List.length_cons, List.length_nil, Nat.zero_add] at ih'
    simp only [List.zipIdx_cons, List.foldl_cons]
    rw [← ih']
    congr 1
    subst hl
    exact ftwStep_eq pre t rest

/-- the index-based transcription of `fix_trailing_whitespace` equals its recursive form -/
theorem fixTrailingWhitespace_eq (l : List Tok) : fixTrailingWhitespace l = ftwGo l := by
  unfold fixTrailingWhitespace
  have := ftw_aux l l [] (by simp)
  simpa [ftwGo] using this


/-! ### effect: layout-only, line breaks kept -/

theorem blank_layout (c : Nat) : (blankTok c).isLayout = true := rfl
theorem blank_notCr (c : Nat) : (blankTok c).isCr = false := rfl

theorem kind_cr_layout (t : Tok) (h : t.kind = .cr) : t.isLayout = true := by
  simp [Tok.isLayout, Kind.isLayout, h]
theorem kind_ws_layout (t : Tok) (h : t.kind = .ws) : t.isLayout = true := by
  simp [Tok.isLayout, Kind.isLayout, h]
theorem kind_ws_notCr (t : Tok) (h : t.kind = .ws) : t.isCr = false := by
  simp [Tok.isCr, h]

theorem fblGo_nonLayout (blCls : Nat) (l : List Tok) : ∀ b, nonLayout (fblGo blCls b l) = nonLayout l := by
  induction l with
  | nil => intro b; rfl
  | cons t rest ih =>
    intro b
    rw [fblGo]
    by_cases c1 : (t.kind == .cr && headIsCr rest) = true
    · simp only [c1, if_true]
      simp only [Bool.and_eq_true, beq_iff_eq] at c1
      have := ih true
      simp only [nonLayout, List.filter_cons, blank_layout, kind_cr_layout t c1.1] at this ⊢
      simpa using this
    · simp only [c1, Bool.false_eq_true, if_false]
      by_cases c2 : (b && t.kind == .ws && headIsCr rest) = true
      · simp only [c2, if_true]
        simp only [Bool.and_eq_true, beq_iff_eq] at c2
        have := ih false
        simp only [nonLayout, List.filter_cons, blank_layout, kind_ws_layout t c2.1.2] at this ⊢
        simpa using this
      · simp only [c2, Bool.false_eq_true, if_false]
        have := ih (t.kind == .cr)
        simp only [nonLayout, List.filter_cons] at this ⊢
        rw [this]

theorem crSeq_cons (t : Tok) (l : List Tok) : crSeq (t :: l) = (if t.isCr then [()] else []) ++ crSeq l := rfl

theorem fblGo_crSeq (blCls : Nat) (l : List Tok) : ∀ b, crSeq (fblGo blCls b l) = crSeq l := by
  induction l with
  | nil => intro b; rfl
  | cons t rest ih =>
    intro b
    rw [fblGo]
    by_cases c1 : (t.kind == .cr && headIsCr rest) = true
    · simp only [c1, if_true]
      have := ih true
      simp only [crSeq, List.flatMap_cons, blank_notCr] at this ⊢
      rw [this]; simp
    · simp only [c1, Bool.false_eq_true, if_false]
      by_cases c2 : (b && t.kind == .ws && headIsCr rest) = true
      · simp only [c2, if_true]
        simp only [Bool.and_eq_true, beq_iff_eq] at c2
        rw [crSeq_cons, crSeq_cons t, ih false, blank_notCr, kind_ws_notCr t c2.1.2]
      · simp only [c2, Bool.false_eq_true, if_false]
        have := ih (t.kind == .cr)
        simp only [crSeq, List.flatMap_cons] at this ⊢
        rw [this]

theorem ftwGo_nonLayout (l : List Tok) : nonLayout (ftwGo l) = nonLayout l := by
  induction l with
  | nil => rfl
  | cons t rest ih =>
    rw [ftwGo]
    by_cases c : (t.kind == .ws && headIsCr rest) = true
    · simp only [c, if_true]
      simp only [Bool.and_eq_true, beq_iff_eq] at c
      simp only [nonLayout, List.filter_cons, kind_ws_layout t c.1] at ih ⊢
      simpa using ih
    · simp only [c, Bool.false_eq_true, if_false]
      simp only [nonLayout, List.filter_cons] at ih ⊢
      rw [ih]

theorem ftwGo_crSeq (l : List Tok) : crSeq (ftwGo l) = crSeq l := by
  induction l with
  | nil => rfl
  | cons t rest ih =>
    rw [ftwGo]
    by_cases c : (t.kind == .ws && headIsCr rest) = true
    · simp only [c, if_true]
      simp only [Bool.and_eq_true, beq_iff_eq] at c
      simp only [crSeq, List.flatMap_cons, kind_ws_notCr t c.1] at ih ⊢
      simpa using ih
    · simp only [c, Bool.false_eq_true, if_false]
      simp only [crSeq, List.flatMap_cons] at ih ⊢
      rw [ih]

/-! ### idempotence of fix_blank_lines -/

def headIsWs : List Tok → Bool
  | t :: _ => t.kind == .ws
  | [] => false

theorem headIsCr_fblGo (blCls : Nat) (b : Bool) (l : List Tok) : headIsCr (fblGo blCls b l) = headIsCr l := by
  cases l with
  | nil => rfl
  | cons t rest =>
    rw [fblGo]
    by_cases c1 : (t.kind == .cr && headIsCr rest) = true
    · simp only [c1, if_true]
      rfl
    · simp only [c1, Bool.false_eq_true, if_false]
      by_cases c2 : (b && t.kind == .ws && headIsCr rest) = true
      · simp only [c2, if_true]
        simp only [Bool.and_eq_true, beq_iff_eq] at c2
        show ((blankTok blCls).kind == Kind.cr) = (t.kind == Kind.cr)
        rw [c2.1.2]; rfl
      · simp only [c2, Bool.false_eq_true, if_false]
        rfl

theorem headIsWs_of_headIsCr (l : List Tok) (h : headIsCr l = true) : headIsWs l = false := by
  cases l with
  | nil => rfl
  | cons t rest => simp only [headIsCr, beq_iff_eq] at h; simp [headIsWs, h]

theorem fblGo_idem_aux (blCls : Nat) (l : List Tok) : ∀ b b', (b' = b ∨ headIsWs (fblGo blCls b l) = false) →
    fblGo blCls b' (fblGo blCls b l) = fblGo blCls b l := by
  induction l with
  | nil => intro b b' _; rfl
  | cons t rest ih =>
    intro b b' hb
    have hbc : ((blankTok blCls).kind == Kind.cr) = false := rfl
    have hbw : ((blankTok blCls).kind == Kind.ws) = false := rfl
    rw [fblGo] at hb ⊢
    by_cases c1 : (t.kind == .cr && headIsCr rest) = true
    · simp only [c1, if_true] at hb ⊢
      simp only [Bool.and_eq_true, beq_iff_eq] at c1
      have htw : (t.kind == Kind.ws) = false := by simp [c1.1]
      have htc : (t.kind == Kind.cr) = true := by simp [c1.1]
      have hX : headIsWs (fblGo blCls true rest) = false :=
        headIsWs_of_headIsCr _ (by rw [headIsCr_fblGo]; exact c1.2)
      rw [fblGo]
      simp only [headIsCr, hbc, Bool.and_false, Bool.false_eq_true, if_false, htw, htc]
      rw [fblGo]
      simp only [hbc, hbw, Bool.false_and, Bool.and_false, Bool.false_eq_true, if_false]
      rw [ih true false (Or.inr hX)]
    · simp only [c1, Bool.false_eq_true, if_false] at hb ⊢
      by_cases c2 : (b && t.kind == .ws && headIsCr rest) = true
      · simp only [c2, if_true] at hb ⊢
        rw [fblGo]
        simp only [hbc, hbw, Bool.false_and, Bool.and_false, Bool.false_eq_true, if_false]
        rw [ih false false (Or.inl rfl)]
      · simp only [c2, Bool.false_eq_true, if_false] at hb ⊢
        rw [fblGo]
        rw [headIsCr_fblGo]
        simp only [c1, Bool.false_eq_true, if_false]
        have c2' : (b' && t.kind == .ws && headIsCr rest) = false := by
          rcases hb with hb | hb
          · subst hb; simpa using c2
          · simp only [headIsWs] at hb; simp [hb]
        simp only [c2', Bool.false_eq_true, if_false]
        rw [ih (t.kind == .cr) (t.kind == .cr) (Or.inl rfl)]

theorem getLast?_fblGo (blCls : Nat) (l : List Tok) : ∀ b, (fblGo blCls b l).getLast? = l.getLast? := by
  induction l with
  | nil => intro b; rfl
  | cons t rest ih =>
    intro b
    cases rest with
    | nil => simp [fblGo, headIsCr]
    | cons u r =>
      have hne : ∀ b, fblGo blCls b (u :: r) ≠ [] := by
        intro b he
        have := ih b
        rw [he] at this
        cases hh : (u :: r).getLast? with
        | none => simp at hh
        | some x => rw [hh] at this; cases this
      rw [fblGo]
      by_cases c1 : (t.kind == .cr && headIsCr (u :: r)) = true
      · simp only [c1, if_true]
        rw [List.getLast?_cons_cons, List.getLast?_cons_of_ne_nil (hne true)] <;> try exact hne true
        rw [ih true]; simp
      · simp only [c1, Bool.false_eq_true, if_false]
        by_cases c2 : (b && t.kind == .ws && headIsCr (u :: r)) = true
        · simp only [c2, if_true]
          rw [List.getLast?_cons_of_ne_nil (hne false), ih false]; simp
        · simp only [c2, Bool.false_eq_true, if_false]
          rw [List.getLast?_cons_of_ne_nil (hne _), ih _]; simp

theorem lastIsCr_fblGo (blCls : Nat) (b : Bool) (l : List Tok) : lastIsCr (fblGo blCls b l) = lastIsCr l := by
  unfold lastIsCr; rw [getLast?_fblGo]

/-- `fix_blank_lines (fix_blank_lines l) = fix_blank_lines l` for every token list -/
theorem fixBlankLines_idem (blCls : Nat) (l : List Tok) :
    fixBlankLines blCls (fixBlankLines blCls l) = fixBlankLines blCls l := by
  rw [fixBlankLines_eq, fixBlankLines_eq, lastIsCr_fblGo]
  exact fblGo_idem_aux blCls l _ _ (Or.inl rfl)

/-! ### idempotence of fix_trailing_whitespace: false in general, true without `ws ws CR` -/

/-- no whitespace token is directly followed by `whitespace, carriage_return` -/
def noWsWsCr : List Tok → Bool
  | a :: b :: c :: rest => !(a.kind == .ws && b.kind == .ws && c.kind == .cr) && noWsWsCr (b :: c :: rest)
  | _ => true

/-- no whitespace token is directly followed by a carriage return -/
def noWsCr : List Tok → Bool
  | a :: b :: rest => !(a.kind == .ws && b.kind == .cr) && noWsCr (b :: rest)
  | _ => true

theorem ftwGo_fix (l : List Tok) (h : noWsCr l = true) : ftwGo l = l := by
  induction l with
  | nil => rfl
  | cons a rest ih =>
    cases rest with
    | nil => simp [ftwGo, headIsCr]
    | cons b r =>
      simp only [noWsCr, Bool.and_eq_true] at h
      rw [ftwGo]
      have : (a.kind == .ws && headIsCr (b :: r)) = false := by
        simp only [headIsCr]
        have h1 := h.1
        cases hx : (a.kind == Kind.ws && b.kind == Kind.cr) with
        | false => rfl
        | true => rw [hx] at h1; simp at h1
      simp only [this, Bool.false_eq_true, if_false]
      rw [ih h.2]

theorem headIsCr_ftwGo_of_not_ws (l : List Tok) (h : headIsWs l = false) : headIsCr (ftwGo l) = headIsCr l := by
  cases l with
  | nil => rfl
  | cons a rest =>
    simp only [headIsWs] at h
    rw [ftwGo]
    simp [h, headIsCr]

theorem noWsCr_ftwGo (l : List Tok) (h : noWsWsCr l = true) : noWsCr (ftwGo l) = true := by
  induction l with
  | nil => rfl
  | cons a rest ih =>
    have hrest : noWsWsCr rest = true := by
      match rest, h with
      | [], _ => rfl
      | [_], _ => rfl
      | b :: c :: r, h => simp only [noWsWsCr, Bool.and_eq_true] at h; exact h.2
    have ih' := ih hrest
    rw [ftwGo]
    by_cases c : (a.kind == .ws && headIsCr rest) = true
    · simp only [c, if_true]; exact ih'
    · simp only [c, Bool.false_eq_true, if_false]
      -- `a` is kept: show it is not a whitespace directly followed by a CR in the output
      cases hr : ftwGo rest with
      | nil => rfl
      | cons x xs =>
        rw [hr] at ih'
        simp only [noWsCr, Bool.and_eq_true]
        refine ⟨?_, ih'⟩
        by_cases haw : (a.kind == .ws) = true
        · -- then the head of rest is not a CR; the head of the output of rest must not be one either
          have hnc : headIsCr rest = false := by simpa [haw] using c
          -- if rest starts with whitespace that is dropped, the next token is a CR: excluded by noWsWsCr
          match rest, h, hr, hnc with
          | [], _, hr, _ => simp [ftwGo] at hr
          | [b], _, hr, hnc =>
            simp only [ftwGo, headIsCr, Bool.and_false, Bool.false_eq_true, if_false, List.cons.injEq] at hr
            simp only [headIsCr] at hnc
            rw [← hr.1]; simp [hnc]
          | b :: c2 :: r, h, hr, hnc =>
            simp only [noWsWsCr, Bool.and_eq_true] at h
            simp only [headIsCr] at hnc
            rw [ftwGo] at hr
            by_cases d : (b.kind == .ws && headIsCr (c2 :: r)) = true
            · exfalso
              simp only [Bool.and_eq_true, headIsCr] at d
              have := h.1
              simp [haw, d.1, d.2] at this
            · simp only [d, Bool.false_eq_true, if_false, List.cons.injEq] at hr
              rw [← hr.1]; simp [hnc]
        · simp [haw]

/-- idempotence of `fix_trailing_whitespace` on every token list without `ws ws CR` -/
theorem fixTrailingWhitespace_idem (l : List Tok) (h : noWsWsCr l = true) :
    fixTrailingWhitespace (fixTrailingWhitespace l) = fixTrailingWhitespace l := by
  rw [fixTrailingWhitespace_eq, fixTrailingWhitespace_eq]
  exact ftwGo_fix _ (noWsCr_ftwGo l h)

end Vsgm.Post
