/-
  Lemmas about the instrumented fix run (`fixTrace`) and the `--fix_only` filter.
-/
import VsgModel.Engine.CheckRules
import VsgProofs.Lemmas.Engine
namespace Vsgm.Lemmas
open Vsgm

theorem update_nil {α : Type} (f : List α) : update f [] = f := rfl

/-- a rule step of `rule_list.fix` in closed form -/
theorem stepOpt_some (fo : Option FixOnly) (post : List Tok → List Tok) (g : List Tok) (b : Bool) (r : Rule) :
    stepOpt fo post (g, b) (some r) =
      if r.1.sevError && r.1.fixable then
        (update g ((filterFixOnly fo r.1.id (sortByStart (r.2.analyze g))).map (editOf r.2)),
          b || !(filterFixOnly fo r.1.id (sortByStart (r.2.analyze g))).isEmpty)
      else (g, b) := by
  unfold stepOpt stepRule ruleFix
  by_cases h1 : r.1.sevError = true
  · by_cases h2 : r.1.fixable = true
    · simp [h1, h2]
    · have : r.1.fixable = false := by simpa using h2
      simp [h1, this]
  · have : r.1.sevError = false := by simpa using h1
    simp [this]

theorem ruleFix_fst (r : Rule) (fo : Option FixOnly) (g : List Tok) (h : r.1.fixable = true) :
    (ruleFix r.1 r.2 fo g).1 = update g ((filterFixOnly fo r.1.id (sortByStart (r.2.analyze g))).map (editOf r.2)) := by
  simp [ruleFix, h]

theorem mem_traceFrom (fo : Option FixOnly) (post : List Tok → List Tok) (l : List (Option Rule)) (g : List Tok)
    (ev : FixEv) (h : ev ∈ traceFrom fo post l g) :
    some ev.rule ∈ l ∧ ev.rule.1.sevError = true ∧ ev.rule.1.fixable = true ∧
      ev.fixed = filterFixOnly fo ev.rule.1.id (sortByStart (ev.rule.2.analyze ev.seen)) := by
  induction l generalizing g with
  | nil => simp [traceFrom] at h
  | cons o l ih =>
    cases o with
    | none =>
      simp only [traceFrom] at h
      obtain ⟨h1, h2⟩ := ih _ h
      exact ⟨List.mem_cons_of_mem _ h1, h2⟩
    | some r =>
      simp only [traceFrom] at h
      by_cases hc : (r.1.sevError && r.1.fixable) = true
      · simp only [hc, if_true, List.mem_cons] at h
        rcases h with rfl | h
        · simp only [Bool.and_eq_true] at hc
          exact ⟨List.mem_cons_self .., hc.1, hc.2, rfl⟩
        · obtain ⟨h1, h2⟩ := ih _ h
          exact ⟨List.mem_cons_of_mem _ h1, h2⟩
      · simp only [hc] at h
        obtain ⟨h1, h2⟩ := ih _ h
        exact ⟨List.mem_cons_of_mem _ h1, h2⟩

/-- had_violations is set exactly when some `_fix_violation` is invoked -/
theorem foldl_stepOpt_had (fo : Option FixOnly) (post : List Tok → List Tok) (l : List (Option Rule))
    (g : List Tok) (b : Bool) :
    (l.foldl (stepOpt fo post) (g, b)).2 = (b || (traceFrom fo post l g).any (fun ev => !ev.fixed.isEmpty)) := by
  induction l generalizing g b with
  | nil => simp [traceFrom]
  | cons o l ih =>
    simp only [List.foldl_cons]
    cases o with
    | none =>
      show (l.foldl (stepOpt fo post) (post g, b)).2 = _
      rw [ih]; simp [traceFrom]
    | some r =>
      rw [stepOpt_some]
      by_cases hc : (r.1.sevError && r.1.fixable) = true
      · simp only [hc, if_true]
        rw [ih]
        simp only [Bool.and_eq_true] at hc
        simp [traceFrom, hc.1, hc.2, ruleFix_fst r fo g hc.2, Bool.or_assoc]
      · simp only [hc]
        rw [ih]
        simp [traceFrom, hc]

theorem foldl_congr_mem {α β : Type} (f g : β → α → β) (l : List α) (s : β)
    (h : ∀ a ∈ l, ∀ st, f st a = g st a) : l.foldl f s = l.foldl g s := by
  induction l generalizing s with
  | nil => rfl
  | cons a l ih =>
    simp only [List.foldl_cons]
    rw [h a (List.mem_cons_self ..) s]
    exact ih _ (fun a' ha' => h a' (List.mem_cons_of_mem _ ha'))

theorem traceFrom_congr (fo1 fo2 : Option FixOnly) (post : List Tok → List Tok) (l : List (Option Rule)) (g : List Tok)
    (h : ∀ r, some r ∈ l → ∀ vs, filterFixOnly fo1 r.1.id vs = filterFixOnly fo2 r.1.id vs) :
    traceFrom fo1 post l g = traceFrom fo2 post l g := by
  induction l generalizing g with
  | nil => rfl
  | cons o l ih =>
    have ih' := fun g => ih g (fun r hr => h r (List.mem_cons_of_mem _ hr))
    cases o with
    | none => simp only [traceFrom]; exact ih' _
    | some r =>
      have hr := h r (List.mem_cons_self ..)
      simp only [traceFrom, ruleFix, hr, ih']

theorem stepOpt_congr (fo1 fo2 : Option FixOnly) (post : List Tok → List Tok) (o : Option Rule)
    (h : ∀ r, o = some r → ∀ vs, filterFixOnly fo1 r.1.id vs = filterFixOnly fo2 r.1.id vs) (st : List Tok × Bool) :
    stepOpt fo1 post st o = stepOpt fo2 post st o := by
  cases o with
  | none => rfl
  | some r =>
    obtain ⟨g, b⟩ := st
    rw [stepOpt_some, stepOpt_some, h r rfl]

/-- `post` applied `n` times -/
def iter (post : List Tok → List Tok) : Nat → List Tok → List Tok
  | 0, g => g
  | n + 1, g => iter post n (post g)

/-- a run in which no violation survives the filter only applies the post-phase-1 normalisation -/
theorem foldl_inert (fo : Option FixOnly) (post : List Tok → List Tok) (l : List (Option Rule))
    (h : ∀ r, some r ∈ l → ∀ vs, filterFixOnly fo r.1.id vs = []) (g : List Tok) (b : Bool) :
    l.foldl (stepOpt fo post) (g, b) = (iter post (l.filter Option.isNone).length g, b) := by
  induction l generalizing g with
  | nil => rfl
  | cons o l ih =>
    have ih' := fun g => ih (fun r hr => h r (List.mem_cons_of_mem _ hr)) g
    simp only [List.foldl_cons]
    cases o with
    | none =>
      show l.foldl (stepOpt fo post) (post g, b) = _
      rw [ih']; simp [iter]
    | some r =>
      rw [stepOpt_some, h r (List.mem_cons_self ..)]
      simp only [List.map_nil, update_nil, List.isEmpty_nil, Bool.not_true, Bool.or_false, ite_self]
      rw [ih']; simp

/-- the post-phase-1 normalisation happens once iff phase 1 is executed -/
theorem schedule_none_count (rs : List Rule) (fixPhase : Nat) (skip : List Nat) :
    ((schedule rs fixPhase skip).filter Option.isNone).length = if 1 ≤ fixPhase ∧ 1 ∉ skip then 1 else 0 := by
  induction fixPhase with
  | zero => simp [schedule]
  | succ n ih =>
    have hs : schedule rs (n + 1) skip = schedule rs n skip ++
        (if (n + 1) ∈ skip then [] else (phaseRulesFix rs (n + 1)).map some ++ (if (n + 1) == 1 then [none] else [])) := by
      simp [schedule, List.range_succ, List.flatMap_append]
    rw [hs, List.filter_append, List.length_append, ih]
    have hmap : ∀ l : List Rule, (l.map some).filter Option.isNone = [] := by
      intro l
      induction l with
      | nil => rfl
      | cons a l ihl => simp [ihl]
    cases n with
    | zero =>
      by_cases h1 : 1 ∈ skip
      · simp [h1]
      · simp [h1, List.filter_append, hmap]
    | succ m =>
      by_cases h1 : (m + 1 + 1) ∈ skip
      · simp [h1]
      · simp [h1, hmap]

end Vsgm.Lemmas
