import VsgModel.Engine.ApplyRules
namespace Vsgm.Lemmas
open Vsgm

/-! ### had_violations ⇔ some `_fix_violation` ran -/

theorem ruleFix_had (r : RuleCfg) (sem : RuleSem) (fo : Option FixOnly) (f : List Tok) :
    (ruleFix r sem fo f).2 = true ↔ 0 < ruleFixCalls r sem fo f := by
  unfold ruleFix ruleFixCalls
  split
  · simp only [Bool.not_eq_true', List.isEmpty_eq_false_iff]
    exact ⟨fun h => List.length_pos_iff.2 h, fun h => List.length_pos_iff.1 h⟩
  · simp

theorem stepOpt_had (fo : Option FixOnly) (post : List Tok → List Tok) (st : List Tok × Bool) (o : Option Rule) :
    (stepOpt fo post st o).2 = true ↔ st.2 = true ∨ 0 < stepCalls fo st.1 o := by
  cases o with
  | none => simp [stepOpt, stepCalls]
  | some r =>
    simp only [stepOpt, stepRule, stepCalls]
    by_cases hs : r.1.sevError = true
    · simp only [hs, if_true, Bool.or_eq_true]
      rw [ruleFix_had]
    · simp [hs]

theorem foldl_count (fo : Option FixOnly) (post : List Tok → List Tok) (l : List (Option Rule))
    (st : List Tok × Bool) (n : Nat) (h : st.2 = true ↔ 0 < n) :
    (l.foldl (stepOptCount fo post) (st, n)).1 = l.foldl (stepOpt fo post) st ∧
      ((l.foldl (stepOptCount fo post) (st, n)).1.2 = true ↔ 0 < (l.foldl (stepOptCount fo post) (st, n)).2) := by
  induction l generalizing st n with
  | nil => exact ⟨rfl, h⟩
  | cons o l ih =>
    simp only [List.foldl_cons]
    apply ih
    rw [stepOpt_had, h]
    omega

theorem fixRunCount_fst (rs : List Rule) (fixPhase : Nat) (skip : List Nat) (fo : Option FixOnly)
    (post : List Tok → List Tok) (f : List Tok) :
    (fixRunCount rs fixPhase skip fo post f).1 = fixRun rs fixPhase skip fo post f :=
  (foldl_count fo post _ (f, false) 0 (by simp)).1

theorem fixRun_had_iff (rs : List Rule) (fixPhase : Nat) (skip : List Nat) (fo : Option FixOnly)
    (post : List Tok → List Tok) (f : List Tok) :
    (fixRun rs fixPhase skip fo post f).2 = true ↔ 0 < (fixRunCount rs fixPhase skip fo post f).2 := by
  rw [← fixRunCount_fst]
  exact (foldl_count fo post _ (f, false) 0 (by simp)).2

end Vsgm.Lemmas
