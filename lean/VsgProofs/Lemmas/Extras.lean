import VsgModel.Check.Verdict
namespace Vsgm.Lemmas
open Vsgm Vsgm.Trace

theorem extras_sublist {α : Type} [DecidableEq α] : ∀ (a b e : List α), extras a b = some e →
    a.Sublist b ∧ e.Sublist b ∧ b.length = a.length + e.length
  | [], b, e, h => by
    simp [extras] at h; subst h; simp
  | _ :: _, [], e, h => by simp [extras] at h
  | x :: a, y :: b, e, h => by
    unfold extras at h
    by_cases hxy : x = y
    · simp only [hxy, if_true] at h
      obtain ⟨h1, h2, h3⟩ := extras_sublist a b e h
      subst hxy
      exact ⟨h1.cons_cons _, h2.cons _, by simp [h3]; omega⟩
    · simp only [hxy, if_false, Option.map_eq_some_iff] at h
      obtain ⟨e', he', rfl⟩ := h
      obtain ⟨h1, h2, h3⟩ := extras_sublist (x :: a) b e' he'
      exact ⟨h1.cons _, h2.cons_cons _, by simp [h3]; omega⟩

end Vsgm.Lemmas
