import VsgModel.Check.Verdict
namespace Vsgm.Lemmas
open Vsgm Vsgm.Trace

theorem extras_sublist {α : Type} [DecidableEq α] : ∀ (a b e : List α), extras a b = some e →
    a.Sublist b ∧ e.Sublist b ∧ b.length = a.length + e.length
  | [], b, e, h => by
    simp [extras] at h; subst h; simp
  | _ :: _, [], e, h => by simp [extras] at h
  | x :: a, y :: b, e, h => by
    unfold extras at h
    by_cases hxy : x = y
    · simp only [hxy, if_true] at h
      obtain ⟨h1, h2, h3⟩ := extras_sublist a b e h
      subst hxy
      exact ⟨h1.cons_cons _, h2.cons _, by simp [h3]; omega⟩
    · simp only [hxy, if_false, Option.map_eq_some_iff] at h
      obtain ⟨e', he', rfl⟩ := h
      obtain ⟨h1, h2, h3⟩ := extras_sublist (x :: a) b e' he'
      exact ⟨h1.cons _, h2.cons_cons _, by simp [h3]; omega⟩

theorem extrasP_extras {α : Type} [DecidableEq α] : ∀ (p : Option α) (a b : List α) (e : List (Option α × α)),
    extrasP p a b = some e → extras a b = some (e.map (·.2))
  | _, [], [], e, h => by simp [extrasP] at h; subst h; simp [extras]
  | p, [], y :: b, e, h => by
    simp only [extrasP, Option.map_eq_some_iff] at h
    obtain ⟨e', he', rfl⟩ := h
    have := extrasP_extras (some y) [] b e' he'
    simp [extras] at this ⊢
    exact this
  | _, _ :: _, [], e, h => by simp [extrasP] at h
  | p, x :: a, y :: b, e, h => by
    unfold extrasP at h
    unfold extras
    by_cases hxy : x = y
    · simp only [hxy, if_true] at h ⊢
      exact extrasP_extras _ _ _ _ h
    · simp only [hxy, if_false, Option.map_eq_some_iff] at h ⊢
      obtain ⟨e', he', rfl⟩ := h
      exact ⟨e'.map (·.2), extrasP_extras _ _ _ _ he', by simp⟩


/-- the greedy matcher's surplus is the multiset difference -/
theorem extras_count {α : Type} [DecidableEq α] : ∀ (a b e : List α), extras a b = some e →
    ∀ z, b.count z = a.count z + e.count z
  | [], b, e, h => by
    simp [extras] at h; subst h; simp
  | _ :: _, [], e, h => by simp [extras] at h
  | x :: a, y :: b, e, h => by
    unfold extras at h
    intro z
    by_cases hxy : x = y
    · simp only [hxy, if_true] at h
      have := extras_count a b e h z
      subst hxy
      simp only [List.count_cons]
      omega
    · simp only [hxy, if_false, Option.map_eq_some_iff] at h
      obtain ⟨e', he', rfl⟩ := h
      have := extras_count (x :: a) b e' he' z
      simp only [List.count_cons] at this ⊢
      omega

/-- when `b` is `a` with `seg` spliced in, every surplus element the matcher reports is an element of `seg` -/
theorem extras_mem_of_splice {α : Type} [DecidableEq α] (p sfx seg e : List α)
    (h : extras (p ++ sfx) (p ++ seg ++ sfx) = some e) : ∀ x ∈ e, x ∈ seg := by
  intro x hx
  have hc := extras_count _ _ _ h x
  simp only [List.count_append] at hc
  have : 0 < e.count x := List.count_pos_iff.mpr hx
  have : 0 < seg.count x := by omega
  exact List.count_pos_iff.mp this

end Vsgm.Lemmas
