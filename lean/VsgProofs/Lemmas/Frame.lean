/-
  Helper lemmas for C06 / C15 (frame reductions).
-/
import VsgModel.Engine.Frame
namespace Vsgm.Frame
open Vsgm

/-- The frame hypothesis of C06, relative to an observation `view` of the state: what an
    analysis reports depends on the observed part only, and an analysis leaves the observed
    part as it was.  (`view := id` is "analyses are read-only functions of the file"; a coarser
    `view` lets rules normalise their own option attributes, which the real ones do.) -/
structure Frame (view : σ → α) (rs : List (SRule σ)) : Prop where
  reads : ∀ r ∈ rs, ∀ s t, view s = view t → (r.analyze s).2 = (r.analyze t).2
  keeps : ∀ r ∈ rs, ∀ s, view (r.analyze s).1 = view s

theorem Frame.mono {view : σ → α} {rs rs' : List (SRule σ)} (F : Frame view rs)
    (h : ∀ r ∈ rs', r ∈ rs) : Frame view rs' :=
  ⟨fun r hr => F.reads r (h r hr), fun r hr => F.keeps r (h r hr)⟩

theorem mem_subphaseRulesS {rs : List (SRule σ)} {p s : Nat} {r : SRule σ}
    (h : r ∈ subphaseRulesS rs p s) : r ∈ rs := by
  unfold subphaseRulesS at h
  exact (List.mem_filter.1 (List.mem_filter.1 (List.mem_filter.1 h).1).1).1

/-! ### explicit form of an all-phases run under the frame hypothesis -/

theorem foldl_analyze {view : σ → α} {rs : List (SRule σ)} (F : Frame view rs) (s0 : σ) :
    ∀ (L : List (SRule σ)), (∀ r ∈ L, r ∈ rs) → ∀ (c : CState σ), view c.st = view s0 →
      view (L.foldl analyzeOne c).st = view s0 ∧
      (L.foldl analyzeOne c).log = c.log ++ L.map (entry s0) ∧
      (L.foldl analyzeOne c).lastPhase = c.lastPhase ∧
      (L.foldl analyzeOne c).violations = c.violations := by
  intro L
  induction L with
  | nil => intro _ c hc; simp [hc]
  | cons r L ih =>
    intro hL c hc
    have hr : r ∈ rs := hL r (List.mem_cons_self ..)
    have hc' : view (analyzeOne c r).st = view s0 := by
      simp only [analyzeOne]; rw [F.keeps r hr]; exact hc
    obtain ⟨h1, h2, h3, h4⟩ := ih (fun x hx => hL x (List.mem_cons_of_mem _ hx)) (analyzeOne c r) hc'
    refine ⟨by simpa using h1, ?_, by simpa [analyzeOne] using h3, by simpa [analyzeOne] using h4⟩
    simp only [List.foldl_cons, List.map_cons]
    rw [h2]
    simp only [analyzeOne, entry, List.append_assoc, List.singleton_append]
    rw [F.reads r hr c.st s0 hc]

theorem subphases_log {view : σ → α} {rs : List (SRule σ)} (F : Frame view rs) (s0 : σ) (p : Nat) :
    ∀ (ss : List Nat) (c : CState σ), view c.st = view s0 →
      view (ss.foldl (subphaseStep rs p) c).st = view s0 ∧
      (ss.foldl (subphaseStep rs p) c).log = c.log ++ (ss.flatMap fun s => subphaseRulesS rs p s).map (entry s0) := by
  intro ss
  induction ss with
  | nil => intro c hc; simp [hc]
  | cons s ss ih =>
    intro c hc
    obtain ⟨h1, h2, _, _⟩ := foldl_analyze F s0 (subphaseRulesS rs p s) (fun r hr => mem_subphaseRulesS hr) c hc
    have hc' : view (subphaseStep rs p c s).st = view s0 := by simpa [subphaseStep] using h1
    obtain ⟨g1, g2⟩ := ih (subphaseStep rs p c s) hc'
    refine ⟨by simpa using g1, ?_⟩
    simp only [List.foldl_cons, List.flatMap_cons, List.map_append]
    rw [g2]
    simp only [subphaseStep]
    rw [h2, List.append_assoc]

theorem checkLoop_allPhases_log {view : σ → α} {rs : List (SRule σ)} (F : Frame view rs) (s0 : σ) (skip : List Nat) :
    ∀ (ps : List Nat) (c : CState σ), view c.st = view s0 →
      view (checkLoop true skip rs ps c).st = view s0 ∧
      (checkLoop true skip rs ps c).log =
        c.log ++ ((ps.filter (fun p => !(skip.contains p))).flatMap fun p =>
          (List.range 6).flatMap fun s => subphaseRulesS rs p s).map (entry s0) := by
  intro ps
  induction ps with
  | nil => intro c hc; simp [checkLoop, hc]
  | cons p ps ih =>
    intro c hc
    by_cases hp : p ∈ skip
    · have : skip.contains p = true := by simpa using hp
      simp only [checkLoop, hp, if_true, List.filter_cons, this, Bool.not_true]
      exact ih c hc
    · have hcont : skip.contains p = false := by simpa using hp
      obtain ⟨h1, h2⟩ := subphases_log F s0 p (List.range 6) c hc
      obtain ⟨g1, g2⟩ := ih (phaseStep rs p c) h1
      simp only [checkLoop, hp, ↓reduceIte, Bool.not_true, Bool.and_false, Bool.false_eq_true, List.filter_cons, hcont,
        Bool.not_false, List.flatMap_cons, List.map_append]
      refine ⟨g1, ?_⟩
      rw [g2]
      simp only [phaseStep] at h2 ⊢
      rw [h2, List.append_assoc]

/-- the report of an all-phases run is the list of solo results in analysis order -/
theorem checkRules_log {view : σ → α} {rs : List (SRule σ)} (F : Frame view rs) (skip : List Nat) (lp : Nat) (s : σ) :
    view (checkRules true skip rs lp s).st = view s ∧
    (checkRules true skip rs lp s).log = (checkOrder skip rs).map (entry s) := by
  have := checkLoop_allPhases_log F s skip phases
    { st := s, log := [], ran := 0, failures := 0, lastPhase := lp, violations := false } rfl
  simpa [checkRules, checkOrder] using this

/-! ### disabling -/

theorem disable_frame {view : σ → α} {rs : List (SRule σ)} (F : Frame view rs) (D : List String) :
    Frame view (disable D rs) := by
  constructor
  · intro r hr s t h
    obtain ⟨r0, hr0, rfl⟩ := List.mem_map.1 hr
    by_cases hd : r0.cfg.id ∈ D
    · simpa [hd] using F.reads r0 hr0 s t h
    · simpa [hd] using F.reads r0 hr0 s t h
  · intro r hr s
    obtain ⟨r0, hr0, rfl⟩ := List.mem_map.1 hr
    by_cases hd : r0.cfg.id ∈ D
    · simpa [hd] using F.keeps r0 hr0 s
    · simpa [hd] using F.keeps r0 hr0 s

theorem subphaseRulesS_disable (D : List String) (rs : List (SRule σ)) (p s : Nat) :
    subphaseRulesS (disable D rs) p s = (subphaseRulesS rs p s).filter (fun r => !(D.contains r.cfg.id)) := by
  unfold subphaseRulesS disable
  simp only [List.filter_filter]
  induction rs with
  | nil => rfl
  | cons r rs ih =>
    simp only [List.map_cons, List.filter_cons]
    by_cases hd : r.cfg.id ∈ D
    · have hc : D.contains r.cfg.id = true := by simpa using hd
      simp [hd, ih]
    · have hc : D.contains r.cfg.id = false := by simpa using hd
      simp only [hd, if_false, hc, Bool.not_false, Bool.true_and]
      rw [ih]

theorem checkOrder_disable (D : List String) (skip : List Nat) (rs : List (SRule σ)) :
    checkOrder skip (disable D rs) = (checkOrder skip rs).filter (fun r => !(D.contains r.cfg.id)) := by
  unfold checkOrder
  simp only [List.filter_flatMap, subphaseRulesS_disable]

/-! ### order -/

theorem perm_flatMap_left {l : List ι} {f g : ι → List β} (h : ∀ a ∈ l, (f a).Perm (g a)) :
    (l.flatMap f).Perm (l.flatMap g) := by
  induction l with
  | nil => exact List.Perm.refl _
  | cons a l ih =>
    simp only [List.flatMap_cons]
    exact List.Perm.append (h a (List.mem_cons_self ..)) (ih fun b hb => h b (List.mem_cons_of_mem _ hb))

theorem checkOrder_perm {rs rs' : List (SRule σ)} (h : rs'.Perm rs) (skip : List Nat) :
    (checkOrder skip rs').Perm (checkOrder skip rs) := by
  unfold checkOrder
  apply perm_flatMap_left; intro p _
  apply perm_flatMap_left; intro s _
  unfold subphaseRulesS
  exact ((h.filter _).filter _).filter _

/-! ### lock-step simulation (gated runs too) -/

/-- what a run reports, `lastPhaseRan` apart -/
def CState.rep (c : CState σ) : List (String × List Viol) × Nat × Nat × Bool :=
  (c.log, c.ran, c.failures, c.violations)

/-- two run states that agree on everything but the unobserved part of the file state (and
    `lastPhaseRan`, which `check_rules` does not reset) -/
def Sim (view : σ → α) (c d : CState σ) : Prop := view c.st = view d.st ∧ c.rep = d.rep

theorem sim_analyzeOne {view : σ → α} {rs : List (SRule σ)} (F : Frame view rs) {r : SRule σ} (hr : r ∈ rs)
    {c d : CState σ} (h : Sim view c d) : Sim view (analyzeOne c r) (analyzeOne d r) := by
  obtain ⟨hv, ho⟩ := h
  simp only [CState.rep, Prod.mk.injEq] at ho
  obtain ⟨h1, h2, h3, h4⟩ := ho
  have hres := F.reads r hr c.st d.st hv
  refine ⟨?_, ?_⟩
  · simp only [analyzeOne]; rw [F.keeps r hr, F.keeps r hr]; exact hv
  · simp [CState.rep, analyzeOne, hres, h1, h2, h3, h4]

theorem sim_foldl_analyze {view : σ → α} {rs : List (SRule σ)} (F : Frame view rs) :
    ∀ (L : List (SRule σ)), (∀ r ∈ L, r ∈ rs) → ∀ {c d : CState σ}, Sim view c d →
      Sim view (L.foldl analyzeOne c) (L.foldl analyzeOne d) := by
  intro L
  induction L with
  | nil => intro _ c d h; exact h
  | cons r L ih =>
    intro hL c d h
    exact ih (fun x hx => hL x (List.mem_cons_of_mem _ hx)) (sim_analyzeOne F (hL r (List.mem_cons_self ..)) h)

theorem sim_subphaseStep {view : σ → α} {rs : List (SRule σ)} (F : Frame view rs) (p s : Nat)
    {c d : CState σ} (h : Sim view c d) : Sim view (subphaseStep rs p c s) (subphaseStep rs p d s) := by
  obtain ⟨hv, ho⟩ := sim_foldl_analyze F (subphaseRulesS rs p s) (fun r hr => mem_subphaseRulesS hr) h
  simp only [CState.rep, Prod.mk.injEq] at ho
  obtain ⟨h1, h2, h3, h4⟩ := ho
  refine ⟨by simpa [subphaseStep] using hv, ?_⟩
  simp [CState.rep, subphaseStep, h1, h2, h3, h4]

theorem sim_phaseStep {view : σ → α} {rs : List (SRule σ)} (F : Frame view rs) (p : Nat) :
    ∀ (ss : List Nat) {c d : CState σ}, Sim view c d →
      Sim view (ss.foldl (subphaseStep rs p) c) (ss.foldl (subphaseStep rs p) d) := by
  intro ss
  induction ss with
  | nil => intro c d h; exact h
  | cons s ss ih => intro c d h; exact ih (sim_subphaseStep F p s h)

theorem lastPhase_subphases (rs : List (SRule σ)) (p : Nat) :
    ∀ (ss : List Nat) (c : CState σ), ss ≠ [] → (ss.foldl (subphaseStep rs p) c).lastPhase = p := by
  intro ss
  induction ss with
  | nil => intro _ h; exact absurd rfl h
  | cons s ss ih =>
    intro c _
    cases ss with
    | nil => rfl
    | cons s' ss' => exact ih (subphaseStep rs p c s) (by simp)

theorem lastPhase_phaseStep (rs : List (SRule σ)) (p : Nat) (c : CState σ) : (phaseStep rs p c).lastPhase = p :=
  lastPhase_subphases rs p (List.range 6) c (by decide)

/-- runs from similar states stay similar, and `lastPhaseRan` ends equal unless no phase ran in
    either (then each keeps its own) -/
theorem sim_checkLoop {view : σ → α} {rs : List (SRule σ)} (F : Frame view rs) (ap : Bool) (skip : List Nat) :
    ∀ (ps : List Nat) {c d : CState σ}, Sim view c d →
      Sim view (checkLoop ap skip rs ps c) (checkLoop ap skip rs ps d) ∧
      ((checkLoop ap skip rs ps c).lastPhase = (checkLoop ap skip rs ps d).lastPhase ∨
       ((checkLoop ap skip rs ps c).lastPhase = c.lastPhase ∧ (checkLoop ap skip rs ps d).lastPhase = d.lastPhase)) := by
  intro ps
  induction ps with
  | nil => intro c d h; exact ⟨h, Or.inr ⟨rfl, rfl⟩⟩
  | cons p ps ih =>
    intro c d h
    by_cases hp : p ∈ skip
    · simp only [checkLoop, hp, if_true]; exact ih h
    · have h' : Sim view (phaseStep rs p c) (phaseStep rs p d) := sim_phaseStep F p (List.range 6) h
      have hviol : (phaseStep rs p c).violations = (phaseStep rs p d).violations := by
        have := h'.2; simp only [CState.rep, Prod.mk.injEq] at this; exact this.2.2.2
      have hl : (phaseStep rs p c).lastPhase = (phaseStep rs p d).lastPhase := by
        rw [lastPhase_phaseStep, lastPhase_phaseStep]
      simp only [checkLoop, hp, if_false]
      rw [hviol]
      by_cases hb : ((phaseStep rs p d).violations && !ap) = true
      · simp only [hb, if_true]; exact ⟨h', Or.inl hl⟩
      · simp only [hb, Bool.false_eq_true, ↓reduceIte]
        obtain ⟨i1, i2⟩ := ih h'
        refine ⟨i1, Or.inl ?_⟩
        rcases i2 with i2 | ⟨i2, i3⟩
        · exact i2
        · rw [i2, i3]; exact hl

/-- the observed part of the state survives any check run -/
theorem view_checkLoop {view : σ → α} {rs : List (SRule σ)} (F : Frame view rs) (ap : Bool) (skip : List Nat) :
    ∀ (ps : List Nat) (c : CState σ), view (checkLoop ap skip rs ps c).st = view c.st := by
  have hfold : ∀ (L : List (SRule σ)), (∀ r ∈ L, r ∈ rs) → ∀ c : CState σ, view (L.foldl analyzeOne c).st = view c.st := by
    intro L
    induction L with
    | nil => intro _ c; rfl
    | cons r L ih =>
      intro hL c
      simp only [List.foldl_cons]
      rw [ih (fun x hx => hL x (List.mem_cons_of_mem _ hx))]
      simp only [analyzeOne]
      exact F.keeps r (hL r (List.mem_cons_self ..)) c.st
  have hsub : ∀ p (ss : List Nat) (c : CState σ), view (ss.foldl (subphaseStep rs p) c).st = view c.st := by
    intro p ss
    induction ss with
    | nil => intro c; rfl
    | cons s ss ih =>
      intro c
      simp only [List.foldl_cons]
      rw [ih]
      simp only [subphaseStep]
      exact hfold _ (fun r hr => mem_subphaseRulesS hr) c
  intro ps
  induction ps with
  | nil => intro c; rfl
  | cons p ps ih =>
    intro c
    by_cases hp : p ∈ skip
    · simp only [checkLoop, hp, if_true]; exact ih c
    · simp only [checkLoop, hp, if_false]
      by_cases hb : ((phaseStep rs p c).violations && !ap) = true
      · simp only [hb, if_true]; exact hsub p _ c
      · simp only [hb, Bool.false_eq_true, ↓reduceIte]; rw [ih]; exact hsub p _ c

/-! ### the report in rule-list order, sorted by line -/

theorem filter_const_true (l : List β) : l.filter (fun _ => true) = l := by
  induction l with
  | nil => rfl
  | cons a l ih => simp

theorem flatMap_filter_ite (p : β → Bool) (g : β → List γ) (l : List β) :
    (l.filter p).flatMap g = l.flatMap (fun e => if p e then g e else []) := by
  induction l with
  | nil => rfl
  | cons e l ih => by_cases h : p e = true <;> simp [h, ih]

theorem reportRaw_filter (rs : List (SRule σ)) (log : List (String × List Viol)) (q : String → Bool) :
    reportRaw rs (log.filter fun e => q e.1) = (reportRaw rs log).filter fun x => q x.1 := by
  unfold reportRaw
  rw [List.filter_flatMap]
  congr 1; funext r
  rw [List.filter_flatMap, List.filter_filter, flatMap_filter_ite, flatMap_filter_ite]
  congr 1; funext e
  by_cases h1 : (e.1 == r.cfg.id) = true <;> by_cases h2 : q e.1 = true <;>
    simp [h1, h2, List.filter_map, Function.comp_def, filter_const_true]

def SortedByLine : List (String × Viol) → Prop
  | [] => True
  | a :: l => (∀ b ∈ l, a.2.line ≤ b.2.line) ∧ SortedByLine l

theorem mem_insertBefore {a x : String × Viol} : ∀ {l : List (String × Viol)}, x ∈ insertBefore a l ↔ x = a ∨ x ∈ l := by
  intro l
  induction l with
  | nil => simp [insertBefore]
  | cons b l ih =>
    simp only [insertBefore]
    split
    · simp
    · simp only [List.mem_cons, ih]
      constructor
      · rintro (h | h | h)
        · exact Or.inr (Or.inl h)
        · exact Or.inl h
        · exact Or.inr (Or.inr h)
      · rintro (h | h | h)
        · exact Or.inr (Or.inl h)
        · exact Or.inl h
        · exact Or.inr (Or.inr h)

theorem sorted_insertBefore (a : String × Viol) : ∀ {l : List (String × Viol)}, SortedByLine l → SortedByLine (insertBefore a l) := by
  intro l
  induction l with
  | nil => intro _; exact ⟨fun _ h => (by cases h), trivial⟩
  | cons b l ih =>
    intro hs
    simp only [insertBefore]
    split
    · rename_i hab
      refine ⟨?_, hs⟩
      intro x hx
      rcases List.mem_cons.1 hx with rfl | hx
      · exact hab
      · exact Nat.le_trans hab (hs.1 x hx)
    · rename_i hab
      refine ⟨?_, ih hs.2⟩
      intro x hx
      rcases mem_insertBefore.1 hx with rfl | hx
      · exact Nat.le_of_lt (Nat.lt_of_not_le hab)
      · exact hs.1 x hx

theorem sorted_sortByLine (l : List (String × Viol)) : SortedByLine (sortByLine l) := by
  induction l with
  | nil => trivial
  | cons a l ih => exact sorted_insertBefore a ih

theorem sorted_filter (q : String × Viol → Bool) : ∀ {l : List (String × Viol)}, SortedByLine l → SortedByLine (l.filter q) := by
  intro l
  induction l with
  | nil => intro _; trivial
  | cons a l ih =>
    intro hs
    simp only [List.filter_cons]
    split
    · exact ⟨fun b hb => hs.1 b (List.mem_filter.1 hb).1, ih hs.2⟩
    · exact ih hs.2

theorem filter_insertBefore (q : String × Viol → Bool) (a : String × Viol) :
    ∀ {l : List (String × Viol)}, SortedByLine l →
      (insertBefore a l).filter q = if q a then insertBefore a (l.filter q) else l.filter q := by
  intro l
  induction l with
  | nil => intro _; by_cases h : q a = true <;> simp [insertBefore, h]
  | cons b l ih =>
    intro hs
    simp only [insertBefore]
    by_cases hab : a.2.line ≤ b.2.line
    · simp only [hab, if_true]
      by_cases hb : q b = true
      · by_cases ha : q a = true
        · simp [ha, hb, insertBefore, hab]
        · simp [ha, hb]
      · by_cases ha : q a = true
        · -- `a` goes to the front of the filtered tail as well: every survivor is ≥ b ≥ a
          simp only [List.filter_cons, ha, hb, if_true]
          have : insertBefore a (l.filter q) = a :: l.filter q := by
            cases hfl : l.filter q with
            | nil => rfl
            | cons c l' =>
              have hc : c ∈ l := (List.mem_filter.1 (by rw [hfl]; exact List.mem_cons_self ..)).1
              simp [insertBefore, Nat.le_trans hab (hs.1 c hc)]
          simp [this]
        · simp [ha, hb]
    · simp only [hab, if_false]
      by_cases hb : q b = true
      · simp only [List.filter_cons, hb, if_true, ih hs.2]
        by_cases ha : q a = true
        · simp [ha, insertBefore, hab]
        · simp [ha]
      · simp only [List.filter_cons, hb, ih hs.2]
        simp

/-- a stable sort by line commutes with every filter -/
theorem sortByLine_filter (q : String × Viol → Bool) (l : List (String × Viol)) :
    sortByLine (l.filter q) = (sortByLine l).filter q := by
  induction l with
  | nil => rfl
  | cons a l ih =>
    have hs := sorted_sortByLine l
    show sortByLine ((a :: l).filter q) = (insertBefore a (sortByLine l)).filter q
    rw [filter_insertBefore q a hs]
    by_cases ha : q a = true
    · simp only [List.filter_cons, ha, if_true]
      show insertBefore a (sortByLine (l.filter q)) = _
      rw [ih]
    · simp only [List.filter_cons, ha]
      exact ih

/-! ### the scheduler -/

/-- The frame hypothesis of C15: the result of `apply_rules` depends only on the observed part
    of the process state, and `apply_rules` leaves the observed part as it was. -/
structure GFrame (view : γ → α) (apply : γ → φ → γ × FileResult ρ) : Prop where
  reads : ∀ g h f, view g = view h → (apply g f).2 = (apply h f).2
  keeps : ∀ g f, view (apply g f).1 = view g

theorem runSerial_eq {view : γ → α} {apply : γ → φ → γ × FileResult ρ} (F : GFrame view apply) (g0 : γ) :
    ∀ (fs : List φ) (g : γ), view g = view g0 →
      runSerial apply g fs = untilStop (fs.map fun f => (apply g0 f).2) := by
  intro fs
  induction fs with
  | nil => intro _ _; rfl
  | cons f fs ih =>
    intro g hg
    simp only [runSerial, List.map_cons, untilStop]
    rw [F.reads g g0 f hg]
    split
    · rfl
    · rw [ih (apply g f).1 (by rw [F.keeps]; exact hg)]

theorem poolExec_inv {view : γ → α} {apply : γ → φ → γ × FileResult ρ} (F : GFrame view apply) (fs : List φ) (g0 : γ) :
    ∀ (evs : List (Nat × Nat)) (acc : (Nat → γ) × List (Nat × FileResult ρ)),
      (∀ w, view (acc.1 w) = view g0) →
      (∀ w, view ((evs.foldl (poolStep apply fs) acc).1 w) = view g0) ∧
      (evs.foldl (poolStep apply fs) acc).2 =
        acc.2 ++ (evs.filterMap fun e => (fs[e.2]?).map fun f => (e.2, (apply g0 f).2)) := by
  intro evs
  induction evs with
  | nil => intro acc h; simp [h]
  | cons e evs ih =>
    intro acc h
    simp only [List.foldl_cons, List.filterMap_cons]
    cases hf : fs[e.2]? with
    | none =>
      have : poolStep apply fs acc e = acc := by simp [poolStep, hf]
      rw [this]
      simpa using ih acc h
    | some f =>
      have hstep : poolStep apply fs acc e =
          (fun w => if w = e.1 then (apply (acc.1 e.1) f).1 else acc.1 w, acc.2 ++ [(e.2, (apply (acc.1 e.1) f).2)]) := by
        simp [poolStep, hf]
      rw [hstep]
      have h' : ∀ w, view (((fun w => if w = e.1 then (apply (acc.1 e.1) f).1 else acc.1 w,
          acc.2 ++ [(e.2, (apply (acc.1 e.1) f).2)]) : (Nat → γ) × List (Nat × FileResult ρ)).1 w) = view g0 := by
        intro w
        by_cases hw : w = e.1
        · simp only [hw, if_true]; rw [F.keeps]; exact h e.1
        · simp only [hw, if_false]; exact h w
      obtain ⟨i1, i2⟩ := ih _ h'
      refine ⟨i1, ?_⟩
      rw [i2]
      simp only [Option.map_some, List.append_assoc, List.singleton_append]
      rw [F.reads (acc.1 e.1) g0 f (h e.1)]

theorem lookup_filterMap_solo (fs : List φ) (solo : φ → FileResult ρ) (evs : List (Nat × Nat)) (i : Nat) (f : φ)
    (hf : fs[i]? = some f) (hi : i ∈ evs.map (·.2)) :
    (evs.filterMap fun e => (fs[e.2]?).map fun f => (e.2, solo f)).lookup i = some (solo f) := by
  induction evs with
  | nil => cases hi
  | cons e evs ih =>
    simp only [List.filterMap_cons]
    cases he : fs[e.2]? with
    | none =>
      simp only [Option.map_none]
      have : i ≠ e.2 := by intro h; rw [h, he] at hf; cases hf
      rcases List.mem_cons.1 (by simpa using hi : i ∈ e.2 :: evs.map (·.2)) with h | h
      · exact absurd h this
      · exact ih h
    | some f' =>
      simp only [Option.map_some, List.lookup_cons]
      by_cases hie : i = e.2
      · subst hie
        rw [he] at hf; cases hf
        simp
      · have : (i == e.2) = false := by simpa using hie
        simp only [this]
        rcases List.mem_cons.1 (by simpa using hi : i ∈ e.2 :: evs.map (·.2)) with h | h
        · exact absurd h hie
        · exact ih h

theorem imapConsume_eq (done : List (Nat × FileResult ρ)) (fs : List φ) (solo : φ → FileResult ρ) :
    ∀ (k : Nat) (is : List Nat) (tail : List φ), fs.drop k = tail → is = (List.range tail.length).map (· + k) →
      (∀ i f, fs[i]? = some f → done.lookup i = some (solo f)) →
      imapConsume done is = untilStop (tail.map solo) := by
  intro k is tail
  induction tail generalizing k is with
  | nil => intro _ his _; subst his; rfl
  | cons f tail ih =>
    intro hdrop his hdone
    have hk : fs[k]? = some f := by
      have := congrArg (fun l => l[0]?) hdrop
      simpa using this
    have hdrop' : fs.drop (k + 1) = tail := by
      have : (fs.drop k).drop 1 = tail := by rw [hdrop]; rfl
      simpa [List.drop_drop, Nat.add_comm] using this
    subst his
    simp only [List.length_cons, List.range_succ_eq_map, List.map_cons, Nat.zero_add, List.map_map, imapConsume,
      hdone k f hk, untilStop]
    split
    · rfl
    · congr 1
      apply ih (k + 1) _ hdrop' _ hdone
      apply List.map_congr_left
      intro a _
      simp [Nat.add_assoc, Nat.add_comm 1 k]

theorem untilStop_noStop {rs : List (FileResult ρ)} (h : ∀ r ∈ rs, r.stop = false) : untilStop rs = rs := by
  induction rs with
  | nil => rfl
  | cons r rs ih =>
    simp only [untilStop, h r (List.mem_cons_self ..), Bool.false_eq_true, if_false]
    rw [ih fun x hx => h x (List.mem_cons_of_mem _ hx)]

end Vsgm.Frame
