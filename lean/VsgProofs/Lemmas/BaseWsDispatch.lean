/-
  The whitespace family behind `fixByOwner`: owner strings ↦ edit scripts, guards as evaluated by the harness.
-/
import VsgProofs.Lemmas.BaseWhitespace
import VsgProofs.Lemmas.BaseWsFull
import VsgModel.Base.Dispatch
import VsgProofs.Lemmas.BaseBindDispatch
namespace Vsgm.Base
open Vsgm

theorem ws_not_align (owner : String) (ho : owner ∈ wsOwners) : owner ∉ alignOwners := by
  simp only [wsOwners, wsLayoutOwners, wsCommentOwners, List.cons_append, List.nil_append, List.mem_cons,
    List.not_mem_nil, or_false] at ho
  rcases ho with h | h | h | h | h | h | h | h | h <;> subst h <;> decide +kernel

theorem fixByOwner_ws (owner : String) (params action : KV) (old : List Tok) (ho : owner ∈ wsOwners) :
    fixByOwner owner params action old = wsFixByOwner owner params action old := by
  have n1 : owner ∉ indentOwners := disjoint_of_all wsOwners indentOwners (by decide +kernel) owner ho
  have n2 : owner ∉ blankBelowOwners := disjoint_of_all wsOwners blankBelowOwners (by decide +kernel) owner ho
  have n3 : owner ∉ blankAboveOwners := disjoint_of_all wsOwners blankAboveOwners (by decide +kernel) owner ho
  have n4 : owner ∉ excessAboveOwners := disjoint_of_all wsOwners excessAboveOwners (by decide +kernel) owner ho
  have n5 : owner ∉ excessBelowOwners := disjoint_of_all wsOwners excessBelowOwners (by decide +kernel) owner ho
  have n6 : owner ∉ removeAboveOwners := disjoint_of_all wsOwners removeAboveOwners (by decide +kernel) owner ho
  have n7 : owner ∉ ws200Owners := disjoint_of_all wsOwners ws200Owners (by decide +kernel) owner ho
  have n8 : owner ∉ betweenPairsOwners := disjoint_of_all wsOwners betweenPairsOwners (by decide +kernel) owner ho
  unfold fixByOwner
  simp [ws_not_align owner ho, n1, n2, n3, n4, n5, n6, n7, n8, ho]

theorem optAll_spec {P : Kind → Prop} (PB : Kind → Bool) (hPB : ∀ k, PB k = true → P k) (o : Option Tok)
    (h : optAll PB o = true) : ∀ t, o = some t → P t.kind := by
  intro t ht; subst ht; exact hPB _ h

theorem all_spec {P : Kind → Prop} (PB : Kind → Bool) (hPB : ∀ k, PB k = true → P k) (l : List Tok)
    (h : l.all (fun t => PB t.kind) = true) : ∀ t ∈ l, P t.kind := by
  intro t ht
  exact hPB _ (List.all_eq_true.mp h t ht)

/-- every strictly-layout owner (and whitespace_002's `remove_tab` branch): under the guard the fix is an
    edit script over whitespace / blank-line tokens and tokens of kind `P` -/
theorem wsFix_steps {P : Kind → Prop} (PB : Kind → Bool) (hPB : ∀ k, PB k = true → P k) (hws : P .ws)
    (owner : String) (params action : KV) (old new : List Tok)
    (ho : owner ∈ wsLayoutOwners ∨ (owner = ws002Owner ∧ Ws002.isCommentAction action = false))
    (h : wsFixByOwner owner params action old = some (.ok new))
    (hg : wsGuard PB owner params action old = true) : Steps P NSpaces.T old new := by
  rcases ho with ho | ⟨ho, hact⟩
  · simp only [wsLayoutOwners, List.mem_cons, List.not_mem_nil, or_false] at ho
    rcases ho with rfl | rfl | rfl | rfl | rfl | rfl | rfl
    · -- whitespace_between_tokens
      simp only [wsFixByOwner, beq_self_eq_true, if_true, Option.some.injEq] at h
      simp only [wsGuard, beq_self_eq_true, if_true] at hg
      cases hn : nosOf (params.get "number_of_spaces") with
      | error e => simp [hn, bind, Except.bind] at h
      | ok nos =>
        simp only [hn, bind, Except.bind] at h hg
        exact WsBetween.fixV_steps _ nos action old new hws (all_spec PB hPB _ hg) (fun _ _ _ _ => trivial) h
    · -- n_spaces_before_and_after_tokens
      have e : (nSpacesOwner == wsBetweenOwner) = false := by decide
      simp only [wsFixByOwner, e, Bool.false_eq_true, if_false, beq_self_eq_true, if_true, Option.some.injEq] at h
      simp only [wsGuard, e, Bool.false_eq_true, if_false, beq_self_eq_true, if_true, NSpaces.guard,
        Bool.and_eq_true, Bool.or_eq_true, Bool.not_eq_true'] at hg
      cases hn : paramVal params "iSpaces" with
      | error e => simp [hn, bind, Except.bind] at h
      | ok n =>
        simp only [hn, bind, Except.bind] at h
        apply NSpaces.fixV_steps _ n action old new hws _ _ h
        · intro hw
          rcases hg.1 with hh | hh
          · rw [hw] at hh; cases hh
          · exact optAll_spec PB hPB _ hh
        · intro hw
          rcases hg.2 with hh | hh
          · rw [hw] at hh; cases hh
          · exact optAll_spec PB hPB _ hh
    · -- spaces_before_and_after_tokens_when_bounded_by_tokens
      have e1 : (boundedOwner == wsBetweenOwner) = false := by decide
      have e2 : (boundedOwner == nSpacesOwner) = false := by decide
      simp only [wsFixByOwner, e1, e2, Bool.false_eq_true, if_false, beq_self_eq_true, if_true, Option.some.injEq] at h
      simp only [wsGuard, e1, e2, Bool.false_eq_true, if_false, beq_self_eq_true, if_true, Bounded.guard,
        Bool.and_eq_true, Bool.or_eq_true, Bool.not_eq_true'] at hg
      cases hb : paramVal params "spaces_before" with
      | error e => simp [hb, bind, Except.bind] at h
      | ok b =>
        cases ha : paramVal params "spaces_after" with
        | error e => simp [hb, ha, bind, Except.bind] at h
        | ok a =>
          simp only [hb, ha, bind, Except.bind] at h
          apply Bounded.fixV_steps _ b a action old new hws _ _ h
          · intro hw
            rcases hg.1 with hh | hh
            · rw [hw] at hh; cases hh
            · exact optAll_spec PB hPB _ hh
          · intro hw
            rcases hg.2 with hh | hh
            · rw [hw] at hh; cases hh
            · exact optAll_spec PB hPB _ hh
    · -- remove_spaces_before_token_rule
      have e1 : (removeBeforeOwner == wsBetweenOwner) = false := by decide
      have e2 : (removeBeforeOwner == nSpacesOwner) = false := by decide
      have e3 : (removeBeforeOwner == boundedOwner) = false := by decide
      simp only [wsFixByOwner, e1, e2, e3, Bool.false_eq_true, if_false, beq_self_eq_true, if_true, Option.some.injEq] at h
      simp only [wsGuard, e1, e2, e3, Bool.false_eq_true, if_false, beq_self_eq_true, if_true, RemoveBefore.guard] at hg
      exact RemoveBefore.fixV_steps old new (optAll_spec PB hPB _ hg) h
    · -- whitespace_001
      have e1 : (ws001Owner == wsBetweenOwner) = false := by decide
      have e2 : (ws001Owner == nSpacesOwner) = false := by decide
      have e3 : (ws001Owner == boundedOwner) = false := by decide
      have e4 : (ws001Owner == removeBeforeOwner) = false := by decide
      simp only [wsFixByOwner, e1, e2, e3, e4, Bool.false_eq_true, if_false, beq_self_eq_true, if_true, Option.some.injEq] at h
      simp only [wsGuard, e1, e2, e3, e4, Bool.false_eq_true, if_false, beq_self_eq_true, if_true, Ws001.guard,
        Bool.and_eq_true, decide_eq_true_eq] at hg
      exact Ws001.fixV_steps _ action old new hg.1 (all_spec PB hPB _ hg.2) h
    · -- whitespace_005
      have e1 : (ws005Owner == wsBetweenOwner) = false := by decide
      have e2 : (ws005Owner == nSpacesOwner) = false := by decide
      have e3 : (ws005Owner == boundedOwner) = false := by decide
      have e4 : (ws005Owner == removeBeforeOwner) = false := by decide
      have e5 : (ws005Owner == ws001Owner) = false := by decide
      have e6 : (ws005Owner == ws002Owner) = false := by decide
      simp only [wsFixByOwner, e1, e2, e3, e4, e5, e6, Bool.false_eq_true, if_false, beq_self_eq_true, if_true, Option.some.injEq] at h
      simp only [wsGuard, e1, e2, e3, e4, e5, e6, Bool.false_eq_true, if_false, beq_self_eq_true, if_true, Ws005.guard] at hg
      exact Ws005.fixV_steps old new (optAll_spec PB hPB _ hg) h
    · -- whitespace_008
      have e1 : (ws008Owner == wsBetweenOwner) = false := by decide
      have e2 : (ws008Owner == nSpacesOwner) = false := by decide
      have e3 : (ws008Owner == boundedOwner) = false := by decide
      have e4 : (ws008Owner == removeBeforeOwner) = false := by decide
      have e5 : (ws008Owner == ws001Owner) = false := by decide
      have e6 : (ws008Owner == ws002Owner) = false := by decide
      have e7 : (ws008Owner == ws005Owner) = false := by decide
      simp only [wsFixByOwner, e1, e2, e3, e4, e5, e6, e7, Bool.false_eq_true, if_false, beq_self_eq_true, if_true, Option.some.injEq] at h
      simp only [wsGuard, e1, e2, e3, e4, e5, e6, e7, Bool.false_eq_true, if_false, beq_self_eq_true, if_true, Ws008.guard] at hg
      exact Ws008.fixV_steps old new (optAll_spec PB hPB _ hg) h
  · subst ho
    have e1 : (ws002Owner == wsBetweenOwner) = false := by decide
    have e2 : (ws002Owner == nSpacesOwner) = false := by decide
    have e3 : (ws002Owner == boundedOwner) = false := by decide
    have e4 : (ws002Owner == removeBeforeOwner) = false := by decide
    have e5 : (ws002Owner == ws001Owner) = false := by decide
    simp only [wsFixByOwner, e1, e2, e3, e4, e5, Bool.false_eq_true, if_false, beq_self_eq_true, if_true, Option.some.injEq] at h
    simp only [wsGuard, e1, e2, e3, e4, e5, Bool.false_eq_true, if_false, beq_self_eq_true, if_true, hact, Ws002.guard] at hg
    exact Ws002.fixV_steps _ _ action old new hact (optAll_spec PB hPB _ hg) h

end Vsgm.Base
