/-
  Theorems about the extractors of `VsgModel/Engine/Extract6.lean` (WP3b).
-/
import VsgModel.Engine.Extract6
import VsgProofs.Lemmas.Extract2
import VsgProofs.Lemmas.Extract2Thms
import VsgProofs.Lemmas.Extract3Thms
import VsgProofs.Lemmas.Extract4Thms
namespace Vsgm.TM.X.Lemmas
open Vsgm Vsgm.TM Vsgm.TM.Lemmas Vsgm.TM.X

variable {α : Type}

theorem lineBelowSeveral_exact (uid : α → Option Key) (f : List α) (start : Option Key) (endCs : List Cls) (r : List (Toi α))
    (h : lineBelowSeveral f (processTokens uid f) start endCs = .ok r) : ∀ t ∈ r, t.Exact f := by
  intro t ht
  unfold lineBelowSeveral at h
  simp only [bind_ok] at h
  obtain ⟨lines, _, h⟩ := h
  obtain ⟨l, _, hb⟩ := mem_filterMapE _ _ _ h t ht
  exact (lineSucceeding_exact uid f l 1 t hb).1

theorem blankBelowSeveral_exact (uid : α → Option Key) (f : List α) (start : Option Key) (endCs : List Cls) (r : List (Toi α))
    (h : blankBelowSeveral f (processTokens uid f) start endCs = .ok r) : ∀ t ∈ r, t.Exact f :=
  fun t ht => (blankBelowIdx_exact uid f _ r h t ht).1

/-- `get_index_of_line` of a fresh index: one past a line break of the file -/
theorem indexOfLine_fresh (uid : α → Option Key) (f : List α) (line : Int) (st : Int)
    (h : (processTokens uid f).indexOfLine line = .ok st) : ∃ x : Nat, st = (x : Int) + 1 ∧ x < f.length := by
  unfold Index.indexOfLine at h
  simp only [bind_ok, pure_ok] at h
  obtain ⟨c, hc, x, hx, rfl⟩ := h
  have hm := pyIdx_mem _ _ _ hx
  rw [crs_eq_get _ c hc] at hm
  exact ⟨x, rfl, fresh_get_lt uid f (some crKey) x hm⟩

theorem consecutiveLines_exact (uid : α → Option Key) (f : List α) (tok : Option Key) (n : Nat) (r : List (Toi α))
    (h : consecutiveLines f (processTokens uid f) tok n = .ok r) : ∀ t ∈ r, t.Exact f := by
  intro t ht
  unfold consecutiveLines at h
  simp only [bind_ok] at h
  obtain ⟨lines, _, h⟩ := h
  obtain ⟨g, _, hb⟩ := mem_mapE _ _ _ h t ht
  split at hb
  · simp only [bind_ok, pure_ok] at hb
    obtain ⟨st, hst, e0, _, et, _, rfl⟩ := hb
    obtain ⟨x, rfl, hx⟩ := indexOfLine_fresh uid f _ st hst
    exact exact_of_slice f _ ((x : Int) + 1) _ rfl (by omega) (by omega) rfl
  · cases hb

theorem consecutiveLinesStopping_exact (uid : α → Option Key) (f : List α) (search stop : Option Key) (r : List (Toi α))
    (h : consecutiveLinesStopping f (processTokens uid f) search stop = .ok r) :
    ∀ t ∈ r, t.Exact f ∧ ∃ s : Nat, t.start = some (s : Int) ∧ t.line = lineNo uid f s := by
  unfold consecutiveLinesStopping at h
  simp only [bind_ok, pure_ok] at h
  obtain ⟨searchLines, _, stopLines, _, st, hfold, rfl⟩ := h
  have inv := foldlE_inv _ (fun (st : ClState α) =>
      (∀ t ∈ st.out, t.Exact f ∧ ∃ s : Nat, t.start = some (s : Int) ∧ t.line = lineNo uid f s) ∧
      (∀ s, st.start = some s → s ≤ f.length)) _ _ st ?_ ⟨by simp, by simp⟩ hfold
  · exact inv.1
  · intro st0 v st' hv ⟨hout, hstart⟩ hstep
    have hvlt := fresh_get_lt uid f (some crKey) v hv
    unfold clStep at hstep
    simp only [bind_ok, pure_ok] at hstep
    obtain ⟨st1, h1, rfl⟩ := hstep
    have inv1 : (∀ t ∈ st1.out, t.Exact f ∧ ∃ s : Nat, t.start = some (s : Int) ∧ t.line = lineNo uid f s) ∧
        (∀ s, st1.start = some s → s ≤ f.length) := by
      split at h1
      · split at h1
        · rename_i s hs
          simp only [bind_ok, pure_ok] at h1
          obtain ⟨line, hl, e, _, rfl⟩ := h1
          refine ⟨?_, by simp⟩
          intro t ht
          rcases List.mem_append.mp ht with ht | ht
          · exact hout t ht
          · simp only [List.mem_singleton] at ht
            subst ht
            have := hstart s hs
            exact ⟨exact_of_slice f _ (s : Int) _ rfl (by omega) (by simpa using this) rfl, s, rfl,
              by simpa using lineOf_fresh uid f s line hl⟩
        · simp only [pure_ok] at h1; subst h1; exact ⟨hout, hstart⟩
      · simp only [pure_ok] at h1; subst h1; exact ⟨hout, hstart⟩
    obtain ⟨hout1, hstart1⟩ := inv1
    split
    · split
      · refine ⟨hout1, ?_⟩
        intro s hs
        simp only [Option.some.injEq] at hs
        omega
      · exact ⟨hout1, hstart1⟩
    · exact ⟨hout1, by simp⟩

/-! ### the column of a token -/

/-- whenever `get_column_of_token_index` returns, the column is the summed value length of the
    tokens from one past some line break of the file up to the token -/
theorem columnOf_spec (V : View α) (f : List α) (i : Int) (c : Nat)
    (h : columnOf V f (processTokens V.uid f) i = .ok c) :
    ∃ p : Nat, p ∈ (processTokens V.uid f).get (some crKey) ∧ c = ((pySlice f ((p : Int) + 1) i).map V.len).sum := by
  unfold columnOf at h
  simp only [bind_ok, pure_ok] at h
  obtain ⟨_, _, line, _, p, hp, rfl⟩ := h
  exact ⟨p, pyIdx_mem _ _ _ hp, rfl⟩

end Vsgm.TM.X.Lemmas
