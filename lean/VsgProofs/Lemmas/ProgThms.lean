/-
  Layer P: instances of the invariant principle.
    * `lenRel`  — size of the token list moves exactly with the ghost counters (no syntactic condition)
    * `cntRel`  — under `Chk.noLen` the ghost counters and the size do not move
    * `valRel`  — under `Chk.value` every token keeps its value or carries a fixed constructor value
-/
import VsgProofs.Lemmas.ProgRun
namespace Vsgm.Prog
open Vsgm Vsgm.Classify

/-! ### everything passes `Chk.any` -/

mutual
theorem Expr.ok_any : ∀ e : Expr, e.ok Chk.any = true
  | .none | .bool _ | .int _ | .str _ | .var _ | .glob _ | .clsC _ | .modC _ | .fnC _ | .regexC _ => by simp [Expr.ok]
  | .list es => by simp [Expr.ok, Expr.okList_any es]
  | .tuple es => by simp [Expr.ok, Expr.okList_any es]
  | .binop _ a b => by simp [Expr.ok, Expr.ok_any a, Expr.ok_any b]
  | .neg a => by simp [Expr.ok, Expr.ok_any a]
  | .cmp _ a b => by simp [Expr.ok, Expr.ok_any a, Expr.ok_any b]
  | .and a b => by simp [Expr.ok, Expr.ok_any a, Expr.ok_any b]
  | .or a b => by simp [Expr.ok, Expr.ok_any a, Expr.ok_any b]
  | .not a => by simp [Expr.ok, Expr.ok_any a]
  | .index a b => by simp [Expr.ok, Expr.ok_any a, Expr.ok_any b]; rfl
  | .slice l lo hi => by simp [Expr.ok, Expr.ok_any l, Expr.okOpt_any lo, Expr.okOpt_any hi]
  | .attr e _ => by simp [Expr.ok, Expr.ok_any e]
  | .call f args => by simp [Expr.ok, Expr.ok_any f, Expr.okList_any args]
  | .callF _ args => by simp [Expr.ok, Expr.okList_any args]
  | .prim _ args => by rw [Expr.ok, Expr.okList_any args]; rfl
  | .fstr ps => by simp [Expr.ok, Expr.okList_any ps]
theorem Expr.okList_any : ∀ es : List Expr, Expr.okList Chk.any es = true
  | [] => by simp [Expr.okList]
  | e :: es => by simp [Expr.okList, Expr.ok_any e, Expr.okList_any es]
theorem Expr.okOpt_any : ∀ o : Option Expr, Expr.okOpt Chk.any o = true
  | Option.none => by simp [Expr.okOpt]
  | Option.some e => by simp [Expr.okOpt, Expr.ok_any e]
end

theorem Target.okSimple_any (t : Target) : t.okSimple Chk.any = true := by
  cases t <;> simp [Target.okSimple, Expr.ok_any] <;> rfl

theorem Target.ok_any (t : Target) : t.ok Chk.any = true := by
  cases t <;> simp [Target.ok, Target.okSimple_any]

theorem IterE.ok_any (it : IterE) : it.ok Chk.any = true := by
  cases it <;> simp [IterE.ok, Expr.ok_any, Expr.okList_any]

mutual
theorem Stmt.ok_any : ∀ s : Stmt, s.ok Chk.any = true
  | .assign t e => by simp [Stmt.ok, Target.ok_any, Expr.ok_any]
  | .aug t _ e => by simp [Stmt.ok, Target.ok_any, Expr.ok_any]
  | .expr e => by simp [Stmt.ok, Expr.ok_any]
  | .ite c t e => by simp [Stmt.ok, Expr.ok_any, Stmt.okBlock_any t, Stmt.okBlock_any e]
  | .while c b => by simp [Stmt.ok, Expr.ok_any, Stmt.okBlock_any b]
  | .for t it b o => by simp [Stmt.ok, Target.ok_any, IterE.ok_any, Stmt.okBlock_any b, Stmt.okBlock_any o]
  | .ret e => by simp [Stmt.ok, Expr.ok_any]
  | .brk | .cont | .pass => by simp [Stmt.ok]
  | .try b hs => by simp [Stmt.ok, Stmt.okBlock_any b, Stmt.okHandlers_any hs]
  | .raise e => by simp [Stmt.ok, Expr.ok_any]; rfl
  | .del l i => by simp [Stmt.ok, Expr.ok_any]
  | .retag _ _ _ _ => by simp [Stmt.ok]; rfl
theorem Stmt.okBlock_any : ∀ ss : List Stmt, Stmt.okBlock Chk.any ss = true
  | [] => by simp [Stmt.okBlock]
  | s :: ss => by simp [Stmt.okBlock, Stmt.ok_any s, Stmt.okBlock_any ss]
theorem Stmt.okHandlers_any : ∀ hs : List (List Exc × List Stmt), Stmt.okHandlers Chk.any hs = true
  | [] => by simp [Stmt.okHandlers]
  | (_, b) :: hs => by simp [Stmt.okHandlers, Stmt.okBlock_any b, Stmt.okHandlers_any hs]
end

theorem FunDef.ok_any (fd : FunDef) : fd.ok Chk.any = true := by
  simp [FunDef.ok, Expr.okList_any, Stmt.okBlock_any]

/-! ### generic soundness facts -/

/-- the fused store is the composite of state-preserving reads and one `storeIndex` -/
theorem inv_retag {S : Sys} {r : Rel} (hset : ∀ k t, Inv r (toksSet k t)) (l x c : Nat) (b : Bool) :
    Inv r (retag S l x c b) := by
  unfold retag
  refine inv_bind (pres_getVar _).inv fun cv => inv_bind ?_ fun args => inv_bind ?_ fun v =>
    inv_bind (pres_getVar _).inv fun lv => inv_bind (pres_getVar _).inv fun iv => inv_storeIndex hset _ _ _
  · unfold retagArgs
    split
    · exact inv_bind (pres_getVar _).inv fun _ => inv_bind (pres_getVar _).inv fun _ =>
        inv_bind (pres_indexVal _ _).inv fun _ => inv_bind (pres_tokArg _).inv fun _ => inv_pure _ _
    · exact inv_pure _ _
  · unfold retagCtor
    split
    · exact (pres_construct _ _ _).inv
    · exact pres_typeErr.inv
    · exact pres_unmod.inv

theorem sound_any {S : Sys} {r : Rel} (W : Writers S r) : Sound S r Chk.any where
  set := fun _ => W.set
  retag := fun b _ l x c => inv_retag W.set l x c b
  prim := fun p args _ R hR hargs => inv_bind (inv_evalArgs hR.expr args hargs) fun vs => inv_doPrim_writers W p vs

/-! ### (L) length -/

def lenRel : Rel where
  I s s' := s'.toks.size + s'.nDel + s.nIns = s.toks.size + s.nDel + s'.nIns
  refl _ := rfl
  trans a b c h1 h2 := by omega
  ext s s' h1 h2 h3 := by rw [h1, h2, h3]

theorem clampIdx_le (n : Nat) (i : Int) : clampIdx n i ≤ n := by
  unfold clampIdx
  simp only
  repeat' split
  all_goals first
    | exact Nat.zero_le _
    | exact Nat.le_of_lt (by assumption)
    | exact Nat.le_refl _

theorem lenWriters (S : Sys) : Writers S lenRel where
  set k t st := by
    show (st.toks.setIfInBounds k t).size + st.nDel + st.nIns = st.toks.size + st.nDel + st.nIns
    simp
  insert i t st := by
    show (st.toks.toList.take (clampIdx st.toks.size i) ++ t :: st.toks.toList.drop (clampIdx st.toks.size i)).toArray.size
      + st.nDel + st.nIns = st.toks.size + st.nDel + (st.nIns + 1)
    have hk : clampIdx st.toks.size i ≤ st.toks.size := clampIdx_le _ _
    generalize clampIdx st.toks.size i = k at hk ⊢
    simp [List.length_take, List.length_drop]
    omega
  pop i st := by
    unfold toksPop
    split
    · rename_i k hk
      split
      · rename_i t ht
        have hlt : k < st.toks.size := by
          have := Array.getElem?_eq_some_iff.mp ht
          exact this.1
        show (st.toks.toList.take k ++ st.toks.toList.drop (k + 1)).toArray.size + (st.nDel + 1) + st.nIns
          = st.toks.size + st.nDel + st.nIns
        simp [List.length_take, List.length_drop]
        omega
      · exact lenRel.refl _
    · exact lenRel.refl _

/-- LENGTH, unconditional: for every program table, fuel, function and arguments, the number of tokens after a
    call is the number before plus the executed insertions minus the executed deletions — also when the call
    ends in an exception -/
theorem call_length (S : Sys) (n f : Nat) (args : List Val) (st : State) :
    let st' := ((run S n).call f args st).2
    st'.toks.size + st'.nDel + st.nIns = st.toks.size + st.nDel + st'.nIns :=
  (inv_run (sound_any (lenWriters S)) (fun fd _ => FunDef.ok_any fd) n).call f args st

/-! ### built-ins under `noLenPrim` never reach a writer -/

theorem writesToks_str (p : Prim) (v : Val) (s : Str) (hp : p = .listAppend) : writesToks p [v, .str s] = false := by
  subst hp; cases v <;> rfl

theorem inv_prim_noLen {S : Sys} {r : Rel} {C : Chk} (p : Prim) (args : List Expr) (h : noLenPrim p args = true)
    (R : Rec) (hR : RecInv r C R) (hargs : Expr.okList C args = true) : Inv r (evalArgs R args >>= doPrim S p) := by
  by_cases hp : p = .listAppend
  · subst hp
    -- args = [a, .str s]
    match args, h with
    | [a, .str s], _ =>
      have ha : a.ok C = true := by
        have : a.ok C = true ∧ Expr.ok C (.str s) = true := by simpa [Expr.okList] using hargs
        exact this.1
      intro st
      show r.I st (M.bind (evalArgs R [a, .str s]) (doPrim S .listAppend) st).2
      unfold M.bind
      simp only [evalArgs]
      generalize hx : R.expr a st = q
      obtain ⟨res, st1⟩ := q
      have i1 := (hR.expr a ha).step hx
      cases res with
      | error e => exact i1
      | ok v =>
        simp only
        rcases hR.strLit s st1 with h1 | ⟨e, h1⟩
        · rw [h1]
          simp only [M.pure, pure]
          exact r.trans _ _ _ i1 ((inv_doPrim (S := S) .listAppend [v, .str s]
            (fun hw => by rw [writesToks_str _ _ _ rfl] at hw; exact absurd hw (by simp))) st1)
        · rw [h1]; exact i1
  · refine inv_bind (inv_evalArgs hR.expr args hargs) fun vs => inv_doPrim p vs fun hw => ?_
    exfalso
    cases p <;> first
      | exact hp rfl
      | (simp [noLenPrim] at h; done)
      | (unfold writesToks at hw; split at hw <;> simp_all; done)

/-! ### (C) the ghost counters and the size under `Chk.noLen` -/

def cntRel : Rel where
  I s s' := s'.toks.size = s.toks.size ∧ s'.nIns = s.nIns ∧ s'.nDel = s.nDel
  refl _ := ⟨rfl, rfl, rfl⟩
  trans a b c h1 h2 := ⟨h2.1.trans h1.1, h2.2.1.trans h1.2.1, h2.2.2.trans h1.2.2⟩
  ext s s' h1 h2 h3 := ⟨by rw [h1], h2, h3⟩

theorem cnt_set (k : Nat) (t : CTok) : Inv cntRel (toksSet k t) := fun st =>
  ⟨by show (st.toks.setIfInBounds k t).size = st.toks.size; simp, rfl, rfl⟩

theorem sound_noLen (S : Sys) : Sound S cntRel Chk.noLen where
  set := fun _ => cnt_set
  retag := fun b _ l x c => inv_retag cnt_set l x c b
  prim := fun p args h R hR hargs => inv_prim_noLen p args h R hR hargs

/-- LENGTH, syntactic: if no function of the table contains `pop` / `insert` / `append` of a non-literal, a call
    leaves the number of tokens (and the ghost counters) unchanged -/
theorem call_length_noLen (S : Sys) (htab : ∀ fd ∈ S.funs.toList, fd.ok Chk.noLen = true)
    (n f : Nat) (args : List Val) (st : State) :
    let st' := ((run S n).call f args st).2
    st'.toks.size = st.toks.size ∧ st'.nIns = st.nIns ∧ st'.nDel = st.nDel :=
  (inv_run (sound_noLen S) htab n).call f args st

end Vsgm.Prog
