/-
  Effect of the remove-family fixers for every token list.
-/
import VsgProofs.Lemmas.BaseStructCommon
import VsgModel.Base.Remove
namespace Vsgm.Base.Remove
open Vsgm Vsgm.Base

theorem fixBounded_eq (l r : List Tok) (h : fixBounded l = .ok r) : r = [] := by
  unfold fixBounded at h; cases h; rfl

theorem fixRemoveComments_eq (l r : List Tok) (h : fixRemoveComments l = .ok r) : r = [] := by
  unfold fixRemoveComments at h; cases h; rfl

/-- `remove_tokens`: exactly the token at index 1 goes (and whitespace tokens that became adjacent) -/
theorem fixRemoveTokens_proj {β : Type} (P : Proj β) (l r : List Tok) (h : fixRemoveTokens l = .ok r) :
    ∃ a x rest, l = a :: x :: rest ∧ r = rcw (a :: rest) ∧ InsSeg (P.π [x]) (P.π r) (P.π l) := by
  unfold fixRemoveTokens at h
  obtain ⟨⟨x, l1⟩, hp, h⟩ := bind_ok _ _ _ h
  cases h
  unfold pyPop at hp
  have hi : (1 : Int) = ((1 : Nat) : Int) := rfl
  rw [hi, pyIdx_ofNat] at hp
  match l, hp with
  | [], hp => simp at hp
  | [_], hp => simp at hp
  | a :: y :: rest, hp =>
    simp at hp
    obtain ⟨rfl, rfl⟩ := hp
    refine ⟨a, y, rest, rfl, rfl, ?_⟩
    rw [proj_rcw]
    refine ⟨P.π [a], P.π rest, ?_, ?_⟩
    · rw [← P.app]; rfl
    · rw [← P.app, ← P.app]; rfl

end Vsgm.Base.Remove
