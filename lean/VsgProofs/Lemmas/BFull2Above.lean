/-
  WP2c — `blank_line_above_line_starting_with_token` (style require_blank_line) on a file of rows: the index-based
  extractor `get_line_above_line_starting_with_token` and the analysis as a scan over the rows (with one row of lookahead).
-/
import VsgProofs.Lemmas.BFull2Below
namespace Vsgm.BFull2.VSpace
open Vsgm Vsgm.TM Vsgm.TM.Lemmas Vsgm.BFull2 Vsgm.BFull2.Rows

variable (uid : Tok → Option Key)

/-- `utils.is_token_at_start_of_line` in terms of the two tokens before the position -/
def solO (f : List Tok) (i : Nat) : Bool :=
  (decide (1 ≤ i) && isKo uid crKey f[i - 1]?) ||
    (decide (2 ≤ i) && isKo uid crKey f[i - 2]? && isKo uid wsKey f[i - 1]?)

theorem isAt_neg (ix : Index) (u : Option Key) (i : Int) (h : i < 0) : ix.isAt u i = false := by
  cases hb : ix.isAt u i with
  | false => rfl
  | true => have := isAt_nonneg ix u i hb; omega

theorem isStartOfLine_fresh (f : List Tok) (i : Nat) :
    isStartOfLine (processTokens uid f) (i : Int) = solO uid f i := by
  unfold isStartOfLine solO
  cases i with
  | zero =>
    rw [isAt_neg _ _ _ (by omega), isAt_neg _ _ _ (by omega)]
    simp
  | succ i =>
    have e1 : (((i + 1 : Nat) : Int) - 1) = ((i : Nat) : Int) := by omega
    rw [e1, isAt_eq uid f crKey plain_cr i, isAt_eq uid f wsKey plain_ws i]
    cases i with
    | zero =>
      rw [isAt_neg _ _ _ (by omega)]
      simp
    | succ i =>
      have e2 : (((i + 1 + 1 : Nat) : Int) - 2) = ((i : Nat) : Int) := by omega
      rw [e2, isAt_eq uid f crKey plain_cr i]
      simp

variable (cs : List Cls)

/-- the row starts with a listed token (possibly after one whitespace token): local index of that token -/
def bolIdx (r : Row Tok) : Option Nat :=
  match r.1 with
  | [] => none
  | x :: rest =>
    if matchB uid cs x then some 0
    else if isKo uid wsKey (some x) then
      match rest with
      | y :: _ => if matchB uid cs y then some 1 else none
      | [] => none
    else none

def bolTrig (r : Row Tok) : Bool := (bolIdx uid cs r).isSome

theorem offs_pos (rows : List (Row Tok)) (k : Nat) (r0 : Row Tok) (hk : rows[k]? = some r0) :
    offs rows (k + 1) = offs rows k + r0.1.length + 1 := offs_succ rows k r0 hk

theorem content_not_cr (rows : List (Row Tok)) (h : RowsOk uid rows) (k : Nat) (r : Row Tok) (hk : rows[k]? = some r)
    (j : Nat) (hj : j < r.1.length) : isKo uid crKey r.1[j]? = false := by
  rw [List.getElem?_eq_getElem hj]
  unfold isKo
  have := h.nocr r (List.mem_of_getElem? hk) r.1[j] (List.getElem_mem hj)
  simp [this]

/-- **`is_token_at_start_of_line` inside a row**: only the first token of a row that has a predecessor, or its second
    token after a whitespace token -/
theorem sol_local (rows : List (Row Tok)) (h : RowsOk uid rows) (k : Nat) (r : Row Tok) (hk : rows[k]? = some r)
    (j : Nat) (hj : j < r.1.length) :
    solO uid (join rows) (offs rows k + j) =
      (decide (1 ≤ k) && (decide (j = 0) || (decide (j = 1) && isKo uid wsKey r.1[0]?))) := by
  have hin : ∀ m, m < r.1.length → (join rows)[offs rows k + m]? = r.1[m]? := by
    intro m hm
    rw [getElem_join rows k m r hk (Nat.le_of_lt hm), List.getElem?_append_left hm]
  unfold solO
  cases k with
  | zero =>
    have ho : offs rows 0 = 0 := by cases rows <;> rfl
    rw [ho, Nat.zero_add]
    cases j with
    | zero => simp
    | succ j =>
      have a1 : (join rows)[j + 1 - 1]? = r.1[j]? := by
        have := hin j (by omega); rw [ho, Nat.zero_add] at this; simpa using this
      rw [a1, content_not_cr uid rows h 0 r hk j (by omega)]
      cases j with
      | zero => simp
      | succ j =>
        have a2 : (join rows)[j + 1 + 1 - 2]? = r.1[j]? := by
          have := hin j (by omega); rw [ho, Nat.zero_add] at this; simpa using this
        rw [a2, content_not_cr uid rows h 0 r hk j (by omega)]
        simp
  | succ k =>
    have hkl : k + 1 < rows.length := by
      rcases Nat.lt_or_ge (k + 1) rows.length with h' | h'
      · exact h'
      · rw [List.getElem?_eq_none h'] at hk; cases hk
    have hk0 : rows[k]? = some rows[k] := List.getElem?_eq_getElem (by omega)
    have ho := offs_succ rows k rows[k] hk0
    have hcr : (join rows)[offs rows (k + 1) - 1]? = some rows[k].2 := by
      have : offs rows (k + 1) - 1 = offs rows k + rows[k].1.length := by omega
      rw [this, getElem_join rows k rows[k].1.length rows[k] hk0 (Nat.le_refl _), List.getElem?_append_right (Nat.le_refl _)]
      simp
    have hcrk : isKo uid crKey (some rows[k].2) = true := by
      unfold isKo; simp [h.cr rows[k] (List.getElem_mem _)]
    cases j with
    | zero =>
      simp only [Nat.add_zero, hcr, hcrk]
      have : 1 ≤ offs rows (k + 1) := by omega
      simp [this]
    | succ j =>
      have a1 : (join rows)[offs rows (k + 1) + (j + 1) - 1]? = r.1[j]? := by
        have : offs rows (k + 1) + (j + 1) - 1 = offs rows (k + 1) + j := by omega
        rw [this]; exact hin j (by omega)
      rw [a1, content_not_cr uid rows h (k + 1) r hk j (by omega)]
      cases j with
      | zero =>
        have a2 : (join rows)[offs rows (k + 1) + (0 + 1) - 2]? = some rows[k].2 := by
          have : offs rows (k + 1) + (0 + 1) - 2 = offs rows (k + 1) - 1 := by omega
          rw [this]; exact hcr
        rw [a2, hcrk]
        have : 2 ≤ offs rows (k + 1) + (0 + 1) := by omega
        simp [this]
      | succ j =>
        have a2 : (join rows)[offs rows (k + 1) + (j + 1 + 1) - 2]? = r.1[j]? := by
          have : offs rows (k + 1) + (j + 1 + 1) - 2 = offs rows (k + 1) + j := by omega
          rw [this]; exact hin j (by omega)
        rw [a2, content_not_cr uid rows h (k + 1) r hk j (by omega)]
        simp


/-! ### the rows that start with a listed token -/

theorem bolIdx_lt (r : Row Tok) (j : Nat) (h : bolIdx uid cs r = some j) : j < r.1.length := by
  unfold bolIdx at h
  cases hr : r.1 with
  | nil => rw [hr] at h; cases h
  | cons x rest =>
    rw [hr] at h
    simp only at h
    by_cases hm : matchB uid cs x = true
    · simp [hm] at h; subst h; simp
    · simp only [hm, Bool.false_eq_true, if_false] at h
      split at h
      · cases rest with
        | nil => cases h
        | cons y t =>
          simp only at h
          split at h
          · simp at h; subst h; simp
          · cases h
      · cases h

/-- the start-of-line candidates of the file, row by row -/
theorem mem_solIdxs (rows : List (Row Tok)) (h : RowsOk uid rows) (hcs : CsOk cs) (i : Nat) :
    i ∈ solIdxs (processTokens uid (join rows)) cs ↔
      ∃ k r j, rows[k + 1]? = some r ∧ bolIdx uid cs r = some j ∧ i = offs rows (k + 1) + j := by
  unfold solIdxs
  rw [idxsOfList_fresh uid (join rows) cs hcs, List.mem_filter, List.mem_filter, List.mem_range, isStartOfLine_fresh]
  constructor
  · rintro ⟨⟨hi, hc⟩, he⟩
    obtain ⟨k, j, r, hk, hj, rfl⟩ := pos_decomp rows i hi
    unfold candB at hc
    rw [getElem_join rows k j r hk hj] at hc
    have hjl : j < r.1.length := by
      rcases Nat.lt_or_eq_of_le hj with h' | h'
      · exact h'
      · exfalso
        rw [h', List.getElem?_append_right (Nat.le_refl _)] at hc
        simp at hc
        rw [cr_not_match uid cs hcs r.2 (h.cr r (List.mem_of_getElem? hk))] at hc
        cases hc
    rw [List.getElem?_append_left hjl] at hc
    rw [sol_local uid rows h k r hk j hjl, Bool.and_eq_true, decide_eq_true_eq] at he
    obtain ⟨hk1, hjj⟩ := he
    obtain ⟨k', rfl⟩ : ∃ k', k = k' + 1 := ⟨k - 1, by omega⟩
    refine ⟨k', r, j, hk, ?_, rfl⟩
    unfold bolIdx
    cases hr : r.1 with
    | nil => rw [hr] at hjl; simp at hjl
    | cons x rest =>
      rw [hr] at hc hjj
      simp only
      rw [Bool.or_eq_true, decide_eq_true_eq, Bool.and_eq_true, decide_eq_true_eq] at hjj
      rcases hjj with hj0 | ⟨hj1, hws⟩
      · subst hj0
        simp only [List.getElem?_cons_zero] at hc
        simp [hc]
      · subst hj1
        simp only [List.getElem?_cons_zero] at hws
        have hwx : isWsU uid x = true := hws
        have hnm := isWs_not_match uid cs hcs x hwx
        simp only [List.getElem?_cons_succ] at hc
        cases rest with
        | nil => simp at hc
        | cons y t =>
          simp only [List.getElem?_cons_zero] at hc
          simp [hnm, hws, hc]
  · rintro ⟨k, r, j, hk, hb, rfl⟩
    have hjl := bolIdx_lt uid cs r j hb
    have hkl : k + 1 < rows.length := by
      rcases Nat.lt_or_ge (k + 1) rows.length with h' | h'
      · exact h'
      · rw [List.getElem?_eq_none h'] at hk; cases hk
    have hlt : offs rows (k + 1) + j < (join rows).length := by
      rw [join_split rows (k + 1) r hk]
      have := join_length_take rows (k + 1) (Nat.le_of_lt hkl)
      simp only [List.length_append, this, List.length_singleton]; omega
    unfold bolIdx at hb
    cases hr : r.1 with
    | nil => rw [hr] at hjl; simp at hjl
    | cons x rest =>
      rw [hr] at hb
      simp only at hb
      refine ⟨⟨hlt, ?_⟩, ?_⟩
      · unfold candB
        rw [getElem_join rows (k + 1) j r hk (Nat.le_of_lt hjl), List.getElem?_append_left hjl, hr]
        by_cases hm : matchB uid cs x = true
        · simp [hm] at hb; subst hb; simpa using hm
        · simp only [hm, Bool.false_eq_true, if_false] at hb
          split at hb
          · cases rest with
            | nil => cases hb
            | cons y t =>
              simp only at hb
              split at hb
              · rename_i hy
                simp at hb; subst hb; simpa using hy
              · cases hb
          · cases hb
      · rw [sol_local uid rows h (k + 1) r hk j hjl, hr]
        by_cases hm : matchB uid cs x = true
        · simp [hm] at hb; subst hb; simp
        · simp only [hm, Bool.false_eq_true, if_false] at hb
          split at hb
          · rename_i hws
            cases rest with
            | nil => cases hb
            | cons y t =>
              simp only at hb
              split at hb
              · simp at hb; subst hb; simp [hws]
              · cases hb
          · cases hb


/-! ### line numbers, regions -/

/-- row `k + 1` starts with a listed token -/
def nextTrigAt (rows : List (Row Tok)) (k : Nat) : Bool :=
  match rows[k + 1]? with
  | some r => bolTrig uid cs r
  | none => false

def trigLinesA (rows : List (Row Tok)) : List Nat :=
  ((List.range rows.length).filter (nextTrigAt uid cs rows)).map (· + 2)

theorem solIdxs_sorted (f : List Tok) (hcs : CsOk cs) : (solIdxs (processTokens uid f) cs).Pairwise (· < ·) := by
  unfold solIdxs
  rw [idxsOfList_fresh uid f cs hcs]
  exact (List.pairwise_lt_range.filter _).filter _

theorem lineNumbersA_join (rows : List (Row Tok)) (h : RowsOk uid rows) (hcs : CsOk cs) :
    mapE (fun (i : Nat) => (processTokens uid (join rows)).lineOf (i : Int)) (solIdxs (processTokens uid (join rows)) cs) =
      .ok ((solIdxs (processTokens uid (join rows)) cs).map (lineNo uid (join rows))) ∧
    sortNat ((solIdxs (processTokens uid (join rows)) cs).map (lineNo uid (join rows))) = trigLinesA uid cs rows := by
  constructor
  · apply Affix.mapE_ok
    intro i hi
    obtain ⟨k, r, j, hk, _, _⟩ := (mem_solIdxs uid cs rows h hcs i).mp hi
    exact Affix.lineOf_ok uid (join rows) (hasCr_of_row uid rows h (k + 1) r hk) i
  · apply eq_of_strict_of_mem
    · apply strict_of_le_nodup
      · unfold sortNat
        exact List.pairwise_mergeSort (by intro a b c; simp; omega) (by intro a b; simp; omega) _
      · unfold sortNat
        rw [(List.mergeSort_perm _ _).nodup_iff]
        unfold List.Nodup
        rw [List.pairwise_map]
        refine (solIdxs_sorted uid cs (join rows) hcs).imp_of_mem ?_
        intro a b ha hb hab he
        obtain ⟨k, r, j, hk, hj, rfl⟩ := (mem_solIdxs uid cs rows h hcs a).mp ha
        obtain ⟨k', r', j', hk', hj', rfl⟩ := (mem_solIdxs uid cs rows h hcs b).mp hb
        rw [lineNo_join uid rows h (k + 1) j r hk (Nat.le_of_lt (bolIdx_lt uid cs r j hj)),
          lineNo_join uid rows h (k' + 1) j' r' hk' (Nat.le_of_lt (bolIdx_lt uid cs r' j' hj'))] at he
        have hkk : k = k' := by omega
        subst hkk
        rw [hk] at hk'; cases hk'
        rw [hj] at hj'; cases hj'
        omega
    · unfold trigLinesA
      rw [List.pairwise_map]
      exact (List.pairwise_lt_range.filter _).imp (by intro a b hab; omega)
    · intro l
      unfold sortNat trigLinesA
      rw [List.mem_mergeSort, List.mem_map, List.mem_map]
      constructor
      · rintro ⟨i, hi, rfl⟩
        obtain ⟨k, r, j, hk, hj, rfl⟩ := (mem_solIdxs uid cs rows h hcs i).mp hi
        have hkl : k + 1 < rows.length := by
          rcases Nat.lt_or_ge (k + 1) rows.length with h' | h'
          · exact h'
          · rw [List.getElem?_eq_none h'] at hk; cases hk
        refine ⟨k, ?_, (lineNo_join uid rows h (k + 1) j r hk (Nat.le_of_lt (bolIdx_lt uid cs r j hj))).symm⟩
        rw [List.mem_filter, List.mem_range]
        refine ⟨by omega, ?_⟩
        unfold nextTrigAt bolTrig
        simp [hk, hj]
      · rintro ⟨k, hk, rfl⟩
        rw [List.mem_filter, List.mem_range] at hk
        obtain ⟨_, ht⟩ := hk
        unfold nextTrigAt at ht
        cases hr : rows[k + 1]? with
        | none => rw [hr] at ht; cases ht
        | some r =>
          rw [hr] at ht
          unfold bolTrig at ht
          cases hb : bolIdx uid cs r with
          | none => simp [hb] at ht
          | some j =>
            exact ⟨offs rows (k + 1) + j, (mem_solIdxs uid cs rows h hcs _).mpr ⟨k, r, j, hr, hb, rfl⟩,
              lineNo_join uid rows h (k + 1) j r hr (Nat.le_of_lt (bolIdx_lt uid cs r j hb))⟩

theorem offs_zero (rows : List (Row Tok)) : offs rows 0 = 0 := by cases rows <;> rfl

/-- **get_line_preceding_line** (one line, comments not skipped) for the line of row `k + 1`: the content of row `k` -/
theorem linePreceding_join (rows : List (Row Tok)) (h : RowsOk uid rows) (k : Nat) (r : Row Tok) (hk : rows[k]? = some r) :
    linePreceding (join rows) (processTokens uid (join rows)) (k + 2) 1 =
      .ok { start := some ((offs rows k : Nat) : Int), line := k + 2, toks := r.1 } := by
  unfold linePreceding linePrecedingStart
  simp only
  rw [crs_join uid rows h]
  have e2 : (((k + 2 : Nat) : Int) - 2) = ((k : Nat) : Int) := by omega
  rw [e2, pyIdx_crPos, hk]
  simp only [Nat.zero_add, bind, Except.bind]
  cases k with
  | zero =>
    have e1' : (((0 + 2 : Nat) : Int) - ((1 : Nat) : Int) - 2) < 0 := by omega
    simp only [e1', if_true, pure, Except.pure]
    have := slice_row rows 0 r hk
    rw [offs_zero] at this ⊢
    simp only [Nat.zero_add] at this ⊢
    have e0 : ((0 : Nat) : Int) = (0 : Int) := rfl
    rw [e0] at this
    rw [this]
    rfl
  | succ k =>
    have hkl : k + 1 < rows.length := by
      rcases Nat.lt_or_ge (k + 1) rows.length with h' | h'
      · exact h'
      · rw [List.getElem?_eq_none h'] at hk; cases hk
    have hk0 : rows[k]? = some rows[k] := List.getElem?_eq_getElem (by omega)
    have e3 : (((k + 1 + 2 : Nat) : Int) - ((1 : Nat) : Int) - 2) = ((k : Nat) : Int) := by omega
    have e5 : ¬ (((k : Nat) : Int) < 0) := by omega
    simp only [e3, e5, if_false, pyIdx_crPos, hk0, Nat.zero_add, bind, Except.bind, pure, Except.pure]
    have ho := offs_succ rows k rows[k] hk0
    have e4 : (((offs rows k + rows[k].1.length : Nat) : Int) + 1) = ((offs rows (k + 1) : Nat) : Int) := by omega
    rw [e4, slice_row rows (k + 1) r hk]


/-! ### regions, analysis, scan -/

def regionBefore (rows : List (Row Tok)) (k : Nat) : Toi Tok :=
  { start := some ((offs rows k : Nat) : Int), line := k + 2, toks := ((rows[k]?).map (·.1)).getD [] }

/-- **get_line_above_line_starting_with_token on a file of rows**: for every row that starts with a listed token and
    has a predecessor, the content of the predecessor -/
theorem lineAbove_join (rows : List (Row Tok)) (h : RowsOk uid rows) (hcs : CsOk cs) :
    lineAboveLineStartingWith (join rows) (processTokens uid (join rows)) cs =
      .ok (((List.range rows.length).filter (nextTrigAt uid cs rows)).map (regionBefore rows)) := by
  obtain ⟨h1, h2⟩ := lineNumbersA_join uid cs rows h hcs
  unfold lineAboveLineStartingWith
  have hs : (idxsOfList (processTokens uid (join rows)) cs).filter (fun (i : Nat) => isStartOfLine (processTokens uid (join rows)) i) =
      solIdxs (processTokens uid (join rows)) cs := rfl
  simp only [bind, Except.bind, hs, h1, h2]
  have hm : mapE (fun l => linePreceding (join rows) (processTokens uid (join rows)) l 1) (trigLinesA uid cs rows) =
      .ok ((trigLinesA uid cs rows).map fun l => regionBefore rows (l - 2)) := by
    apply Affix.mapE_ok
    intro l hl
    unfold trigLinesA at hl
    obtain ⟨k, hk, rfl⟩ := List.mem_map.mp hl
    rw [List.mem_filter, List.mem_range] at hk
    have hr : rows[k]? = some rows[k] := List.getElem?_eq_getElem hk.1
    rw [linePreceding_join uid rows h k rows[k] hr]
    simp [regionBefore, hr]
  rw [hm]
  unfold trigLinesA
  rw [List.map_map]
  congr 2

variable (inst : Tok → Nat → Bool) (P : Params)

structure AboveRequire : Prop where
  fam : P.family = .above
  style : P.style = sRequire

/-- (wp2d) the same extractor, judgement and fix serve `previous_line` with style require_blank_line and no hierarchy
    limits: the theorems below are stated for both families -/
structure AboveLike : Prop where
  fam : P.family = .above ∨ (P.family = .previous ∧ P.hier = none)
  style : P.style = sRequire

theorem AboveRequire.like {P : Params} (h : AboveRequire P) : AboveLike P := ⟨Or.inl h.fam, h.style⟩

theorem sRequire_ne_sRequireComment : (sRequire == sRequireComment) = false := by decide
theorem sRequire_ne_sNoBlank : (sRequire == sNoBlank) = false := by decide
theorem sRequire_ne_sAllowComment : (sRequire == sAllowComment) = false := by decide

/-- the solution text of the family -/
def solOfFam (P : Params) : Str := match P.family with | .above => solAboveInsert | _ => P.solution

def violBefore (rows : List (Row Tok)) (k : Nat) : Option Viol :=
  match rows[k]? with
  | some r =>
    if cleanRequire inst P P.allow r.1 then none
    else some { line := k + 2, start := offs rows k, toks := r.1, act := Act.insert.code }
  | none => none

theorem analyzeA_join (hP : AboveLike P) (hO : HOracle) (rows : List (Row Tok)) (h : RowsOk uid rows) (hcs : CsOk P.cs) :
    (sem uid inst P hO).analyze (join rows) =
      ((List.range rows.length).filter (nextTrigAt uid P.cs rows)).filterMap (violBefore inst P rows) := by
  unfold sem
  simp only
  unfold analyzeE analyzeWith
  have htois : toisWith P (hierAt uid hO (join rows)) (join rows) (processTokens uid (join rows)) =
      .ok (ones (((List.range rows.length).filter (nextTrigAt uid P.cs rows)).map (regionBefore rows))) := by
    unfold toisWith
    rcases hP.fam with hf | ⟨hf, hh⟩
    · rw [hf]
      simp only [hP.style, beq_self_eq_true, if_true, lineAboveLineStartingWithB, Bool.false_eq_true, if_false,
        lineAbove_join uid P.cs rows h hcs, bind, Except.bind, pure, Except.pure]
    · rw [hf]
      simp only [hP.style, sRequire_ne_sRequireComment, sRequire_ne_sNoBlank, sRequire_ne_sAllowComment, hh,
        Bool.false_eq_true, if_false, lineAboveLineStartingWithB, lineAbove_join uid P.cs rows h hcs, bind, Except.bind, pure,
        Except.pure]
  rw [htois]
  simp only
  unfold analyzeRegions
  have hj : ∀ r ∈ ones (((List.range rows.length).filter (nextTrigAt uid P.cs rows)).map (regionBefore rows)),
      judge inst P r = .ok (match r with
        | .one (some t) => if cleanRequire inst P P.allow t.toks then none
            else some ({ line := t.line, start := (t.start.getD 0).toNat, toks := t.toks, act := Act.insert.code }, solOfFam P)
        | _ => none) := by
    intro r hr
    unfold ones at hr
    obtain ⟨t, ht, rfl⟩ := List.mem_map.mp hr
    obtain ⟨k, _, rfl⟩ := List.mem_map.mp ht
    unfold judge solOfFam
    rcases hP.fam with hf | ⟨hf, _⟩
    · rw [hf]
      simp only [hP.style, beq_self_eq_true, if_true, judgeRequire, mkViol, regionBefore]
      by_cases hc : cleanRequire inst P P.allow ((Option.map (fun x => x.fst) rows[k]?).getD []) = true
      · simp [hc, pure, Except.pure]
      · simp [hc, pure, Except.pure]
    · rw [hf]
      simp only [hP.style, sRequire_ne_sNoBlank, Bool.false_eq_true, if_false, beq_self_eq_true, if_true, judgeRequire, mkViol,
        regionBefore]
      by_cases hc : cleanRequire inst P P.allow ((Option.map (fun x => x.fst) rows[k]?).getD []) = true
      · simp [hc, pure, Except.pure]
      · simp [hc, pure, Except.pure]
  rw [filterMapE_ok _ _ _ hj]
  simp only
  unfold ones
  rw [List.map_filterMap, List.filterMap_map, List.filterMap_map]
  apply filterMap_ext_mem
  intro k hk
  rw [List.mem_filter, List.mem_range] at hk
  have hr : rows[k]? = some rows[k] := List.getElem?_eq_getElem hk.1
  simp only [Function.comp, violBefore, regionBefore, hr, Option.map_some, Option.getD_some]
  by_cases hc : cleanRequire inst P P.allow rows[k].1 = true
  · simp [hc]
  · simp [hc]

def nextTrig (rs : List (Row Tok)) : Bool :=
  match rs with
  | r1 :: _ => bolTrig uid P.cs r1
  | [] => false

def hitA (r : Row Tok) (rs : List (Row Tok)) : Bool := nextTrig uid P rs && !cleanRequire inst P P.allow r.1

def violsA (off line : Nat) : List (Row Tok) → List Viol
  | [] => []
  | r :: rs => (if hitA uid inst P r rs then [violOfRow off line r] else []) ++ violsA (off + r.1.length + 1) (line + 1) rs

def gBefore (off line : Nat) (rows : List (Row Tok)) (k : Nat) : Option Viol :=
  if nextTrigAt uid P.cs rows k then
    match rows[k]? with
    | some r => if cleanRequire inst P P.allow r.1 then none else some (violOfRow (off + offs rows k) (line + k) r)
    | none => none
  else none

theorem range_formA (off line : Nat) (rows : List (Row Tok)) :
    (List.range rows.length).filterMap (gBefore uid inst P off line rows) = violsA uid inst P off line rows := by
  induction rows generalizing off line with
  | nil => rfl
  | cons r rs ih =>
    rw [List.length_cons, List.range_succ_eq_map, List.filterMap_cons, List.filterMap_map]
    have hshift : (gBefore uid inst P off line (r :: rs)) ∘ Nat.succ = gBefore uid inst P (off + r.1.length + 1) (line + 1) rs := by
      funext k
      simp only [Function.comp, gBefore, nextTrigAt, List.getElem?_cons_succ, offs]
      have e1 : off + (r.1.length + 1 + offs rs k) = off + r.1.length + 1 + offs rs k := by omega
      have e2 : line + k.succ = line + 1 + k := by omega
      rw [e1, e2]
      rfl
    rw [hshift, ih, violsA]
    have hg : gBefore uid inst P off line (r :: rs) 0 =
        if hitA uid inst P r rs then some (violOfRow off line r) else none := by
      simp only [gBefore, nextTrigAt, List.getElem?_cons_zero, List.getElem?_cons_succ, offs, hitA, nextTrig, Nat.add_zero]
      cases rs with
      | nil => simp
      | cons r1 rs' =>
        simp only [List.getElem?_cons_zero]
        by_cases ht : bolTrig uid P.cs r1 = true
        · by_cases hc : cleanRequire inst P P.allow r.1 = true
          · simp [ht, hc]
          · simp [ht, hc]
        · simp [ht]
    rw [hg]
    by_cases hh : hitA uid inst P r rs = true
    · simp [hh]
    · simp [hh]

theorem analyzeA_scan (hP : AboveLike P) (hO : HOracle) (rows : List (Row Tok)) (h : RowsOk uid rows) (hcs : CsOk P.cs) :
    (sem uid inst P hO).analyze (join rows) = violsA uid inst P 0 2 rows := by
  rw [analyzeA_join uid inst P hP hO rows h hcs, ← range_formA, List.filterMap_filter]
  apply filterMap_ext_mem
  intro k _
  simp only [gBefore, violBefore, violOfRow, Nat.zero_add]
  have : 2 + k = k + 2 := by omega
  rw [this]


/-! ### the fix -/

open Vsgm.Base.BlankLine

def expandA : List (Row Tok) → List (Row Tok)
  | [] => []
  | r :: rs =>
    (if hitA uid inst P r rs then [(r.1, crTok P.crCls), ([blankTok P.blCls], r.2)] else [r]) ++ expandA rs

def piecesA : List (Row Tok) → List (Piece Tok)
  | [] => []
  | r :: rs =>
    ⟨r.1, if hitA uid inst P r rs then r.1 ++ [crTok P.crCls, blankTok P.blCls] else r.1, hitA uid inst P r rs⟩ ::
      ⟨[r.2], [r.2], false⟩ :: piecesA rs

theorem piecesA_olds (rows : List (Row Tok)) : olds (piecesA uid inst P rows) = join rows := by
  induction rows with
  | nil => rfl
  | cons r rs ih => rw [piecesA, olds_cons, olds_cons, ih, join_cons]; simp

theorem piecesA_news (rows : List (Row Tok)) : news (piecesA uid inst P rows) = join (expandA uid inst P rows) := by
  induction rows with
  | nil => rfl
  | cons r rs ih =>
    rw [piecesA, news_cons, news_cons, ih, expandA]
    by_cases hh : hitA uid inst P r rs = true
    · simp [hh, join, List.flatMap_cons]
    · simp [hh, join, List.flatMap_cons]

theorem piecesA_hit (rows : List (Row Tok)) : ∀ p ∈ piecesA uid inst P rows, p.hit = false → p.new = p.old := by
  induction rows with
  | nil => intro p hp; cases hp
  | cons r rs ih =>
    intro p hp hh
    rw [piecesA, List.mem_cons, List.mem_cons] at hp
    rcases hp with rfl | rfl | hp
    · simp only at hh ⊢; simp [hh]
    · rfl
    · exact ih p hp hh

theorem fixTok_insert_rowA (hP : AboveLike P) (off line : Nat) (r : Row Tok) :
    fixTok P (violOfRow off line r) = r.1 ++ [crTok P.crCls, blankTok P.blCls] := by
  unfold fixTok fixE violOfRow
  rcases hP.fam with hf | ⟨hf, _⟩ <;> rw [hf] <;>
    simp [Act.ofCode, Act.code, Act.str, aboveFixV, pure, Except.pure]

theorem violsA_edits (hP : AboveLike P) (hO : HOracle) (off line : Nat) (rows : List (Row Tok))
    (hb : ∀ r ∈ rows, ∀ t ∈ r.1, t.isBof = false) :
    (violsA uid inst P off line rows).map (editOf (sem uid inst P hO)) = editsFrom off (piecesA uid inst P rows) := by
  induction rows generalizing off line with
  | nil => rfl
  | cons r rs ih =>
    have hbr := hb r (List.mem_cons_self ..)
    rw [violsA, piecesA, editsFrom, editsFrom]
    have ih' := ih (off + r.1.length + 1) (line + 1) (fun x hx => hb x (List.mem_cons_of_mem _ hx))
    simp only [List.length_singleton, Bool.false_eq_true, if_false]
    rw [← ih']
    by_cases hh : hitA uid inst P r rs = true
    · simp only [hh, if_true, List.map_append, List.map_cons, List.map_nil, List.singleton_append]
      congr 1
      unfold editOf Viol.stop
      have hfix : (sem uid inst P hO).fixV (violOfRow off line r) = r.1 ++ [crTok P.crCls, blankTok P.blCls] :=
        fixTok_insert_rowA P hP off line r
      rw [hfix]
      simp only [violOfRow, dropBof_id' r.1 hbr]
      rw [dropBof_id' _ (by
        intro t ht
        simp at ht
        rcases ht with ht | rfl | rfl
        · exact hbr t ht
        · rfl
        · rfl)]
    · simp only [hh, Bool.false_eq_true, if_false, List.nil_append]

/-- **the file after `Rule.fix`** -/
theorem fixAllA_join (hP : AboveLike P) (hO : HOracle) (rows : List (Row Tok)) (h : RowsOk uid rows) (hcs : CsOk P.cs)
    (hb : ∀ r ∈ rows, ∀ t ∈ r.1, t.isBof = false) :
    fixAll uid inst P hO (join rows) = join (expandA uid inst P rows) := by
  unfold fixAll
  rw [analyzeA_scan uid inst P hP hO rows h hcs]
  have he := violsA_edits uid inst P hP hO 0 2 rows hb
  have hc := pieces_chain ([] : List Tok) (piecesA uid inst P rows) []
  simp only [List.nil_append, List.append_nil, List.length_nil] at hc
  rw [← he] at hc
  rw [sortByStart_of_chain _ _ _ _ hc, he]
  have hu := pieces_update (piecesA uid inst P rows) (piecesA_hit uid inst P rows)
  rw [piecesA_olds, piecesA_news] at hu
  exact hu

/-! ### whole-file theorems -/

theorem bolTrig_content (a : List Tok) (c c' : Tok) : bolTrig uid cs (a, c) = bolTrig uid cs (a, c') := rfl

theorem nextTrig_expandA (rs : List (Row Tok)) : nextTrig uid P (expandA uid inst P rs) = nextTrig uid P rs := by
  cases rs with
  | nil => rfl
  | cons r1 rs' =>
    rw [expandA]
    by_cases hh : hitA uid inst P r1 rs' = true
    · simp only [hh, if_true, List.cons_append, nextTrig]
      exact bolTrig_content uid P.cs r1.1 _ _
    · simp only [hh, Bool.false_eq_true, if_false, List.cons_append, List.nil_append, nextTrig]

theorem bolTrig_blank (hn : NewTokOk uid inst P) (c : Tok) : bolTrig uid P.cs ([blankTok P.blCls], c) = false := by
  unfold bolTrig bolIdx
  simp only [hn.blNoMatch, Bool.false_eq_true, if_false]
  split <;> rfl

theorem violsA_expand (hn : NewTokOk uid inst P) (rows : List (Row Tok)) :
    ∀ (off line : Nat), violsA uid inst P off line (expandA uid inst P rows) = [] := by
  induction rows with
  | nil => intro _ _; rfl
  | cons r rs ih =>
    intro off line
    rw [expandA]
    by_cases hh : hitA uid inst P r rs = true
    · simp only [hh, if_true, List.cons_append, List.nil_append, violsA]
      have h1 : hitA uid inst P (r.1, crTok P.crCls) (([blankTok P.blCls], r.2) :: expandA uid inst P rs) = false := by
        simp [hitA, nextTrig, bolTrig_blank uid inst P hn]
      have h2 : hitA uid inst P ([blankTok P.blCls], r.2) (expandA uid inst P rs) = false := by
        unfold hitA
        rw [clean_blankRow uid inst P hn]; simp
      simp only [h1, h2, Bool.false_eq_true, if_false, List.nil_append]
      exact ih _ _
    · have hh' : hitA uid inst P r (expandA uid inst P rs) = false := by
        unfold hitA at hh ⊢
        rw [nextTrig_expandA]
        simpa using hh
      simp only [hh, Bool.false_eq_true, if_false, List.cons_append, List.nil_append, violsA, hh']
      exact ih _ _

theorem rowsOk_expandA (hn : NewTokOk uid inst P) (rows : List (Row Tok)) (h : RowsOk uid rows) :
    RowsOk uid (expandA uid inst P rows) := by
  induction rows with
  | nil => exact ⟨fun r hr => by simp [expandA] at hr, fun r hr => by simp [expandA] at hr⟩
  | cons r rs ih =>
    have hr : RowsOk uid rs := ⟨fun x hx => h.cr x (List.mem_cons_of_mem _ hx), fun x hx => h.nocr x (List.mem_cons_of_mem _ hx)⟩
    have ih' := ih hr
    rw [expandA]
    constructor
    · intro x hx
      rw [List.mem_append] at hx
      rcases hx with hx | hx
      · split at hx
        · simp at hx; rcases hx with rfl | rfl
          · exact hn.crU
          · exact h.cr r (List.mem_cons_self ..)
        · simp at hx; subst hx; exact h.cr _ (List.mem_cons_self ..)
      · exact ih'.cr x hx
    · intro x hx
      rw [List.mem_append] at hx
      rcases hx with hx | hx
      · split at hx
        · simp at hx; rcases hx with rfl | rfl
          · exact h.nocr r (List.mem_cons_self ..)
          · intro t ht; simp at ht; subst ht; exact hn.blU
        · simp at hx; subst hx; exact h.nocr _ (List.mem_cons_self ..)
      · exact ih'.nocr x hx

/-- **whole-rule idempotence of blank_line_above_line_starting_with_token** (style require_blank_line) -/
theorem analyze_fixAll_above (hP : AboveLike P) (hO : HOracle) (rows : List (Row Tok)) (h : RowsOk uid rows)
    (hcs : CsOk P.cs) (hb : ∀ r ∈ rows, ∀ t ∈ r.1, t.isBof = false) (hn : NewTokOk uid inst P) :
    (sem uid inst P hO).analyze (fixAll uid inst P hO (join rows)) = [] := by
  rw [fixAllA_join uid inst P hP hO rows h hcs hb,
    analyzeA_scan uid inst P hP hO _ (rowsOk_expandA uid inst P hn rows h) hcs]
  exact violsA_expand uid inst P hn rows 0 2

theorem expandA_cons_hit (r : Row Tok) (rs : List (Row Tok)) (hh : hitA uid inst P r rs = true) :
    join (expandA uid inst P (r :: rs)) =
      r.1 ++ [crTok P.crCls, blankTok P.blCls] ++ ([r.2] ++ join (expandA uid inst P rs)) := by
  rw [expandA]
  simp only [hh, if_true, List.cons_append, List.nil_append, join_cons]
  simp

theorem expandA_cons_nohit (r : Row Tok) (rs : List (Row Tok)) (hh : hitA uid inst P r rs = false) :
    join (expandA uid inst P (r :: rs)) = r.1 ++ [r.2] ++ join (expandA uid inst P rs) := by
  rw [expandA]
  simp only [hh, Bool.false_eq_true, if_false, List.cons_append, List.nil_append, join_cons]

theorem effect_expandA (rows : List (Row Tok)) (off line : Nat) :
    nonLayout (join (expandA uid inst P rows)) = nonLayout (join rows) ∧
    (crSeq (join (expandA uid inst P rows))).length = (crSeq (join rows)).length + (violsA uid inst P off line rows).length := by
  induction rows generalizing off line with
  | nil => exact ⟨rfl, rfl⟩
  | cons r rs ih =>
    obtain ⟨i1, i2⟩ := ih (off + r.1.length + 1) (line + 1)
    rw [violsA]
    have hbN : nonLayout [crTok P.crCls, blankTok P.blCls] = [] := rfl
    have hbC : crSeq [crTok P.crCls, blankTok P.blCls] = [()] := rfl
    by_cases hh : hitA uid inst P r rs = true
    · rw [expandA_cons_hit uid inst P r rs hh]
      constructor
      · simp only [join_cons, nonLayout_append, i1, hbN, List.nil_append, List.append_assoc]
      · simp only [join_cons, crSeq_append, hbC, hh, if_true, List.length_append, List.length_cons, List.length_nil, i2]
        omega
    · have hh' : hitA uid inst P r rs = false := by simpa using hh
      rw [expandA_cons_nohit uid inst P r rs hh']
      constructor
      · simp only [join_cons, nonLayout_append, i1, List.append_assoc]
      · simp only [join_cons, crSeq_append, hh', Bool.false_eq_true, if_false, List.length_append, List.length_nil, i2]
        omega

/-- **whole rule: layout-only, and exactly one line break more per violation** -/
theorem fixAll_above_effect (hP : AboveLike P) (hO : HOracle) (rows : List (Row Tok)) (h : RowsOk uid rows)
    (hcs : CsOk P.cs) (hb : ∀ r ∈ rows, ∀ t ∈ r.1, t.isBof = false) :
    LayoutOnly (join rows) (fixAll uid inst P hO (join rows)) ∧
    (crSeq (fixAll uid inst P hO (join rows))).length =
      (crSeq (join rows)).length + ((sem uid inst P hO).analyze (join rows)).length := by
  rw [fixAllA_join uid inst P hP hO rows h hcs hb, analyzeA_scan uid inst P hP hO rows h hcs]
  obtain ⟨e1, e2⟩ := effect_expandA uid inst P rows 0 2
  exact ⟨e1.symm, e2⟩


/-! ### every token list that ends in a line break is a file of rows -/

def rowsOf (acc : List Tok) : List Tok → List (Row Tok)
  | [] => []
  | t :: r => if isKo uid crKey (some t) then (acc, t) :: rowsOf [] r else rowsOf (acc ++ [t]) r

/-- the token list is empty or ends with a line break -/
def EndsCr (f : List Tok) : Prop := f = [] ∨ ∃ t, f.getLast? = some t ∧ uid t = some crKey

theorem rowsOf_spec (f : List Tok) : ∀ (acc : List Tok), (∀ t ∈ acc, uid t ≠ some crKey) →
    ((f = [] ∧ acc = []) ∨ ∃ t, f.getLast? = some t ∧ uid t = some crKey) →
    join (rowsOf uid acc f) = acc ++ f ∧ RowsOk uid (rowsOf uid acc f) := by
  induction f with
  | nil =>
    intro acc _ he
    rcases he with ⟨_, ha⟩ | ⟨t, ht, _⟩
    · subst ha; exact ⟨rfl, ⟨fun r hr => by simp [rowsOf] at hr, fun r hr => by simp [rowsOf] at hr⟩⟩
    · simp at ht
  | cons t r ih =>
    intro acc hacc he
    have hlast : ∃ x, (t :: r).getLast? = some x ∧ uid x = some crKey := by
      rcases he with ⟨h0, _⟩ | h1
      · cases h0
      · exact h1
    obtain ⟨x, hx, hxu⟩ := hlast
    unfold rowsOf
    by_cases hc : isKo uid crKey (some t) = true
    · have htu : uid t = some crKey := by simpa [isKo] using hc
      have hr : (r = [] ∧ ([] : List Tok) = []) ∨ ∃ y, r.getLast? = some y ∧ uid y = some crKey := by
        cases r with
        | nil => exact Or.inl ⟨rfl, rfl⟩
        | cons a r' => exact Or.inr ⟨x, by simpa [List.getLast?_cons_cons] using hx, hxu⟩
      obtain ⟨i1, i2⟩ := ih [] (by intro y hy; cases hy) hr
      simp only [hc, if_true]
      refine ⟨by rw [join_cons, i1]; simp, ?_, ?_⟩
      · intro q hq
        rw [List.mem_cons] at hq
        rcases hq with rfl | hq
        · exact htu
        · exact i2.cr q hq
      · intro q hq
        rw [List.mem_cons] at hq
        rcases hq with rfl | hq
        · exact hacc
        · exact i2.nocr q hq
    · have htu : uid t ≠ some crKey := by simpa [isKo] using hc
      have hr : (r = [] ∧ acc ++ [t] = []) ∨ ∃ y, r.getLast? = some y ∧ uid y = some crKey := by
        cases r with
        | nil => simp at hx; subst hx; exact absurd hxu htu
        | cons a r' => exact Or.inr ⟨x, by simpa [List.getLast?_cons_cons] using hx, hxu⟩
      obtain ⟨i1, i2⟩ := ih (acc ++ [t]) (by
        intro y hy; rw [List.mem_append] at hy
        rcases hy with hy | hy
        · exact hacc y hy
        · simp at hy; subst hy; exact htu) hr
      simp only [hc, Bool.false_eq_true, if_false]
      exact ⟨by rw [i1]; simp, i2⟩

/-- **every token list that is empty or ends with a line break is a file of rows** -/
theorem exists_rows (f : List Tok) (h : EndsCr uid f) : ∃ rows, RowsOk uid rows ∧ join rows = f := by
  have := rowsOf_spec uid f [] (by intro y hy; cases hy) (by
    rcases h with h | h
    · exact Or.inl ⟨h, rfl⟩
    · exact Or.inr h)
  exact ⟨rowsOf uid [] f, this.2, by simpa using this.1⟩

end Vsgm.BFull2.VSpace
